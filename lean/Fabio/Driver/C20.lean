import Fabio.Driver.Proto
import Fabio.Model.C20Spec
import Fabio.Model.C20Capture
/-!
Driver handlers for C20. For every stream: `model` = output of the Lean model on the case's input,
`agree` = equals the implementation's output, `spec` = the specification (`Model/C20Spec.lean`: built on
`Nat.toDigits`/`toString`, not on the loops of the model) evaluated on the implementation's own output.
An implementation output of the form `{"out": …, "std": …}` means the real code and Go's standard library
disagreed on the Go side already: `spec` is false.
-/
namespace Fabio.Driver.C20
open Lean Fabio.Driver Fabio.Model.C20

def panicJson : Json := Json.mkObj [("panic", true)]

def outcomeJson {α} (f : α → Json) : Fabio.Outcome α → Json
  | .ok a => f a
  | .panic _ => panicJson

def strJ (s : List Char) : Json := Json.str (String.ofList s)

/-- implementation outputs carry the panic text; canonicalise to `{"panic":true}`; a `{"out","std"}` pair
(real code ≠ standard library) is reduced to the real code's output -/
def canonImpl (j : Json) : Json :=
  match j.getObjVal? "panic" with
  | .ok _ => panicJson
  | .error _ =>
    match j.getObjVal? "out" with
    | .ok o => o
    | .error _ => j

def differsFromStd (j : Json) : Bool := (j.getObjVal? "std").toOption.isSome && (j.getObjVal? "out").toOption.isSome

def isPanicJ (j : Json) : Bool := (j.getObjVal? "panic").toOption.isSome

/-! ### numbers -/

def atoiH : Handler := fun inp impl => do
  let i ← inp.getObjValAs? Int "i"
  let pad ← inp.getObjValAs? Nat "pad"
  let m := outcomeJson strJ (atoi i pad)
  let ci := canonImpl impl
  let inDomain := i != minInt64 && pad ≤ 127
  let spec := !inDomain || (!differsFromStd impl && ci == strJ (Spec.decimal i pad))
  let tag := if i == minInt64 then "minint64" else if pad > 127 then "pad-beyond-buffer"
    else if differsFromStd impl then "differs-from-stdlib"
    else if i < 0 then (if pad == 0 then "neg" else "neg-padded") else (if pad == 0 then "nonneg" else "nonneg-padded")
  return ({ model := m, agree := m == ci, spec := spec, nontrivial := inDomain, tag := tag } : Verdict).toJson

def i32toaH : Handler := fun inp impl => do
  let n ← inp.getObjValAs? Int "n"
  let m := outcomeJson strJ (i32toa n)
  let ci := canonImpl impl
  let spec := !differsFromStd impl && ci == Json.str (toString n)
  let tag := if differsFromStd impl then "differs-from-stdlib" else if n < 0 then "neg" else "nonneg"
  return ({ model := m, agree := m == ci, spec := spec, nontrivial := true, tag := tag } : Verdict).toJson

def fnvStep (h : UInt64) (b : UInt8) : UInt64 := (h ^^^ b.toUInt64) * 1099511628211
def fnvLine (h : UInt64) (s : List Char) : UInt64 :=
  fnvStep (s.foldl (fun h c => fnvStep h c.toNat.toUInt8) h) 10

/-- checksum of `f lo, f (lo+1), …` (`n` values), each followed by a newline -/
def fnvBlock (f : Int → List Char) (lo : Int) (n : Nat) : UInt64 := Id.run do
  let mut h : UInt64 := 14695981039346656037
  for k in [0:n] do
    h := fnvLine h (f (lo + k))
  return h

def hex64 (h : UInt64) : String := String.ofList (Nat.toDigits 16 h.toNat)

def i32blockH : Handler := fun inp impl => do
  let blk ← inp.getObjValAs? Nat "blk"
  let lo : Int := -(2^31 : Int) + (blk : Int) * 65536
  let msum := hex64 (fnvBlock (fun v => match i32toa v with | .ok s => s | .panic _ => "PANIC".toList) lo 65536)
  let rsum := hex64 (fnvBlock (fun v => (toString v).toList) lo 65536)
  let m := Json.mkObj [("sum", msum)]
  if isPanicJ impl then
    return ({ model := m, agree := false, spec := false, nontrivial := true, tag := "panic" } : Verdict).toJson
  let isum ← impl.getObjValAs? String "sum"
  let bad ← impl.getObjValAs? Nat "bad"
  let tag := if bad != 0 then "differs-from-stdlib" else if blk < 32768 then "neg-block" else "nonneg-block"
  return ({ model := m, agree := msum == isum, spec := rsum == isum && bad == 0, nontrivial := true, tag := tag } : Verdict).toJson

/-- Go-side exhaustive part: `bad` = number of values on which `i32toa` ≠ `strconv.Itoa`; the probes are
re-checked here against the model and `Nat.repr`. -/
def i32sweepH : Handler := fun inp impl => do
  let part ← inp.getObjValAs? Nat "blk"
  let lo : Int := -(2^31 : Int) + (part : Int) * 16777216
  let probeVals : List Int := [lo, lo + 8388608, lo + 16777215]
  let mp := Json.mkObj (probeVals.map fun v => (toString v, outcomeJson strJ (i32toa v)))
  let m := Json.mkObj [("probes", mp)]
  if isPanicJ impl then
    return ({ model := m, agree := false, spec := false, nontrivial := true, tag := "panic" } : Verdict).toJson
  let bad ← impl.getObjValAs? Nat "bad"
  let n ← impl.getObjValAs? Nat "n"
  let ip ← impl.getObjVal? "probes"
  let refOk := probeVals.all fun v => (ip.getObjValAs? String (toString v)).toOption == some (toString v)
  let tag := if bad != 0 then "differs-from-stdlib" else if part < 128 then "neg-part" else "nonneg-part"
  return ({ model := m, agree := mp == ip, spec := refOk && bad == 0 && n == 16777216, nontrivial := true, tag := tag } : Verdict).toJson

def uint16H : Handler := fun inp impl => do
  let n ← inp.getObjValAs? Nat "n"
  let m := outcomeJson strJ (uint16base16 n)
  let ci := canonImpl impl
  let spec := !differsFromStd impl && ci == strJ (Spec.hex4 n)
  let tag := if differsFromStd impl then "differs-from-stdlib" else s!"nibbles-{(Nat.toDigits 16 n).length}"
  return ({ model := m, agree := m == ci, spec := spec, nontrivial := true, tag := tag } : Verdict).toJson

def hexVal (c : Char) : Option Nat :=
  if '0' ≤ c ∧ c ≤ '9' then some (c.toNat - 48)
  else if 'a' ≤ c ∧ c ≤ 'f' then some (c.toNat - 87)
  else if 'A' ≤ c ∧ c ≤ 'F' then some (c.toNat - 55) else none

def hexDecode : List Char → Option (List UInt8)
  | [] => some []
  | a :: b :: rest => do
    let x ← hexVal a
    let y ← hexVal b
    let r ← hexDecode rest
    return UInt8.ofNat (x * 16 + y) :: r
  | _ => none

def isLowerHex (c : Char) : Bool := ('0' ≤ c && c ≤ '9') || ('a' ≤ c && c ≤ 'f')

def uuidH : Handler := fun inp impl => do
  let us ← inp.getObjValAs? String "u"
  let some u := hexDecode us.toList | throw "bad hex"
  if u.length != 24 then throw "need 24 bytes"
  let m := outcomeJson strJ (uuidToString u)
  let ci := canonImpl impl
  let shape := match ci with
    | .str s =>
      let l := s.toList
      l.length == 36 && (List.range 36).all fun i =>
        match l[i]? with
        | some c => if [8, 13, 18, 23].contains i then c == '-' else isLowerHex c
        | none => false
    | _ => false
  let spec := !differsFromStd impl && shape && ci == strJ (Spec.uuidText u)
  let tag := if differsFromStd impl then "differs-from-stdlib" else if !shape then "bad-shape" else "uuid"
  return ({ model := m, agree := m == ci, spec := spec, nontrivial := (u.take 16).eraseDups.length > 2, tag := tag } : Verdict).toJson

/-! ### hostport -/

def hostportH : Handler := fun inp impl => do
  let s ← inp.getObjValAs? String "s"
  let m := outcomeJson (fun (p : List Char × List Char) => Json.arr #[strJ p.1, strJ p.2]) (hostport s.toList)
  let ci := canonImpl impl
  let spec := match ci with
    | .arr #[.str h, .str p] => Spec.hostportOk s.toList h.toList p.toList
    | _ => false
  let colons := s.toList.count ':'
  let tag := if isPanicJ impl then "panic" else if s.isEmpty then "empty" else if colons == 0 then "nocolon"
    else if colons == 1 then "colon" else "colons"
  return ({ model := m, agree := m == ci, spec := spec, nontrivial := !s.isEmpty, tag := tag } : Verdict).toJson

/-! ### lex / parse -/

def typNum : ItemType → Nat
  | .text => 0 | .field => 1 | .header => 2

def numTyp : Nat → Option ItemType
  | 0 => some .text | 1 => some .field | 2 => some .header | _ => none

/-- drive `lex` the way `parse` does; `none` when it reports a length outside `1..len` -/
def lexAll : Nat → List Char → List (ItemType × List Char) → Option (List (ItemType × List Char))
  | 0, _, _ => none
  | fuel+1, s, acc =>
    if s.isEmpty then some acc.reverse else
    let (t, n) := lex s
    if n < 1 ∨ (s.length : Int) < n then none
    else lexAll fuel (s.drop n.toNat) ((t, s.take n.toNat) :: acc)

def knownDoc (name : List Char) : Bool :=
  let n := String.ofList name
  Spec.documentedFields.contains n || n == "$upstream_service"

def invalidFieldMsg (name : List Char) : String := "invalid field \"" ++ String.ofList name ++ "\""

def itemsJson (l : List (ItemType × List Char)) : Json :=
  Json.arr (l.map fun (t, v) => Json.arr #[Json.num (typNum t), strJ v]).toArray

/-- does every item satisfy the declarative description, given what follows it? -/
def itemsOk : List (ItemType × List Char) → Bool
  | [] => true
  | (t, v) :: rest => Spec.itemOk t v (rest.flatMap (·.2)) && itemsOk rest

def parseH : Handler := fun inp impl => do
  let f ← inp.getObjValAs? String "f"
  let s := f.toList
  let m : Json := match lexAll (s.length + 1) s [], parse s with
    | some items, .ok (.ok p) => Json.mkObj [("items", itemsJson items), ("n", p.length), ("err", "")]
    | some items, .ok (.error name) => Json.mkObj [("items", itemsJson items), ("n", (0 : Nat)), ("err", invalidFieldMsg name)]
    | _, _ => panicJson
  let ci := canonImpl impl
  if isPanicJ impl || (impl.getObjVal? "stuck").toOption.isSome then
    return ({ model := m, agree := m == ci, spec := false, nontrivial := true,
              tag := if isPanicJ impl then "panic" else "lex-no-progress" } : Verdict).toJson
  -- specification on the implementation's own items
  let ij ← impl.getObjValAs? (Array Json) "items"
  let items ← ij.toList.mapM fun j => do
    let a ← j.getArr?
    let t ← (a[0]?.getD Json.null).getNat?
    let v ← (a[1]?.getD Json.null).getStr?
    match numTyp t with
    | some ty => pure (ty, v.toList)
    | none => throw "bad item type"
  let n ← impl.getObjValAs? Nat "n"
  let err ← impl.getObjValAs? String "err"
  let concatOk := items.flatMap (·.2) == s
  let shapeOk := itemsOk items
  let firstBad := (items.filter fun (t, v) => t == .field && !knownDoc v).head?
  let resOk := match firstBad with
    | some (_, v) => err == invalidFieldMsg v && n == 0
    | none => err == "" && n == items.length
  let tag := if !concatOk then "items-do-not-concatenate" else if !shapeOk then "item-shape" else if !resOk then "parse-result"
    else if firstBad.isSome then "unknown-field"
    else if items.any (·.1 == .header) then "header" else if items.any (·.1 == .field) then "fields"
    else if items.isEmpty then "empty" else "text-only"
  return ({ model := m, agree := m == ci, spec := concatOk && shapeOk && resOk,
            nontrivial := items.any (·.1 != .text), tag := tag } : Verdict).toJson

/-! ### whole events -/

def optStr (j : Json) (k : String) : List Char :=
  match j.getObjValAs? String k with
  | .ok s => s.toList
  | .error _ => []

def urlView (j : Json) : Option URLView :=
  if j.isNull then none else
  some { scheme := optStr j "scheme", rawQuery := optStr j "q", requestURI := optStr j "uri", str := optStr j "str" }

def intAt (a : Array Json) (i : Nat) : Int := ((a[i]?.getD Json.null).getInt?).toOption.getD 0

def mkEvent (ev env : Json) : Except String Event := do
  let req := (ev.getObjVal? "req").toOption.getD Json.null
  let hdrJ := if req.isNull then Json.null else (req.getObjVal? "hdr").toOption.getD Json.null
  let hdr : Option (List (List Char × List (List Char))) ←
    if hdrJ.isNull then pure none else do
      let arr ← hdrJ.getArr?
      let l ← arr.toList.mapM fun h => do
        let k ← h.getObjValAs? String "k"
        let v ← h.getObjValAs? (Array String) "v"
        pure (k.toList, v.toList.map String.toList)
      pure (some l)
  let t := ((env.getObjVal? "t").toOption.bind (·.getArr?.toOption)).getD #[]
  return {
    hasRequest := !req.isNull
    remoteAddr := optStr req "remote", method := optStr req "method", requestURI := optStr req "uri"
    proto := optStr req "proto", host := optStr req "host", header := hdr
    requestURL := urlView ((env.getObjVal? "rurl").toOption.getD Json.null)
    upstreamURL := urlView ((env.getObjVal? "uurl").toOption.getD Json.null)
    upstreamAddr := optStr ev "uaddr", upstreamService := optStr ev "usvc"
    status := (ev.getObjValAs? Int "status").toOption.getD 0
    contentLength := (ev.getObjValAs? Int "size").toOption.getD 0
    durNs := (env.getObjValAs? Int "dur").toOption.getD 0
    unixNano := (env.getObjValAs? Int "unixnano").toOption.getD 0
    year := intAt t 0, month := if t.size > 1 then intAt t 1 else 1, day := intAt t 2
    hour := intAt t 3, minute := intAt t 4, second := intAt t 5, nanos := intAt t 6 }

structure RItem where
  kind : String
  v : List Char

def itemSrc (it : RItem) : List Char := if it.kind == "header" then "$header.".toList ++ it.v else it.v

/-- The intended items lex back to themselves: texts are non-empty and free of `$`, names are made of
identifier characters, and no text is glued to the field before it. Only then is "the rendering of the
items" what the format asks for. -/
def wellSeparated : List RItem → Bool
  | [] => true
  | it :: rest =>
    let selfOk :=
      if it.kind == "text" then it.v != [] && !it.v.contains '$'
      else if it.kind == "header" then it.v != [] && it.v.all isIDChar
      else match it.v with
        | '$' :: name => name != [] && name.all isIDChar
        | _ => false
    let nextOk := match rest with
      | nx :: _ =>
        if it.kind != "text" && nx.kind == "text" then
          match nx.v with
          | c :: _ => !isIDChar c && c != '.'
          | [] => false
        else true
      | [] => true
    selfOk && nextOk && wellSeparated rest

/-- Day count → civil date (proleptic Gregorian), independent of Go's `time`: used to cross-check the UTC
calendar fields the harness reports for `End`. -/
def civilFromDays (z0 : Int) : Int × Int × Int :=
  let z := z0 + 719468
  let era := z / 146097
  let doe := z - era * 146097
  let yoe := (doe - doe / 1460 + doe / 36524 - doe / 146096) / 365
  let y := yoe + era * 400
  let doy := doe - (365 * yoe + yoe / 4 - yoe / 100)
  let mp := (5 * doy + 2) / 153
  let d := doy - (153 * mp + 2) / 5 + 1
  let m := if mp < 10 then mp + 3 else mp - 9
  (if m ≤ 2 then y + 1 else y, m, d)

def clamp64 (x : Int) : Int := if x < -(2^63) then -(2^63) else if x ≥ 2^63 then 2^63 - 1 else x

/-- `End.UnixNano()` wraps, `End.Sub(Start)` saturates -/
def envMatchesArith (e : Event) (ssec sns esec ens : Int) : Bool :=
  e.unixNano == wrap64 (esec * 1000000000 + ens) &&
  e.durNs == clamp64 ((esec * 1000000000 + ens) - (ssec * 1000000000 + sns))

def envMatchesInstant (e : Event) (sec ns : Int) : Bool :=
  let sec' := sec + ns / 1000000000
  let ns' := ns % 1000000000
  let days := sec' / 86400
  let sod := sec' % 86400
  let (y, m, d) := civilFromDays days
  e.year == y && e.month == m && e.day == d && e.hour == sod / 3600 && e.minute == sod % 3600 / 60 &&
    e.second == sod % 60 && e.nanos == ns'

def refItem (e : Event) (it : RItem) : Option (List Char) :=
  if it.kind == "text" then some it.v
  else if it.kind == "header" then
    some (match e.hasRequest, e.header with
      | true, some h => headerGet h it.v
      | _, _ => [])
  else Spec.refField e (String.ofList it.v)

def timeFields : List String := ["$time_common", "$time_rfc3339", "$time_rfc3339_ms", "$time_rfc3339_us", "$time_rfc3339_ns"]
def hostportFields : List String := ["$remote_host", "$remote_port", "$upstream_host", "$upstream_port"]

def renderH : Handler := fun inp impl => do
  let itemsJ ← inp.getObjValAs? (Array Json) "items"
  let items ← itemsJ.toList.mapM fun j => do
    let k ← j.getObjValAs? String "k"
    let v ← j.getObjValAs? String "v"
    pure ({ kind := k, v := v.toList } : RItem)
  let evJ ← inp.getObjVal? "ev"
  let env := (impl.getObjVal? "env").toOption.getD Json.null
  let e ← mkEvent evJ env
  let format := items.flatMap itemSrc
  let m : Json := match newAndLog format e with
    | .panic _ => panicJson
    | .ok (.newError msg) => Json.mkObj [("new_err", strJ msg)]
    | .ok (.written out) => Json.mkObj [("line", strJ out)]
  let implPanics := isPanicJ impl
  let implErr := (impl.getObjValAs? String "new_err").toOption
  let implLine := (impl.getObjValAs? String "line").toOption
  let ci : Json := if implPanics then panicJson else match implErr, implLine with
    | some er, _ => Json.mkObj [("new_err", er)]
    | none, some l => Json.mkObj [("line", l)]
    | none, none => Json.null
  let agree := m == ci
  let names := (items.filter (·.kind == "field")).map fun it => String.ofList it.v
  let tz := (evJ.getObjValAs? Int "tz").toOption.getD 0
  let hasTime := names.any timeFields.contains
  let cls := if hasTime then (if tz != 0 then "time-nonutc" else "time-utc")
    else if names.any hostportFields.contains then "hostport"
    else if items.any (·.kind == "header") then "header" else "plain"
  if !wellSeparated items then
    return ({ model := m, agree := agree, spec := !implPanics, nontrivial := false,
              tag := if implPanics then "panic" else "ill-separated" } : Verdict).toJson
  if implPanics then
    return ({ model := m, agree := agree, spec := false, nontrivial := true, tag := "panic-" ++ cls } : Verdict).toJson
  -- what logger.New must say
  let firstBad := (items.filter fun it => it.kind == "field" && !knownDoc it.v).head?
  let wantErr : Option String := if items.isEmpty then some "empty log format" else firstBad.map fun it => invalidFieldMsg it.v
  match wantErr, implErr with
  | some w, got =>
    return ({ model := m, agree := agree, spec := got == some w, nontrivial := true, tag := "new-error" } : Verdict).toJson
  | none, some _ =>
    return ({ model := m, agree := agree, spec := false, nontrivial := true, tag := "unexpected-new-error" } : Verdict).toJson
  | none, none =>
    let some line := implLine | throw "impl has neither line nor new_err"
    let std := (impl.getObjValAs? String "std").toOption.getD ""
    let writes := (impl.getObjValAs? Nat "writes").toOption.getD 0
    let mutated := (impl.getObjValAs? Bool "mutated").toOption.getD true
    let esec := (evJ.getObjValAs? Int "esec").toOption.getD 0
    let ens := (evJ.getObjValAs? Int "ens").toOption.getD 0
    let ssec := (evJ.getObjValAs? Int "ssec").toOption.getD 0
    let sns := (evJ.getObjValAs? Int "sns").toOption.getD 0
    let envOk := envMatchesInstant e esec ens && envMatchesArith e ssec sns esec ens
    let refs := items.map (refItem e)
    let ref : List Char := (refs.map (·.getD [])).flatten
    let negDur := e.durNs < 0 && names.any (·.startsWith "$response_time")
    let want := String.ofList (ref ++ ['\n'])
    let newline := ref.contains '\n'
    let oneLine := line == want && line == std ++ "\n"
    let spec := negDur || (oneLine && writes == 1 && !mutated && envOk && refs.all (·.isSome))
    let tag := if negDur then "neg-duration" else if !envOk then "calendar-mismatch"
      else if ref.isEmpty then "empty-rendering" else if mutated then "event-mutated"
      else if newline then "newline-in-value" else cls
    return ({ model := m, agree := agree, spec := spec, nontrivial := !negDur && items.any (·.kind != "text"), tag := tag } : Verdict).toJson

/-! ### concurrent logging through one logger -/

def fnvString (s : String) : UInt64 := s.toUTF8.foldl fnvStep 14695981039346656037

/-- event (g, i) of the `c20.concurrent` stream (same formulas as `c20ConcEvent` in the harness) -/
def concEvent (g i : Nat) : Event :=
  let n (k : Nat) : List Char := (toString k).toList
  { remoteAddr := "10.0.".toList ++ n g ++ ['.'] ++ n (i % 250) ++ [':'] ++ n (1000 + i)
    method := "GET".toList
    requestURI := "/w".toList ++ n g ++ ['/'] ++ List.replicate ((g * 7 + i) % 40) 'x' ++ ['/'] ++ n i
    proto := "HTTP/1.1".toList
    host := 'h' :: n g
    header := some [("X-Id".toList, [n g ++ ['-'] ++ n i])]
    upstreamAddr := "10.1.".toList ++ n g ++ ".1:".toList ++ n (8000 + g)
    upstreamService := "svc".toList ++ n g
    status := 200 + g, contentLength := g * 1000000 + i
    durNs := ((g * 1000 + i) * 1000 : Nat), unixNano := 1580702706000000000
    year := 2020, month := 2, day := 3, hour := 4, minute := 5, second := 6, nanos := 0 }

/-- Sum (mod 2^64, order independent) of the checksums of the lines `f` yields for all events. -/
def concSum (workers per : Nat) (f : Event → Option String) : Option UInt64 := Id.run do
  let mut acc : UInt64 := 0
  for g in [0:workers] do
    for i in [0:per] do
      match f (concEvent g i) with
      | some l => acc := acc + fnvString l
      | none => return none
  return some acc

def concurrentH : Handler := fun inp impl => do
  let itemsJ ← inp.getObjValAs? (Array Json) "items"
  let items ← itemsJ.toList.mapM fun j => do
    let k ← j.getObjValAs? String "k"
    let v ← j.getObjValAs? String "v"
    pure ({ kind := k, v := v.toList } : RItem)
  let workers ← inp.getObjValAs? Nat "workers"
  let per ← inp.getObjValAs? Nat "per"
  if workers > 64 || per > 5000 then throw "workers/per out of range"
  let format := items.flatMap itemSrc
  let n := workers * per
  -- model: every event alone through newAndLog
  let msum := concSum workers per fun e => match newAndLog format e with
    | .ok (.written out) => some (String.ofList out)
    | _ => none
  let m := match msum with
    | some h => Json.mkObj [("lines", n), ("sum", hex64 h)]
    | none => Json.mkObj [("new_err", true)]
  if isPanicJ impl then
    return ({ model := m, agree := false, spec := false, nontrivial := true, tag := "panic" } : Verdict).toJson
  if (impl.getObjVal? "new_err").toOption.isSome then
    return ({ model := m, agree := msum.isNone, spec := !wellSeparated items || items.isEmpty || items.any (fun it => it.kind == "field" && !knownDoc it.v),
              nontrivial := false, tag := "new-error" } : Verdict).toJson
  let lines ← impl.getObjValAs? Nat "lines"
  let isum ← impl.getObjValAs? String "sum"
  let ci := Json.mkObj [("lines", lines), ("sum", isum)]
  let get (k : String) : Nat := (impl.getObjValAs? Nat k).toOption.getD 1
  let endsNl := (impl.getObjValAs? Bool "ends_nl").toOption.getD false
  -- reference: the items rendered from Nat.repr etc., one line per event
  let rsum := concSum workers per fun e =>
    let parts := items.map (refItem e)
    if parts.all (·.isSome) then some (String.ofList ((parts.map (·.getD [])).flatten ++ ['\n'])) else none
  let counts := lines == n && get "writes" == n && get "missing" == 0 && get "dup" == 0 && get "foreign" == 0 &&
    get "panics" == 0 && endsNl && get "events" == n
  let spec := !wellSeparated items || (counts && rsum.map hex64 == some isum)
  let tag := if !wellSeparated items then "ill-separated"
    else if get "panics" != 0 then "panic"
    else if get "foreign" != 0 then "foreign-or-torn-line"
    else if get "missing" != 0 || lines < n then "line-lost"
    else if get "dup" != 0 || lines > n then "line-duplicated"
    else if !counts || rsum.map hex64 != some isum then "sink-differs"
    else if workers ≥ 2 then "intact" else "single-thread"
  return ({ model := m, agree := m == ci, spec := spec, nontrivial := workers ≥ 2 && wellSeparated items, tag := tag } : Verdict).toJson

/-! ### the capturing responseWriter -/

open Fabio.Model.C20Capture in
def captureH : Handler := fun inp impl => do
  let opsJ ← inp.getObjValAs? (Array Json) "ops"
  let flusher := (inp.getObjValAs? Bool "flusher").toOption.getD false
  let short := (inp.getObjValAs? Nat "short").toOption.getD 0
  let ops ← opsJ.toList.mapM fun j => do
    let op ← j.getObjValAs? String "op"
    match op with
    | "header" => pure (RWOp.header ((j.getObjValAs? Nat "code").toOption.getD 0))
    | "write" =>
      let n := (j.getObjValAs? Nat "n").toOption.getD 0
      pure (RWOp.write n (if short > 0 && n > short then short else n))
    | "flush" => pure RWOp.flush
    | "set" => pure (RWOp.set (optStr j "k") (optStr j "v"))
    | _ => throw "unknown op"
  let show1 : RWOp → String
    | .header c => s!"H{c}"
    | .write o a => s!"W{o}:{a}"
    | .flush => "F"
    | .set k v => "S" ++ String.ofList (canonicalKey true k) ++ "=" ++ String.ofList v
  let toJ (calls : List RWOp) (code size : Nat) : Json :=
    Json.mkObj [("calls", Json.arr (calls.map fun o => Json.str (show1 o)).toArray), ("code", code), ("size", size)]
  let c := captureRun flusher ops
  let m := toJ c.forwarded c.code c.size
  let ci := canonImpl impl
  -- specification, stated on the script: the client connection sees every call, the log sees the last status
  let want := toJ (visible flusher ops) ((statuses ops).getLast?.getD 0) (accepted ops)
  let sts := statuses ops
  let tag := if isPanicJ impl then "panic"
    else if sts.isEmpty then "no-status"
    else if sts.length ≥ 2 && sts.dropLast.all (· < 200) then "informational-then-final"
    else if sts.length ≥ 2 then "repeated-status" else "single-status"
  return ({ model := m, agree := m == ci, spec := ci == want, nontrivial := !sts.isEmpty, tag := tag } : Verdict).toJson

/-! ### formatters called from many goroutines at once -/

def reentrantSum (workers per salt : Nat) (fu : List UInt8 → Option (List Char)) (f16 : Nat → Option (List Char))
    (f32 : Int → Option (List Char)) (f64 : Int → Nat → Option (List Char)) : Option UInt64 := Id.run do
  let mut acc : UInt64 := 0
  let line (s : List Char) : UInt64 := fnvString (String.ofList (s ++ ['\n']))
  for g in [0:workers] do
    for i in [0:per] do
      let u : List UInt8 := (List.range 24).map fun k => UInt8.ofNat ((g * 131 + i * 31 + k * 17 + salt) % 256)
      let n16 := (g * 4099 + i * 257 + salt) % 65536
      let n32 : Int := ((g * 1000003 + i * 7919 + salt * 97) % 4294967296 : Nat) - 2147483648
      let n64a : Int := ((g * 1000000007 + i * 104729 + salt) * 1000003 : Nat)
      let n64 : Int := if (g + i) % 2 == 1 then -n64a else n64a
      match fu u, f16 n16, f32 n32, f64 n64 (i % 10) with
      | some a, some b, some c, some d => acc := acc + line a + line b + line c + line d
      | _, _, _, _ => return none
  return some acc

def okOpt {α} : Fabio.Outcome α → Option α
  | .ok a => some a
  | .panic _ => none

def reentrantH : Handler := fun inp impl => do
  let workers ← inp.getObjValAs? Nat "workers"
  let per ← inp.getObjValAs? Nat "per"
  let salt ← inp.getObjValAs? Nat "salt"
  if workers > 64 || per > 2000 then throw "workers/per out of range"
  let msum := reentrantSum workers per salt (fun u => okOpt (uuidToString u)) (fun n => okOpt (uint16base16 n))
    (fun n => okOpt (i32toa n)) (fun n p => okOpt (atoi n p))
  let rsum := reentrantSum workers per salt (fun u => some (Spec.uuidText u)) (fun n => some (Spec.hex4 n))
    (fun n => some (toString n).toList) (fun n p => some (Spec.decimal n p))
  let total : Nat := workers * per * 4
  let m := Json.mkObj [("n", total), ("sum", (msum.map hex64).getD "panic")]
  if isPanicJ impl then
    return ({ model := m, agree := false, spec := false, nontrivial := true, tag := "panic" } : Verdict).toJson
  let n ← impl.getObjValAs? Nat "n"
  let isum ← impl.getObjValAs? String "sum"
  let get (k : String) : Nat := (impl.getObjValAs? Nat k).toOption.getD 1
  let ci := Json.mkObj [("n", n), ("sum", isum)]
  let tag := if get "bad_uuid" != 0 then "uuid-of-another-caller"
    else if get "bad_hex" != 0 || get "bad_i32" != 0 || get "bad_atoi" != 0 then "number-of-another-caller"
    else if rsum.map hex64 != some isum then "sum-differs"
    else if workers ≥ 2 then "concurrent" else "single-thread"
  let spec := get "bad_uuid" == 0 && get "bad_hex" == 0 && get "bad_i32" == 0 && get "bad_atoi" == 0 &&
    n == workers * per * 4 && rsum.map hex64 == some isum
  return ({ model := m, agree := m == ci, spec := spec, nontrivial := workers ≥ 2, tag := tag } : Verdict).toJson

def streams : List (String × Handler) := [
  ("c20.atoi", atoiH), ("c20.i32toa", i32toaH), ("c20.i32block", i32blockH), ("c20.i32sweep", i32sweepH), ("c20.uint16", uint16H),
  ("c20.uuid", uuidH), ("c20.hostport", hostportH), ("c20.parse", parseH), ("c20.render", renderH), ("c20.concurrent", concurrentH),
  ("c20.capture", captureH), ("c20.reentrant", reentrantH)]
end Fabio.Driver.C20
