import Fabio.Driver.Proto
import Fabio.Model.C20
namespace Fabio.Driver.C20
open Lean Fabio.Driver Fabio.Model.C20

def outcomeJson {α} (f : α → Json) : Fabio.Outcome α → Json
  | .ok a => f a
  | .panic _ => Json.mkObj [("panic", true)]

/-- implementation outputs carry the panic text; canonicalise to `{"panic":true}` -/
def canonImpl (j : Json) : Json :=
  match j.getObjVal? "panic" with
  | .ok _ => Json.mkObj [("panic", true)]
  | .error _ => j

def atoiH : Handler := fun inp impl => do
  let i ← inp.getObjValAs? Int "i"
  let pad ← inp.getObjValAs? Nat "pad"
  let m := Json.str (String.ofList (atoi i pad))
  let spec := (canonImpl impl) == Json.str (String.ofList
      ((if i < 0 then ['-'] else []) ++ (let d := (toString i.natAbs).toList; List.replicate (pad - d.length) '0' ++ d)))
  return ({ model := m, agree := m == canonImpl impl, spec := spec || i == minInt64,
            nontrivial := true, tag := if i < 0 then "neg" else "nonneg" } : Verdict).toJson

def hostportH : Handler := fun inp impl => do
  let s ← inp.getObjValAs? String "s"
  let m := outcomeJson (fun (p : List Char × List Char) => Json.arr #[Json.str (String.ofList p.1), Json.str (String.ofList p.2)]) (hostport s.toList)
  let ci := canonImpl impl
  return ({ model := m, agree := m == ci, spec := ci != Json.mkObj [("panic", true)],
            nontrivial := s.toList.contains ':', tag := if s.isEmpty then "empty" else if s.toList.contains ':' then "colon" else "nocolon" } : Verdict).toJson

def streams : List (String × Handler) := [("c20.atoi", atoiH), ("c20.hostport", hostportH)]
end Fabio.Driver.C20
