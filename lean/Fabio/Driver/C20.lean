import Fabio.Driver.Proto
import Fabio.Model.C20Spec
import Fabio.Model.C20Capture
import Fabio.Model.C20Url
import Fabio.Model.C20Serve
import Fabio.Model.C20Time
import Fabio.Generated.C20
/-!
Driver handlers for C20. For every stream: `model` = output of the Lean model on the case's input,
`agree` = equals the implementation's output, `spec` = the specification (`Model/C20Spec.lean`: built on
`Nat.toDigits`/`toString`, not on the loops of the model) evaluated on the implementation's own output.
An implementation output of the form `{"out": …, "std": …}` means the real code and Go's standard library
disagreed on the Go side already: `spec` is false.
-/
namespace Fabio.Driver.C20
open Lean Fabio.Driver Fabio.Model.C20

def panicJson : Json := Json.mkObj [("panic", true)]

def outcomeJson {α} (f : α → Json) : Fabio.Outcome α → Json
  | .ok a => f a
  | .panic _ => panicJson

def strJ (s : List Char) : Json := Json.str (String.ofList s)

/-- implementation outputs carry the panic text; canonicalise to `{"panic":true}`; a `{"out","std"}` pair
(real code ≠ standard library) is reduced to the real code's output -/
def canonImpl (j : Json) : Json :=
  match j.getObjVal? "panic" with
  | .ok _ => panicJson
  | .error _ =>
    match j.getObjVal? "out" with
    | .ok o => o
    | .error _ => j

def differsFromStd (j : Json) : Bool := (j.getObjVal? "std").toOption.isSome && (j.getObjVal? "out").toOption.isSome

def isPanicJ (j : Json) : Bool := (j.getObjVal? "panic").toOption.isSome

/-! ### the functions TRANSLATED from the current Go source

`Generated.C20.XUint16`, `XI32toa`, `XUuid`, `XHostport`, `XAtoi` are written by `tools/factgen/xlate.go` on every run
from `proxy/http_headers.go`, `uuid/format.go` and `logger/pattern.go`. They are evaluated here on every case next to
the hand-written model and the real code: this validates the translator itself against the real code
(`Props/C20Xlate.lean` proves the translation equal to the model). A function the translator refuses is a stub
(`translated = false`) and is skipped. -/
namespace XL
open Fabio.Xlate Fabio.Generated.C20

def bytesJ (b : List UInt8) : Json :=
  match String.fromUTF8? (ByteArray.mk b.toArray) with
  | some s => Json.str s
  | none => Json.str "<translated function returned invalid UTF-8>"

def outJ {σ} : V (List UInt8 × σ) → Json
  | .ok (r, _) => bytesJ r
  | .panic _ => panicJson

/-- does the translated function agree with the real code's (canonicalised) output? -/
def uint16 (n : Nat) (ci : Json) : Bool := !XUint16.translated || outJ (XUint16.run { p0 := UInt16.ofNat n }) == ci
def i32toa (n : Int) (ci : Json) : Bool := !XI32toa.translated || outJ (XI32toa.run { p0 := n }) == ci
def uuid (u : List UInt8) (ci : Json) : Bool := !XUuid.translated || outJ (XUuid.run { p0 := u }) == ci
def hostport (s : String) (ci : Json) : Bool := !XHostport.translated ||
  (match XHostport.run { p0 := s.toUTF8.toList } with
   | .ok ((h, p), _) => Json.arr #[bytesJ h, bytesJ p]
   | .panic _ => panicJson) == ci
def atoi (i : Int) (pad : Nat) (ci : Json) : Bool := !XAtoi.translated ||
  (match XAtoi.run { p1 := i, p2 := (pad : Int) } with
   | .ok (_, st) => bytesJ st.p0
   | .panic _ => panicJson) == ci

/-- the translated `lex` driven the way `parse` drives the real one: the items (type number, text), `none` when it
panics or reports a length outside `1..len` -/
def lexItems : Nat → List Char → List (Nat × List Char) → Option (List (Nat × List Char))
  | 0, _, _ => none
  | fuel+1, s, acc =>
    if s.isEmpty then some acc.reverse else
    match XLex.run { p0 := s.map fun c => (c.toNat : Int) } with
    | .ok ((t, n), _) =>
      if n < 1 ∨ (s.length : Int) < n ∨ t < 0 then none
      else lexItems fuel (s.drop n.toNat) ((t.toNat, s.take n.toNat) :: acc)
    | .panic _ => none
end XL

/-! ### numbers -/

def atoiH : Handler := fun inp impl => do
  let i ← inp.getObjValAs? Int "i"
  let pad ← inp.getObjValAs? Nat "pad"
  let m := outcomeJson strJ (atoi i pad)
  let ci := canonImpl impl
  let inDomain := i != minInt64 && pad ≤ 127
  let spec := !inDomain || (!differsFromStd impl && ci == strJ (Spec.decimal i pad))
  let tag := if i == minInt64 then "minint64" else if pad > 127 then "pad-beyond-buffer"
    else if differsFromStd impl then "differs-from-stdlib"
    else if i < 0 then (if pad == 0 then "neg" else "neg-padded") else (if pad == 0 then "nonneg" else "nonneg-padded")
  return ({ model := m, agree := m == ci && XL.atoi i pad ci, spec := spec, nontrivial := inDomain, tag := tag } : Verdict).toJson

def i32toaH : Handler := fun inp impl => do
  let n ← inp.getObjValAs? Int "n"
  let m := outcomeJson strJ (i32toa n)
  let ci := canonImpl impl
  let spec := !differsFromStd impl && ci == Json.str (toString n)
  let tag := if differsFromStd impl then "differs-from-stdlib" else if n < 0 then "neg" else "nonneg"
  return ({ model := m, agree := m == ci && XL.i32toa n ci, spec := spec, nontrivial := true, tag := tag } : Verdict).toJson

def fnvStep (h : UInt64) (b : UInt8) : UInt64 := (h ^^^ b.toUInt64) * 1099511628211
def fnvLine (h : UInt64) (s : List Char) : UInt64 :=
  fnvStep (s.foldl (fun h c => fnvStep h c.toNat.toUInt8) h) 10

/-- checksum of `f lo, f (lo+1), …` (`n` values), each followed by a newline -/
def fnvBlock (f : Int → List Char) (lo : Int) (n : Nat) : UInt64 := Id.run do
  let mut h : UInt64 := 14695981039346656037
  for k in [0:n] do
    h := fnvLine h (f (lo + k))
  return h

def hex64 (h : UInt64) : String := String.ofList (Nat.toDigits 16 h.toNat)

def i32blockH : Handler := fun inp impl => do
  let blk ← inp.getObjValAs? Nat "blk"
  let lo : Int := -(2^31 : Int) + (blk : Int) * 65536
  let msum := hex64 (fnvBlock (fun v => match i32toa v with | .ok s => s | .panic _ => "PANIC".toList) lo 65536)
  let rsum := hex64 (fnvBlock (fun v => (toString v).toList) lo 65536)
  let m := Json.mkObj [("sum", msum)]
  if isPanicJ impl then
    return ({ model := m, agree := false, spec := false, nontrivial := true, tag := "panic" } : Verdict).toJson
  let isum ← impl.getObjValAs? String "sum"
  let bad ← impl.getObjValAs? Nat "bad"
  let tag := if bad != 0 then "differs-from-stdlib" else if blk < 32768 then "neg-block" else "nonneg-block"
  return ({ model := m, agree := msum == isum, spec := rsum == isum && bad == 0, nontrivial := true, tag := tag } : Verdict).toJson

/-- Go-side exhaustive part: `bad` = number of values on which `i32toa` ≠ `strconv.Itoa`; the probes are
re-checked here against the model and `Nat.repr`. -/
def i32sweepH : Handler := fun inp impl => do
  let part ← inp.getObjValAs? Nat "blk"
  let lo : Int := -(2^31 : Int) + (part : Int) * 16777216
  let probeVals : List Int := [lo, lo + 8388608, lo + 16777215]
  let mp := Json.mkObj (probeVals.map fun v => (toString v, outcomeJson strJ (i32toa v)))
  let m := Json.mkObj [("probes", mp)]
  if isPanicJ impl then
    return ({ model := m, agree := false, spec := false, nontrivial := true, tag := "panic" } : Verdict).toJson
  let bad ← impl.getObjValAs? Nat "bad"
  let n ← impl.getObjValAs? Nat "n"
  let ip ← impl.getObjVal? "probes"
  let refOk := probeVals.all fun v => (ip.getObjValAs? String (toString v)).toOption == some (toString v)
  let tag := if bad != 0 then "differs-from-stdlib" else if part < 128 then "neg-part" else "nonneg-part"
  let xOk := probeVals.all fun v => XL.i32toa v ((ip.getObjVal? (toString v)).toOption.getD Json.null)
  return ({ model := m, agree := mp == ip && xOk, spec := refOk && bad == 0 && n == 16777216, nontrivial := true, tag := tag } : Verdict).toJson

def uint16H : Handler := fun inp impl => do
  let n ← inp.getObjValAs? Nat "n"
  let m := outcomeJson strJ (uint16base16 n)
  let ci := canonImpl impl
  let spec := !differsFromStd impl && ci == strJ (Spec.hex4 n)
  let tag := if differsFromStd impl then "differs-from-stdlib" else s!"nibbles-{(Nat.toDigits 16 n).length}"
  return ({ model := m, agree := m == ci && XL.uint16 n ci, spec := spec, nontrivial := true, tag := tag } : Verdict).toJson

def hexVal (c : Char) : Option Nat :=
  if '0' ≤ c ∧ c ≤ '9' then some (c.toNat - 48)
  else if 'a' ≤ c ∧ c ≤ 'f' then some (c.toNat - 87)
  else if 'A' ≤ c ∧ c ≤ 'F' then some (c.toNat - 55) else none

def hexDecode : List Char → Option (List UInt8)
  | [] => some []
  | a :: b :: rest => do
    let x ← hexVal a
    let y ← hexVal b
    let r ← hexDecode rest
    return UInt8.ofNat (x * 16 + y) :: r
  | _ => none

def isLowerHex (c : Char) : Bool := ('0' ≤ c && c ≤ '9') || ('a' ≤ c && c ≤ 'f')

def uuidH : Handler := fun inp impl => do
  let us ← inp.getObjValAs? String "u"
  let some u := hexDecode us.toList | throw "bad hex"
  if u.length != 24 then throw "need 24 bytes"
  let m := outcomeJson strJ (uuidToString u)
  let ci := canonImpl impl
  let shape := match ci with
    | .str s =>
      let l := s.toList
      l.length == 36 && (List.range 36).all fun i =>
        match l[i]? with
        | some c => if [8, 13, 18, 23].contains i then c == '-' else isLowerHex c
        | none => false
    | _ => false
  let spec := !differsFromStd impl && shape && ci == strJ (Spec.uuidText u)
  let tag := if differsFromStd impl then "differs-from-stdlib" else if !shape then "bad-shape" else "uuid"
  return ({ model := m, agree := m == ci && XL.uuid u ci, spec := spec, nontrivial := (u.take 16).eraseDups.length > 2, tag := tag } : Verdict).toJson

/-! ### hostport -/

def hostportH : Handler := fun inp impl => do
  let s ← inp.getObjValAs? String "s"
  let m := outcomeJson (fun (p : List Char × List Char) => Json.arr #[strJ p.1, strJ p.2]) (hostport s.toList)
  let ci := canonImpl impl
  let spec := match ci with
    | .arr #[.str h, .str p] => Spec.hostportOk s.toList h.toList p.toList
    | _ => false
  let colons := s.toList.count ':'
  let tag := if isPanicJ impl then "panic" else if s.isEmpty then "empty" else if colons == 0 then "nocolon"
    else if s.length > 64 then "long"
    else if s.toList.head? == some '[' then "bracketed"
    else if s.toList.getLast? == some ':' then "ends-with-colon"
    else if colons == 1 then "colon" else "colons"
  return ({ model := m, agree := m == ci && XL.hostport s ci, spec := spec, nontrivial := !s.isEmpty, tag := tag } : Verdict).toJson

/-! ### lex / parse -/

def typNum : ItemType → Nat
  | .text => 0 | .field => 1 | .header => 2

def numTyp : Nat → Option ItemType
  | 0 => some .text | 1 => some .field | 2 => some .header | _ => none

/-- drive `lex` the way `parse` does; `none` when it reports a length outside `1..len` -/
def lexAll : Nat → List Char → List (ItemType × List Char) → Option (List (ItemType × List Char))
  | 0, _, _ => none
  | fuel+1, s, acc =>
    if s.isEmpty then some acc.reverse else
    let (t, n) := lex s
    if n < 1 ∨ (s.length : Int) < n then none
    else lexAll fuel (s.drop n.toNat) ((t, s.take n.toNat) :: acc)

def knownDoc (name : List Char) : Bool :=
  let n := String.ofList name
  Spec.documentedFields.contains n || n == "$upstream_service"

def invalidFieldMsg (name : List Char) : String := "invalid field \"" ++ String.ofList name ++ "\""

def itemsJson (l : List (ItemType × List Char)) : Json :=
  Json.arr (l.map fun (t, v) => Json.arr #[Json.num (typNum t), strJ v]).toArray

/-- does every item satisfy the declarative description, given what follows it? -/
def itemsOk : List (ItemType × List Char) → Bool
  | [] => true
  | (t, v) :: rest => Spec.itemOk t v (rest.flatMap (·.2)) && itemsOk rest

def parseH : Handler := fun inp impl => do
  let f ← inp.getObjValAs? String "f"
  let s := f.toList
  let m : Json := match lexAll (s.length + 1) s [], parse s with
    | some items, .ok (.ok p) => Json.mkObj [("items", itemsJson items), ("n", p.length), ("err", "")]
    | some items, .ok (.error name) => Json.mkObj [("items", itemsJson items), ("n", (0 : Nat)), ("err", invalidFieldMsg name)]
    | _, _ => panicJson
  let ci := canonImpl impl
  if isPanicJ impl || (impl.getObjVal? "stuck").toOption.isSome then
    return ({ model := m, agree := m == ci, spec := false, nontrivial := true,
              tag := if isPanicJ impl then "panic" else "lex-no-progress" } : Verdict).toJson
  -- specification on the implementation's own items
  let ij ← impl.getObjValAs? (Array Json) "items"
  let items ← ij.toList.mapM fun j => do
    let a ← j.getArr?
    let t ← (a[0]?.getD Json.null).getNat?
    let v ← (a[1]?.getD Json.null).getStr?
    match numTyp t with
    | some ty => pure (ty, v.toList)
    | none => throw "bad item type"
  let n ← impl.getObjValAs? Nat "n"
  let err ← impl.getObjValAs? String "err"
  let concatOk := items.flatMap (·.2) == s
  let shapeOk := itemsOk items
  let firstBad := (items.filter fun (t, v) => t == .field && !knownDoc v).head?
  let resOk := match firstBad with
    | some (_, v) => err == invalidFieldMsg v && n == 0
    | none => err == "" && n == items.length
  let tag := if !concatOk then "items-do-not-concatenate" else if !shapeOk then "item-shape" else if !resOk then "parse-result"
    else if firstBad.isSome then "unknown-field"
    else if items.any (·.1 == .header) then "header" else if items.any (·.1 == .field) then "fields"
    else if items.isEmpty then "empty" else "text-only"
  let xlexOk := !Generated.C20.XLex.translated ||
    XL.lexItems (s.length + 1) s [] == some (items.map fun (t, v) => (typNum t, v))
  return ({ model := m, agree := m == ci && xlexOk, spec := concatOk && shapeOk && resOk,
            nontrivial := items.any (·.1 != .text), tag := tag } : Verdict).toJson

/-! ### whole events -/

def optStr (j : Json) (k : String) : List Char :=
  match j.getObjValAs? String k with
  | .ok s => s.toList
  | .error _ => []

def urlView (j : Json) : Option URLView :=
  if j.isNull then none else
  some { scheme := optStr j "scheme", rawQuery := optStr j "q", requestURI := optStr j "uri", str := optStr j "str" }

def utf8Bytes (s : String) : Fabio.Model.C20Url.Bytes := s.toUTF8.toList.map (·.toNat)

def bytesText (bs : Fabio.Model.C20Url.Bytes) : List Char :=
  match String.fromUTF8? (ByteArray.mk (bs.map UInt8.ofNat).toArray) with
  | some s => s.toList
  | none => "�(invalid UTF-8)".toList

/-- the URL of a `c20.render` event (text fields) rendered by the Lean model of `net/url` -/
def urlViewModel (j : Json) : Option URLView :=
  if j.isNull then none else
  let g (k : String) : Fabio.Model.C20Url.Bytes := utf8Bytes ((j.getObjValAs? String k).toOption.getD "")
  let u : Fabio.Model.C20Url.URL :=
    { scheme := g "scheme", host := g "host", path := g "path", rawPath := g "rawpath", rawQuery := g "query",
      forceQuery := (j.getObjValAs? Bool "forcequery").toOption.getD false, fragment := g "frag" }
  some { scheme := bytesText u.scheme, rawQuery := bytesText u.rawQuery,
         requestURI := bytesText (Fabio.Model.C20Url.requestURI u), str := bytesText (Fabio.Model.C20Url.urlString u) }

def intAt (a : Array Json) (i : Nat) : Int := ((a[i]?.getD Json.null).getInt?).toOption.getD 0

def mkEvent (ev env : Json) : Except String Event := do
  let req := (ev.getObjVal? "req").toOption.getD Json.null
  let hdrJ := if req.isNull then Json.null else (req.getObjVal? "hdr").toOption.getD Json.null
  let hdr : Option (List (List Char × List (List Char))) ←
    if hdrJ.isNull then pure none else do
      let arr ← hdrJ.getArr?
      let l ← arr.toList.mapM fun h => do
        let k ← h.getObjValAs? String "k"
        let v ← h.getObjValAs? (Array String) "v"
        pure (k.toList, v.toList.map String.toList)
      pure (some l)
  let t := ((env.getObjVal? "t").toOption.bind (·.getArr?.toOption)).getD #[]
  return {
    hasRequest := !req.isNull
    remoteAddr := optStr req "remote", method := optStr req "method", requestURI := optStr req "uri"
    proto := optStr req "proto", host := optStr req "host", header := hdr
    requestURL := urlViewModel ((ev.getObjVal? "rurl").toOption.getD Json.null)
    upstreamURL := urlViewModel ((ev.getObjVal? "uurl").toOption.getD Json.null)
    upstreamAddr := optStr ev "uaddr", upstreamService := optStr ev "usvc"
    status := (ev.getObjValAs? Int "status").toOption.getD 0
    contentLength := (ev.getObjValAs? Int "size").toOption.getD 0
    durNs := (env.getObjValAs? Int "dur").toOption.getD 0
    unixNano := (env.getObjValAs? Int "unixnano").toOption.getD 0
    year := intAt t 0, month := if t.size > 1 then intAt t 1 else 1, day := intAt t 2
    hour := intAt t 3, minute := intAt t 4, second := intAt t 5, nanos := intAt t 6 }

structure RItem where
  kind : String
  v : List Char

def itemSrc (it : RItem) : List Char := if it.kind == "header" then "$header.".toList ++ it.v else it.v

/-- The intended items lex back to themselves: texts are non-empty and free of `$`, names are made of
identifier characters, and no text is glued to the field before it. Only then is "the rendering of the
items" what the format asks for. -/
def wellSeparated : List RItem → Bool
  | [] => true
  | it :: rest =>
    let selfOk :=
      if it.kind == "text" then it.v != [] && !it.v.contains '$'
      else if it.kind == "header" then it.v != [] && it.v.all isIDChar
      else match it.v with
        | '$' :: name => name != [] && name.all isIDChar
        | _ => false
    let nextOk := match rest with
      | nx :: _ =>
        if it.kind != "text" && nx.kind == "text" then
          match nx.v with
          | c :: _ => !isIDChar c && c != '.'
          | [] => false
        else true
      | [] => true
    selfOk && nextOk && wellSeparated rest

/-- Day count → civil date: `Model/C20Time.lean` (independent of Go's `time`; proved to invert the Gregorian day
count in `Props/C20Time.lean`): used to cross-check the UTC calendar fields the harness reports for `End`. -/
def civilFromDays (z0 : Int) : Int × Int × Int := Fabio.Model.C20Time.civilFromDays z0

def clamp64 (x : Int) : Int := if x < -(2^63) then -(2^63) else if x ≥ 2^63 then 2^63 - 1 else x

/-- `End.UnixNano()` wraps, `End.Sub(Start)` saturates -/
def envMatchesArith (e : Event) (ssec sns esec ens : Int) : Bool :=
  e.unixNano == wrap64 (esec * 1000000000 + ens) &&
  e.durNs == clamp64 ((esec * 1000000000 + ens) - (ssec * 1000000000 + sns))

def envMatchesInstant (e : Event) (sec ns : Int) : Bool :=
  let sec' := sec + ns / 1000000000
  let ns' := ns % 1000000000
  let days := sec' / 86400
  let sod := sec' % 86400
  let (y, m, d) := civilFromDays days
  e.year == y && e.month == m && e.day == d && e.hour == sod / 3600 && e.minute == sod % 3600 / 60 &&
    e.second == sod % 60 && e.nanos == ns'

def refItem (e : Event) (it : RItem) : Option (List Char) :=
  if it.kind == "text" then some it.v
  else if it.kind == "header" then
    some (match e.hasRequest, e.header with
      | true, some h => headerGet h it.v
      | _, _ => [])
  else Spec.refField e (String.ofList it.v)

def timeFields : List String := ["$time_common", "$time_rfc3339", "$time_rfc3339_ms", "$time_rfc3339_us", "$time_rfc3339_ns"]
def hostportFields : List String := ["$remote_host", "$remote_port", "$upstream_host", "$upstream_port"]

def renderH : Handler := fun inp impl => do
  let itemsJ ← inp.getObjValAs? (Array Json) "items"
  let items ← itemsJ.toList.mapM fun j => do
    let k ← j.getObjValAs? String "k"
    let v ← j.getObjValAs? String "v"
    pure ({ kind := k, v := v.toList } : RItem)
  let evJ ← inp.getObjVal? "ev"
  let env := (impl.getObjVal? "env").toOption.getD Json.null
  let e ← mkEvent evJ env
  let format := items.flatMap itemSrc
  let m : Json := match newAndLog format e with
    | .panic _ => panicJson
    | .ok (.newError msg) => Json.mkObj [("new_err", strJ msg)]
    | .ok (.written out) => Json.mkObj [("line", strJ out)]
  let implPanics := isPanicJ impl
  let implErr := (impl.getObjValAs? String "new_err").toOption
  let implLine := (impl.getObjValAs? String "line").toOption
  let ci : Json := if implPanics then panicJson else match implErr, implLine with
    | some er, _ => Json.mkObj [("new_err", er)]
    | none, some l => Json.mkObj [("line", l)]
    | none, none => Json.null
  let agree := m == ci
  let names := (items.filter (·.kind == "field")).map fun it => String.ofList it.v
  let tz := (evJ.getObjValAs? Int "tz").toOption.getD 0
  let hasTime := names.any timeFields.contains
  let cls := if hasTime then (if tz != 0 then "time-nonutc" else "time-utc")
    else if names.any hostportFields.contains then "hostport"
    else if items.any (·.kind == "header") then "header" else "plain"
  if !wellSeparated items then
    return ({ model := m, agree := agree, spec := !implPanics, nontrivial := false,
              tag := if implPanics then "panic" else "ill-separated" } : Verdict).toJson
  if implPanics then
    return ({ model := m, agree := agree, spec := false, nontrivial := true, tag := "panic-" ++ cls } : Verdict).toJson
  -- what logger.New must say
  let firstBad := (items.filter fun it => it.kind == "field" && !knownDoc it.v).head?
  let wantErr : Option String := if items.isEmpty then some "empty log format" else firstBad.map fun it => invalidFieldMsg it.v
  match wantErr, implErr with
  | some w, got =>
    return ({ model := m, agree := agree, spec := got == some w, nontrivial := true, tag := "new-error" } : Verdict).toJson
  | none, some _ =>
    return ({ model := m, agree := agree, spec := false, nontrivial := true, tag := "unexpected-new-error" } : Verdict).toJson
  | none, none =>
    let some line := implLine | throw "impl has neither line nor new_err"
    let std := (impl.getObjValAs? String "std").toOption.getD ""
    let writes := (impl.getObjValAs? Nat "writes").toOption.getD 0
    let mutated := (impl.getObjValAs? Bool "mutated").toOption.getD true
    let esec := (evJ.getObjValAs? Int "esec").toOption.getD 0
    let ens := (evJ.getObjValAs? Int "ens").toOption.getD 0
    let ssec := (evJ.getObjValAs? Int "ssec").toOption.getD 0
    let sns := (evJ.getObjValAs? Int "sns").toOption.getD 0
    let envOk := envMatchesInstant e esec ens && envMatchesArith e ssec sns esec ens
    -- Go's net/url on the same URLs (the model's rendering is what `e` carries)
    let sameView (a b : Option URLView) : Bool := match a, b with
      | none, none => true
      | some x, some y => x.scheme == y.scheme && x.rawQuery == y.rawQuery && x.requestURI == y.requestURI && x.str == y.str
      | _, _ => false
    let urlOk := sameView e.requestURL (urlView ((env.getObjVal? "rurl").toOption.getD Json.null)) &&
      sameView e.upstreamURL (urlView ((env.getObjVal? "uurl").toOption.getD Json.null))
    let refs := items.map (refItem e)
    let ref : List Char := (refs.map (·.getD [])).flatten
    let negDur := e.durNs < 0 && names.any (·.startsWith "$response_time")
    let want := String.ofList (ref ++ ['\n'])
    let newline := ref.contains '\n'
    let oneLine := line == want && line == std ++ "\n"
    let spec := negDur || (oneLine && writes == 1 && !mutated && envOk && urlOk && refs.all (·.isSome))
    let tag := if negDur then "neg-duration" else if !envOk then "calendar-mismatch" else if !urlOk then "url-model-mismatch"
      else if ref.isEmpty then "empty-rendering" else if mutated then "event-mutated"
      else if newline then "newline-in-value" else cls
    return ({ model := m, agree := agree, spec := spec, nontrivial := !negDur && items.any (·.kind != "text"), tag := tag } : Verdict).toJson

/-! ### concurrent logging through one logger -/

def fnvString (s : String) : UInt64 := s.toUTF8.foldl fnvStep 14695981039346656037

/-- event (g, i) of the `c20.concurrent` stream (same formulas as `c20ConcEvent` in the harness) -/
def concEvent (g i : Nat) : Event :=
  let n (k : Nat) : List Char := (toString k).toList
  { remoteAddr := "10.0.".toList ++ n g ++ ['.'] ++ n (i % 250) ++ [':'] ++ n (1000 + i)
    method := "GET".toList
    requestURI := "/w".toList ++ n g ++ ['/'] ++ List.replicate ((g * 7 + i) % 40) 'x' ++ ['/'] ++ n i
    proto := "HTTP/1.1".toList
    host := 'h' :: n g
    header := some [("X-Id".toList, [n g ++ ['-'] ++ n i])]
    upstreamAddr := "10.1.".toList ++ n g ++ ".1:".toList ++ n (8000 + g)
    upstreamService := "svc".toList ++ n g
    status := 200 + g, contentLength := g * 1000000 + i
    durNs := ((g * 1000 + i) * 1000 : Nat), unixNano := 1580702706000000000
    year := 2020, month := 2, day := 3, hour := 4, minute := 5, second := 6, nanos := 0 }

/-- Sum (mod 2^64, order independent) of the checksums of the lines `f` yields for all events. -/
def concSum (workers per : Nat) (f : Event → Option String) : Option UInt64 := Id.run do
  let mut acc : UInt64 := 0
  for g in [0:workers] do
    for i in [0:per] do
      match f (concEvent g i) with
      | some l => acc := acc + fnvString l
      | none => return none
  return some acc

def concurrentH : Handler := fun inp impl => do
  let itemsJ ← inp.getObjValAs? (Array Json) "items"
  let items ← itemsJ.toList.mapM fun j => do
    let k ← j.getObjValAs? String "k"
    let v ← j.getObjValAs? String "v"
    pure ({ kind := k, v := v.toList } : RItem)
  let workers ← inp.getObjValAs? Nat "workers"
  let per ← inp.getObjValAs? Nat "per"
  if workers > 64 || per > 5000 then throw "workers/per out of range"
  let format := items.flatMap itemSrc
  let n := workers * per
  -- model: every event alone through newAndLog
  let msum := concSum workers per fun e => match newAndLog format e with
    | .ok (.written out) => some (String.ofList out)
    | _ => none
  let m := match msum with
    | some h => Json.mkObj [("lines", n), ("sum", hex64 h)]
    | none => Json.mkObj [("new_err", true)]
  if isPanicJ impl then
    return ({ model := m, agree := false, spec := false, nontrivial := true, tag := "panic" } : Verdict).toJson
  if (impl.getObjVal? "new_err").toOption.isSome then
    return ({ model := m, agree := msum.isNone, spec := !wellSeparated items || items.isEmpty || items.any (fun it => it.kind == "field" && !knownDoc it.v),
              nontrivial := false, tag := "new-error" } : Verdict).toJson
  let lines ← impl.getObjValAs? Nat "lines"
  let isum ← impl.getObjValAs? String "sum"
  let ci := Json.mkObj [("lines", lines), ("sum", isum)]
  let get (k : String) : Nat := (impl.getObjValAs? Nat k).toOption.getD 1
  let endsNl := (impl.getObjValAs? Bool "ends_nl").toOption.getD false
  -- reference: the items rendered from Nat.repr etc., one line per event
  let rsum := concSum workers per fun e =>
    let parts := items.map (refItem e)
    if parts.all (·.isSome) then some (String.ofList ((parts.map (·.getD [])).flatten ++ ['\n'])) else none
  let counts := lines == n && get "writes" == n && get "missing" == 0 && get "dup" == 0 && get "foreign" == 0 &&
    get "panics" == 0 && endsNl && get "events" == n
  let spec := !wellSeparated items || (counts && rsum.map hex64 == some isum)
  let tag := if !wellSeparated items then "ill-separated"
    else if get "panics" != 0 then "panic"
    else if get "foreign" != 0 then "foreign-or-torn-line"
    else if get "missing" != 0 || lines < n then "line-lost"
    else if get "dup" != 0 || lines > n then "line-duplicated"
    else if !counts || rsum.map hex64 != some isum then "sink-differs"
    else if workers ≥ 2 then "intact" else "single-thread"
  return ({ model := m, agree := m == ci, spec := spec, nontrivial := workers ≥ 2 && wellSeparated items, tag := tag } : Verdict).toJson

/-! ### the capturing responseWriter -/

open Fabio.Model.C20Capture in
def captureH : Handler := fun inp impl => do
  let opsJ ← inp.getObjValAs? (Array Json) "ops"
  let flusher := (inp.getObjValAs? Bool "flusher").toOption.getD false
  let short := (inp.getObjValAs? Nat "short").toOption.getD 0
  let ops ← opsJ.toList.mapM fun j => do
    let op ← j.getObjValAs? String "op"
    match op with
    | "header" => pure (RWOp.header ((j.getObjValAs? Nat "code").toOption.getD 0))
    | "write" =>
      let n := (j.getObjValAs? Nat "n").toOption.getD 0
      pure (RWOp.write n (if short > 0 && n > short then short else n))
    | "flush" => pure RWOp.flush
    | "set" => pure (RWOp.set (optStr j "k") (optStr j "v"))
    | _ => throw "unknown op"
  let show1 : RWOp → String
    | .header c => s!"H{c}"
    | .write o a => s!"W{o}:{a}"
    | .flush => "F"
    | .set k v => "S" ++ String.ofList (canonicalKey true k) ++ "=" ++ String.ofList v
  let toJ (calls : List RWOp) (code size : Nat) : Json :=
    Json.mkObj [("calls", Json.arr (calls.map fun o => Json.str (show1 o)).toArray), ("code", code), ("size", size)]
  let c := captureRun flusher ops
  let m := toJ c.forwarded c.code c.size
  let ci := canonImpl impl
  -- specification, stated on the script: the client connection sees every call, the log sees the last status
  let want := toJ (visible flusher ops) ((statuses ops).getLast?.getD 0) (accepted ops)
  let sts := statuses ops
  let tag := if isPanicJ impl then "panic"
    else if sts.isEmpty then "no-status"
    else if sts.length ≥ 2 && sts.dropLast.all (· < 200) then "informational-then-final"
    else if sts.length ≥ 2 then "repeated-status" else "single-status"
  return ({ model := m, agree := m == ci, spec := ci == want, nontrivial := !sts.isEmpty, tag := tag } : Verdict).toJson

/-! ### formatters called from many goroutines at once -/

def reentrantSum (workers per salt : Nat) (fu : List UInt8 → Option (List Char)) (f16 : Nat → Option (List Char))
    (f32 : Int → Option (List Char)) (f64 : Int → Nat → Option (List Char)) : Option UInt64 := Id.run do
  let mut acc : UInt64 := 0
  let line (s : List Char) : UInt64 := fnvString (String.ofList (s ++ ['\n']))
  for g in [0:workers] do
    for i in [0:per] do
      let u : List UInt8 := (List.range 24).map fun k => UInt8.ofNat ((g * 131 + i * 31 + k * 17 + salt) % 256)
      let n16 := (g * 4099 + i * 257 + salt) % 65536
      let n32 : Int := ((g * 1000003 + i * 7919 + salt * 97) % 4294967296 : Nat) - 2147483648
      let n64a : Int := ((g * 1000000007 + i * 104729 + salt) * 1000003 : Nat)
      let n64 : Int := if (g + i) % 2 == 1 then -n64a else n64a
      match fu u, f16 n16, f32 n32, f64 n64 (i % 10) with
      | some a, some b, some c, some d => acc := acc + line a + line b + line c + line d
      | _, _, _, _ => return none
  return some acc

def okOpt {α} : Fabio.Outcome α → Option α
  | .ok a => some a
  | .panic _ => none

def reentrantH : Handler := fun inp impl => do
  let workers ← inp.getObjValAs? Nat "workers"
  let per ← inp.getObjValAs? Nat "per"
  let salt ← inp.getObjValAs? Nat "salt"
  if workers > 64 || per > 2000 then throw "workers/per out of range"
  let msum := reentrantSum workers per salt (fun u => okOpt (uuidToString u)) (fun n => okOpt (uint16base16 n))
    (fun n => okOpt (i32toa n)) (fun n p => okOpt (atoi n p))
  let rsum := reentrantSum workers per salt (fun u => some (Spec.uuidText u)) (fun n => some (Spec.hex4 n))
    (fun n => some (toString n).toList) (fun n p => some (Spec.decimal n p))
  let total : Nat := workers * per * 4
  let m := Json.mkObj [("n", total), ("sum", (msum.map hex64).getD "panic")]
  if isPanicJ impl then
    return ({ model := m, agree := false, spec := false, nontrivial := true, tag := "panic" } : Verdict).toJson
  let n ← impl.getObjValAs? Nat "n"
  let isum ← impl.getObjValAs? String "sum"
  let get (k : String) : Nat := (impl.getObjValAs? Nat k).toOption.getD 1
  let ci := Json.mkObj [("n", n), ("sum", isum)]
  let tag := if get "bad_uuid" != 0 then "uuid-of-another-caller"
    else if get "bad_hex" != 0 || get "bad_i32" != 0 || get "bad_atoi" != 0 then "number-of-another-caller"
    else if rsum.map hex64 != some isum then "sum-differs"
    else if workers ≥ 2 then "concurrent" else "single-thread"
  let spec := get "bad_uuid" == 0 && get "bad_hex" == 0 && get "bad_i32" == 0 && get "bad_atoi" == 0 &&
    n == workers * per * 4 && rsum.map hex64 == some isum
  return ({ model := m, agree := m == ci, spec := spec, nontrivial := workers ≥ 2, tag := tag } : Verdict).toJson

/-! ### the URL fields against the `net/url` model -/

namespace U
open Fabio.Model.C20Url

/-- byte strings travel as Latin-1 text: one rune per byte -/
def bytesOf (j : Json) (k : String) : Except String Bytes :=
  match j.getObjValAs? String k with
  | .ok s =>
    let l := s.toList.map Char.toNat
    if l.all (· < 256) then .ok l else .error s!"field {k}: rune above U+00FF"
  | .error _ => .ok []

def l1 (b : Bytes) : Json := Json.str (String.ofList (b.map Char.ofNat))

def urlOfJson (j : Json) : Except String URL := do
  let userJ := (j.getObjVal? "user").toOption.getD Json.null
  let user ← if userJ.isNull then pure none else do
    let name ← bytesOf userJ "name"
    let pwJ := (userJ.getObjVal? "pw").toOption.getD Json.null
    let pw ← if pwJ.isNull then pure none else (some <$> bytesOf userJ "pw")
    pure (some (name, pw))
  return {
    scheme := ← bytesOf j "scheme", opaq := ← bytesOf j "opaque", user := user, host := ← bytesOf j "host"
    path := ← bytesOf j "path", rawPath := ← bytesOf j "rawpath"
    omitHost := (j.getObjValAs? Bool "omithost").toOption.getD false
    forceQuery := (j.getObjValAs? Bool "forcequery").toOption.getD false
    rawQuery := ← bytesOf j "query", fragment := ← bytesOf j "frag", rawFragment := ← bytesOf j "rawfrag" }

def stripSuffix (s suf : Bytes) : Option Bytes :=
  if suf.length ≤ s.length ∧ s.drop (s.length - suf.length) = suf then some (s.take (s.length - suf.length)) else none

def stripPrefix (s pre : Bytes) : Option Bytes := if s.take pre.length = pre then some (s.drop pre.length) else none

/-- Specification on the logged text, by decoding it (no use of `escape`/`urlString`): the request URI is a
path-safe text that decodes to `Path` (or `/` for the empty path) followed by `?query`; for the URLs the proxy
logs the URL is `scheme://` + something that decodes to `Host` + the request URI. -/
def uriOk (u : URL) (uri : Bytes) : Bool :=
  match stripSuffix uri (queryPart u) with
  | none => false
  | some p =>
    p != [] && p.all pathSafe && (unescape p == some u.path || (u.path == [] && p == [47]))

def proxyForm (u : URL) : Bool :=
  u.scheme != [] && u.host != [] && u.opaq == [] && u.user.isNone && u.fragment == [] && u.path.head? == some 47

def urlOk (u : URL) (url uri : Bytes) : Bool :=
  match stripPrefix url (u.scheme ++ [58, 47, 47]), stripSuffix url uri with
  | some _, some pre => unescape (pre.drop (u.scheme.length + 3)) == some u.host
  | _, _ => false

end U

open Fabio.Model.C20Url in
def urlH : Handler := fun inp impl => do
  let u ← U.urlOfJson inp
  let ms := urlString u
  let m := Json.mkObj [("epath", U.l1 (escapedPath u)), ("rurl", U.l1 ms), ("uri", U.l1 (requestURI u)), ("url", U.l1 ms)]
  let ci := canonImpl impl
  if isPanicJ impl then
    return ({ model := m, agree := false, spec := false, nontrivial := true, tag := "panic" } : Verdict).toJson
  let url ← U.bytesOf ci "url"
  let rurl ← U.bytesOf ci "rurl"
  let uri ← U.bytesOf ci "uri"
  let pform := U.proxyForm u
  let sUri := u.opaq != [] || U.uriOk u uri
  let sUrl := !pform || (U.urlOk u url uri && rurl == url)
  let spec := !differsFromStd impl && sUri && sUrl
  let needsEsc := u.path.any (shouldEscape · .path) || u.host.any (shouldEscape · .host)
  let rawUsed := u.rawPath != [] && escapedPath u == u.rawPath
  let tag := if differsFromStd impl then "differs-from-net-url"
    else if !sUri then "uri-does-not-decode-to-path" else if !sUrl then "url-does-not-decode"
    else if !pform then (if u.opaq != [] then "opaque" else "general-form")
    else if rawUsed then "rawpath-kept" else if u.rawPath != [] then "rawpath-ignored"
    else if needsEsc then "escaped" else "plain"
  return ({ model := m, agree := m == ci, spec := spec,
            nontrivial := needsEsc || u.rawPath != [] || !pform, tag := tag } : Verdict).toJson

/-! ### whole requests through ServeHTTP -/

namespace S
open Fabio.Model.C20Url Fabio.Model.C20Serve Fabio.Model.C20Capture

def utf8 (s : String) : Bytes := s.toUTF8.toList.map (·.toNat)

def textOf (bs : Bytes) : String :=
  match String.fromUTF8? (ByteArray.mk (bs.map UInt8.ofNat).toArray) with
  | some s => s
  | none => "�(invalid UTF-8)"

def textL (bs : Bytes) : List Char := (textOf bs).toList

def fld (j : Json) (k : String) : Json := (j.getObjVal? k).toOption.getD Json.null
def strOf (j : Json) (k : String) : String := (j.getObjValAs? String k).toOption.getD ""
def bytesAt (j : Json) (k : String) : Bytes := utf8 (strOf j k)
def boolAt (j : Json) (k : String) : Bool := (j.getObjValAs? Bool k).toOption.getD false
def natAt (j : Json) (k : String) : Nat := (j.getObjValAs? Nat k).toOption.getD 0
def intAtK (j : Json) (k : String) : Int := (j.getObjValAs? Int k).toOption.getD 0
def natList (j : Json) (k : String) : List Nat := ((j.getObjValAs? (Array Nat) k).toOption.getD #[]).toList

/-- a `url.URL` written as text fields -/
def urlOfText (j : Json) : URL :=
  let uj := fld j "user"
  { scheme := bytesAt j "scheme", opaq := bytesAt j "opaque", host := bytesAt j "host", path := bytesAt j "path",
    rawPath := bytesAt j "rawpath", omitHost := boolAt j "omithost", forceQuery := boolAt j "forcequery",
    rawQuery := bytesAt j "query", fragment := bytesAt j "frag", rawFragment := bytesAt j "rawfrag",
    user := if uj.isNull then none else some (bytesAt uj "name", if (fld uj "pw").isNull then none else some (bytesAt uj "pw")) }

def headerOf (j : Json) : Header :=
  match j.getArr? with
  | .ok arr => arr.toList.map fun h => (utf8 (strOf h "k"), ((h.getObjValAs? (Array String) "v").toOption.getD #[]).toList.map utf8)
  | .error _ => []

/-- request headers as the handler receives them: canonical keys, the first entry of a key wins -/
def canonHeader (h : Header) : Header :=
  h.foldl (fun acc kv => let k := canonKey true kv.1; if acc.any (·.1 == k) then acc else acc ++ [(k, kv.2)]) []

def reqOf (j : Json) : Req :=
  let u := fld j "url"
  let t := fld j "tls"
  { remoteAddr := bytesAt j "remote", method := bytesAt j "method", requestURI := bytesAt j "uri", proto := bytesAt j "proto",
    host := bytesAt j "host", header := canonHeader (headerOf (fld j "hdr")),
    url := { path := bytesAt u "path", rawPath := bytesAt u "rawpath", rawQuery := bytesAt u "query", forceQuery := boolAt u "forcequery" },
    tls := if t.isNull then none else some { version := natAt t "ver", cipher := natAt t "cs" } }

def targetOf (j : Json) : Option Target :=
  if j.isNull then none else
  some { scheme := bytesAt j "scheme", host := bytesAt j "host", rawQuery := bytesAt j "query", stripPath := bytesAt j "strip",
         prependPath := bytesAt j "prepend", hostOpt := bytesAt j "hostopt", service := bytesAt j "svc",
         redirect := intAtK j "redirect" != 0, authorized := strOf j "auth" == "" }

def upOf (j : Json) : Upstream :=
  match strOf j "err" with
  | "" => if boolAt j "cut" then .cut (natList j "info") (natAt j "status") (natList j "chunks")
          else .response (natList j "info") (natAt j "status") (natList j "chunks")
  | "timeout" => .error .timeout | "net" => .error .net | "eof" => .error .eof | "canceled" => .error .canceled
  | _ => .error .other

def urlJ (u : URL) : Json :=
  Json.mkObj [("scheme", textOf u.scheme), ("opaque", textOf u.opaq), ("host", textOf u.host), ("path", textOf u.path),
    ("rawpath", textOf u.rawPath), ("forcequery", u.forceQuery), ("query", textOf u.rawQuery), ("frag", textOf u.fragment),
    ("user", u.user.isSome)]

/-- the event as JSON, headers restricted to the (canonical) names the format prints -/
def eventJ (names : List Bytes) (e : LogEvent) : Json :=
  Json.mkObj [("remote", textOf e.remoteAddr), ("method", textOf e.method), ("uri", textOf e.requestURI), ("proto", textOf e.proto),
    ("host", textOf e.host), ("hdr", Json.arr (names.map fun k => Json.arr #[textOf k, textOf (hget e.header k)]).toArray),
    ("rurl", urlJ e.requestURL), ("uurl", urlJ e.upstreamURL), ("uaddr", textOf e.upstreamAddr), ("usvc", textOf e.upstreamService),
    ("status", e.status), ("size", e.size)]

/-- the event ServeHTTP really built, as recorded by the harness -/
def implEvent (ev : Json) : LogEvent :=
  let rq := fld ev "req"
  { remoteAddr := bytesAt rq "remote", method := bytesAt rq "method", requestURI := bytesAt rq "uri", proto := bytesAt rq "proto",
    host := bytesAt rq "host", header := headerOf (fld rq "hdr"), requestURL := urlOfText (fld ev "rurl"),
    upstreamURL := urlOfText (fld ev "uurl"), upstreamAddr := bytesAt ev "uaddr", upstreamService := bytesAt ev "usvc",
    status := natAt ev "status", size := natAt ev "size" }

def viewOf (u : URL) : URLView :=
  { scheme := textL u.scheme, rawQuery := textL u.rawQuery, requestURI := textL (requestURI u), str := textL (urlString u) }

/-- the char-level `Event` of `Model/C20.lean` for a served event and the clock readings -/
def toEvent (e : LogEvent) (rview uview : URLView) (env : Json) : Event :=
  let t := ((env.getObjVal? "t").toOption.bind (·.getArr?.toOption)).getD #[]
  { hasRequest := true, remoteAddr := textL e.remoteAddr, method := textL e.method, requestURI := textL e.requestURI,
    proto := textL e.proto, host := textL e.host,
    header := some (e.header.map fun kv => (textL kv.1, kv.2.map textL)),
    requestURL := some rview, upstreamURL := some uview, upstreamAddr := textL e.upstreamAddr,
    upstreamService := textL e.upstreamService, status := e.status, contentLength := e.size,
    durNs := intAtK env "dur", unixNano := intAtK env "unixnano",
    year := intAt t 0, month := if t.size > 1 then intAt t 1 else 1, day := intAt t 2,
    hour := intAt t 3, minute := intAt t 4, second := intAt t 5, nanos := intAt t 6 }

def uuidShaped (s : String) : Bool :=
  let l := s.toList
  l.length == 36 && (List.range 36).all fun i =>
    match l[i]? with
    | some c => if [8, 13, 18, 23].contains i then c == '-' else isLowerHex c
    | none => false

/-- `Strict-Transport-Security` as the property wants it: `max-age=` + decimal digits + the configured
directives; the number is the configured one when an int32 holds it and not smaller than the largest int32
otherwise (a negative or wrapped number is what must not happen). -/
def stsOk (cfg : Cfg) (v : String) : Bool :=
  match v.toList.drop 0 |> (fun l => if l.take 8 == "max-age=".toList then some (l.drop 8) else none) with
  | none => false
  | some rest =>
    let ds := rest.takeWhile Char.isDigit
    let tail := rest.drop ds.length
    let n : Nat := ds.foldl (fun (a : Nat) c => a * 10 + (c.toNat - 48)) 0
    let wantTail := (if cfg.stsSubdomains then "; includeSubdomains" else "") ++ (if cfg.stsPreload then "; preload" else "")
    !ds.isEmpty && (ds.length == 1 || ds.head? != some '0') && String.ofList tail == wantTail &&
      (if cfg.stsMaxAge ≤ 2147483647 then (n : Int) == cfg.stsMaxAge else n ≥ 2147483647)

def fwdSuffix (t : TLSState) : String :=
  (if t.version > 0 then "; tlsver=" ++ (match tlsverName t.version with
      | some n => String.ofList n | none => String.ofList (Spec.hex4 t.version)) else "") ++
  (if t.cipher ≠ 0 then "; tlscipher=" ++ String.ofList (Spec.hex4 t.cipher) else "")

structure ReqVerdict where
  model : Json
  implView : Json
  spec : Bool
  tag : String
  logged : Bool
  reqid : Option String

def judge (cfg : Cfg) (gz : Bool) (items : List RItem) (rq out : Json) : ReqVerdict :=
  let format := items.flatMap itemSrc
  let names : List Bytes := (items.filter (·.kind == "header")).map fun it => canonKey true (utf8 (String.ofList it.v))
  let r := reqOf rq
  let tg := targetOf (fld rq "route")
  let up := upOf (fld rq "up")
  let upJ := fld out "up"
  let called := boolAt upJ "called"
  let seenId := strOf upJ "reqid"
  let env := fld out "env"
  let evJ := fld out "ev"
  let lines : List String := ((out.getObjValAs? (Array String) "lines").toOption.getD #[]).toList
  -- model
  -- with the gzip handler in the chain the body the client connection gets is the compressed one: its length is
  -- not modelled, the event must carry whatever the connection accepted (checked below on the observation)
  let served := match serve cfg r tg (utf8 seenId) up with
    | .logged e => .logged (if gz then { e with size := natAt (fld out "client") "body" } else e)
    | s => s
  let (mEv, mLines) : Json × List String := match served with
    | .logged e =>
      let ev := toEvent e (viewOf e.requestURL) (viewOf e.upstreamURL) env
      (eventJ names e, match newAndLog format ev with
        | .ok (.written o) => if o.isEmpty then [] else [String.ofList o]
        | _ => ["<model: no line>"])
    | _ => (Json.null, [])
  let reached := reachedHandler served   -- past addResponseHeaders
  let outJ : Option (Outcome (List Char)) → Json
    | some (.ok v) => strJ v
    | some (.panic _) => panicJson
    | none => Json.null
  let mSts := if reached then outJ (clientSTS r.tls.isSome cfg up) else Json.null
  let mFwd := if reached then outJ (r.tls.map forwardedTLS) else Json.null
  let mAborted := match served with | .aborted => true | _ => false
  let model := Json.mkObj [("ev", mEv), ("lines", Json.arr (mLines.map Json.str).toArray), ("sts", mSts), ("fwdtls", mFwd), ("aborted", mAborted)]
  let iEv := if evJ.isNull then Json.null else eventJ names (implEvent evJ)
  let fwdSeen := strOf upJ "fwd"
  let tlsPart : String := match (fwdSeen.splitOn "; tlsver="), (fwdSeen.splitOn "; tlscipher=") with
    | _ :: rest@(_ :: _), _ => "; tlsver=" ++ "; tlsver=".intercalate rest
    | _, _ :: rest@(_ :: _) => "; tlscipher=" ++ "; tlscipher=".intercalate rest
    | _, _ => ""
  let iFwd := if called && r.tls.isSome then Json.str tlsPart else Json.null
  let implView := Json.mkObj [("ev", iEv), ("lines", Json.arr (lines.map Json.str).toArray),
    ("sts", if called then fld (fld out "client") "sts" else Json.null), ("fwdtls", iFwd), ("aborted", boolAt out "aborted")]
  -- specification, on what was observed
  let client := fld out "client"
  let cStatus := natAt client "status"
  let nEvents := natAt out "events"
  let countOk := nEvents == (if evJ.isNull then 0 else 1) && natAt out "writes" == nEvents   -- one `Write` per event
  let mk (spec : Bool) (tag : String) : ReqVerdict :=
    { model := model, implView := implView, spec := spec, tag := tag, logged := !evJ.isNull,
      reqid := if called && cfg.requestID != [] then some seenId else none }
  if !countOk then mk false "event-or-write-count" else
  -- how the response ends: a body cut short by the upstream must reach the client as an aborted response (the
  -- handler's ErrAbortHandler passes through ServeHTTP), a whole one must not
  let isCut := match up with | .cut .. => true | _ => false
  let aborted := boolAt out "aborted"
  if aborted != (isCut && called) then mk false (if aborted then "aborted-without-cause" else "cut-response-delivered-as-complete") else
  if aborted then
    let partOk := boolAt out "twin_same" && natAt client "extra" == 0 && (match up with
      | .cut info st chunks => cStatus == st && natList client "infos" == info && (gz || natAt client "body" == chunks.sum)
      | _ => false)
    mk partOk (if partOk then "upstream-cut-aborted" else "client-did-not-get-upstream-response") else
  if called != !evJ.isNull then mk false (if called then "upstream-request-not-logged" else "logged-without-upstream") else
  if !boolAt out "twin_same" then mk false "response-differs-without-logger" else
  -- the response: what the upstream said is what the client got
  let transOk := !called || (natAt client "extra" == 0 && match up with
    | .response info st chunks => cStatus == st && natList client "infos" == info && (gz || natAt client "body" == chunks.sum)
    | .cut info st chunks => cStatus == st && natList client "infos" == info && (gz || natAt client "body" == chunks.sum)
    | .error e => cStatus == errStatus e && natAt client "body" == 0)
  if !transOk then mk false "client-did-not-get-upstream-response" else
  -- headers that go through the formatters
  let stsJ := fld client "sts"
  -- (the header must be there after a relayed informational response as well: 3162882)
  let stsWanted := r.tls.isSome && cfg.stsMaxAge > 0 && called
  let stsGood := match stsJ.getStr? with
    | .ok v => stsWanted && stsOk cfg v
    | .error _ => !stsWanted
  if !stsGood then mk false "sts-max-age" else
  let fwdGood := match r.tls with
    | some t => !called || (strOf upJ "fwd").endsWith (fwdSuffix t)
    | none => true
  if !fwdGood then mk false "forwarded-tls-parameters" else
  if evJ.isNull then mk (lines.isEmpty) (if lines.isEmpty then "answered-by-proxy" else "line-without-event") else
  -- the line: the standard library's rendering of the recorded event
  let e := implEvent evJ
  let rj := fld evJ "rurl"
  let uj := fld evJ "uurl"
  let goView (j : Json) : URLView :=
    { scheme := (strOf j "scheme").toList, rawQuery := (strOf j "query").toList, requestURI := (strOf j "uri").toList, str := (strOf j "str").toList }
  let ev := toEvent e (goView rj) (goView uj) env
  let tj := fld rq "t"
  let envOk := envMatchesInstant ev (intAtK tj "esec") (intAtK tj "ens") &&
    envMatchesArith ev (intAtK tj "ssec") (intAtK tj "sns") (intAtK tj "esec") (intAtK tj "ens") &&
    boolAt evJ "start_ok" && boolAt evJ "end_ok" && boolAt evJ "same_req"
  if !envOk then mk false "calendar-mismatch" else
  let urlModelOk := textOf (urlString e.requestURL) == strOf rj "str" && textOf (urlString e.upstreamURL) == strOf uj "str" &&
    textOf (requestURI e.upstreamURL) == strOf uj "uri"
  if !urlModelOk then mk false "url-model-mismatch" else
  let refs := items.map (refItem ev)
  let ref : List Char := (refs.map (·.getD [])).flatten
  let names' := (items.filter (·.kind == "field")).map fun it => String.ofList it.v
  let negDur := ev.durNs < 0 && names'.any (·.startsWith "$response_time")
  let want := String.ofList (ref ++ ['\n'])
  let std := strOf out "std"
  let lineOk := negDur || (refs.all (·.isSome) && lines == [want] && want == std ++ "\n")
  if ref.isEmpty then mk false "empty-rendering" else     -- D26: no line at all for a completed request
  if !lineOk then mk false "line-differs-from-stdlib-rendering" else
  -- the event: what happened
  if !(e.status == cStatus && e.size == natAt client "body") then mk false "status-or-size-not-what-the-client-got" else
  let seenURL := fld upJ "url"
  if e.upstreamAddr != bytesAt seenURL "host" then mk false "upstream-addr-differs" else
  let wantR : URL := { scheme := e.requestURL.scheme, host := r.host, path := r.url.path, rawPath := r.url.rawPath,
                       forceQuery := r.url.forceQuery, rawQuery := r.url.rawQuery }
  if strOf rj "str" != textOf (urlString wantR) then mk false "request-url-differs" else
  let idOk := cfg.requestID == [] || (uuidShaped seenId && textOf (hget e.header (canonKey true cfg.requestID)) == seenId)
  if !idOk then mk false "request-id" else
  -- (last: D-finding "upstream-url-empty-query" must not hide anything checked above)
  if strOf uj "str" != strOf seenURL "str" then
    mk false (if r.url.forceQuery && (urlOfText seenURL).rawQuery == [] then "upstream-url-empty-query" else "upstream-url-differs") else
  mk true (match up with
    | .response info _ _ => if gz then "logged-gzip-configured" else if info.isEmpty then "logged" else "logged-after-informational"
    | .cut .. => "upstream-cut"
    | .error _ => "upstream-error")

end S

def serveH : Handler := fun inp impl => do
  let itemsJ ← inp.getObjValAs? (Array Json) "items"
  let items ← itemsJ.toList.mapM fun j => do
    let k ← j.getObjValAs? String "k"
    let v ← j.getObjValAs? String "v"
    pure ({ kind := k, v := v.toList } : RItem)
  let cfgJ := S.fld inp "cfg"
  let cfg : Fabio.Model.C20Serve.Cfg :=
    { requestID := S.bytesAt cfgJ "reqid", stsMaxAge := S.intAtK cfgJ "sts", stsSubdomains := S.boolAt cfgJ "sub", stsPreload := S.boolAt cfgJ "pre" }
  let reqs := ((inp.getObjValAs? (Array Json) "reqs").toOption.getD #[]).toList
  if isPanicJ impl then
    return ({ model := Json.null, agree := false, spec := false, nontrivial := true, tag := "panic" } : Verdict).toJson
  let format := items.flatMap itemSrc
  if (impl.getObjVal? "new_err").toOption.isSome then
    let mErr : Bool := match parse format with
      | .ok (.ok (_ :: _)) => false
      | _ => true
    return ({ model := Json.mkObj [("new_err", mErr)], agree := mErr, spec := !wellSeparated items || mErr, nontrivial := false, tag := "new-error" } : Verdict).toJson
  let outs := ((impl.getObjValAs? (Array Json) "reqs").toOption.getD #[]).toList
  if outs.length != reqs.length then throw "impl: wrong number of requests"
  let vs := (reqs.zip outs).map fun (rq, out) => S.judge cfg (S.boolAt cfgJ "gzip") items rq out
  let model := Json.mkObj [("reqs", Json.arr (vs.map (·.model)).toArray)]
  let implV := Json.mkObj [("reqs", Json.arr (vs.map (·.implView)).toArray)]
  let ids := vs.filterMap (·.reqid)
  let idsDistinct := ids.eraseDups.length == ids.length
  let firstBad := (vs.filter (!·.spec)).head?
  let sep := wellSeparated items
  let spec := !sep || (vs.all (·.spec) && idsDistinct)
  let tag := if !sep then "ill-separated" else match firstBad with
    | some v => v.tag
    | none => if !idsDistinct then "request-id-repeated" else match vs with
      | [v] => v.tag
      | _ => "several-requests"
  return ({ model := model, agree := model == implV, spec := spec, nontrivial := sep && vs.any (·.logged), tag := tag } : Verdict).toJson

/-! ### uuid.NewUUID as the request path calls it -/

def newuuidH : Handler := fun inp impl => do
  let n ← inp.getObjValAs? Nat "n"
  let workers ← inp.getObjValAs? Nat "workers"
  if n > 2000 || workers > 32 then throw "n/workers out of range"
  let total := n * workers
  if isPanicJ impl then
    return ({ model := Json.null, agree := false, spec := false, nontrivial := true, tag := "panic" } : Verdict).toJson
  let ids := ((impl.getObjValAs? (Array String) "ids").toOption.getD #[]).toList
  let dec (s : String) : Option (Nat × List UInt8) :=
    if !S.uuidShaped s then none else
    match hexDecode (s.toList.filter (· != '-')) with
    | some bytes =>
      if bytes.length != 16 then none
      else some ((bytes.take 8).reverse.foldl (fun a x => a * 256 + x.toNat) 0, bytes.drop 8)
    | none => none
  let ds := ids.map dec
  let shaped := ds.all (·.isSome)
  let ok := ds.filterMap id
  let ctrs := ok.map (·.1)
  let rests := (ok.map (·.2)).eraseDups
  let m64 : Nat := 18446744073709551616
  -- the first counter of the run: the one whose predecessor was not handed out in this case
  let base := (ctrs.filter fun c => !ctrs.contains ((c + m64 - 1) % m64)).head?
  let predicted : Option (List String) := match base, rests with
    | some c, [rest] =>
      let seed := List.replicate 8 (0 : UInt8) ++ rest ++ List.replicate 8 (0 : UInt8)
      (List.range total).mapM fun k => match Fabio.Model.C20Serve.newUUID seed (c + k) with
        | .ok s => some (String.ofList s)
        | .panic _ => none
    | _, _ => if total == 0 then some [] else none
  let sortS (l : List String) : List String := l.mergeSort (fun a b => decide (a ≤ b))
  let m : Json := match predicted with
    | some p => Json.mkObj [("ids", Json.arr ((sortS p).map Json.str).toArray)]
    | none => Json.mkObj [("ids", Json.null)]
  let ci := Json.mkObj [("ids", Json.arr (ids.map Json.str).toArray)]
  let distinct := ids.eraseDups.length == ids.length
  let consecutive := (ctrs.filter fun c => !ctrs.contains ((c + m64 - 1) % m64)).length ≤ 1
  let spec := ids.length == total && shaped && distinct && rests.length ≤ 1 && consecutive
  let tag := if ids.length != total then "wrong-number-of-ids" else if !shaped then "bad-shape"
    else if !distinct then "id-repeated" else if rests.length > 1 then "constant-part-changed"
    else if !consecutive then "counter-not-consecutive"
    else if workers ≥ 2 then "concurrent" else "sequential"
  return ({ model := m, agree := m == ci, spec := spec, nontrivial := total ≥ 2, tag := tag } : Verdict).toJson

def streams : List (String × Handler) := [
  ("c20.atoi", atoiH), ("c20.i32toa", i32toaH), ("c20.i32block", i32blockH), ("c20.i32sweep", i32sweepH), ("c20.uint16", uint16H),
  ("c20.uuid", uuidH), ("c20.hostport", hostportH), ("c20.parse", parseH), ("c20.render", renderH), ("c20.concurrent", concurrentH),
  ("c20.capture", captureH), ("c20.reentrant", reentrantH),
  ("c20.url", urlH), ("c20.serve", serveH), ("c20.newuuid", newuuidH)]
end Fabio.Driver.C20
