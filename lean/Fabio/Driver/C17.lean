import Fabio.Driver.Proto
import Fabio.Model.C17
import Fabio.Model.C17Proxy
import Fabio.Model.C17Fault
/-!
Driver for C17. One case = one scripted upstream response served through the real `NewGzipHandler`
(`got`) and through the bare scripted handler (`base`), either into a recorder or over a real server.

* `agree`: the model's prediction (compressed?, status, outgoing header map, decoded body) equals what the
  implementation produced. The compressor instance used here is the identity framing (`decode = id`), so the
  model's body is the decoded body; the real bytes were gunzipped on the Go side.
* `spec`: the property itself, evaluated on the implementation's output against the bare run and the request:
  status preserved; if anything was changed (body or Content-Encoding) then the client accepts gzip in the
  RFC 9110 sense (listed with a non-zero weight — NOT the coded substring/element test), the type matches, the
  upstream had no encoding, the response says `Content-Encoding: gzip`, has no Content-Length other than the
  length of what is on the wire, gunzips to exactly the bare body, and keeps every upstream header; otherwise
  headers and body are those of the bare run (plus the `Vary` line).
-/
namespace Fabio.Driver.C17
open Lean Fabio.Driver Fabio.Model.C17

/-! JSON helpers -/

def hexVal (c : Char) : Option Nat :=
  if '0' ≤ c ∧ c ≤ '9' then some (c.toNat - 48)
  else if 'a' ≤ c ∧ c ≤ 'f' then some (c.toNat - 87)
  else if 'A' ≤ c ∧ c ≤ 'F' then some (c.toNat - 55) else none

def unhex : List Char → Option Bytes
  | [] => some []
  | [_] => none
  | a :: b :: r => do
    let x ← hexVal a
    let y ← hexVal b
    let t ← unhex r
    pure (UInt8.ofNat (x * 16 + y) :: t)

def hexDigit (n : Nat) : Char := if n < 10 then Char.ofNat (48 + n) else Char.ofNat (87 + n)
def tohex (b : Bytes) : String := String.ofList (b.flatMap (fun x => [hexDigit (x.toNat / 16), hexDigit (x.toNat % 16)]))

def pairs (j : Json) : Except String (List (String × String)) := do
  let a ← j.getArr?
  a.toList.mapM (fun p => do
    let q ← p.getArr?
    match q.toList with
    | [k, v] => pure ((← k.getStr?), (← v.getStr?))
    | _ => throw "pair expected")

structure Blob where
  len : Nat
  sha : String
  hex : String
  big : Bool
deriving BEq

def blobOf (j : Json) : Except String Blob := do
  pure { len := ← j.getObjValAs? Nat "len", sha := ← j.getObjValAs? String "sha",
         hex := ← j.getObjValAs? String "hex", big := ← j.getObjValAs? Bool "big" }

structure Resp where
  status : Nat
  hdr : List (String × String)
  body : Blob
  gunzip : Option (Bool × Blob)
  err : String := ""
  trailer : List (String × String) := []

def respOf (j : Json) : Except String Resp := do
  let g := (j.getObjVal? "gunzip").toOption.getD Json.null
  let gz ← if g.isNull then pure none else do
    let ok ← g.getObjValAs? Bool "ok"
    pure (some (ok, ← blobOf g))
  pure { status := ← j.getObjValAs? Nat "status", hdr := ← pairs (← j.getObjVal? "hdr"),
         body := ← blobOf (← j.getObjVal? "body"), gunzip := gz,
         err := (j.getObjValAs? String "err").toOption.getD "",
         trailer := ← (match j.getObjVal? "trailer" with
           | .ok t => if t.isNull then pure [] else pairs t
           | .error _ => pure []) }

/-- a written chunk: its bytes when shipped in hex, otherwise only its length. -/
structure Chunk where
  bytes : Option Bytes
  len : Nat

inductive SOp where
  | h (o : Op)
  | wh (c : Nat)
  | w (c : Chunk)
  | fl

def opOf (j : Json) : Except String SOp := do
  let op ← j.getObjValAs? String "op"
  let k := (j.getObjValAs? String "k").toOption.getD ""
  let v := (j.getObjValAs? String "v").toOption.getD ""
  match op with
  | "set" => pure (.h (.set k v))
  | "add" => pure (.h (.add k v))
  | "del" => pure (.h (.del k))
  | "nil" => pure (.h (.unset k))   -- `w.Header()[CanonicalHeaderKey(k)] = nil`
  | "wh" => pure (.wh ((j.getObjValAs? Nat "code").toOption.getD 0))
  | "fl" => pure .fl
  | "rc" => pure .fl   -- `http.NewResponseController(w).Flush()`: same capability question, asked the way ReverseProxy asks it
  | "w" =>
    let hx := (j.getObjValAs? String "hex").toOption.getD ""
    let n := (j.getObjValAs? Nat "len").toOption.getD 0
    if hx != "" then
      match unhex hx.toList with
      | some b => pure (.w { bytes := some b, len := b.length })
      | none => throw "bad hex"
    else if n == 0 then pure (.w { bytes := some [], len := 0 })
    else pure (.w { bytes := none, len := n })
  | _ => throw s!"op {op}"

structure Case where
  layer : String
  method : String
  req : List (String × String)
  ops : List SOp
  got : Resp
  base : Resp
  sniff : String
  matchTab : List (String × String)
  up : Blob
  nw : Nat
  canFlush : Bool
  /-- stream c17.proxy: is an expression configured, and the response as the transport delivered it -/
  proxy : Option (Bool × UpResp) := none

def caseOf (inp impl : Json) : Except String Case := do
  let orc ← impl.getObjVal? "oracle"
  let opsJ ← (← inp.getObjVal? "ops").getArr? <|> pure #[]
  pure { layer := ← inp.getObjValAs? String "layer", method := ← inp.getObjValAs? String "method",
         req := ← pairs (← inp.getObjVal? "req"), ops := ← opsJ.toList.mapM opOf,
         got := ← respOf (← impl.getObjVal? "got"), base := ← respOf (← impl.getObjVal? "base"),
         sniff := ← orc.getObjValAs? String "sniff", matchTab := ← pairs (← orc.getObjVal? "match"),
         up := ← blobOf (← orc.getObjVal? "up"), nw := ← orc.getObjValAs? Nat "nw",
         canFlush := (orc.getObjValAs? Bool "canflush").toOption.getD false }

/-! the model instance -/

/-- identity framing: what is "emitted" is the input, `decode` is the identity. -/
def idComp : Comp Unit := { reset := id, write := fun z b => (z, b), close := fun z => (z, []), decode := some }

def cfgOf (c : Case) : Cfg Unit :=
  { typeOk := fun ct => (c.matchTab.lookup ct) == some "1", sniff := fun _ => c.sniff, comp := idComp, fresh := () }

def modelOps (c : Case) : List Op := c.ops.map (fun
  | .h o => o
  | .wh k => .wh k
  | .fl => .fl
  | .w ch => .w (ch.bytes.getD []))

def hasOpaque (c : Case) : Bool := c.ops.any (fun | .w ch => ch.bytes.isNone | _ => false)
def totalLen (c : Case) : Nat := (c.ops.map (fun | .w ch => ch.len | _ => 0)).sum

def reqHdr (req : List (String × String)) : Hdr := req.foldl (fun h p => hadd h p.1 p.2) []

def insertKV (p : String × List String) : List (String × List String) → List (String × List String)
  | [] => [p]
  | q :: r => if p.1 < q.1 then p :: q :: r else q :: insertKV p r
def flatHdr (h : Hdr) : List (String × String) :=
  (h.foldl (fun acc p => insertKV p acc) []).flatMap (fun p => p.2.map (fun v => (p.1, v)))
/-- a map entry with no values is not on the wire -/
def pairsJson (l : List (String × String)) : Json := Json.arr (l.map (fun p => Json.arr #[Json.str p.1, Json.str p.2])).toArray

def valuesOf (h : List (String × String)) (k : String) : List String := (h.filter (·.1 == k)).map (·.2)
def without (h : List (String × String)) (ks : List String) : List (String × String) := h.filter (fun p => !ks.contains p.1)

def bodiless (c : Case) (status : Nat) : Bool := c.layer == "srv" && (c.method == "HEAD" || status == 204 || status == 304)

/-- does the blob hold the bytes the scripted handler wrote (or nothing, for a bodiless response)? -/
def blobIs (c : Case) (b : Blob) (expected : Bytes) (empty : Bool) : Bool :=
  if empty then b.len == 0
  else if hasOpaque c then b.len == totalLen c && b.sha == c.up.sha
  else b.len == expected.length && (if b.big then b.sha == c.up.sha else b.hex == tohex expected)

def sameBlob (a b : Blob) : Bool := a.len == b.len && a.sha == b.sha && a.hex == b.hex

/-! the RFC 9110 reading of "the client accepts gzip" (independent of the coded test) -/

def qOf (params : List Char) : Option (List Char) :=
  ((splitOn ';' params).filterMap (fun p =>
    let n := trim (cut '=' p).1
    if n == ['q'] || n == ['Q'] then some (trim (cut '=' p).2) else none)).head?

/-- a well-formed zero weight in the RFC's own grammar, read generously: digits with at most one point, at
least one digit, every digit `0` (`0`, `0.`, `0.000`, `.0`). -/
def plainZero (q : List Char) : Bool :=
  let ds := q.filter (· != '.')
  decide (q.length - ds.length ≤ 1) && !ds.isEmpty && ds.all (· == '0')

/-- the element does not refuse the coding: no weight, or a weight that is not a well-formed zero. A malformed
weight (`q`, `q=`, `q=0.0.0`, `q=0e0` …) is no weight in the RFC's grammar: the statement does not say what to do
with it, either behaviour is accepted (the model still has to predict the code's: `agree`). -/
def positive (params : List Char) : Bool :=
  match qOf params with
  | none => true
  | some q => !(plainZero q)

def rfcAccepts (req : List (String × String)) : Bool :=
  let vals := (req.filter (fun p => lowerL p.1.toList == "accept-encoding".toList)).map (·.2)
  let elems := vals.flatMap (fun v => splitOn ',' v.toList)
  let named (n : String) := elems.filter (fun e => lowerL (trim (cut ';' e).1) == n.toList)
  match named "gzip" ++ named "x-gzip" with
  | e :: _ => positive (cut ';' e).2
  | [] => match named "*" with
    | e :: _ => positive (cut ';' e).2
    | [] => false

/-- the client names `text/event-stream` as a media type it consumes: some element of its `Accept` list (split at
`,`, parameters cut at `;`, optional white space trimmed) is exactly that type. Independent of the coded test (a
substring search, which refuses more). Compression is configured for ordinary responses; a consumer of
server-sent events reads the stream event by event and is the one kind of client the handler must leave alone —
"the client accepts gzip" in the statement is quantified over the Accept header for this reason. -/
def consumesEventStream (req : List (String × String)) : Bool :=
  let vals := (req.filter (fun p => lowerL p.1.toList == "accept".toList)).map (·.2)
  (vals.flatMap (fun v => splitOn ',' v.toList)).any (fun e => trim (cut ';' e).1 == "text/event-stream".toList)

/-- the upstream's own header map at its first deciding call (no sniffed type filled in), or at the end -/
def rawAt (cf : Bool) : List Op → Hdr → Hdr
  | [], h => h
  | .wh c :: r, h => if informational c then rawAt cf r h else h
  | .w _ :: _, h => h
  | .fl :: r, h => if cf then h else rawAt cf r h
  | o :: r, h => rawAt cf r (hop o h)

/-- is the first deciding call a `Write`? -/
def implicitFirst (cf : Bool) : List Op → Bool
  | [] => false
  | .wh c :: r => if informational c then implicitFirst cf r else false
  | .w _ :: _ => true
  | .fl :: r => if cf then false else implicitFirst cf r
  | _ :: r => implicitFirst cf r

/-! evaluation of one case -/

structure Eval where
  model : Json
  agree : Bool
  spec : Bool
  nontrivial : Bool
  tag : String

def evalCase (c : Case) : Eval :=
  let C := cfgOf c
  let ops := modelOps c
  let head := c.method == "HEAD"
  let gzOn := match c.proxy with | some (gz, _) => gz | none => true
  let r : Served Unit := match c.proxy with
    | none => serve C head true (reqHdr c.req) [] [] ops
    | some (gz, u) =>
      let p := proxyServe C gz head true (reqHdr c.req) [] [] u
      { compressed := p.compressed, obs := p.obs, pool := p.pool }
  let hasFl := ops.any (· == Op.fl)
  let has1xx := ops.any (fun | .wh k => informational k | _ => false)
  -- did the handler get a Flusher? predicted by the model; observed by the harness (the bare run mirrors it)
  let cfModel := flusherOffered head true (reqHdr c.req)
  let cf := if c.proxy.isSome then cfModel else c.canFlush
  let mh := flatHdr r.obs.hdr
  let noBody := bodiless c r.obs.status
  let model := Json.mkObj [("compressed", r.compressed), ("status", r.obs.status), ("hdr", pairsJson mh),
    ("body", if hasOpaque c then Json.null else Json.str (tohex (if noBody then [] else r.obs.body)))]
  -- agreement
  let got := c.got
  let base := c.base
  let bodyAgree :=
    if r.compressed then
      (match got.gunzip with
       | some (true, b) => blobIs c b r.obs.body false
       | some (false, _) => noBody && got.body.len == 0
       | none => false)
    else blobIs c got.body r.obs.body noBody
  -- specification on the implementation's own output
  let ce (x : Resp) := valuesOf x.hdr hContentEncoding
  let ct (x : Resp) := valuesOf x.hdr hContentType
  let changed := !(sameBlob got.body base.body) || ce got != ce base
  let statusOk := got.status == base.status
  let varyOk := valuesOf got.hdr hVary == valuesOf base.hdr hVary ||
                valuesOf got.hdr hVary == hAcceptEncoding :: valuesOf base.hdr hVary
  let dec := decision C cf [] ops   -- upstream header map at the first deciding call (spec's own fold, no Vary)
  let upH : List (String × String) := match dec with
    | some (h, _) => flatHdr h
    | none => flatHdr (hops ops [])
  -- the upstream's own header map at that moment (before any sniffed Content-Type is filled in)
  let upRaw : List (String × String) := flatHdr (rawAt cf ops [])
  let typeOk := match dec with
    | some (h, _) => C.typeOk (hget h hContentType)
    | none => false
  let upEncoded := valuesOf upH hContentEncoding != [] && valuesOf upH hContentEncoding != [""]
  let implicit := implicitFirst cf ops
  let engaged := gzOn && acceptsGzip (reqHdr c.req) && !head
  let hdrAgree :=
    if c.layer == "rec" then got.hdr == mh
    else
      let loose := [hContentLength, hContentType, "Connection"]
      without got.hdr loose == without mh loose &&
        (r.obs.status == 204 || r.obs.status == 304 ||
          -- the Content-Type line is the handler's (not net/http's own sniffing) when the upstream set one or the wrapper is engaged
          ((valuesOf mh hContentType == [] || !(engaged || valuesOf upRaw hContentType != []) ||
              valuesOf mh hContentType == valuesOf got.hdr hContentType) &&
           (valuesOf mh hContentLength == [] || valuesOf mh hContentLength == valuesOf got.hdr hContentLength)))
  let agree := got.status == r.obs.status && hdrAgree && bodyAgree && got.err == "" && (!hasFl || cf == cfModel)
  let (spec, ftag) : Bool × String :=
    if got.err != "" then (false, "transport-error")
    else if !statusOk then (false, "status-changed")
    else if got.trailer != base.trailer then (false, "trailer-changed")
    else if !changed then
      let rest := [hVary, hContentType]
      -- over a real server a Content-Length that the handler did not declare is net/http's framing (it appears when the
      -- whole response was buffered, and not when the handler's Flush went through): when the upstream declared none it is judged by "it is the length of
      -- what is on the wire", not by equality with the other run
      let framing := c.layer == "srv" && valuesOf upRaw hContentLength == [] &&
        (valuesOf got.hdr hContentLength == [] || valuesOf got.hdr hContentLength == [toString got.body.len] || bodiless c got.status)
      let rest := if framing then hContentLength :: rest else rest
      if without got.hdr rest != without base.hdr rest then (false, "header-changed")
      else if !varyOk then (false, "vary-changed")
      else if ct got != ct base then (false, "sniffed-type-differs")
      else (true, "")
    else
      if !(rfcAccepts c.req) then (false, "compressed-not-accepted")
      else if consumesEventStream c.req then (false, "compressed-for-event-stream-client")
      else if !typeOk then (false, "compressed-type-mismatch")
      else if upEncoded then (false, "compressed-already-encoded")
      else if ce got != [encGzip] then (false, "changed-not-labelled")
      else if valuesOf got.hdr hContentLength != [] &&
              (c.layer == "rec" || valuesOf got.hdr hContentLength != [toString got.body.len]) then (false, "stale-content-length")
      else match got.gunzip with
        | some (true, b) =>
          if !(sameBlob b base.body) then (false, "roundtrip-mismatch")
          else
            let keep := without upRaw [hContentLength, hContentEncoding, hVary]
            let keepT := if bodiless c got.status then without keep [hContentType] else keep
            if !(keepT.all (fun p => got.hdr.contains p)) || without got.hdr [hContentLength, hContentEncoding, hVary, hContentType] != without keep [hContentType] then (false, "header-changed")
            else if !varyOk then (false, "vary-changed")
            else if ct got != [] && ct base != [] && ct got != ct base then (false, "sniffed-type-differs")
            else (true, "")
        | _ => (false, if bodiless c got.status then "bodiless-labelled-gzip" else "labelled-but-undecodable")
  let aeAll := String.intercalate "," ((c.req.filter (fun p => lowerL p.1.toList == "accept-encoding".toList)).map (·.2))
  let tag :=
    if ftag != "" then ftag
    else (if has1xx then "1xx+" else "") ++ (if hasFl then "flush+" else "") ++
    if r.compressed then (if implicit then "gzip/implicit" else "gzip/explicit")
    else if !gzOn then "plain/not-configured"
    else if !(acceptsGzip (reqHdr c.req)) then (if containsL aeAll.toList encGzip.toList then "plain/refused" else "plain/no-accept")
    else if head then "plain/head"
    else match dec with
      | none => "plain/no-write"
      | some (h, code) =>
        if !(bodyAllowedForStatus code) then "plain/bodiless-status"
        else if hget h hContentEncoding != "" then "plain/encoded"
        else "plain/type"
  { model := model, agree := agree, spec := spec,
    nontrivial := containsL aeAll.toList encGzip.toList && c.nw ≥ 1 && c.up.len ≥ 1, tag := tag }

def respH : Handler := fun inp impl => do
  match impl.getObjVal? "got" with
  | .error _ => -- harness_error / panic: the real code crashed or the input is nonsense
    let isPanic := (impl.getObjVal? "panic").toOption.isSome
    return ({ model := Json.null, agree := !isPanic, spec := !isPanic, nontrivial := false,
              tag := if isPanic then "panic" else "rejected-input" } : Verdict).toJson
  | .ok _ =>
    let c ← caseOf inp impl
    let e := evalCase c
    return ({ model := e.model, agree := e.agree, spec := e.spec, nontrivial := e.nontrivial, tag := e.tag } : Verdict).toJson

def poolH : Handler := fun inp impl => do
  match impl.getArr? with
  | .error _ =>
    let isPanic := (impl.getObjVal? "panic").toOption.isSome
    return ({ model := Json.null, agree := !isPanic, spec := !isPanic, nontrivial := false,
              tag := if isPanic then "panic" else "rejected-input" } : Verdict).toJson
  | .ok outs =>
    let reqs ← (← inp.getObjVal? "reqs").getArr?
    if reqs.size != outs.size then throw "pool: size mismatch"
    let es ← (reqs.toList.zip outs.toList).mapM (fun (i, o) => do pure (evalCase (← caseOf i o)))
    let bad := es.find? (fun e => !e.spec || !e.agree)
    let nz := (es.filter (fun e => e.tag.startsWith "gzip/")).length
    return ({ model := Json.arr (es.map (·.model)).toArray, agree := es.all (·.agree), spec := es.all (·.spec),
              nontrivial := nz ≥ 2 && es.length ≥ 8,
              tag := match bad with
                | some e => "pool/" ++ e.tag
                | none => "pool" } : Verdict).toJson

/-- c17.seq: every exchange of the sequence judged on its own — the model says a response does not depend on what
the same handler value served before (`history_independent`). -/
def seqH : Handler := fun inp impl => do
  match impl.getArr? with
  | .error _ =>
    let isPanic := (impl.getObjVal? "panic").toOption.isSome
    return ({ model := Json.null, agree := !isPanic, spec := !isPanic, nontrivial := false,
              tag := if isPanic then "panic" else "rejected-input" } : Verdict).toJson
  | .ok outs =>
    let items ← (← inp.getObjVal? "items").getArr?
    if items.size != outs.size then throw "seq: size mismatch"
    let es ← (items.toList.zip outs.toList).mapM (fun (i, o) => do pure (evalCase (← caseOf i o)))
    let bad := es.find? (fun e => !e.spec || !e.agree)
    let nz := (es.filter (·.nontrivial)).length
    let gz := (es.filter (fun e => e.tag.endsWith "gzip/implicit" || e.tag.endsWith "gzip/explicit")).length
    return ({ model := Json.arr (es.map (·.model)).toArray, agree := es.all (·.agree), spec := es.all (·.spec),
              nontrivial := nz ≥ 2 && es.length ≥ 3,
              tag := match bad with
                | some e => "seq/" ++ e.tag
                | none => if gz == 0 then "seq/none-compressed" else if gz == es.length then "seq/all-compressed" else "seq/mixed" } : Verdict).toJson

/-! c17.fault -/

structure FaultObs where
  cap : Nat
  status : Nat
  hdr : List (String × String)
  body : Blob
  isPrefix : Bool

def faultOf (j : Json) : Except String (Option FaultObs) := do
  let f := (j.getObjVal? "fault").toOption.getD Json.null
  if f.isNull then pure none else
    pure (some { cap := ← f.getObjValAs? Nat "cap", status := ← f.getObjValAs? Nat "status",
                 hdr := ← pairs (← f.getObjVal? "hdr"), body := ← blobOf (← f.getObjVal? "body"),
                 isPrefix := ← f.getObjValAs? Bool "prefix" })

/-- the script in segments: up to the first `Write`, then from each `Write` up to the next. -/
def splitWrites : List Op → List (List Op)
  | [] => [[]]
  | o :: r =>
    match splitWrites r with
    | [] => [[o]]   -- unreachable
    | s0 :: rest => (match o with
      | .w _ => [] :: (o :: s0) :: rest
      | _ => (o :: s0) :: rest)

structure FItem where
  C : Cfg Unit
  engaged : Bool
  ops : List Op
  parent : Int
  pos : Nat

/-- what serving exchange `i` of the schedule — with everything served from inside its handler — does to the pool:
the model's `engagedP` (the script in segments, the inner exchanges' effects in between). -/
def poolEffect (items : Array FItem) : Nat → Nat → List Unit → List Unit
  | 0, _, p => p
  | fuel + 1, i, p =>
    match items[i]? with
    | none => p
    | some it =>
      let segsOps := splitWrites it.ops
      let nw := segsOps.length - 1
      let kidsAt (k : Nat) : List Nat :=
        (List.range items.size).filter (fun c => match items[c]? with
          | some ci => ci.parent == Int.ofNat i && min ci.pos nw == k
          | none => false)
      let segs := (segsOps.zip (List.range segsOps.length)).map (fun (seg, k) =>
        (seg, fun (q : List Unit) => (kidsAt k).foldl (fun q c => poolEffect items fuel c q) q))
      if it.engaged then (engagedP it.C (hadd [] hVary hAcceptEncoding) p segs).pool
      else segs.foldl (fun q sg => sg.2 q) p

/-- c17.fault: a schedule of exchanges over one handler value — one after the other, or served from inside another
exchange's handler (in flight at the same time) — some of them to a client that goes away after `cap` body bytes.
Every exchange is judged on its own (`Props.C17Fault`: a response depends neither on what was served before, nor on
what is in flight, nor on clients that left); what a departed client got is `Down.cut cap` of what a patient client
gets from the same exchange: same status, same header map, the first `cap` bytes. -/
def faultH : Handler := fun inp impl => do
  match impl.getObjVal? "outs" with
  | .error _ =>
    let isPanic := (impl.getObjVal? "panic").toOption.isSome
    return ({ model := Json.null, agree := !isPanic, spec := !isPanic, nontrivial := false,
              tag := if isPanic then "panic" else "rejected-input" } : Verdict).toJson
  | .ok outsJ =>
    let outs ← outsJ.getArr?
    let items ← (← inp.getObjVal? "items").getArr?
    if items.size != outs.size then throw "fault: size mismatch"
    let poolJ ← impl.getObjVal? "pool"
    let poolN ← poolJ.getObjValAs? Nat "n"
    let poolTwice ← poolJ.getObjValAs? Bool "twice"
    let es ← (items.toList.zip outs.toList).mapM (fun (i, o) => do
      let c ← caseOf i o
      let c := { c with layer := "rec" }   -- this stream has the recorder layer only
      let e := evalCase c
      let f ← faultOf o
      let parent := (i.getObjValAs? Int "parent").toOption.getD (-1)
      let nested := decide (parent ≥ 0)
      -- the departed client: the patient client's response, cut (`client_gone_gets_prefix`)
      let gone := match f with
        | none => true
        | some f => f.status == c.got.status && f.hdr == c.got.hdr && f.isPrefix &&
                    f.body.len == min f.cap c.got.body.len
      let fi : FItem := { C := cfgOf c, engaged := acceptsGzip (reqHdr c.req) && c.method != "HEAD", ops := modelOps c,
                          parent := parent, pos := (i.getObjValAs? Nat "at").toOption.getD 0 }
      pure (e, f.isSome, nested, gone, fi))
    let fitems := (es.map (fun (_, _, _, _, fi) => fi)).toArray
    -- the pool after the schedule, from the empty pool: the top-level exchanges one after the other
    let predicted := ((List.range fitems.size).filter (fun i => match fitems[i]? with
        | some fi => fi.parent < 0
        | none => false)).foldl (fun p i => poolEffect fitems (fitems.size + 1) i p) []
    -- the harness runs the schedule on one P with the collector off: sync.Pool then holds exactly what was put in and
    -- not taken out, which is the model's pool — the same number of writers, none of them twice
    let poolAgree := poolN == predicted.length
    let bad := es.find? (fun (e, _, _, gone, _) => !e.spec || !e.agree || !gone)
    let gz := (es.filter (fun (e, _, _, _, _) => e.tag.endsWith "gzip/implicit" || e.tag.endsWith "gzip/explicit")).length
    let anyGone := es.any (fun (_, f, _, _, _) => f)
    let anyNested := es.any (fun (_, _, n, _, _) => n)
    return ({ model := Json.mkObj [("items", Json.arr (es.map (fun (e, _, _, _, _) => e.model)).toArray), ("pool", predicted.length)],
              agree := es.all (fun (e, _, _, gone, _) => e.agree && gone) && poolAgree,
              spec := es.all (fun (e, _, _, _, _) => e.spec) && !poolTwice,
              nontrivial := gz ≥ 2 && (anyGone || anyNested),
              tag := if poolTwice then "fault/writer-twice-in-pool" else match bad with
                | some (e, _, _, gone, _) => if !e.spec || !e.agree then "fault/" ++ e.tag else if !gone then "fault/departed-client-differs" else "fault"
                | none => if !poolAgree then "fault/pool-differs-from-model" else
                          "fault/" ++ (if anyGone then "client-gone+" else "") ++ (if anyNested then "in-flight+" else "") ++
                          (if gz == 0 then "none-compressed" else if gz == es.length then "all-compressed" else "mixed") } : Verdict).toJson

/-! c17.proxy -/

structure Tr where
  info : List (Nat × List (String × String))
  status : Nat
  hdr : List (String × String)
  body : Blob
  uncompressed : Bool

def trOf (j : Json) : Except String Tr := do
  let infos ← (← j.getObjVal? "info").getArr?
  let info ← infos.toList.mapM (fun i => do
    pure ((← i.getObjValAs? Nat "code"), (← pairs (← i.getObjVal? "hdr"))))
  pure { info := info, status := ← j.getObjValAs? Nat "status", hdr := ← pairs (← j.getObjVal? "hdr"),
         body := ← blobOf (← j.getObjVal? "body"), uncompressed := ← j.getObjValAs? Bool "uncompressed" }

def Tr.same (a b : Tr) : Bool :=
  a.info == b.info && a.status == b.status && a.hdr == b.hdr && sameBlob a.body b.body && a.uncompressed == b.uncompressed

structure Seen where
  n : Nat
  ae : List String
  accept : List String
deriving BEq

def seenOf (j : Json) : Except String Seen := do
  let strs (k : String) : Except String (List String) := do
    let a ← (← j.getObjVal? k).getArr?
    a.toList.mapM (·.getStr?)
  pure { n := ← j.getObjValAs? Nat "n", ae := ← strs "ae", accept := ← strs "accept" }

def sopOf (opq : Option Nat) : Op → SOp
  | .wh c => .wh c
  | .fl => .fl
  | .w b => (match opq with
    | some n => .w { bytes := none, len := n }
    | none => .w { bytes := some b, len := b.length })
  | o => .h o

def proxyH : Handler := fun inp impl => do
  match impl.getObjVal? "got" with
  | .error _ =>
    let isPanic := (impl.getObjVal? "panic").toOption.isSome
    return ({ model := Json.null, agree := !isPanic, spec := !isPanic, nontrivial := false,
              tag := if isPanic then "panic" else "rejected-input" } : Verdict).toJson
  | .ok _ =>
    let cfg ← inp.getObjValAs? String "cfg"
    let cfgerr ← impl.getObjValAs? Bool "cfgerr"
    let compiles ← impl.getObjValAs? Bool "compiles"
    let on ← impl.getObjValAs? Bool "on"
    let opt := configure cfg compiles
    if cfgerr then
      -- `Load` refused the configuration: nothing is served; the model says that happens exactly for a
      -- non-empty value that does not compile
      return ({ model := Json.str "invalid", agree := opt == .invalid, spec := true, nontrivial := false,
                tag := "proxy/invalid-expression" } : Verdict).toJson
    let tr ← trOf (← impl.getObjVal? "tr")
    let trb ← trOf (← impl.getObjVal? "trbase")
    let sg ← seenOf (← impl.getObjVal? "seengot")
    let sb ← seenOf (← impl.getObjVal? "seenbase")
    let flush := (inp.getObjValAs? String "flush").toOption.getD ""
    -- the response as the transport delivers it WITHOUT compression configured: the reference for model and spec
    let opq := trb.body.big
    let body ← if opq then pure [] else match unhex trb.body.hex.toList with
      | some b => pure b
      | none => throw "bad hex"
    -- `removeHopByHopHeaders` (no `Connection` options are generated)
    let hop := ["Connection", "Proxy-Connection", "Keep-Alive", "Proxy-Authenticate", "Proxy-Authorization", "Te", "Trailer",
                "Transfer-Encoding", "Upgrade"]
    let u : UpResp := { info := trb.info, code := trb.status, hdr := without trb.hdr hop,
                        chunks := if trb.body.len == 0 then [] else [body], flushEach := flush == "-1s" }
    let gz := opt == .on
    let c : Case :=
      { layer := "srv", method := ← inp.getObjValAs? String "method", req := ← pairs (← inp.getObjVal? "req"),
        ops := (relay [hVary] u).map (sopOf (if opq then some trb.body.len else none)),
        got := ← respOf (← impl.getObjVal? "got"), base := ← respOf (← impl.getObjVal? "base"),
        sniff := "", matchTab := ← pairs (← impl.getObjVal? "match"), up := trb.body,
        nw := if trb.body.len == 0 then 0 else 1, canFlush := false, proxy := some (gz, u) }
    let e := evalCase c
    -- the request reaches the upstream as it came (same Accept-Encoding/Accept lines as without compression), so the
    -- transport delivers the same response in both configurations
    let fwdSame := sg == sb && tr.same trb
    let cfgAgree := (opt == .on && on) || (opt == .off && !on)
    let enc := valuesOf trb.hdr hContentEncoding != []
    return ({ model := e.model, agree := e.agree && fwdSame && cfgAgree, spec := e.spec,
              nontrivial := gz && e.nontrivial,
              tag := if !e.spec then "proxy/" ++ e.tag
                     else if !cfgAgree then "proxy/option-misread"
                     else if !fwdSame then "proxy/upstream-exchange-differs"
                     else "proxy/" ++ (if enc then "upstream-encoded+" else "") ++ (if trb.uncompressed then "transport-decoded+" else "") ++ e.tag } : Verdict).toJson

/-- c17.weight: is the writer machine engaged? -/
def weightH : Handler := fun inp impl => do
  match impl.getObjValAs? Bool "engaged" with
  | .error _ =>
    let isPanic := (impl.getObjVal? "panic").toOption.isSome
    return ({ model := Json.null, agree := !isPanic, spec := !isPanic, nontrivial := false,
              tag := if isPanic then "panic" else "rejected-input" } : Verdict).toJson
  | .ok engaged =>
    let req ← pairs (← inp.getObjVal? "req")
    let method ← inp.getObjValAs? String "method"
    let m := acceptsGzip (reqHdr req) && method != "HEAD"
    let ae := hget (reqHdr req) hAcceptEncoding
    -- the element that decides in the code: the first one whose coding is exactly gzip
    let el := (splitOn ',' ae.toList).find? (fun e => trim (cut ';' e).1 == encGzip.toList)
    let cls := match el with
      | none => "no-gzip-element"
      | some e => match qOf (cut ';' e).2 with
        | none => "no-weight"
        | some q =>
          if plainZero q then "plain-zero"
          else if zeroLit q then "zero-by-parsefloat"
          else if q.any (fun c => '1' ≤ c && c ≤ '9') && q.all (fun c => ('0' ≤ c && c ≤ '9') || c == '.') then "plain-nonzero"
          else "other"
    let spec := !engaged || (rfcAccepts req && !(consumesEventStream req))
    return ({ model := Json.mkObj [("engaged", m)], agree := m == engaged, spec := spec,
              nontrivial := cls != "no-gzip-element" && cls != "no-weight",
              tag := if !spec then "engaged-not-accepted" else (if engaged then "engaged/" else "bypassed/") ++ cls } : Verdict).toJson

/-- c17.accept: the Accept header's part of "the client accepts gzip": is the writer machine engaged for a client
that lists (or nearly lists) the event-stream type? -/
def acceptH : Handler := fun inp impl => do
  match impl.getObjValAs? Bool "engaged" with
  | .error _ =>
    let isPanic := (impl.getObjVal? "panic").toOption.isSome
    return ({ model := Json.null, agree := !isPanic, spec := !isPanic, nontrivial := false,
              tag := if isPanic then "panic" else "rejected-input" } : Verdict).toJson
  | .ok engaged =>
    let req ← pairs (← inp.getObjVal? "req")
    let method ← inp.getObjValAs? String "method"
    let m := acceptsGzip (reqHdr req) && method != "HEAD"
    let acc := (req.filter (fun p => lowerL p.1.toList == "accept".toList)).map (·.2)
    let elems := acc.flatMap (fun v => splitOn ',' v.toList)
    let es := "text/event-stream".toList
    let named := consumesEventStream req
    let cls :=
      if acc.isEmpty then "no-accept-header"
      else if named then
        (match elems with
         | e :: _ => if trim (cut ';' e).1 == es then "listed-first" else "listed-later"
         | [] => "listed-later") ++
        (if elems.any (fun e => trim (cut ';' e).1 == es && (cut ';' e).1 != es) then "+spaced" else "") ++
        (if elems.any (fun e => trim (cut ';' e).1 == es && (cut ';' e).2 != []) then "+params" else "")
      else if acc.any (fun v => containsL v.toList es) then "substring-only"
      else if acc.any (fun v => containsL (lowerL v.toList) es) then "other-case"
      else "not-listed"
    let spec := !engaged || (rfcAccepts req && !named)
    return ({ model := Json.mkObj [("engaged", m)], agree := m == engaged, spec := spec,
              nontrivial := rfcAccepts req && (named || cls == "substring-only" || cls == "other-case"),
              tag := if !spec then (if named then "engaged-for-event-stream-client" else "engaged-not-accepted")
                     else (if engaged then "engaged/" else "bypassed/") ++ cls } : Verdict).toJson

def streams : List (String × Handler) :=
  [("c17.resp", respH), ("c17.resp.wide", respH), ("c17.pool", poolH), ("c17.seq", seqH), ("c17.proxy", proxyH), ("c17.weight", weightH), ("c17.fault", faultH), ("c17.accept", acceptH)]
end Fabio.Driver.C17
