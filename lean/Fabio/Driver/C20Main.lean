import Fabio.Driver.C20
def main : IO Unit := Fabio.Driver.run Fabio.Driver.C20.streams
