import Fabio.Driver.C10
def main : IO Unit := Fabio.Driver.run Fabio.Driver.C10.streams
