import Fabio.Driver.Proto
import Fabio.Model.C13
import Fabio.Model.C13Glue
namespace Fabio.Driver.C13
open Lean Fabio.Driver Fabio.Model.C13

/-! JSON glue: Go strings arrive as JSON strings (valid UTF-8) or, where the bytes may be arbitrary, hex. -/

def bytesOf (s : String) : Str := s.toUTF8.toList

def hexVal (c : Char) : Option UInt8 :=
  if '0' ≤ c && c ≤ '9' then some (c.toNat - 48).toUInt8
  else if 'a' ≤ c && c ≤ 'f' then some (c.toNat - 87).toUInt8
  else if 'A' ≤ c && c ≤ 'F' then some (c.toNat - 55).toUInt8 else none

def unhexL : List Char → Option Str
  | [] => some []
  | a :: b :: r => do
      let x ← hexVal a; let y ← hexVal b; let t ← unhexL r
      pure ((x <<< 4 ||| y) :: t)
  | _ => none

def hexDigit (n : UInt8) : Char := Char.ofNat (if n < 10 then 48 + n.toNat else 87 + n.toNat)
def hexOf (b : Str) : String := String.ofList (b.flatMap (fun (c : UInt8) => [hexDigit (c >>> 4), hexDigit (c &&& 15)]))

/-- display: the string when the bytes are UTF-8, else `hex:…` -/
def showB (b : Str) : Json :=
  match String.fromUTF8? ⟨b.toArray⟩ with
  | some s => Json.str s
  | none => Json.str ("hex:" ++ hexOf b)

def getS (j : Json) (k : String) : Str :=
  match j.getObjValAs? String k with
  | .ok s => bytesOf s
  | .error _ => []

def getHex (j : Json) (k : String) : Except String Str :=
  match j.getObjValAs? String k with
  | .ok s => match unhexL s.toList with
    | some b => pure b
    | none => throw s!"bad hex in {k}"
  | .error _ => pure []

def getI (j : Json) (k : String) : Int :=
  match j.getObjValAs? Int k with
  | .ok i => i
  | .error _ => 0

def getB (j : Json) (k : String) : Bool :=
  match j.getObjValAs? Bool k with
  | .ok b => b
  | .error _ => false

def getO (j : Json) (k : String) : Json := (j.getObjVal? k).toOption.getD Json.null

/-- a dumped target (`tgtOut` of the harness) -/
def targetOf (j : Json) : Except String RTarget := do
  let p ← getHex j "pathhex"
  let rp ← getHex j "rawpathhex"
  return { url := { scheme := getS j "scheme", host := getS j "host", path := p, rawPath := rp, rawQuery := getS j "rawquery" },
           strip := getS j "strip", prepend := getS j "prepend", code := getI j "code" }

def urlJson (u : URL) : Json :=
  Json.mkObj [("scheme", showB u.scheme), ("host", showB u.host), ("pathhex", hexOf u.path),
              ("rawpathhex", hexOf u.rawPath), ("rawquery", showB u.rawQuery)]

def urlOfDump (j : Json) : Except String URL := do
  let p ← getHex j "pathhex"
  let r ← getHex j "rawpathhex"
  return { scheme := getS j "scheme", host := getS j "host", path := p, rawPath := r, rawQuery := getS j "rawquery" }

/-- `url.ParseRequestURI` accepts the origin form only when it starts with `/` and holds no control byte -/
def targetOK (t : Str) : Bool := t.head? == some 47 && t.all (fun c => c ≥ 32 && c != 127)

def rawPathOf (t : Str) : Str := (cut 63 t).1
def rawQueryOf (t : Str) : Str := (cut 63 t).2.1

/-! tags -/

def formTag (t : RTarget) : String :=
  let hp := hasSuffix t.url.host vPath
  if hp then "hostpath"
  else match splitAtSub vPath t.url.path with
    | none => "fixed"
    | some (pre, _) => if !singlePath t then "multipath" else if hasSuffix pre slash then "slashpath" else "barepath"

def needsEsc (s : Str) : Bool := s.any (fun c => shouldEscape c .path || c == 37)

/-- the input class (one tag per class of interest; the failing classes have tags of their own) -/
def classTag (t : RTarget) (req : URL) : String :=
  let form := formTag t
  let raw := !req.rawPath.isEmpty
  let stripDec := !t.strip.isEmpty && hasPrefix req.path t.strip
  let stripRaw := !t.strip.isEmpty && hasPrefix (escapedPath req) t.strip
  if form == "multipath" then form
  else if !t.url.rawPath.isEmpty && contains vSlashPath t.url.path != contains vSlashPath (escapedPath t.url) then "tmpl-encoded-slash-mismatch"
  else if form != "fixed" && raw && stripDec != stripRaw then "strip-encoding-mismatch"
  else if !t.url.rawPath.isEmpty then "tmpl-encoded"
  else if form == "fixed" then form
  else if raw && (needsEsc t.prepend || needsEsc t.url.path) then "prefix-needs-escape"
  else form ++ (if raw then "-enc" else "-plain") ++ (if stripDec then "-strip" else "") ++ (if t.prepend.isEmpty then "" else "-prepend")

/-- input classes recorded as findings (checks/C13.findings.json) -/
def findingClasses : List String := ["strip-encoding-mismatch", "self-redirect-answered", "tmpl-encoded-slash-mismatch"]

/-! ### c13.build -/

def buildH : Handler := fun inp impl => do
  let err := (impl.getObjValAs? String "err").toOption.getD ""
  let redirectOpt := getS inp "redirect"
  let host := getS inp "host"
  let target := getS inp "target"
  if err == "route" then
    -- the route command was rejected (template does not parse): nothing is served
    return ({ model := Json.mkObj [("err", "route")], agree := true, spec := true, nontrivial := false, tag := "route-rejected" } : Verdict).toJson
  let t ← targetOf (getO impl "t")
  let mcode := redirectCode redirectOpt
  if (impl.getObjValAs? String "panic").isOk then
    return ({ model := Json.mkObj [("code", mcode)], agree := false, spec := false, nontrivial := true,
              tag := if codeSpec t.code then "panic" else "code-not-3xx" } : Verdict).toJson
  let okOpts := t.strip == getS inp "strip" && t.prepend == getS inp "prepend"
  -- "receives the configured 3xx status": 0 or 3xx, and exactly the plain decimal reading of the option text
  let codeOK := codeSpec t.code && codeSpecOpt redirectOpt t.code
  if !codeOK || t.code != mcode then
    return ({ model := Json.mkObj [("code", mcode)], agree := t.code == mcode, spec := codeOK, nontrivial := true,
              tag := if codeOK then "code" else if codeSpec t.code then "code-not-configured" else "code-not-3xx" } : Verdict).toJson
  if getB (getO impl "t") "odd" || (tmplParts t).1.isEmpty then
    return ({ model := Json.null, agree := true, spec := true, nontrivial := false, tag := "odd-template" } : Verdict).toJson
  let mreq := if targetOK target then parseTarget host target else none
  match mreq with
  | none =>
    return ({ model := Json.mkObj [("err", "request")], agree := err == "request", spec := true, nontrivial := false, tag := "request-rejected" } : Verdict).toJson
  | some req =>
    if err == "request" then
      return ({ model := urlJson req, agree := false, spec := true, nontrivial := false, tag := "request-parse" } : Verdict).toJson
    let ireq ← urlOfDump (getO impl "req")
    let reqAgree := ireq == req
    if mcode == 0 then
      let noRedirect := getI impl "status" == 0 && getS impl "location" == []
      return ({ model := Json.mkObj [("code", 0)], agree := reqAgree && okOpts && noRedirect, spec := noRedirect, nontrivial := false,
                tag := "code-0" } : Verdict).toJson
    let u := buildRedirectURL t req
    let loc := hexEscapeNonASCII (urlString u)
    let iu ← urlOfDump (getO impl "u")
    let iloc := getS impl "location"
    let istatus := getI impl "status"
    let agree := reqAgree && okOpts && iu == u && iloc == loc && istatus == mcode
    let spec := istatus == t.code && (locationSpec t host (escapedPath req) (rawPathOf target) req.rawQuery iloc)
    let tag := classTag t req
    return ({ model := Json.mkObj [("status", mcode), ("location", showB loc), ("u", urlJson u)],
              agree := agree, spec := spec, nontrivial := formTag t != "fixed" || contains vHost t.url.host,
              tag := tag } : Verdict).toJson

/-! ### c13.url: the `net/url` fragment against `net/url` -/

def urlH : Handler := fun inp impl => do
  let target := getS inp "target"
  let host := getS inp "host"
  let path := getS inp "path"
  let rawpath := getS inp "rawpath"
  let mreq := if targetOK target then parseTarget host target else none
  let iok := getB impl "ok"
  let a1 ← match mreq with
    | none => pure (!iok)
    | some req => do
      if !iok then pure false else
      let ireq ← urlOfDump (getO impl "req")
      pure (ireq == req && getS impl "escaped" == escapedPath req &&
            getS impl "str" == urlString { req with scheme := lit "https" })
  let w : URL := { host := host, path := path, rawPath := rawpath }
  let un := unescape rawpath
  let iun ← getHex impl "unesc_hex"
  let a2 := getS impl "escaped2" == escapedPath w && getS impl "str2" == urlString w &&
            getB impl "unesc_ok" == un.isSome && (un.isNone || un == some iun)
  -- law: what EscapedPath returns decodes to Path (evaluated on net/url's own output)
  let spec := unescape (getS impl "escaped2") == some path || path == [42]
  return ({ model := Json.mkObj [("escaped2", showB (escapedPath w)), ("str2", showB (urlString w)),
                                 ("req", match mreq with | some r => urlJson r | none => Json.null)],
            agree := a1 && a2, spec := spec, nontrivial := !rawpath.isEmpty || target.contains 37,
            tag := if mreq.isNone then "reject" else if (mreq.map (·.rawPath.isEmpty)).getD true then "default-encoding" else "rawpath" } : Verdict).toJson

/-! ### c13.http -/

def candsOf (j : Json) : Except String (List (Option RTarget)) :=
  match j with
  | .arr a => a.toList.mapM (fun x => match x with
      | .null => pure none
      | o => do let t ← targetOf o; pure (some t))
  | _ => pure []

def is3xx (s : Int) : Bool := 300 ≤ s && s ≤ 399

/-- the redirect counter (`p.Stats.RedirectCounter.With("code", strconv.Itoa(code)).Add(1)`): one increment labelled
with the status for a redirect answer, none otherwise; cases recorded without a counter carry no `counted` field -/
def countedOK (a : Json) (redirectCode : Option Int) : Bool :=
  match a.getObjValAs? Int "counted" with
  | .error _ => true
  | .ok n =>
    match redirectCode with
    | some c => n == 1 && getS a "countcode" == bytesOf (toString c)
    | none => n == 0

def httpH : Handler := fun inp impl => do
  let err := (impl.getObjValAs? String "err").toOption.getD ""
  if err != "" then
    return ({ model := Json.null, agree := true, spec := true, nontrivial := false, tag := "harness-" ++ err } : Verdict).toJson
  let host := getS inp "host"
  let target := getS inp "target"
  let tls := getB inp "tls"
  let xfp := getS inp "xfp"
  let status := getI impl "status"
  let hits := getI impl "hits"
  let iloc := getS impl "location"
  let cands ← candsOf (getO impl "cands")
  -- templates outside the modelled shapes (no scheme, no host, user info): nothing is claimed
  let oddCand := match getO impl "cands" with
    | .arr a => a.toList.any (fun x => x != Json.null && getI x "code" != 0 &&
        (getB x "odd" || (match targetOf x with | .ok t => (tmplParts t).1.isEmpty | .error _ => true)))
    | _ => false
  if oddCand || (getS inp "host").isEmpty then
    return ({ model := Json.null, agree := true, spec := true, nontrivial := false, tag := "odd-template-or-empty-host" } : Verdict).toJson
  let ups : List Bool := match getO impl "upstream" with
    | .arr a => a.toList.map (fun x => x == Json.bool true)
    | _ => []
  let mreq := if targetOK target then parseTarget host target else none
  match mreq with
  | none =>
    return ({ model := Json.mkObj [("status", 400)], agree := status == 400, spec := hits == 0, nontrivial := false, tag := "bad-request" } : Verdict).toJson
  | some req =>
    if status == 400 then
      return ({ model := Json.null, agree := true, spec := hits == 0, nontrivial := false, tag := "server-400" } : Verdict).toJson
    let scheme := reqScheme xfp tls
    let res := lookup scheme req cands
    let upgrade := getS inp "upgrade"
    let accept := getS inp "accept"
    let deniedL : List Bool := match getO impl "denied" with
      | .arr a => a.toList.map (fun x => x == Json.bool true)
      | _ => []
    -- the verdict of the access gate for the selected target (oracle from the real AccessDeniedHTTP); no auth schemes
    let idxOf (t : RTarget) : Nat := (cands.takeWhile (fun c => c != some t)).length
    let denied := match res with | some (t, _) => deniedL.getD (idxOf t) false | none => false
    let hdrTag := if equalFold upgrade (lit "websocket") then "+ws" else if accept == lit "text/event-stream" then "+sse"
                  else if upgrade.isEmpty && accept.isEmpty then "" else "+hdr"
    -- specification on the implementation's answer
    let own (l : Loc) : Bool := l.scheme == scheme && l.host == hexEscapeNonASCII (escape .host host) &&
        (unescape l.path == some req.path)
    let redirectCands := cands.filterMap (fun c => match c with | some t => if t.code ≠ 0 then some t else none | none => none)
    let specRedirect := if is3xx status then
        hits == 0 && redirectCands.any (fun t => t.code == status && locationSpec t host (escapedPath req) (rawPathOf target) req.rawQuery iloc) &&
        (match parseLoc iloc with | some l => !(own l) | none => false)
      else true
    -- the connection was closed without a response: the handler panicked — unless the request went down the
    -- websocket path to a plain target (a raw pipe to an upstream that may not exist: the connection is hijacked)
    let noResponse := status == -1
    match res, serve res denied true upgrade accept with
    | _, .upstream .websocket =>
      return ({ model := Json.mkObj [("redirect", false), ("via", "websocket")], agree := !is3xx status && hits ≤ 1,
                spec := specRedirect, nontrivial := false, tag := "proxy+ws" } : Verdict).toJson
    | _, _ =>
    if noResponse then
      return ({ model := Json.null, agree := false, spec := false, nontrivial := true, tag := "no-response" } : Verdict).toJson
    match res, serve res denied true upgrade accept with
    | some (t, _), .forbidden =>
      -- the access gate stands in front of the redirect branch (as coded): 403, nothing contacted
      return ({ model := Json.mkObj [("status", 403), ("hits", 0)], agree := status == 403 && hits == 0,
                spec := specRedirect && hits == 0, nontrivial := t.code ≠ 0,
                tag := (if t.code ≠ 0 then "denied-redirect" else "denied-proxy") ++ hdrTag } : Verdict).toJson
    | some (t, some u), .redirect code loc =>
      let skipped := (cands.takeWhile (fun c => c != some t)).any (fun c => match c with | some c => c.code ≠ 0 | none => false)
      let ownLoc := match parseLoc loc with | some l => own l | none => false
      let _ := u
      let cls := if findingClasses.contains (classTag t req) then classTag t req
        else if ownLoc then "self-redirect-answered" else classTag t req
      let tag := if findingClasses.contains cls then cls else (if skipped then "skip-then-redirect-" else "redirect-") ++ cls ++ hdrTag
      return ({ model := Json.mkObj [("status", code), ("location", showB loc), ("hits", 0)],
                agree := status == code && iloc == loc && hits == 0, spec := specRedirect && is3xx status, nontrivial := true,
                tag := tag } : Verdict).toJson
    | some (t, _), .upstream via =>
      -- a plain route: proxied (the instrumented upstream answers 200) — or some other upstream of the pool
      let idx := idxOf t
      let isUp : Bool := ups.getD idx false
      let skipped := (cands.take idx).any (fun c => match c with | some c => c.code ≠ 0 | none => false)
      -- through the websocket handler the exchange is a raw pipe: only "no redirect, at most one contact" is compared
      let _ := via
      let agree := !is3xx status && (!isUp || (status == 200 && hits == 1))
      return ({ model := Json.mkObj [("redirect", false), ("upstream", isUp)],
                agree := agree, spec := specRedirect, nontrivial := skipped,
                tag := (if skipped then "skip-then-proxy" else "proxy") ++ hdrTag } : Verdict).toJson
    | none, _ =>
      let skipped := cands.any (fun c => match c with | some c => c.code ≠ 0 | none => false)
      return ({ model := Json.mkObj [("status", 404)], agree := status == 404 && hits == 0, spec := specRedirect, nontrivial := skipped,
                tag := if skipped then "skip-then-noroute" else "noroute" } : Verdict).toJson
    | _, _ =>
      return ({ model := Json.null, agree := false, spec := specRedirect, nontrivial := false, tag := "model-unreachable" } : Verdict).toJson

/-! ### c13.concurrent -/

def concH : Handler := fun inp impl => do
  let err := (impl.getObjValAs? String "err").toOption.getD ""
  if err != "" then
    return ({ model := Json.null, agree := true, spec := true, nontrivial := false, tag := "harness-" ++ err } : Verdict).toJson
  let host := getS inp "host"
  let t ← targetOf (getO impl "t")
  if t.code == 0 || getB (getO impl "t") "odd" || (tmplParts t).1.isEmpty || host.isEmpty then
    return ({ model := Json.null, agree := true, spec := true, nontrivial := false, tag := "not-a-redirect-or-odd" } : Verdict).toJson
  let pairs := match getO impl "pairs" with | .arr a => a.toList | _ => []
  let check (p : Json) : Bool × Bool :=
    let target := getS p "target"
    let iloc := getS p "location"
    match parseTarget host target with
    | none => (false, false)
    | some req =>
      (iloc == location t req && getI p "status" == t.code,
       getI p "status" == t.code && locationSpec t host (escapedPath req) (rawPathOf target) req.rawQuery iloc)
  let rs := pairs.map check
  let foreign := getI impl "foreign" + getI impl "panics"
  return ({ model := Json.mkObj [("foreign", 0)], agree := rs.all (·.1) && foreign == 0, spec := rs.all (·.2) && foreign == 0,
            nontrivial := t.code ≠ 0 && getI inp "g" ≥ 2, tag := formTag t } : Verdict).toJson

/-! ### c13.sequence: consecutive requests on one shared target -/

def seqH : Handler := fun inp impl => do
  let err := (impl.getObjValAs? String "err").toOption.getD ""
  if err != "" then
    return ({ model := Json.null, agree := true, spec := true, nontrivial := false, tag := "harness-" ++ err } : Verdict).toJson
  let t ← targetOf (getO impl "t")
  if t.code == 0 || getB (getO impl "t") "odd" || (tmplParts t).1.isEmpty then
    return ({ model := Json.null, agree := true, spec := true, nontrivial := false, tag := "not-a-redirect-or-odd" } : Verdict).toJson
  let reqs := match getO inp "reqs" with | .arr a => a.toList | _ => []
  let answ := match getO impl "answers" with | .arr a => a.toList | _ => []
  -- answer k is judged against request k alone
  let judge (rq : Json) (a : Json) : Bool × Bool × Json :=
    let host := getS rq "host"
    let target := getS rq "target"
    let xfp := getS rq "xfp"
    let aerr := (a.getObjValAs? String "err").toOption.getD ""
    match (if targetOK target then parseTarget host target else none) with
    | none => (aerr == "request", true, Json.mkObj [("err", "request")])
    | some req =>
      if aerr != "" || (a.getObjValAs? String "panic").isOk || host.isEmpty then (aerr == "" && host.isEmpty, host.isEmpty, Json.null) else
      let status := getI a "status"
      let iloc := getS a "location"
      match answer (reqScheme xfp false) req [some t] with
      | some (code, loc) =>
        (status == code && iloc == loc && countedOK a (some code),
         status == t.code && locationSpec t host (escapedPath req) (rawPathOf target) req.rawQuery iloc,
         Json.mkObj [("status", code), ("location", showB loc)])
      | none =>
        -- the redirect would point at the request itself: skipped, no other route, no-route answer
        (status == 404 && !getB a "hasloc" && countedOK a none, !is3xx status, Json.mkObj [("status", 404)])
  let rs := (reqs.zip answ).map (fun (rq, a) => judge rq a)
  let lenOK := reqs.length == answ.length || reqs.length > 64
  let hostsSeen := (reqs.map (fun rq => getS rq "host")).eraseDups
  let failing := findingClasses.filter (fun c => reqs.any (fun rq =>
      match parseTarget (getS rq "host") (getS rq "target") with
      | some req => classTag t req == c
      | none => false))
  -- a Location that is the request's own URL although the comparison in Lookup did not see it (finding D18d)
  let ownAnswered := (reqs.zip answ).any (fun (rq, a) =>
      match parseTarget (getS rq "host") (getS rq "target"), parseLoc (getS a "location") with
      | some req, some l => l.scheme == reqScheme (getS rq "xfp") false && l.host == hexEscapeNonASCII (escape .host req.host) &&
          unescape l.path == some req.path
      | _, _ => false)
  let tag := match failing with
    | c :: _ => c
    | [] => if ownAnswered then "self-redirect-answered" else formTag t ++ (if contains vHost t.url.host then "-hostvar" else "") ++ (if hostsSeen.length ≥ 2 then "-hosts" else "")
  return ({ model := Json.arr (rs.map (·.2.2)).toArray, agree := lenOK && rs.all (·.1), spec := lenOK && rs.all (·.2.1),
            nontrivial := reqs.length ≥ 2 && hostsSeen.length ≥ 2, tag := tag } : Verdict).toJson

/-! ### c13.tag: a Consul `urlprefix-` tag with a redirect option, end to end -/

def strList (j : Json) : List Str :=
  match j with
  | .arr a => a.toList.filterMap (fun x => match x with | .str s => some (bytesOf s) | _ => none)
  | _ => []

def tagH : Handler := fun inp impl => do
  let err := (impl.getObjValAs? String "err").toOption.getD ""
  let opts := getS inp "opts"
  let host := getS inp "host"
  let target := getS inp "target"
  let xfp := getS inp "xfp"
  let fs := fields opts
  let lastR := lastRedirectField fs
  let others := fs.filter (fun o => (passedOn o).isSome && !hasPrefix o kRedirect)
  -- where the (last well-formed) redirect field stands among the options that are passed on
  let posTag : String := if fs.contains (lit "redirect") then "bare-redirect-option" else match lastR with
    | none => if fs.any (fun o => hasPrefix o kRedirect) then "malformed-redirect" else "no-redirect"
    | some _ =>
      let isR (o : Str) : Bool := hasPrefix o kRedirect && (passedOn o).isSome
      let before := (fs.takeWhile (fun o => !isR o)).any (fun o => (passedOn o).isSome)
      let after := ((fs.reverse.takeWhile (fun o => !isR o))).any (fun o => (passedOn o).isSome)
      if others.isEmpty then "redirect-only" else if before && after then "redirect-middle" else if before then "redirect-last" else "redirect-first"
  if err != "" then
    -- the command was not emitted / not accepted (`denotes`, `route.NewTable`: C14's and C05's subject)
    return ({ model := Json.null, agree := true, spec := true, nontrivial := false, tag := "cmd-" ++ err } : Verdict).toJson
  let addr := getS impl "addr"
  let t ← targetOf (getO impl "t")
  let m := tagCmd addr opts
  let mt := tagTarget addr opts
  let iopts := strList (getO impl "opts")
  let idst := getS impl "dst"
  -- the option map of the command, both ways
  let optsAgree := iopts.all (fun kv => optValue (keyVal kv).1 m.ropts == (keyVal kv).2 && m.ropts.any (fun o => (keyVal o).1 == (keyVal kv).1)) &&
                   m.ropts.all (fun o => iopts.any (fun kv => (keyVal kv).1 == (keyVal o).1))
  let cmdAgree := idst == m.dst && optsAgree && t.strip == mt.strip && t.prepend == mt.prepend && t.code == mt.code
  -- specification: the tag's options whatever their order, the redirect field's code and URL
  let laterProto := match lastR with
    | none => false
    | some _ => (fs.reverse.takeWhile (fun o => !(hasPrefix o kRedirect && (splitComma (o.drop kRedirect.length)).length == 2))).any
                  (fun o => (protoSchemes.lookup o).isSome)
  let cmdSpec := tagSpec opts t.strip t.prepend t.code &&
    (match lastR with | some (_, url) => laterProto || idst == url | none => true)
  let nontrivial := lastR.isSome && !others.isEmpty
  let a := getO impl "answer"
  let aerr := (a.getObjValAs? String "err").toOption.getD ""
  if getB (getO impl "t") "odd" || (tmplParts t).1.isEmpty || host.isEmpty then
    return ({ model := Json.null, agree := cmdAgree, spec := cmdSpec, nontrivial := false, tag := "odd-template-" ++ posTag } : Verdict).toJson
  match (if targetOK target then parseTarget host target else none) with
  | none =>
    return ({ model := Json.mkObj [("err", "request")], agree := cmdAgree && aerr == "request", spec := cmdSpec, nontrivial := false,
              tag := "request-rejected" } : Verdict).toJson
  | some req =>
    if aerr != "" || (a.getObjValAs? String "panic").isOk then
      return ({ model := Json.null, agree := false, spec := false, nontrivial := true, tag := "panic-or-parse-" ++ posTag } : Verdict).toJson
    let status := getI a "status"
    let iloc := getS a "location"
    -- the target as the specification reads it off the tag (URL as net/url parsed the destination)
    let tspec : RTarget := { url := t.url, strip := lastPlainValue (lit "strip") fs, prepend := lastPlainValue (lit "prepend") fs,
                             code := match lastR with | some (c, _) => configuredCode c | none => 0 }
    let tm : RTarget := { url := t.url, strip := mt.strip, prepend := mt.prepend, code := mt.code }
    let cls := classTag tm req
    let fcls := findingClasses.contains cls
    -- does the route match the request at all? (host/path matching is C03's subject: read off the answer's kind)
    match handle (reqScheme xfp false) req [some tm] (fun _ => (false, true)) (getS inp "upgrade") (getS inp "accept") with
    | .redirect code loc =>
      if status == 404 && !getB a "hasloc" then
        -- the request does not match the tag's host/path
        return ({ model := Json.mkObj [("status", 404)], agree := cmdAgree, spec := cmdSpec, nontrivial := false, tag := "no-match-" ++ posTag } : Verdict).toJson
      let locOK := status == tspec.code && locationSpec tspec host (escapedPath req) (rawPathOf target) req.rawQuery iloc
      let ownAnswered := match parseLoc iloc with
        | some l => l.scheme == reqScheme xfp false && l.host == hexEscapeNonASCII (escape .host host) && unescape l.path == some req.path
        | none => false
      return ({ model := Json.mkObj [("status", code), ("location", showB loc), ("dst", showB m.dst)],
                agree := cmdAgree && status == code && iloc == loc && countedOK a (some code), spec := cmdSpec && locOK && !ownAnswered, nontrivial := nontrivial,
                tag := if fcls then cls else if ownAnswered then "self-redirect-answered" else posTag } : Verdict).toJson
    | .noRoute =>
      -- the redirect points at the request itself: skipped, no other route
      return ({ model := Json.mkObj [("status", 404)], agree := cmdAgree && status == 404 && !getB a "hasloc", spec := cmdSpec && !is3xx status,
                nontrivial := nontrivial, tag := "self-skip-" ++ posTag } : Verdict).toJson
    | _ =>
      -- not a redirect route (no or malformed redirect field, or a code outside 300..399): proxied
      return ({ model := Json.mkObj [("redirect", false)], agree := cmdAgree && !is3xx status && countedOK a none, spec := cmdSpec && (tspec.code ≠ 0 || !is3xx status),
                nontrivial := false, tag := "proxied-" ++ posTag } : Verdict).toJson

def streams : List (String × Handler) :=
  [("c13.build", buildH), ("c13.url", urlH), ("c13.http", httpH), ("c13.concurrent", concH), ("c13.sequence", seqH), ("c13.tag", tagH)]
end Fabio.Driver.C13
