import Fabio.Driver.Proto
namespace Fabio.Driver.C13
open Lean Fabio.Driver

def streams : List (String × Handler) := []
end Fabio.Driver.C13
