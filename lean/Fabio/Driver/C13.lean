import Fabio.Driver.Proto
import Fabio.Model.C13
import Fabio.Model.C13Glue
import Fabio.Model.C13Parse
import Fabio.Model.C13Table
namespace Fabio.Driver.C13
open Lean Fabio.Driver Fabio.Model Fabio.Model.C13

/-! JSON glue: Go strings arrive as JSON strings (valid UTF-8) or, where the bytes may be arbitrary, hex. -/

def bytesOf (s : String) : Str := s.toUTF8.toList

def hexVal (c : Char) : Option UInt8 :=
  if '0' ≤ c && c ≤ '9' then some (c.toNat - 48).toUInt8
  else if 'a' ≤ c && c ≤ 'f' then some (c.toNat - 87).toUInt8
  else if 'A' ≤ c && c ≤ 'F' then some (c.toNat - 55).toUInt8 else none

def unhexL : List Char → Option Str
  | [] => some []
  | a :: b :: r => do
      let x ← hexVal a; let y ← hexVal b; let t ← unhexL r
      pure ((x <<< 4 ||| y) :: t)
  | _ => none

def hexDigit (n : UInt8) : Char := Char.ofNat (if n < 10 then 48 + n.toNat else 87 + n.toNat)
def hexOf (b : Str) : String := String.ofList (b.flatMap (fun (c : UInt8) => [hexDigit (c >>> 4), hexDigit (c &&& 15)]))

/-- display: the string when the bytes are UTF-8, else `hex:…` -/
def showB (b : Str) : Json :=
  match String.fromUTF8? ⟨b.toArray⟩ with
  | some s => Json.str s
  | none => Json.str ("hex:" ++ hexOf b)

def getS (j : Json) (k : String) : Str :=
  match j.getObjValAs? String k with
  | .ok s => bytesOf s
  | .error _ => []

def getHex (j : Json) (k : String) : Except String Str :=
  match j.getObjValAs? String k with
  | .ok s => match unhexL s.toList with
    | some b => pure b
    | none => throw s!"bad hex in {k}"
  | .error _ => pure []

def getI (j : Json) (k : String) : Int :=
  match j.getObjValAs? Int k with
  | .ok i => i
  | .error _ => 0

def getB (j : Json) (k : String) : Bool :=
  match j.getObjValAs? Bool k with
  | .ok b => b
  | .error _ => false

def getO (j : Json) (k : String) : Json := (j.getObjVal? k).toOption.getD Json.null

/-- a dumped target (`tgtOut` of the harness) -/
def targetOf (j : Json) : Except String RTarget := do
  let p ← getHex j "pathhex"
  let rp ← getHex j "rawpathhex"
  let hh ← getHex j "hosthex"
  return { url := { scheme := getS j "scheme", host := if hh.isEmpty then getS j "host" else hh, path := p, rawPath := rp, rawQuery := getS j "rawquery" },
           strip := getS j "strip", prepend := getS j "prepend", code := getI j "code" }

def urlJson (u : URL) : Json :=
  Json.mkObj [("scheme", showB u.scheme), ("host", showB u.host), ("pathhex", hexOf u.path),
              ("rawpathhex", hexOf u.rawPath), ("rawquery", showB u.rawQuery)]

def urlOfDump (j : Json) : Except String URL := do
  let p ← getHex j "pathhex"
  let r ← getHex j "rawpathhex"
  let hh ← getHex j "hosthex"
  return { scheme := getS j "scheme", host := if hh.isEmpty then getS j "host" else hh, path := p, rawPath := r, rawQuery := getS j "rawquery" }

/-- `url.ParseRequestURI` accepts the origin form only when it starts with `/` and holds no control byte -/
def targetOK (t : Str) : Bool := t.head? == some 47 && t.all (fun c => c ≥ 32 && c != 127)

def rawPathOf (t : Str) : Str := (cut 63 t).1
def rawQueryOf (t : Str) : Str := (cut 63 t).2.1

/-! tags -/

def formTag (t : RTarget) : String :=
  let hp := hasSuffix t.url.host vPath
  if hp then "hostpath"
  else match splitAtSub vPath t.url.path with
    | none => "fixed"
    | some (pre, _) => if !singlePath t then "multipath" else if hasSuffix pre slash then "slashpath" else "barepath"

def needsEsc (s : Str) : Bool := s.any (fun c => shouldEscape c .path || c == 37)

/-- the input class (one tag per class of interest; the failing classes have tags of their own) -/
def classTag (t : RTarget) (req : URL) : String :=
  let form := formTag t
  let raw := !req.rawPath.isEmpty
  let stripDec := !t.strip.isEmpty && hasPrefix req.path t.strip
  let stripRaw := !t.strip.isEmpty && hasPrefix (escapedPath req) t.strip
  if form == "multipath" then form
  else if !t.url.rawPath.isEmpty && contains vSlashPath t.url.path != contains vSlashPath (escapedPath t.url) then "tmpl-encoded-slash-mismatch"
  else if form != "fixed" && raw && stripDec != stripRaw then "strip-encoding-mismatch"
  else if !t.url.rawPath.isEmpty then "tmpl-encoded"
  else if form == "fixed" then form
  else if raw && (needsEsc t.prepend || needsEsc t.url.path) then "prefix-needs-escape"
  else form ++ (if raw then "-enc" else "-plain") ++ (if stripDec then "-strip" else "") ++ (if t.prepend.isEmpty then "" else "-prepend")

/-- input classes recorded as findings (checks/C13.findings.json) -/
def findingClasses : List String := ["strip-encoding-mismatch", "self-redirect-answered", "tmpl-encoded-slash-mismatch"]

/-! ### c13.build -/

def buildCore (inp impl : Json) : Except String Verdict := do
  let err := (impl.getObjValAs? String "err").toOption.getD ""
  let redirectOpt := getS inp "redirect"
  let host := getS inp "host"
  let target := getS inp "target"
  if err == "route" then
    -- the route command was rejected (template does not parse): nothing is served
    return ({ model := Json.mkObj [("err", "route")], agree := true, spec := true, nontrivial := false, tag := "route-rejected" } : Verdict)
  let t ← targetOf (getO impl "t")
  let mcode := redirectCode redirectOpt
  if (impl.getObjValAs? String "panic").isOk then
    return ({ model := Json.mkObj [("code", mcode)], agree := false, spec := false, nontrivial := true,
              tag := if codeSpec t.code then "panic" else "code-not-3xx" } : Verdict)
  let okOpts := t.strip == getS inp "strip" && t.prepend == getS inp "prepend"
  -- "receives the configured 3xx status": 0 or 3xx, and exactly the plain decimal reading of the option text
  let codeOK := codeSpec t.code && codeSpecOpt redirectOpt t.code
  if !codeOK || t.code != mcode then
    return ({ model := Json.mkObj [("code", mcode)], agree := t.code == mcode, spec := codeOK, nontrivial := true,
              tag := if codeOK then "code" else if codeSpec t.code then "code-not-configured" else "code-not-3xx" } : Verdict)
  if getB (getO impl "t") "odd" || (tmplParts t).1.isEmpty then
    return ({ model := Json.null, agree := true, spec := true, nontrivial := false, tag := "odd-template" } : Verdict)
  let mreq := if targetOK target then parseTarget host target else none
  match mreq with
  | none =>
    return ({ model := Json.mkObj [("err", "request")], agree := err == "request", spec := true, nontrivial := false, tag := "request-rejected" } : Verdict)
  | some req =>
    if err == "request" then
      return ({ model := urlJson req, agree := false, spec := true, nontrivial := false, tag := "request-parse" } : Verdict)
    let ireq ← urlOfDump (getO impl "req")
    let reqAgree := ireq == req
    if mcode == 0 then
      let noRedirect := getI impl "status" == 0 && getS impl "location" == []
      return ({ model := Json.mkObj [("code", 0)], agree := reqAgree && okOpts && noRedirect, spec := noRedirect, nontrivial := false,
                tag := "code-0" } : Verdict)
    let u := buildRedirectURL t req
    let loc := hexEscapeNonASCII (urlString u)
    let iu ← urlOfDump (getO impl "u")
    let iloc := getS impl "location"
    let istatus := getI impl "status"
    let agree := reqAgree && okOpts && iu == u && iloc == loc && istatus == mcode
    let spec := istatus == t.code && (locationSpec t host (escapedPath req) (rawPathOf target) req.rawQuery iloc)
    let tag := classTag t req
    return ({ model := Json.mkObj [("status", mcode), ("location", showB loc), ("u", urlJson u)],
              agree := agree, spec := spec, nontrivial := formTag t != "fixed" || contains vHost t.url.host,
              tag := tag } : Verdict)

/-- `c13.build` with the template text parsed by the model (`parseTemplate` = `url.Parse` in `addRoute`): the
record `BuildRedirectURL` reads is no longer taken on trust from the real code. -/
def buildH : Handler := fun inp impl => do
  let v ← buildCore inp impl
  let err := (impl.getObjValAs? String "err").toOption.getD ""
  let parsed := parseTemplate (getS inp "tmpl")
  let parseAgree ← match parsed with
    | .outside => pure true
    | .error => pure (err == "route")
    | .ok u => do
      if err == "route" then pure false else
      let t ← targetOf (getO impl "t")
      pure (t.url == u && !getB (getO impl "t") "odd")
  if parseAgree then
    let ptag := match parsed with | .outside => "-unparsed-shape" | .error => "-parse-error" | .ok _ => ""
    return ({ v with tag := if v.tag == "route-rejected" || v.tag == "odd-template" then v.tag ++ ptag else v.tag } : Verdict).toJson
  else
    let m := match parsed with
      | .ok u => Json.mkObj [("parsed", urlJson u)]
      | .error => Json.mkObj [("parsed", "error")]
      | .outside => Json.null
    return ({ v with model := m, agree := false, tag := "template-parse" } : Verdict).toJson

/-! ### c13.url: the `net/url` fragment against `net/url` -/

def urlH : Handler := fun inp impl => do
  let target := getS inp "target"
  let host := getS inp "host"
  let path := getS inp "path"
  let rawpath := getS inp "rawpath"
  let mreq := if targetOK target then parseTarget host target else none
  let iok := getB impl "ok"
  let a1 ← match mreq with
    | none => pure (!iok)
    | some req => do
      if !iok then pure false else
      let ireq ← urlOfDump (getO impl "req")
      pure (ireq == req && getS impl "escaped" == escapedPath req &&
            getS impl "str" == urlString { req with scheme := lit "https" })
  let w : URL := { host := host, path := path, rawPath := rawpath }
  let un := unescape rawpath
  let iun ← getHex impl "unesc_hex"
  let a2 := getS impl "escaped2" == escapedPath w && getS impl "str2" == urlString w &&
            getB impl "unesc_ok" == un.isSome && (un.isNone || un == some iun)
  -- law: what EscapedPath returns decodes to Path (evaluated on net/url's own output)
  let spec := unescape (getS impl "escaped2") == some path || path == [42]
  return ({ model := Json.mkObj [("escaped2", showB (escapedPath w)), ("str2", showB (urlString w)),
                                 ("req", match mreq with | some r => urlJson r | none => Json.null)],
            agree := a1 && a2, spec := spec, nontrivial := !rawpath.isEmpty || target.contains 37,
            tag := if mreq.isNone then "reject" else if (mreq.map (·.rawPath.isEmpty)).getD true then "default-encoding" else "rawpath" } : Verdict).toJson

/-! ### c13.http -/

def candsOf (j : Json) : Except String (List (Option RTarget)) :=
  match j with
  | .arr a => a.toList.mapM (fun x => match x with
      | .null => pure none
      | o => do let t ← targetOf o; pure (some t))
  | _ => pure []

def strList' (j : Json) : List Str :=
  match j with
  | .arr a => a.toList.filterMap (fun x => match x with | .str s => some (bytesOf s) | _ => none)
  | _ => []

def is3xx (s : Int) : Bool := 300 ≤ s && s ≤ 399

/-- the redirect counter (`p.Stats.RedirectCounter.With("code", strconv.Itoa(code)).Add(1)`): one increment labelled
with the status for a redirect answer, none otherwise; cases recorded without a counter carry no `counted` field -/
def countedOK (a : Json) (redirectCode : Option Int) : Bool :=
  match a.getObjValAs? Int "counted" with
  | .error _ => true
  | .ok n =>
    match redirectCode with
    | some c => n == 1 && getS a "countcode" == bytesOf (toString c)
    | none => n == 0

/-- the dumped table of a case -/
def tableOf (j : Json) : Except String C13Table.DTable :=
  match j with
  | .arr a => a.toList.mapM (fun kv => do
      let rs ← match getO kv "routes" with
        | .arr rs => rs.toList.filterMapM (fun r => do
            if getO r "t" == Json.null then pure none else
            let t ← targetOf (getO r "t")
            let p ← getHex r "pathhex"
            let up := getI r "up"
            pure (some ({ path := p, tgt := t, up := if up < 0 then none else some up.toNat, denied := getB r "denied" } : C13Table.DRoute)))
        | _ => pure []
      pure (getS kv "key", rs))
  | _ => pure []

/-- leading and trailing spaces / tabs of a header field value (removed by the server's header parser) -/
def trimOWS (s : Str) : Str :=
  let ws (c : UInt8) : Bool := c == 32 || c == 9
  ((s.dropWhile ws).reverse.dropWhile ws).reverse

def httpH : Handler := fun inp impl => do
  let err := (impl.getObjValAs? String "err").toOption.getD ""
  if err != "" then
    return ({ model := Json.null, agree := true, spec := true, nontrivial := false, tag := "harness-" ++ err } : Verdict).toJson
  let host := getS inp "host"
  let target := getS inp "target"
  let tls := getB inp "tls"
  -- the header value as net/http hands it over: optional white space around it is not part of it
  let xfp := trimOWS (getS inp "xfp")
  let noglob := getB inp "noglob"
  let status := getI impl "status"
  let hits := getI impl "hits"
  let hitsBy : List Int := match getO impl "hitsby" with
    | .arr a => a.toList.map (fun x => (x.getInt?).toOption.getD 0)
    | _ => []
  let iloc := getS impl "location"
  let icands ← candsOf (getO impl "cands")
  let ihosts := strList' (getO impl "hosts")
  let tbl ← tableOf (getO impl "table")
  let allRoutes := tbl.flatMap (·.2)
  -- templates outside the modelled shapes (no scheme, no host, user info): nothing is claimed
  let oddT (x : Json) : Bool := x != Json.null && getI x "code" != 0 &&
        (getB x "odd" || (match targetOf x with | .ok t => (tmplParts t).1.isEmpty | .error _ => true))
  let oddCand := match getO impl "table" with
    | .arr a => a.toList.any (fun kv => match getO kv "routes" with
        | .arr rs => rs.toList.any (fun r => oddT (getO r "t"))
        | _ => false)
    | _ => false
  if oddCand || (getS inp "host").isEmpty then
    return ({ model := Json.null, agree := true, spec := true, nontrivial := false, tag := "odd-template-or-empty-host" } : Verdict).toJson
  -- host keys outside the glob fragment the model states (classes, alternatives, escapes): not judged here (C03)
  if !C13Table.keysInFragment tbl || !C03.inFragment (C13Table.chars host) then
    return ({ model := Json.null, agree := true, spec := true, nontrivial := false, tag := "host-pattern-outside-fragment" } : Verdict).toJson
  -- the hypotheses of `model_meets_table_spec` about the real table: lower-case distinct keys, longest path first
  if !C13Table.wellFormedB tbl then
    return ({ model := Json.null, agree := false, spec := true, nontrivial := false, tag := "dump-not-wellformed" } : Verdict).toJson
  match (if targetOK target then C13Table.mkReq host target xfp tls else none) with
  | none =>
    return ({ model := Json.mkObj [("status", 400)], agree := status == 400, spec := hits == 0, nontrivial := false, tag := "bad-request" } : Verdict).toJson
  | some q =>
    let req := q.url
    if status == 400 then
      return ({ model := Json.null, agree := true, spec := hits == 0, nontrivial := false, tag := "server-400" } : Verdict).toJson
    let scheme := reqScheme xfp tls
    -- the model: C03's host list and per-host lookup on the dumped table, C13's skip, ServeHTTP
    let cfg := C13Table.cfgOf noglob
    let T := C13Table.toTable tbl
    let mhosts := C03.hostList cfg T q.r03
    let mcands := C13Table.cands cfg (C13Table.viewOf tbl) T q
    let sel := C13Table.selectRoute tbl noglob q
    let served := C13Table.serveTable tbl noglob q (getS inp "upgrade") (getS inp "accept")
    -- … against the real host matching / per-host lookup (hook)
    let tableAgree := mhosts == ihosts.map C13Table.chars && mcands == icands
    let upgrade := getS inp "upgrade"
    let accept := getS inp "accept"
    let method := getS inp "method"
    let hdrTag := (if equalFold upgrade (lit "websocket") then "+ws" else if accept == lit "text/event-stream" then "+sse"
                  else if upgrade.isEmpty && accept.isEmpty then "" else "+hdr") ++
                  (if method.isEmpty || method == lit "GET" then "" else "+nonget")
    let globTag := if noglob then "+noglob" else ""
    -- specification on the implementation's answer
    let own (l : Loc) : Bool := l.scheme == scheme && l.host == hexEscapeNonASCII (escape .host host) &&
        (unescape l.path == some req.path)
    let locOK (t : RTarget) : Bool := t.code == status && locationSpec t host (escapedPath req) (rawPathOf target) req.rawQuery iloc
    -- through the websocket handler the exchange is a raw pipe: attributed to a route only by the contact
    let explains (r : C13Table.DRoute) : Bool :=
      if is3xx status then r.tgt.code ≠ 0 && locOK r.tgt
      else if status == 403 && hits == 0 then r.denied
      else r.tgt.code == 0 && !r.denied && (match r.up with
        | some k => hits == 1 && hitsBy.getD k 0 == 1
        | none => hits == 0)
    let obs : C13Table.Observed := { noRoute := status == 404 && hits == 0 && !getB impl "hasloc", explains := explains }
    let judged := C13Table.specAnswered tbl noglob q host obs
    let specRedirect := if is3xx status then
        hits == 0 && allRoutes.any (fun r => r.tgt.code ≠ 0 && locOK r.tgt) &&
        (match parseLoc iloc with | some l => !(own l) | none => false)
      else true
    -- no-response cases (status -1) cannot be attributed
    let specTable := status == -1 || judged == .ok
    let specAll := specRedirect && specTable
    let failTag := if !specTable then (if judged == .nextHostNotTried then "next-host-not-tried" else "answer-from-no-matching-route") else ""
    let skippedBefore (r : C13Table.DRoute) : Bool :=
      (mcands.takeWhile (fun c => c != some r.tgt)).any (fun c => match c with | some c => c.code ≠ 0 | none => false)
    let modelHosts := Json.arr (mhosts.map (fun h => Json.str (String.ofList h))).toArray
    -- the connection was closed without a response: the handler panicked — unless the request went down the
    -- websocket path to a plain target (a raw pipe to an upstream that may not exist: the connection is hijacked)
    let noResponse := status == -1
    match served with
    | .upstream .websocket =>
      return ({ model := Json.mkObj [("redirect", false), ("via", "websocket"), ("hosts", modelHosts)], agree := tableAgree && !is3xx status && hits ≤ 1,
                spec := specRedirect && (noResponse || status != 200 || specTable), nontrivial := false,
                tag := if specRedirect && !(noResponse || status != 200 || specTable) then failTag else "proxy+ws" } : Verdict).toJson
    | _ =>
    if noResponse then
      return ({ model := Json.null, agree := false, spec := false, nontrivial := true, tag := "no-response" } : Verdict).toJson
    match sel, served with
    | some r, .forbidden =>
      -- the access gate stands in front of the redirect branch (as coded): 403, nothing contacted
      return ({ model := Json.mkObj [("status", 403), ("hits", 0), ("hosts", modelHosts)], agree := tableAgree && status == 403 && hits == 0,
                spec := specAll && hits == 0, nontrivial := r.tgt.code ≠ 0,
                tag := if !specTable then failTag else (if r.tgt.code ≠ 0 then "denied-redirect" else "denied-proxy") ++ hdrTag } : Verdict).toJson
    | some r, .redirect code loc =>
      let t := r.tgt
      let skipped := skippedBefore r
      let ownLoc := match parseLoc loc with | some l => own l | none => false
      let cls := if findingClasses.contains (classTag t req) then classTag t req
        else if ownLoc then "self-redirect-answered" else classTag t req
      let tag := if findingClasses.contains cls then cls else if !specTable then failTag
        else (if skipped then "skip-then-redirect" ++ globTag ++ "-" else "redirect-") ++ cls ++ hdrTag
      return ({ model := Json.mkObj [("status", code), ("location", showB loc), ("hits", 0), ("hosts", modelHosts)],
                agree := tableAgree && status == code && iloc == loc && hits == 0, spec := specAll && is3xx status, nontrivial := true,
                tag := tag } : Verdict).toJson
    | some r, .upstream _ =>
      -- a plain route: proxied — by the instrumented upstream of this very route (200, one hit there), or
      -- to an address outside the harness (no hit)
      let skipped := skippedBefore r
      let agree := !is3xx status && (match r.up with
        | some k => status == 200 && hits == 1 && hitsBy.getD k 0 == 1
        | none => hits == 0)
      return ({ model := Json.mkObj [("redirect", false), ("upstream", match r.up with | some k => Json.num k | none => Json.null), ("hosts", modelHosts)],
                agree := tableAgree && agree, spec := specAll, nontrivial := skipped,
                tag := if !specTable then failTag else (if skipped then "skip-then-proxy" else "proxy") ++ hdrTag ++ globTag } : Verdict).toJson
    | none, _ =>
      let skipped := mcands.any (fun c => match c with | some c => c.code ≠ 0 | none => false)
      return ({ model := Json.mkObj [("status", 404), ("hosts", modelHosts)], agree := tableAgree && status == 404 && hits == 0, spec := specAll, nontrivial := skipped,
                tag := if !specTable then failTag else (if skipped then "skip-then-noroute" else "noroute") ++ globTag } : Verdict).toJson
    | _, _ =>
      return ({ model := Json.null, agree := false, spec := specAll, nontrivial := false, tag := "model-unreachable" } : Verdict).toJson

/-! ### c13.concurrent -/

def concH : Handler := fun inp impl => do
  let err := (impl.getObjValAs? String "err").toOption.getD ""
  if err != "" then
    return ({ model := Json.null, agree := true, spec := true, nontrivial := false, tag := "harness-" ++ err } : Verdict).toJson
  let host := getS inp "host"
  let t ← targetOf (getO impl "t")
  if t.code == 0 || getB (getO impl "t") "odd" || (tmplParts t).1.isEmpty || host.isEmpty then
    return ({ model := Json.null, agree := true, spec := true, nontrivial := false, tag := "not-a-redirect-or-odd" } : Verdict).toJson
  let pairs := match getO impl "pairs" with | .arr a => a.toList | _ => []
  let check (p : Json) : Bool × Bool :=
    let target := getS p "target"
    let iloc := getS p "location"
    match parseTarget host target with
    | none => (false, false)
    | some req =>
      (iloc == location t req && getI p "status" == t.code,
       getI p "status" == t.code && locationSpec t host (escapedPath req) (rawPathOf target) req.rawQuery iloc)
  let rs := pairs.map check
  let foreign := getI impl "foreign" + getI impl "panics"
  return ({ model := Json.mkObj [("foreign", 0)], agree := rs.all (·.1) && foreign == 0, spec := rs.all (·.2) && foreign == 0,
            nontrivial := t.code ≠ 0 && getI inp "g" ≥ 2, tag := formTag t } : Verdict).toJson

/-! ### c13.sequence: consecutive requests on one shared target -/

def seqH : Handler := fun inp impl => do
  let err := (impl.getObjValAs? String "err").toOption.getD ""
  if err != "" then
    return ({ model := Json.null, agree := true, spec := true, nontrivial := false, tag := "harness-" ++ err } : Verdict).toJson
  let t ← targetOf (getO impl "t")
  if t.code == 0 || getB (getO impl "t") "odd" || (tmplParts t).1.isEmpty then
    return ({ model := Json.null, agree := true, spec := true, nontrivial := false, tag := "not-a-redirect-or-odd" } : Verdict).toJson
  let reqs := match getO inp "reqs" with | .arr a => a.toList | _ => []
  let answ := match getO impl "answers" with | .arr a => a.toList | _ => []
  -- answer k is judged against request k alone
  let judge (rq : Json) (a : Json) : Bool × Bool × Json :=
    let host := getS rq "host"
    let target := getS rq "target"
    let xfp := getS rq "xfp"
    let aerr := (a.getObjValAs? String "err").toOption.getD ""
    match (if targetOK target then parseTarget host target else none) with
    | none => (aerr == "request", true, Json.mkObj [("err", "request")])
    | some req =>
      if aerr != "" || (a.getObjValAs? String "panic").isOk || host.isEmpty then (aerr == "" && host.isEmpty, host.isEmpty, Json.null) else
      let status := getI a "status"
      let iloc := getS a "location"
      match answer (reqScheme xfp false) req [some t] with
      | some (code, loc) =>
        (status == code && iloc == loc && countedOK a (some code),
         status == t.code && locationSpec t host (escapedPath req) (rawPathOf target) req.rawQuery iloc,
         Json.mkObj [("status", code), ("location", showB loc)])
      | none =>
        -- the redirect would point at the request itself: skipped, no other route, no-route answer
        (status == 404 && !getB a "hasloc" && countedOK a none, !is3xx status, Json.mkObj [("status", 404)])
  let rs := (reqs.zip answ).map (fun (rq, a) => judge rq a)
  let lenOK := reqs.length == answ.length || reqs.length > 64
  let hostsSeen := (reqs.map (fun rq => getS rq "host")).eraseDups
  let failing := findingClasses.filter (fun c => reqs.any (fun rq =>
      match parseTarget (getS rq "host") (getS rq "target") with
      | some req => classTag t req == c
      | none => false))
  -- a Location that is the request's own URL although the comparison in Lookup did not see it (finding D18d)
  let ownAnswered := (reqs.zip answ).any (fun (rq, a) =>
      match parseTarget (getS rq "host") (getS rq "target"), parseLoc (getS a "location") with
      | some req, some l => l.scheme == reqScheme (getS rq "xfp") false && l.host == hexEscapeNonASCII (escape .host req.host) &&
          unescape l.path == some req.path
      | _, _ => false)
  let tag := match failing with
    | c :: _ => c
    | [] => if ownAnswered then "self-redirect-answered" else formTag t ++ (if contains vHost t.url.host then "-hostvar" else "") ++ (if hostsSeen.length ≥ 2 then "-hosts" else "")
  return ({ model := Json.arr (rs.map (·.2.2)).toArray, agree := lenOK && rs.all (·.1), spec := lenOK && rs.all (·.2.1),
            nontrivial := reqs.length ≥ 2 && hostsSeen.length ≥ 2, tag := tag } : Verdict).toJson

/-! ### c13.tag: a Consul `urlprefix-` tag with a redirect option, end to end -/

def strList (j : Json) : List Str :=
  match j with
  | .arr a => a.toList.filterMap (fun x => match x with | .str s => some (bytesOf s) | _ => none)
  | _ => []

def tagH : Handler := fun inp impl => do
  let err := (impl.getObjValAs? String "err").toOption.getD ""
  let opts := getS inp "opts"
  let host := getS inp "host"
  let target := getS inp "target"
  let xfp := getS inp "xfp"
  let fs := fields opts
  let lastR := lastRedirectField fs
  let others := fs.filter (fun o => (passedOn o).isSome && !hasPrefix o kRedirect)
  -- where the (last well-formed) redirect field stands among the options that are passed on
  let posTag : String := if fs.contains (lit "redirect") then "bare-redirect-option" else match lastR with
    | none => if fs.any (fun o => hasPrefix o kRedirect) then "malformed-redirect" else "no-redirect"
    | some _ =>
      let isR (o : Str) : Bool := hasPrefix o kRedirect && (passedOn o).isSome
      let before := (fs.takeWhile (fun o => !isR o)).any (fun o => (passedOn o).isSome)
      let after := ((fs.reverse.takeWhile (fun o => !isR o))).any (fun o => (passedOn o).isSome)
      if others.isEmpty then "redirect-only" else if before && after then "redirect-middle" else if before then "redirect-last" else "redirect-first"
  if err != "" then
    -- the command was not emitted / not accepted (`denotes`, `route.NewTable`: C14's and C05's subject)
    return ({ model := Json.null, agree := true, spec := true, nontrivial := false, tag := "cmd-" ++ err } : Verdict).toJson
  let addr := getS impl "addr"
  let t ← targetOf (getO impl "t")
  let m := tagCmd addr opts
  let mt := tagTarget addr opts
  let iopts := strList (getO impl "opts")
  let idst := getS impl "dst"
  -- the option map of the command, both ways
  let optsAgree := iopts.all (fun kv => optValue (keyVal kv).1 m.ropts == (keyVal kv).2 && m.ropts.any (fun o => (keyVal o).1 == (keyVal kv).1)) &&
                   m.ropts.all (fun o => iopts.any (fun kv => (keyVal kv).1 == (keyVal o).1))
  let cmdAgree := idst == m.dst && optsAgree && t.strip == mt.strip && t.prepend == mt.prepend && t.code == mt.code
  -- specification: the tag's options whatever their order, the redirect field's code and URL
  let laterProto := match lastR with
    | none => false
    | some _ => (fs.reverse.takeWhile (fun o => !(hasPrefix o kRedirect && (splitComma (o.drop kRedirect.length)).length == 2))).any
                  (fun o => (protoSchemes.lookup o).isSome)
  let cmdSpec := tagSpec opts t.strip t.prepend t.code &&
    (match lastR with | some (_, url) => laterProto || idst == url | none => true)
  let nontrivial := lastR.isSome && !others.isEmpty
  let a := getO impl "answer"
  let aerr := (a.getObjValAs? String "err").toOption.getD ""
  if getB (getO impl "t") "odd" || (tmplParts t).1.isEmpty || host.isEmpty then
    return ({ model := Json.null, agree := cmdAgree, spec := cmdSpec, nontrivial := false, tag := "odd-template-" ++ posTag } : Verdict).toJson
  match (if targetOK target then parseTarget host target else none) with
  | none =>
    return ({ model := Json.mkObj [("err", "request")], agree := cmdAgree && aerr == "request", spec := cmdSpec, nontrivial := false,
              tag := "request-rejected" } : Verdict).toJson
  | some req =>
    if aerr != "" || (a.getObjValAs? String "panic").isOk then
      return ({ model := Json.null, agree := false, spec := false, nontrivial := true, tag := "panic-or-parse-" ++ posTag } : Verdict).toJson
    let status := getI a "status"
    let iloc := getS a "location"
    -- the target as the specification reads it off the tag (URL as net/url parsed the destination)
    let tspec : RTarget := { url := t.url, strip := lastPlainValue (lit "strip") fs, prepend := lastPlainValue (lit "prepend") fs,
                             code := match lastR with | some (c, _) => configuredCode c | none => 0 }
    let tm : RTarget := { url := t.url, strip := mt.strip, prepend := mt.prepend, code := mt.code }
    let cls := classTag tm req
    let fcls := findingClasses.contains cls
    -- does the route match the request at all? (host/path matching is C03's subject: read off the answer's kind)
    match handle (reqScheme xfp false) req [some tm] (fun _ => (false, true)) (getS inp "upgrade") (getS inp "accept") with
    | .redirect code loc =>
      if status == 404 && !getB a "hasloc" then
        -- the request does not match the tag's host/path
        return ({ model := Json.mkObj [("status", 404)], agree := cmdAgree, spec := cmdSpec, nontrivial := false, tag := "no-match-" ++ posTag } : Verdict).toJson
      let locOK := status == tspec.code && locationSpec tspec host (escapedPath req) (rawPathOf target) req.rawQuery iloc
      let ownAnswered := match parseLoc iloc with
        | some l => l.scheme == reqScheme xfp false && l.host == hexEscapeNonASCII (escape .host host) && unescape l.path == some req.path
        | none => false
      return ({ model := Json.mkObj [("status", code), ("location", showB loc), ("dst", showB m.dst)],
                agree := cmdAgree && status == code && iloc == loc && countedOK a (some code), spec := cmdSpec && locOK && !ownAnswered, nontrivial := nontrivial,
                tag := if fcls then cls else if ownAnswered then "self-redirect-answered" else posTag } : Verdict).toJson
    | .noRoute =>
      -- the redirect points at the request itself: skipped, no other route
      return ({ model := Json.mkObj [("status", 404)], agree := cmdAgree && status == 404 && !getB a "hasloc", spec := cmdSpec && !is3xx status,
                nontrivial := nontrivial, tag := "self-skip-" ++ posTag } : Verdict).toJson
    | _ =>
      -- not a redirect route (no or malformed redirect field, or a code outside 300..399): proxied
      return ({ model := Json.mkObj [("redirect", false)], agree := cmdAgree && !is3xx status && countedOK a none, spec := cmdSpec && (tspec.code ≠ 0 || !is3xx status),
                nontrivial := false, tag := "proxied-" ++ posTag } : Verdict).toJson

def streams : List (String × Handler) :=
  [("c13.build", buildH), ("c13.url", urlH), ("c13.http", httpH), ("c13.concurrent", concH), ("c13.sequence", seqH), ("c13.tag", tagH)]
end Fabio.Driver.C13
