import Fabio.Driver.C07
def main : IO Unit := Fabio.Driver.run Fabio.Driver.C07.streams
