import Fabio.Driver.Proto
namespace Fabio.Driver.C09
open Lean Fabio.Driver

def streams : List (String × Handler) := []
end Fabio.Driver.C09
