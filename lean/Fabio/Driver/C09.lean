import Fabio.Driver.Proto
import Fabio.Model.C09
namespace Fabio.Driver.C09
open Lean Fabio.Driver Fabio.Model.C09

/-! JSON glue: byte strings travel hex-encoded. -/

def hexVal (c : Char) : Option Nat :=
  if '0' ≤ c ∧ c ≤ '9' then some (c.toNat - 48)
  else if 'a' ≤ c ∧ c ≤ 'f' then some (c.toNat - 87)
  else if 'A' ≤ c ∧ c ≤ 'F' then some (c.toNat - 55)
  else none

def hexDecodeL : List Char → Except String Bytes
  | [] => .ok []
  | [_] => .error "odd hex length"
  | a :: b :: r =>
    match hexVal a, hexVal b with
    | some x, some y => do let t ← hexDecodeL r; pure (UInt8.ofNat (x * 16 + y) :: t)
    | _, _ => .error "bad hex digit"

def hexDecode (s : String) : Except String Bytes := hexDecodeL s.toList

def hexDigit (n : Nat) : Char := if n < 10 then Char.ofNat (48 + n) else Char.ofNat (87 + n)

def hexEncode (bs : Bytes) : String :=
  String.ofList (bs.foldr (fun b acc => hexDigit (b.toNat / 16) :: hexDigit (b.toNat % 16) :: acc) [])

def parseSeg (j : Json) : Except String ReadEv :=
  match j.getObjValAs? String "e" with
  | .ok "eof" => .ok .eof
  | .ok "err" => .ok .err
  | .ok "" | .error _ => do
    let c ← j.getObjValAs? String "c" <|> pure ""
    let b ← hexDecode c
    pure (.chunk b)
  | .ok e => .error s!"bad read event {e}"

def parseScript (j : Json) (key : String) : Except String Script := do
  match j.getObjVal? key with
  | .ok (.arr a) => a.toList.mapM parseSeg
  | .ok .null | .error _ => pure []
  | .ok _ => .error s!"{key}: not an array"

def parseHexes (j : Json) (key : String) : Except String Bytes := do
  match j.getObjVal? key with
  | .ok (.arr a) =>
    let bs ← a.toList.mapM (fun x => do let s ← x.getStr?; hexDecode s)
    pure bs.flatten
  | .ok .null | .error _ => pure []
  | .ok _ => .error s!"{key}: not an array"

def parseWrites (j : Json) : Except String WScript := do
  match j.getObjVal? "writes" with
  | .ok (.arr a) => a.toList.mapM (fun x => do
      let k ← x.getObjValAs? String "k"
      let n ← x.getObjValAs? Nat "n" <|> pure 0
      match k with
      | "full" => pure WriteEv.full
      | "short" => pure (WriteEv.short n)
      | "fail" => pure (WriteEv.fail n)
      | _ => .error "bad write event")
  | .ok .null | .error _ => pure []
  | .ok _ => .error "writes: not an array"

def isPrefix (a b : Bytes) : Bool := b.take a.length == a

def numChunks (s : Script) : Nat := (s.takeWhile (fun e => match e with | .chunk _ => true | _ => false)).length

/-! ### c09.copy -/

def copyErrName : CopyErr → String
  | .none => "none" | .read => "read" | .write => "write" | .shortWrite => "short" | .stuck => "stuck"

def copyH : Handler := fun inp impl => do
  let s ← parseScript inp "reads"
  let w ← parseWrites inp
  let r := copyBuffer copyBufSize s w
  let m := Json.mkObj [("written", hexEncode r.written), ("counter", r.counter), ("err", copyErrName r.err)]
  -- specification on the implementation's own output
  let iw ← (do let x ← impl.getObjValAs? String "written"; hexDecode x) <|> pure []
  let ie := (impl.getObjValAs? String "err").toOption.getD "?"
  let ic := (impl.getObjValAs? Nat "counter").toOption.getD 0
  let stream := streamOf s
  let clean := ie == "none" || ie == "read"
  let spec := isPrefix iw stream && ic == iw.length &&
    (!clean || (iw == stream && (ie == "none") == (endOf s == .eof))) &&
    (clean || ie == "write" || ie == "short") && (w != [] || clean)
  let big := s.any (fun e => match e with | .chunk b => b.length > copyBufSize | _ => false)
  -- `coalesce`: the real reader hands out its last bytes together with the EOF/error, (n > 0, err); for
  -- copyBuffer as written that is the same as two reads, so the prediction does not change
  let dataErr := (inp.getObjValAs? Bool "coalesce").toOption.getD false
  return ({ model := m, agree := m == impl, spec := spec, nontrivial := numChunks s ≥ 2 || big,
            tag := copyErrName r.err ++ (if big then "-big" else "") ++ (if dataErr then "-dataerr" else "") } : Verdict).toJson

/-! ### c09.bufio -/

def allBytes : Script → Nat
  | [] => 0
  | .chunk b :: r => b.length + allBytes r
  | _ :: r => allBytes r

def fullErrName : Option FullErr → String
  | none => "none" | some .eof => "eof" | some .unexpectedEOF => "unexpected" | some .err => "err"
def rdErrName : Option RdErr → String
  | none => "none" | some .eof => "eof" | some .err => "err"
def peekErrName : Option PeekErr → String
  | none => "none" | some .bufferFull => "full" | some (.rd .eof) => "eof" | some (.rd .err) => "err"

def bufioH : Handler := fun inp impl => do
  let s ← parseScript inp "reads"
  let size ← inp.getObjValAs? Nat "size"
  let size := max size 16
  let ops ← match inp.getObjVal? "ops" with
    | .ok (.arr a) => a.toList.mapM (fun x => do
        let o ← x.getObjValAs? String "op"; let n ← x.getObjValAs? Nat "n"; pure (o, n))
    | _ => pure []
  let total := allBytes s
  let mut b := BufReader.new s size
  let mut outs : Array Json := #[]
  for (o, n) in ops do
    let (d, e, b') ← match o with
      | "peek" => let (d, e, b') := b.peek n; pure (d, peekErrName e, b')
      | "read" => let (d, e, b') := b.read n; pure (d, rdErrName e, b')
      | "full" => let (d, e, b') := b.readFull n; pure (d, fullErrName e, b')
      | _ => throw "bad op"
    b := b'
    outs := outs.push (Json.mkObj [("d", hexEncode d), ("e", e), ("buffered", b.buf.length), ("pulled", total - allBytes b.conn)])
  let m := Json.arr outs
  -- specification: conservation (consumed + buffered = pulled) and order (what was handed out is the
  -- stream, in order, each byte once), on the real bufio.Reader's answers
  let stream := streamOf s
  let ir := match impl with | .arr a => a.toList | _ => []
  let mut consumed : Nat := 0
  let mut ok := ir.length == ops.length
  for ((o, _), r) in ops.zip ir do
    let d ← (do let x ← r.getObjValAs? String "d"; hexDecode x) <|> pure []
    let bu := (r.getObjValAs? Nat "buffered").toOption.getD 0
    let pu := (r.getObjValAs? Nat "pulled").toOption.getD 0
    if !(isPrefix d (stream.drop consumed)) then ok := false
    if o != "peek" then consumed := consumed + d.length
    if consumed + bu != pu then ok := false
  let sni := match ops with | ("peek", 9) :: ("full", _) :: _ => true | _ => false
  return ({ model := m, agree := m == impl, spec := ok, nontrivial := numChunks s ≥ 2,
            tag := (if sni then "peek9-full" else "mixed") ++ (if size == 4096 then "-4096" else "-small") } : Verdict).toJson

/-! ### c09.pxyhdr -/

/-- host and port texts of `"1.2.3.4:80"` / `"[::1]:80"` (the last colon separates the port). -/
def splitHostPort (s : List Char) : List Char × List Char :=
  match Fabio.lastIndexOf ':' s with
  | none => (s, [])
  | some i =>
    let h := s.take i
    let p := s.drop (i + 1)
    let h := match h with
      | '[' :: r => if r.getLast? == some ']' then r.dropLast else h
      | _ => h
    (h, p)

def splitOn (c : Char) (s : List Char) : List (List Char) :=
  let rec go (cur : List Char) : List Char → List (List Char)
    | [] => [cur.reverse]
    | x :: xs => if x = c then cur.reverse :: go [] xs else go (x :: cur) xs
  go [] s

def bytesToChars (b : Bytes) : List Char := b.map (fun x => Char.ofNat x.toNat)

def proxyLineFor (raddr laddr : String) : Bytes :=
  let (ch, cp) := splitHostPort raddr.toList
  let (sh, sp) := splitHostPort laddr.toList
  asciiBytes (proxyHeader ch cp sh sp)

/-- PROXY protocol v1 shape of a line, for the given peer/local address texts. -/
def pxySpec (line : Bytes) (raddr laddr : String) : Bool :=
  let (ch, cp) := splitHostPort raddr.toList
  let (sh, sp) := splitHostPort laddr.toList
  let cs := bytesToChars line
  let fam := if ch.contains ':' || !ch.contains '.' then "TCP6" else "TCP4"
  cs.length ≤ 107 && cs.getLast? == some '\n' && (cs.dropLast).getLast? == some '\r' &&
  splitOn ' ' (cs.dropLast.dropLast) == ["PROXY".toList, fam.toList, ch, sh, cp, sp]

def pxyH : Handler := fun _inp impl => do
  let line ← (do let x ← impl.getObjValAs? String "line"; hexDecode x)
  let ra ← impl.getObjValAs? String "raddr"
  let la ← impl.getObjValAs? String "laddr"
  let m := proxyLineFor ra la
  let v6 (s : String) := (splitHostPort s.toList).1.contains ':'
  return ({ model := Json.str (hexEncode m), agree := m == line, spec := pxySpec line ra la, nontrivial := true,
            tag := if v6 ra != v6 la then "mixed" else if v6 ra then "tcp6" else "tcp4" } : Verdict).toJson

/-! ### c09.tunnel / c09.ws -/

def parseOrder : String → Except String CloseOrder
  | "client" => pure .client | "upstream" => pure .upstream | "halfclose" => pure .halfClose
  | "halfidle" => pure .halfIdle
  | o => .error s!"bad order {o}"

/-- Does the client stream start with a complete ClientHello record the proxy accepts? -/
def helloOk (stream : Bytes) : Bool :=
  match helloSize (stream.take 9) with
  | some n => n ≤ stream.length
  | none => false

/-- What the model of the code forwards on one connection: (tunnel established, what the upstream has before
the copy phase, what the copy phase forwards, what was read ahead with the ClientHello). -/
def predictConn (path : String) (routed : Bool) (line : Bytes) (s : Script) : Bool × Bytes × Bytes × Bytes :=
  let codeLine := if path == "dyn" && !dynWritesProxyHeader then [] else line
  if path == "sni" then
    let r := sniServe codeCopySrc routed codeLine s
    let x := (sniServe .rawConn routed codeLine s).excess
    if r.stage == .tunnel then (true, codeLine ++ r.hello, r.upstream.drop (codeLine ++ r.hello).length, x)
    else (false, [], [], x)
  else if routed then (true, codeLine, (tcpServe [] s).1, []) else (false, [], [], [])

def tunnelH : Handler := fun inp impl => do
  let path ← inp.getObjValAs? String "path"
  let pxy ← inp.getObjValAs? Bool "pxy" <|> pure false
  let routed ← inp.getObjValAs? Bool "routed" <|> pure true
  let order ← (do let o ← inp.getObjValAs? String "order"; parseOrder o)
  let s ← parseScript inp "csegs"
  let ustream ← parseHexes inp "usegs"
  let reply ← parseHexes inp "reply"
  let half := order == .halfClose || order == .halfIdle
  let reply := if half then reply else []
  let iup ← (do let x ← impl.getObjValAs? String "up"; hexDecode x)
  let icl ← (do let x ← impl.getObjValAs? String "cl"; hexDecode x)
  let iserved := (impl.getObjValAs? Bool "served").toOption.getD true
  -- the client finishes first (orders client / halfclose / halfidle): the upstream is told (EOF behind the data)
  let ieof := (impl.getObjValAs? Bool "eof_seen").toOption.getD true
  -- a large final client burst travels as (length, seed); the harness reports how many bytes arrived behind
  -- the head and whether they are exactly the burst's first bytes
  let burst := (inp.getObjValAs? Nat "burst").toOption.getD 0
  let late := (inp.getObjValAs? Nat "pause_ms").toOption.getD 0 > 0
  let ibg := (impl.getObjValAs? Nat "burst_got").toOption.getD 0
  let ibok := (impl.getObjValAs? Bool "burst_ok").toOption.getD true
  let ra := (impl.getObjValAs? String "raddr").toOption.getD ""
  let la := (impl.getObjValAs? String "laddr").toOption.getD ""
  let line := if pxy then proxyLineFor ra la else []
  let stream := streamOf s
  -- the model of the code as it is
  let (tunnel, pre, fwd, excess) := predictConn path routed line s
  let t := scenario codeMode pre fwd ustream reply order
  let (mup, mcl) := if tunnel then (t.upSaw, t.clSaw) else ([], [])
  let mburst := if tunnel then burst else 0
  -- an earlier connection through the same handler instance (the handler keeps nothing between connections:
  -- the model of a connection has no state parameter): its stream, then EOF
  let warm := (inp.getObjVal? "warm").toOption.filter (· != Json.null)
  let wstream ← match warm with
    | some w => (do let x ← w.getObjValAs? String "data"; hexDecode x)
    | none => pure []
  let wra := (impl.getObjValAs? String "warm_raddr").toOption.getD ""
  let wla := (impl.getObjValAs? String "warm_laddr").toOption.getD ""
  let wline := if pxy then proxyLineFor wra wla else []
  let iwup ← (do let x ← impl.getObjValAs? String "warm_up"; hexDecode x) <|> pure []
  let wTunnel := (impl.getObjValAs? String "warm_lookup").toOption == some "hit"
  let mwup := match warm with
    | some _ =>
      let (wt, wpre, wfwd, _) := predictConn path routed wline [.chunk wstream, .eof]
      if wt then wpre ++ wfwd else []
    | none => []
  -- order `halfidle`: has the handler ended once the server closed the client connection?
  let mserved := !(tunnel && order == .halfIdle) || t.torn
  let m := Json.mkObj [("up", hexEncode mup), ("cl", hexEncode mcl), ("burst_got", mburst), ("burst_ok", true),
    ("warm_up", hexEncode mwup), ("served", mserved),
    ("eof_seen", !(tunnel && order != .upstream) || t.upEOF)]
  let timeouts := (inp.getObjValAs? Nat "rt_ms").toOption.getD 0 > 0 || (inp.getObjValAs? Nat "wt_ms").toOption.getD 0 > 0
  -- the specification, on what the endpoints actually received
  -- "once a connection is tunnelled": the proxy's own Lookup call returned a target (observed, so that a
  -- shrunk input whose `routed`/`host` fields no longer fit its bytes cannot fake a failure)
  let expectTunnel := (impl.getObjValAs? String "lookup").toOption == some "hit"
  let wantUp := line ++ stream
  let wantCl := ustream ++ reply
  let spec := (!expectTunnel || (iup == wantUp && icl == wantCl && ibg == burst && ibok && (order != .halfIdle || iserved) &&
      (order == .upstream || ieof))) &&
    (warm.isNone || !wTunnel || iwup == wline ++ wstream)
  let segs := numChunks s
  let tag :=
    if !expectTunnel then path ++ "-no-tunnel"
    else if half && !spec && iup == wantUp && isPrefix ustream icl && isPrefix icl wantCl && icl != wantCl then
      "half-close-reply"   -- the shape of D14: everything arrived except (part of) the reply
    else if path == "dyn" && pxy && !dynWritesProxyHeader then "dyn-pxyproto-ignored"
    else path ++ (match order with | .client => "-client" | .upstream => "-upstream" | .halfClose => "-half" | .halfIdle => "-halfidle") ++
      (if excess != [] then "-readahead" else "") ++ (if pxy then "-pxy" else "") ++
      (if late then "-late" else "") ++ (if burst > 0 then "-burst" else "") ++
      (if warm.isSome then "-second" else "") ++ (if timeouts then "-timeouts" else "") ++
      (if (inp.getObjValAs? Bool "duplex").toOption.getD false then "-duplex" else "")
  return ({ model := m, agree := mup == iup && mcl == icl && mburst == ibg && ibok && mwup == iwup && (!expectTunnel || (mserved == iserved && ieof)), spec := spec,
            nontrivial := expectTunnel && stream != [] && (segs ≥ 2 || ustream != []),
            tag := tag } : Verdict).toJson

def wsH : Handler := fun inp impl => do
  let order ← (do let o ← inp.getObjValAs? String "order"; parseOrder o)
  let s ← parseScript inp "csegs"
  let ustream ← parseHexes inp "usegs"
  let extra ← parseHexes inp "u101extra"
  let reply ← parseHexes inp "reply"
  if order == .halfIdle then throw "c09.ws: no order halfidle (a hijacked connection is not the server's to close)"
  let reply := if order == .halfClose then reply else []
  let iup ← (do let x ← impl.getObjValAs? String "up"; hexDecode x)
  let icl ← (do let x ← impl.getObjValAs? String "cl"; hexDecode x)
  let hs := (impl.getObjValAs? Bool "handshake").toOption.getD false
  let burst := (inp.getObjValAs? Nat "burst").toOption.getD 0
  let ibg := (impl.getObjValAs? Nat "burst_got").toOption.getD 0
  let ibok := (impl.getObjValAs? Bool "burst_ok").toOption.getD true
  let stream := streamOf s
  let t := scenario codeMode [] (tcpServe [] s).1 (extra ++ ustream) reply order
  let m := Json.mkObj [("up", hexEncode t.upSaw), ("cl", hexEncode t.clSaw), ("burst_got", burst), ("burst_ok", true)]
  let wantCl := extra ++ ustream ++ reply
  let ieof := (impl.getObjValAs? Bool "eof_seen").toOption.getD true
  let spec := hs && iup == stream && icl == wantCl && ibg == burst && ibok && (order == .upstream || ieof)
  let tag :=
    if !hs then "handshake-failed"
    else if order == .halfClose && !spec && iup == stream && isPrefix (extra ++ ustream) icl && isPrefix icl wantCl && icl != wantCl then
      "half-close-reply"
    else "ws" ++ (match order with | .client => "-client" | .upstream => "-upstream" | .halfClose => "-half" | .halfIdle => "-halfidle") ++
      (if extra != [] then "-with101" else "") ++ (if burst > 0 then "-burst" else "")
  return ({ model := m, agree := hs && t.upSaw == iup && t.clSaw == icl && ibg == burst && ibok && ieof, spec := spec,
            nontrivial := stream != [] && (numChunks s ≥ 2 || ustream != []), tag := tag } : Verdict).toJson

def streams : List (String × Handler) :=
  [("c09.copy", copyH), ("c09.bufio", bufioH), ("c09.pxyhdr", pxyH), ("c09.tunnel", tunnelH), ("c09.ws", wsH)]
end Fabio.Driver.C09
