import Fabio.Driver.C18
def main : IO Unit := Fabio.Driver.run Fabio.Driver.C18.streams
