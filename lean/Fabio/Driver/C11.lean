import Fabio.Driver.Proto
import Fabio.Model.C11
namespace Fabio.Driver.C11
open Lean Fabio.Driver Fabio.Model.C11

/-! ### JSON helpers -/

def arrOf (j : Json) (k : String) : List Json :=
  match j.getObjVal? k with
  | .ok (.arr a) => a.toList
  | _ => []

def strOf (j : Json) (k : String) : String := (j.getObjValAs? String k).toOption.getD ""
def boolOf (j : Json) (k : String) : Bool := (j.getObjValAs? Bool k).toOption.getD false
def intOf (j : Json) (k : String) (d : Int := 0) : Int := (j.getObjValAs? Int k).toOption.getD d

def strList (js : List Json) : List String := js.filterMap fun j => j.getStr?.toOption

/-! ### c11.select -/

/-- The names a certificate spells, in the order `BuildNameToCertificate` visits them; none for a leaf that
does not parse. -/
def certOf (i : Nat) (j : Json) : Cert :=
  if boolOf j "bad" then ⟨i, []⟩ else
  let cn := strOf j "cn"
  let sans := strList (arrOf j "sans")
  ⟨i, ((if cn.isEmpty then [] else [cn]) ++ sans).map String.toList⟩

def certSetOf (js : List Json) : CertSet := js.zipIdx.map fun (j, i) => certOf i j

def answerPair : Answer → Int × String
  | .cert c => (c.id, "")
  | .noCert => (-1, "")
  | .errNoCerts => (-1, "nocerts")

def pairJson (p : Int × String) : Json := Json.mkObj [("i", p.1), ("e", p.2)]

def implPairs (impl : Json) : Option (List (Int × String)) :=
  match impl with
  | .arr a => some (a.toList.map fun j => (intOf j "i" (-99), strOf j "e"))
  | _ => none

def hasUpper (cs : CertSet) : Bool := cs.any fun c => c.names.any fun n => n.any fun ch => 'A' ≤ ch && ch ≤ 'Z'

def selectH : Handler := fun inp impl => do
  let cs : CertSet := if boolOf inp "set" then certSetOf (arrOf inp "certs") else []
  let strict := boolOf inp "strict"
  let reqs := (strList (arrOf inp "reqs")).map String.toList
  let model := reqs.map fun r => answerPair (getCertificate cs r strict)
  let spec := reqs.map fun r => answerPair (specAnswer cs r strict)
  let branches := reqs.map fun r => branch cs r strict
  let ip := implPairs impl
  let agree := ip == some model
  let specOk := ip == some spec
  let interesting := fun (b : String) => b == "exact" || b == "wildcard-1" || b == "wildcard-n"
  let firstBad : Option String :=
    match ip with
    | some l => ((l.zip spec).zip branches).findSome? fun ((a, b), br) => if a != b then some br else none
    | none => none
  let tag := match firstBad with
    | some br => br ++ (if hasUpper cs then "+certcase" else "")
    | none => branches.head?.getD "noreq"
  return ({ model := Json.arr (model.map pairJson).toArray, agree := agree, spec := specOk,
            nontrivial := cs.length ≥ 2 && branches.any interesting, tag := tag } : Verdict).toJson

/-! ### c11.watch -/

def fileOf (j : Json) : Model.C11.Name × FileC :=
  let c := intOf j "c" (-1)
  let k := intOf j "k" (-1)
  ((strOf j "name").toList, ⟨if c < 0 then none else some c.toNat, if k < 0 then none else some k.toNat⟩)

/-- material: `none` = nil map; otherwise the files in canonical (name) order, so that `=` is `reflect.DeepEqual` -/
abbrev Mat := Option Blocks

def matOf (j : Json) : Mat :=
  if boolOf j "nil" then none
  else some (((arrOf j "files").map fileOf).mergeSort (fun a b => lexLe a.1 b.1))

/-- `loadCertificates` on a material (a nil map ranges over nothing and yields no certificates, no error) -/
def mkCerts (m : Mat) : Option (List Nat) :=
  match m with
  | none => some []
  | some b => (loadCertificates b (b.map (·.1))).map (·.map (·.2))

def scriptOf (mats : Array Mat) (js : List Json) : List (LoadResult Mat) :=
  js.map fun j =>
    if boolOf j "err" then .err else
    match mats[(intOf j "mat").toNat]? with
    | some m => .blocks m
    | none => .err

structure WatchObs where
  calls : Int
  pubs : List (List Nat)
  returned : Bool
  lastTag : String
  sawBad : Bool

def isSleep {M S} : Out M S → Bool
  | .sleep _ => true
  | _ => false

def stepTag (st : St Mat) : LoadResult Mat → String
  | .err => "load-error"
  | .blocks m => if m = st.last then "unchanged" else
    match mkCerts m with
    | none => "bad-material"
    | some _ => "published"

/-- Run the machine against `script[min(i, len-1)]` up to its first sleep / its return; more than `limit`
loader invocations without either is a spin. -/
def observe (sleepOnMakeErr : Bool) (refresh : Int) (script : Array (LoadResult Mat)) (limit : Nat) : WatchObs :=
  let rec go (fuel : Nat) (i : Nat) (st : St Mat) (pubs : List (List Nat)) (sawBad : Bool) : WatchObs :=
    match fuel with
    | 0 => ⟨-1, pubs.reverse, false, "spin", sawBad⟩
    | fuel+1 =>
      let r := script[min i (script.size - 1)]?.getD .err
      let (st', outs) := step sleepOnMakeErr mkCerts refresh st r
      let pubs' := outs.foldl (fun acc o => match o with | .publish _ s => s :: acc | _ => acc) pubs
      let t := stepTag st r
      let bad := sawBad || t == "bad-material" || t == "load-error"
      if st'.returned then ⟨i+1, pubs'.reverse, true, "returned-once", bad⟩
      else if outs.any isSleep then ⟨i+1, pubs'.reverse, false, "sleep-" ++ t, bad⟩
      else go fuel (i+1) st' pubs' bad
  go (limit + 1) 0 ⟨none, false⟩ [] false

def natLists (j : Json) (k : String) : List (List Nat) :=
  (arrOf j k).map fun a => match a with
    | .arr xs => xs.toList.map fun x => (x.getInt?.toOption.getD (-1)).toNat
    | _ => []

def watchH : Handler := fun inp impl => do
  let mats := ((arrOf inp "mats").map matOf).toArray
  let script := (scriptOf mats (arrOf inp "script")).toArray
  if script.size == 0 then throw "empty script"
  let refresh := intOf inp "refresh_ms" * 1000000
  let o := observe true refresh script (script.size + 64)
  let model := Json.mkObj [("calls", o.calls), ("pubs", Json.arr (o.pubs.map fun p => Json.arr (p.map fun (n : Nat) => Json.num n).toArray).toArray),
                           ("returned", o.returned)]
  let iCalls := intOf impl "calls" (-99)
  let iPubs := natLists impl "pubs"
  let iRet := boolOf impl "returned"
  let agree := iCalls == o.calls && iPubs == o.pubs && iRet == o.returned
  -- the property on the implementation's own output: no spin (between two loader invocations a sleep — which
  -- ends the observation — or a publication), and only sets made from usable material are ever published
  let goodSets := mats.toList.filterMap mkCerts
  let spec := iCalls != -1 && iCalls ≤ iPubs.length + 1 && iPubs.all (fun p => goodSets.contains p)
  return ({ model := model, agree := agree, spec := spec,
            nontrivial := o.sawBad || o.pubs.length ≥ 2, tag := o.lastTag } : Verdict).toJson

/-! ### c11.watch_gap -/

structure GapRec where
  slept : Bool
  pub : Option (List Nat)
deriving BEq

def gapsOf (refresh : Int) (script : Array (LoadResult Mat)) (upto : Nat) : List (GapRec × String) × Bool :=
  let rec go (fuel : Nat) (i : Nat) (st : St Mat) (acc : List (GapRec × String)) : List (GapRec × String) × Bool :=
    match fuel with
    | 0 => (acc.reverse, false)
    | fuel+1 =>
      let r := script[min i (script.size - 1)]?.getD .err
      let (st', outs) := step true mkCerts refresh st r
      let pub := outs.findSome? fun o => match o with | .publish _ s => some s | _ => none
      let acc' := (⟨outs.any isSleep, pub⟩, stepTag st r) :: acc
      if st'.returned then (acc'.reverse, true) else go fuel (i+1) st' acc'
  go (upto - 1) 0 ⟨none, false⟩ []

def implGaps (j : Json) : List GapRec × Bool :=
  ((arrOf j "gaps").map fun g =>
    ⟨boolOf g "slept", match g.getObjVal? "pub" with
      | .ok (.arr xs) => some (xs.toList.map fun x => (x.getInt?.toOption.getD (-1)).toNat)
      | _ => none⟩,
   boolOf j "returned")

structure GapRes where
  agree : Bool
  bad : Option String
  sawBad : Bool
  n : Nat

def gapOne (upto : Nat) (sj ij : Json) : GapRes :=
  let mats := ((arrOf sj "mats").map matOf).toArray
  let script := (scriptOf mats (arrOf sj "script")).toArray
  let mres := gapsOf (intOf sj "refresh_ms" * 1000000) script upto
  let mg : List (GapRec × String) := mres.1
  let ires := implGaps ij
  let ig : List GapRec := ires.1
  let agree := mg.map (fun p => p.1) == ig && mres.2 == ires.2
  let tags : List String := mg.map (fun p => p.2) ++ List.replicate ig.length "?"
  let badGap : Option (GapRec × String) := (ig.zip tags).find? fun p => !p.1.slept && p.1.pub.isNone
  { agree := agree, bad := badGap.map (fun p => p.2),
    sawBad := mg.any (fun p => p.2 == "bad-material" || p.2 == "load-error"), n := mg.length }

def gapH : Handler := fun inp impl => do
  let upto := (intOf inp "upto").toNat
  let scripts := arrOf inp "scripts"
  let impls := match impl with | .arr a => a.toList | _ => []
  if impls.length != scripts.length then
    return ({ model := Json.null, agree := false, spec := true, nontrivial := false, tag := "harness-shape" } : Verdict).toJson
  let results : List GapRes := (scripts.zip impls).map fun p => gapOne upto p.1 p.2
  let firstBad : Option String := results.findSome? (fun r => r.bad)
  let total : Nat := results.foldl (fun n r => n + r.n) 0
  return ({ model := Json.mkObj [("gaps", total)], agree := results.all (fun r => r.agree), spec := firstBad.isNone,
            nontrivial := results.any (fun r => r.sawBad),
            tag := match firstBad with | some t => "no-sleep-after-" ++ t | none => "ok" } : Verdict).toJson

/-! ### c11.race -/

def ansMatches (a : Answer) (i e : Int) : Bool :=
  match a with
  | .cert c => i == c.id && e == 0
  | .noCert => i == -1 && e == 0
  | .errNoCerts => i == -1 && e == 1

/-- why a recorded call is not explained by one published set within its window (`none` = explained) -/
def callVerdict (f : CertSet → Model.C11.Name → Bool → Answer) (sets : Array CertSet)
    (reqs : Array Model.C11.Name) (strict : Bool) (rec : List Int) : Option String :=
  match rec with
  | [_, r, k, i, e, lo, hi] =>
    let req := reqs[r.toNat]?.getD []
    if e == 2 then some "unexpected-error"
    else if k == -2 then some "foreign-certificate"
    else if k ≥ 0 then
      if k < lo || k > hi then some "set-outside-window"
      else match sets[k.toNat]? with
        | some cs => if ansMatches (f cs req strict) i e then none else some "wrong-certificate-for-set"
        | none => some "set-outside-window"
    else
      let ks := (List.range (hi.toNat + 1)).filter fun k => lo.toNat ≤ k
      if ks.any fun k => match sets[k]? with
          | some cs => ansMatches (f cs req strict) (-1) e
          | none => false
      then none else some "no-certificate-unexplained"
  | _ => some "harness-shape"

def monotone (calls : List (List Int)) : Bool :=
  let rec go (seen : List (Int × Int)) : List (List Int) → Bool
    | [] => true
    | rec :: rest =>
      match rec with
      | t :: _ :: k :: _ =>
        if k < 0 then go seen rest else
        match seen.lookup t with
        | some k0 => if k < k0 then false else go ((t, k) :: seen) rest
        | none => go ((t, k) :: seen) rest
      | _ => false
  go [] calls

def raceH : Handler := fun inp impl => do
  let strict := boolOf inp "strict"
  let sets : Array CertSet := (([] : CertSet) :: (arrOf inp "sets").map fun s =>
      match s with | .arr a => certSetOf a.toList | _ => []).toArray
  let reqs := ((strList (arrOf inp "reqs")).map String.toList).toArray
  let calls : List (List Int) := (arrOf impl "calls").map fun c =>
    match c with | .arr a => a.toList.map fun x => x.getInt?.toOption.getD (-99) | _ => []
  let hss : List (List Int) := (arrOf impl "handshakes").map fun c =>
    match c with | .arr a => a.toList.map fun x => x.getInt?.toOption.getD (-99) | _ => []
  let last := sets[sets.size - 1]?.getD []
  let hsOk (f : CertSet → Model.C11.Name → Bool → Answer) (h : List Int) : Bool :=
    match h with
    | [r, i] => match f last (reqs[r.toNat]?.getD []) strict with
      | .cert c => i == c.id
      | _ => i == -1
    | _ => false
  let mBad := calls.findSome? (callVerdict getCertificate sets reqs strict)
  let sBad := calls.findSome? (callVerdict specAnswer sets reqs strict)
  let mono := monotone calls
  let mHs := hss.all (hsOk getCertificate)
  let sHs := hss.all (hsOk specAnswer)
  let agree := mBad.isNone && mHs
  let spec := sBad.isNone && mono && sHs
  let overlapping := calls.any fun c => match c with
    | [_, _, k, _, _, lo, hi] => k ≥ 0 && lo < hi
    | _ => false
  let tag := match sBad with
    | some t => t
    | none => if !mono then "set-went-backwards" else if !sHs then "handshake-presents-other-certificate" else "ok"
  return ({ model := Json.mkObj [("calls", calls.length), ("handshakes", hss.length)], agree := agree, spec := spec,
            nontrivial := overlapping, tag := tag } : Verdict).toJson

def streams : List (String × Handler) :=
  [("c11.select", selectH), ("c11.watch", watchH), ("c11.watch_gap", gapH), ("c11.race", raceH)]
end Fabio.Driver.C11
