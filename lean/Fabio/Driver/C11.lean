import Fabio.Driver.Proto
namespace Fabio.Driver.C11
open Lean Fabio.Driver

def streams : List (String × Handler) := []
end Fabio.Driver.C11
