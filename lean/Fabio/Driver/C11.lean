import Fabio.Driver.Proto
import Fabio.Model.C11
import Fabio.Model.C11Load
import Fabio.Model.C11Deploy
namespace Fabio.Driver.C11
open Lean Fabio.Driver Fabio.Model.C11

/-! ### JSON helpers -/

def arrOf (j : Json) (k : String) : List Json :=
  match j.getObjVal? k with
  | .ok (.arr a) => a.toList
  | _ => []

def strOf (j : Json) (k : String) : String := (j.getObjValAs? String k).toOption.getD ""
def boolOf (j : Json) (k : String) : Bool := (j.getObjValAs? Bool k).toOption.getD false
def intOf (j : Json) (k : String) (d : Int := 0) : Int := (j.getObjValAs? Int k).toOption.getD d

def strList (js : List Json) : List String := js.filterMap fun j => j.getStr?.toOption

/-! ### c11.select -/

/-- The names a certificate spells, in the order `BuildNameToCertificate` visits them; none for a leaf that
does not parse. -/
def certOf (i : Nat) (j : Json) : Cert :=
  if boolOf j "bad" then ⟨i, []⟩ else
  let cn := strOf j "cn"
  let sans := strList (arrOf j "sans")
  ⟨i, ((if cn.isEmpty then [] else [cn]) ++ sans).map String.toList⟩

def certSetOf (js : List Json) : CertSet := js.zipIdx.map fun (j, i) => certOf i j

def answerPair : Answer → Int × String
  | .cert c => (c.id, "")
  | .noCert => (-1, "")
  | .errNoCerts => (-1, "nocerts")

def pairJson (p : Int × String) : Json := Json.mkObj [("i", p.1), ("e", p.2)]

def implPairs (impl : Json) : Option (List (Int × String)) :=
  match impl with
  | .arr a => some (a.toList.map fun j => (intOf j "i" (-99), strOf j "e"))
  | _ => none

def hasUpper (cs : CertSet) : Bool := cs.any fun c => c.names.any fun n => n.any fun ch => 'A' ≤ ch && ch ≤ 'Z'

def selectH : Handler := fun inp impl => do
  let cs : CertSet := if boolOf inp "set" then certSetOf (arrOf inp "certs") else []
  let strict := boolOf inp "strict"
  let reqs := (strList (arrOf inp "reqs")).map String.toList
  let model := reqs.map fun r => answerPair (getCertificate cs r strict)
  let spec := reqs.map fun r => answerPair (specAnswer cs r strict)
  let branches := reqs.map fun r => branch cs r strict
  let ip := implPairs impl
  let agree := ip == some model
  let specOk := ip == some spec
  let interesting := fun (b : String) => b == "exact" || b == "wildcard-1" || b == "wildcard-n"
  let firstBad : Option String :=
    match ip with
    | some l => ((l.zip spec).zip branches).findSome? fun ((a, b), br) => if a != b then some br else none
    | none => none
  let tag := match firstBad with
    | some br => br ++ (if hasUpper cs then "+certcase" else "")
    | none => branches.head?.getD "noreq"
  return ({ model := Json.arr (model.map pairJson).toArray, agree := agree, spec := specOk,
            nontrivial := cs.length ≥ 2 && branches.any interesting, tag := tag } : Verdict).toJson

/-! ### c11.watch -/

def fileOf (j : Json) : Model.C11.Name × FileC :=
  let c := intOf j "c" (-1)
  let k := intOf j "k" (-1)
  ((strOf j "name").toList, ⟨if c < 0 then none else some c.toNat, if k < 0 then none else some k.toNat,
                             if c < 0 then 0 else (intOf j "ch").toNat⟩)

/-- material: `none` = nil map; otherwise the files in canonical (name) order, so that `=` is `reflect.DeepEqual` -/
abbrev Mat := Option Blocks

def matOf (j : Json) : Mat :=
  if boolOf j "nil" then none
  else some (((arrOf j "files").map fileOf).mergeSort (fun a b => lexLe a.1 b.1))

/-- identity of a made certificate as the streams observe it: the leaf's id, plus ten times the chain variant of
the certificate file it was made from (`tls.X509KeyPair` keeps every CERTIFICATE block of that file) -/
def certIdOf (b : Blocks) (e : Model.C11.Name × Nat) : Nat :=
  e.2 + 10 * ((b.lookup e.1).map (·.rest)).getD 0

/-- `loadCertificates` on a material (a nil map ranges over nothing and yields no certificates, no error) -/
def mkCerts (m : Mat) : Option (List Nat) :=
  match m with
  | none => some []
  | some b => (loadCertificates b (b.map (·.1))).map (·.map fun e => certIdOf b e)

def scriptOf (mats : Array Mat) (js : List Json) : List (LoadResult Mat) :=
  js.map fun j =>
    if boolOf j "err" then .err else
    match mats[(intOf j "mat").toNat]? with
    | some m => .blocks m
    | none => .err

structure WatchObs where
  calls : Int
  pubs : List (List Nat)
  returned : Bool
  lastTag : String
  sawBad : Bool

def isSleep {M S} : Out M S → Bool
  | .sleep _ => true
  | _ => false

def stepTag (st : St Mat) : LoadResult Mat → String
  | .err => "load-error"
  | .blocks m => if m = st.last then "unchanged" else
    match mkCerts m with
    | none => "bad-material"
    | some _ => "published"

/-- Run the machine against `script[min(i, len-1)]` up to its first sleep / its return; more than `limit`
loader invocations without either is a spin. -/
def observe (sleepOnMakeErr : Bool) (refresh : Int) (script : Array (LoadResult Mat)) (limit : Nat) : WatchObs :=
  let rec go (fuel : Nat) (i : Nat) (st : St Mat) (pubs : List (List Nat)) (sawBad : Bool) : WatchObs :=
    match fuel with
    | 0 => ⟨-1, pubs.reverse, false, "spin", sawBad⟩
    | fuel+1 =>
      let r := script[min i (script.size - 1)]?.getD .err
      let (st', outs) := step sleepOnMakeErr mkCerts refresh st r
      let pubs' := outs.foldl (fun acc o => match o with | .publish _ s => s :: acc | _ => acc) pubs
      let t := stepTag st r
      let bad := sawBad || t == "bad-material" || t == "load-error"
      if st'.returned then ⟨i+1, pubs'.reverse, true, "returned-once", bad⟩
      else if outs.any isSleep then ⟨i+1, pubs'.reverse, false, "sleep-" ++ t, bad⟩
      else go fuel (i+1) st' pubs' bad
  go (limit + 1) 0 ⟨none, false⟩ [] false

def natLists (j : Json) (k : String) : List (List Nat) :=
  (arrOf j k).map fun a => match a with
    | .arr xs => xs.toList.map fun x => (x.getInt?.toOption.getD (-1)).toNat
    | _ => []

def watchH : Handler := fun inp impl => do
  let mats := ((arrOf inp "mats").map matOf).toArray
  let script := (scriptOf mats (arrOf inp "script")).toArray
  if script.size == 0 then throw "empty script"
  let refresh := intOf inp "refresh_ms" * 1000000
  let o := observe true refresh script (script.size + 64)
  let model := Json.mkObj [("calls", o.calls), ("pubs", Json.arr (o.pubs.map fun p => Json.arr (p.map fun (n : Nat) => Json.num n).toArray).toArray),
                           ("returned", o.returned)]
  let iCalls := intOf impl "calls" (-99)
  let iPubs := natLists impl "pubs"
  let iRet := boolOf impl "returned"
  let agree := iCalls == o.calls && iPubs == o.pubs && iRet == o.returned
  -- the property on the implementation's own output: no spin (between two loader invocations a sleep — which
  -- ends the observation — or a publication), and only sets made from usable material are ever published
  let goodSets := mats.toList.filterMap mkCerts
  let safe := iCalls != -1 && iCalls ≤ iPubs.length + 1 && iPubs.all (fun p => goodSets.contains p)
  -- … and a newly delivered set takes effect: the set in force at the end of the observation is the one made from
  -- the usable material delivered last (the store starts empty)
  let executed := (List.range iCalls.toNat).filterMap fun i => script[min i (script.size - 1)]?
  let lastGood := (executed.filterMap fun r => match r with | .blocks m => mkCerts m | .err => none).getLast?
  let live := match lastGood with
    | some s => iPubs.getLast?.getD [] == s
    | none => true
  return ({ model := model, agree := agree, spec := safe && live,
            nontrivial := o.sawBad || o.pubs.length ≥ 2,
            tag := if safe && !live then "usable-material-not-published" else o.lastTag } : Verdict).toJson

/-! ### c11.watch_gap -/

structure GapRec where
  slept : Bool
  pub : Option (List Nat)
deriving BEq

def gapsOf (refresh : Int) (script : Array (LoadResult Mat)) (upto : Nat) : List (GapRec × String) × Bool :=
  let rec go (fuel : Nat) (i : Nat) (st : St Mat) (acc : List (GapRec × String)) : List (GapRec × String) × Bool :=
    match fuel with
    | 0 => (acc.reverse, false)
    | fuel+1 =>
      let r := script[min i (script.size - 1)]?.getD .err
      let (st', outs) := step true mkCerts refresh st r
      let pub := outs.findSome? fun o => match o with | .publish _ s => some s | _ => none
      let acc' := (⟨outs.any isSleep, pub⟩, stepTag st r) :: acc
      if st'.returned then (acc'.reverse, true) else go fuel (i+1) st' acc'
  go (upto - 1) 0 ⟨none, false⟩ []

def implGaps (j : Json) : List GapRec × Bool :=
  ((arrOf j "gaps").map fun g =>
    ⟨boolOf g "slept", match g.getObjVal? "pub" with
      | .ok (.arr xs) => some (xs.toList.map fun x => (x.getInt?.toOption.getD (-1)).toNat)
      | _ => none⟩,
   boolOf j "returned")

structure GapRes where
  agree : Bool
  bad : Option String
  sawBad : Bool
  n : Nat

def gapOne (upto : Nat) (sj ij : Json) : GapRes :=
  let mats := ((arrOf sj "mats").map matOf).toArray
  let script := (scriptOf mats (arrOf sj "script")).toArray
  let mres := gapsOf (intOf sj "refresh_ms" * 1000000) script upto
  let mg : List (GapRec × String) := mres.1
  let ires := implGaps ij
  let ig : List GapRec := ires.1
  let agree := mg.map (fun p => p.1) == ig && mres.2 == ires.2
  let tags : List String := mg.map (fun p => p.2) ++ List.replicate ig.length "?"
  let badGap : Option (GapRec × String) := (ig.zip tags).find? fun p => !p.1.slept && p.1.pub.isNone
  { agree := agree, bad := badGap.map (fun p => p.2),
    sawBad := mg.any (fun p => p.2 == "bad-material" || p.2 == "load-error"), n := mg.length }

def gapH : Handler := fun inp impl => do
  let upto := (intOf inp "upto").toNat
  let scripts := arrOf inp "scripts"
  let impls := match impl with | .arr a => a.toList | _ => []
  if impls.length != scripts.length then
    return ({ model := Json.null, agree := false, spec := true, nontrivial := false, tag := "harness-shape" } : Verdict).toJson
  let results : List GapRes := (scripts.zip impls).map fun p => gapOne upto p.1 p.2
  let firstBad : Option String := results.findSome? (fun r => r.bad)
  let total : Nat := results.foldl (fun n r => n + r.n) 0
  return ({ model := Json.mkObj [("gaps", total)], agree := results.all (fun r => r.agree), spec := firstBad.isNone,
            nontrivial := results.any (fun r => r.sawBad),
            tag := match firstBad with | some t => "no-sleep-after-" ++ t | none => "ok" } : Verdict).toJson

/-! ### c11.race -/

def ansMatches (a : Answer) (i e : Int) : Bool :=
  match a with
  | .cert c => i == c.id && e == 0
  | .noCert => i == -1 && e == 0
  | .errNoCerts => i == -1 && e == 1

/-- why a recorded call is not explained by one published set within its window (`none` = explained) -/
def callVerdict (f : CertSet → Model.C11.Name → Bool → Answer) (sets : Array CertSet)
    (reqs : Array Model.C11.Name) (strict : Bool) (rec : List Int) : Option String :=
  match rec with
  | [_, r, k, i, e, lo, hi] =>
    let req := reqs[r.toNat]?.getD []
    if e == 2 then some "unexpected-error"
    else if k == -2 then some "foreign-certificate"
    else if k ≥ 0 then
      if k < lo || k > hi then some "set-outside-window"
      else match sets[k.toNat]? with
        | some cs => if ansMatches (f cs req strict) i e then none else some "wrong-certificate-for-set"
        | none => some "set-outside-window"
    else
      let ks := (List.range (hi.toNat + 1)).filter fun k => lo.toNat ≤ k
      if ks.any fun k => match sets[k]? with
          | some cs => ansMatches (f cs req strict) (-1) e
          | none => false
      then none else some "no-certificate-unexplained"
  | _ => some "harness-shape"

def monotone (calls : List (List Int)) : Bool :=
  let rec go (seen : List (Int × Int)) : List (List Int) → Bool
    | [] => true
    | rec :: rest =>
      match rec with
      | t :: _ :: k :: _ =>
        if k < 0 then go seen rest else
        match seen.lookup t with
        | some k0 => if k < k0 then false else go ((t, k) :: seen) rest
        | none => go ((t, k) :: seen) rest
      | _ => false
  go [] calls

def raceH : Handler := fun inp impl => do
  let strict := boolOf inp "strict"
  let sets : Array CertSet := (([] : CertSet) :: (arrOf inp "sets").map fun s =>
      match s with | .arr a => certSetOf a.toList | _ => []).toArray
  let reqs := ((strList (arrOf inp "reqs")).map String.toList).toArray
  -- A set published again with identical content (same names, same chain variants, same positions) cannot be told
  -- from the one before it by any handshake; whether the store took the second copy is not the property's business.
  -- Indices are therefore read modulo runs of consecutive identical sets (index of the first set of the run).
  let setsJ : Array Json := (Json.arr #[] :: (arrOf inp "sets")).toArray
  let sameSet (a b : Json) : Bool := match a, b with
    | .arr x, .arr y => x.size == y.size && (x.toList.zip y.toList).all fun (c, d) =>
        strOf c "cn" == strOf d "cn" && strList (arrOf c "sans") == strList (arrOf d "sans") &&
        boolOf c "bad" == boolOf d "bad" && intOf c "chain" == intOf d "chain"
    | _, _ => false
  let canon : Array Int := Id.run do
    let mut out : Array Int := #[]
    for k in [0:setsJ.size] do
      if k > 0 && sameSet (setsJ[k]?.getD Json.null) (setsJ[k-1]?.getD Json.null) && k > 1 then
        out := out.push (out[k-1]?.getD (k : Int))
      else
        out := out.push (k : Int)
    return out
  let canonOf (k : Int) : Int := if k < 0 then k else canon[k.toNat]?.getD k
  let calls : List (List Int) := ((arrOf impl "calls").map fun c =>
    match c with | .arr a => a.toList.map fun x => x.getInt?.toOption.getD (-99) | _ => []).map fun rec =>
      match rec with
      | [t, r, k, i, e, lo, hi] => [t, r, canonOf k, i, e, canonOf lo, hi]
      | other => other
  let hss : List (List Int) := (arrOf impl "handshakes").map fun c =>
    match c with | .arr a => a.toList.map fun x => x.getInt?.toOption.getD (-99) | _ => []
  let last := sets[sets.size - 1]?.getD []
  let hsOk (f : CertSet → Model.C11.Name → Bool → Answer) (h : List Int) : Bool :=
    match h with
    | [r, i] => match f last (reqs[r.toNat]?.getD []) strict with
      | .cert c => i == c.id
      | _ => i == -1
    | _ => false
  let mBad := calls.findSome? (callVerdict getCertificate sets reqs strict)
  let sBad := calls.findSome? (callVerdict specAnswer sets reqs strict)
  let mono := monotone calls
  let mHs := hss.all (hsOk getCertificate)
  let sHs := hss.all (hsOk specAnswer)
  let agree := mBad.isNone && mHs
  let spec := sBad.isNone && mono && sHs
  let overlapping := calls.any fun c => match c with
    | [_, _, k, _, _, lo, hi] => k ≥ 0 && lo < hi
    | _ => false
  let tag := match sBad with
    | some t => t
    | none => if !mono then "set-went-backwards" else if !sHs then "handshake-presents-other-certificate" else "ok"
  return ({ model := Json.mkObj [("calls", calls.length), ("handshakes", hss.length)], agree := agree, spec := spec,
            nontrivial := overlapping, tag := tag } : Verdict).toJson

/-! ### c11.loaders -/

def hasHarnessError (impl : Json) : Bool := (impl.getObjVal? "harness_error").isOk

/-- class tag of a case the harness could not stage: `harness-error:` plus the first words of its message (digits
dropped), so that the evidence histogram says *what* the environment refused -/
def harnessTag (impl : Json) : String :=
  let msg := strOf impl "harness_error"
  let words := (msg.splitOn " ").filter (· != "") |>.take 4
  let clean := words.map fun w => String.ofList (w.toList.filter fun c => c.isAlpha || c == '-' || c == '.')
  "harness-error:" ++ String.intercalate "-" (clean.filter (· != ""))

def optStrOf (j : Json) (k : String) : Option String :=
  match j.getObjVal? k with
  | .ok (.str s) => some s
  | _ => none

/-- an answer of the scripted server as `loadURL`'s fetch sees it -/
def fetchOfResp (j : Json) : Fetch (List Char) :=
  if strOf j "mode" != "" then .fail else .resp (intOf j "st").toNat (strOf j "body").toList

def fetchOfProbe (j : Json) : Fetch (List Char) :=
  if boolOf j "fail" then .fail else .resp (intOf j "st").toNat (strOf j "body").toList

def startsWithS (u : List Char) : Bool := match u with | 'S' :: _ => true | _ => false

/-- the server as a function of the (canonical) URL: the list where the list URL points at the server, the served
names under `base`, the harness' own GET for every other line of the list, a failed request otherwise -/
def serverOf (inp impl : Json) (listURL : List Char) (base : Option (List Char)) : List Char → Fetch (List Char) :=
  let files := (arrOf inp "files").map fun f => ((strOf f "name").toList, fetchOfResp f)
  let probe := match impl.getObjVal? "probe" with
    | .ok (.obj kvs) => kvs.toList.map fun (p : String × Json) => (p.1.toList, fetchOfProbe p.2)
    | _ => []
  fun u =>
    if u == listURL then (if startsWithS listURL then fetchOfResp ((inp.getObjVal? "list").toOption.getD Json.null) else .fail)
    else match base with
      | none => .fail
      | some b =>
        match files.find? (fun f => b ++ f.1 == u) with
        | some f => f.2
        | none => (probe.lookup u).getD .fail

def isOk200 {B : Type} : Fetch B → Bool
  | .resp 200 _ => true
  | _ => false

def bodyOf {B : Type} : Fetch B → Option B
  | .resp _ b => some b
  | .fail => none

def safeChar (c : Char) : Bool := c.isAlphanum || c == '.' || c == '-' || c == '_' || c == '/'

/-- the request URI the server sees for a canonical URL (plain paths only) -/
def uriOf (u : List Char) : Option String :=
  match u with
  | 'S' :: rest => if rest.all safeChar then some (if rest.isEmpty then "/" else String.ofList rest) else none
  | _ => none

def blocksJson (m : PemMap (List Char)) : Json :=
  Json.arr ((canonMap m).map fun e => Json.arr #[Json.str (String.ofList e.1), Json.str (String.ofList e.2)]).toArray

def implBlocks (impl : Json) : List (List Char × List Char) :=
  (arrOf impl "blocks").filterMap fun e => match e with
    | .arr #[.str k, .str v] => some (k.toList, v.toList)
    | _ => none

structure LoadObs where
  err : Bool
  isNil : Bool
  blocks : List (List Char × List Char)
deriving BEq

def obsOf (r : LoadResult (Option (PemMap (List Char)))) : LoadObs :=
  match r with
  | .err => ⟨true, false, []⟩
  | .blocks none => ⟨false, true, []⟩
  | .blocks (some m) => ⟨false, false, canonMap m⟩

def obsJson (o : LoadObs) : Json :=
  Json.mkObj [("err", o.err), ("nil", o.isNil),
    ("blocks", Json.arr (o.blocks.map fun e => Json.arr #[Json.str (String.ofList e.1), Json.str (String.ofList e.2)]).toArray)]

def implObs (impl : Json) : LoadObs := ⟨boolOf impl "err", boolOf impl "nil", implBlocks impl⟩

/-- `base(listURL)` by the model, for list URLs on the harness' server (`S` = its origin) whose path is in the
modelled class; `none`: outside the class, the real function's answer is used -/
def modelBase (listURL : List Char) : Option (List Char) :=
  match listURL with
  | 'S' :: path => if plainPath path then some (baseOf ['S'] path) else none
  | _ => none

def urlH (inp impl : Json) : Verdict :=
  let listURL := (strOf inp "url").toList
  let oracle := (optStrOf impl "base").map String.toList
  -- the model's own `base` where it applies (and then it must be what the real function said)
  let baseOk := match modelBase listURL with
    | some b => oracle == some b
    | none => true
  let base := match modelBase listURL with
    | some b => some b
    | none => oracle
  let srv := serverOf inp impl listURL base
  let run := loadURLRun true (fun _ => base) srv id listURL
  let mo := obsOf run.2
  let io := implObs impl
  -- requests: compared where every requested URL is a plain path on the server
  let mReq := run.1.map uriOf
  let iReq := strList (arrOf impl "requests")
  let reqOk := if mReq.all Option.isSome then mReq.filterMap id == iReq else true
  -- the property on the implementation's own output, stated without the loop: the load fails iff the list or a
  -- listed file is not answered 200 OK; otherwise the map is exactly the listed files with their bodies
  let listF := srv listURL
  let names := match bodyOf listF with | some b => listedNames b | none => []
  let badName := match base with
    | some b => names.find? fun p => !isOk200 (srv (b ++ p))
    | none => none
  let (want, tag) : LoadObs × String :=
    if listURL.isEmpty then (⟨false, true, []⟩, "url-empty")
    else match base with
      | none => (⟨true, false, []⟩, "base-error")
      | some b =>
        if !isOk200 listF then (⟨true, false, []⟩, match listF with | .fail => "list-transport" | _ => "list-status")
        else match badName with
          | some p => (⟨true, false, []⟩,
              match srv (b ++ p) with
              | .fail => if p.all safeChar then "file-transport" else "odd-line"
              | _ => if (arrOf inp "files").any (fun f => (strOf f "name").toList == p) then "file-status" else "file-unserved")
          | none => (⟨false, false, canonMap (names.filterMap fun p => (bodyOf (srv (b ++ p))).map fun x => (b ++ p, x))⟩,
              if names.isEmpty then "ok-empty-list" else "ok")
  { model := Json.mkObj [("load", obsJson mo), ("requests", Json.arr (run.1.map fun u => Json.str (String.ofList u)).toArray)],
    agree := mo == io && reqOk && baseOk, spec := io == want,
    nontrivial := !listURL.isEmpty && base.isSome && isOk200 listF && !names.isEmpty, tag := tag }

/-- what `os.ReadFile` returns for an entry, as the harness canonicalises it -/
def sparseContent (n : Nat) : List Char :=
  if n > 4096 then ("#zeros:" ++ toString n).toList else List.replicate n (Char.ofNat 0)

partial def nodeOf (unpriv : Bool) (siblings : List Json) (j : Json) : Node (List Char) :=
  let name := (strOf j "n").toList
  let locked := unpriv && boolOf j "locked"
  let fileContent (f : Json) : Option (List Char) :=
    if unpriv && boolOf f "locked" then none
    else if intOf f "size" (-1) ≥ 0 then some (sparseContent (intOf f "size").toNat) else some (strOf f "c").toList
  match strOf j "t" with
  | "d" => .dir name (!locked) ((arrOf j "kids").map (nodeOf unpriv (arrOf j "kids")))
  | "l" =>
    let to := strOf j "to"
    let content := match siblings.find? (fun s => strOf s "n" == to) with
      | some s => if strOf s "t" == "f" then fileContent s else none
      | none => none
    .file name to.length content
  | _ =>
    let size := if intOf j "size" (-1) ≥ 0 then (intOf j "size").toNat else (strOf j "c").length
    .file name size (if locked then none else fileContent j)

def visitFails {B : Type} (maxSize : Nat) (root : List Char) (v : Visit B) : Bool :=
  match v.kind with
  | .lstatErr e => !(v.path == root && e == .notExist)
  | .dir (some e) => !(v.path == root && e == .notExist)
  | .dir none => false
  | .file _ c => selected maxSize v && c.isNone

def pathH (inp impl : Json) : Verdict :=
  let unpriv := boolOf impl "unpriv"
  let kind := strOf inp "root"
  let tree := arrOf inp "tree"
  let (root, rootNode) : List Char × Root (List Char) :=
    match kind with
    | "empty" => ([], .absent [] .notExist)
    | "missing" => ("T/root".toList, .absent "root".toList .notExist)
    | "underfile" => ("T/root/certs".toList, .absent "certs".toList .other)
    | "dir" => ("T/root".toList, .node (.dir "root".toList (!(unpriv && boolOf inp "root_locked")) (tree.map (nodeOf unpriv tree))))
    | "link" =>
      let n := (strOf (tree.head?.getD Json.null) "n").toList
      ("T/".toList ++ n, .node (.file n (strOf (tree.head?.getD Json.null) "to").length none))
    | _ =>
      let n := nodeOf unpriv [] (tree.head?.getD Json.null)
      ("T/".toList ++ n.name, .node n)
  let vs := rootNode.visits root
  let mo := obsOf (loadPath true maxSize root vs)
  let io := implObs impl
  -- the property on the implementation's own output, without the fold: fails iff something below the root
  -- cannot be stat'ed / listed or a selected file cannot be read; else exactly the selected files
  let broken := vs.find? (visitFails maxSize root)
  let sel := vs.filterMap fun v => match v.kind with
    | .file _ (some c) => if selected maxSize v then some (v.path, c) else none
    | _ => none
  let want : LoadObs :=
    if root.isEmpty then ⟨false, true, []⟩
    else if broken.isSome then ⟨true, false, []⟩
    else ⟨false, false, canonMap sel.reverse⟩
  let tag :=
    if root.isEmpty then "path-empty-root"
    else match broken with
      | some v => (match v.kind with
        | .file _ _ => "path-read-error"
        | _ => if v.path == root then (if kind == "underfile" then "path-root-notdir" else "path-root-locked")
               else "path-walk-error")
      | none => match kind with
        | "missing" => "path-missing-root"
        | "file" => "path-root-file"
        | "link" => "path-root-link"
        | _ => "path-ok"
  { model := obsJson mo, agree := mo == io && intOf impl "max_size" == maxSize, spec := io == want,
    nontrivial := kind == "dir" && vs.length ≥ 3, tag := tag }

def loadersH : Handler := fun inp impl => do
  if hasHarnessError impl then
    return ({ model := Json.null, agree := false, spec := true, nontrivial := false, tag := harnessTag impl } : Verdict).toJson
  match strOf inp "kind" with
  | "url" => return (urlH inp impl).toJson
  | "path" => return (pathH inp impl).toJson
  | k => throw s!"unknown kind {k}"

/-! ### c11.source -/

def srcPem (f : Json) : FileC :=
  let c := intOf f "c" (-1)
  let k := intOf f "k" (-1)
  ⟨if c < 0 then none else some c.toNat, if k < 0 then none else some k.toNat, if c < 0 then 0 else (intOf f "ch").toNat⟩

def st200 (n : Int) : Nat := if n == 0 then 200 else n.toNat

def linesBody (ls : List String) : List Char := (String.join (ls.map (· ++ "\n"))).toList

/-- one load of the HTTP source in an epoch -/
def srcLoadURL (base listURL : List Char) (e : Json) : LoadResult (Option (PemMap Body)) :=
  let files := (arrOf e "files").map fun f =>
    ((strOf f "name").toList,
     if strOf f "mode" != "" then Fetch.fail else Fetch.resp (st200 (intOf f "st")) (⟨[], srcPem f⟩ : Body))
  let list : Fetch Body :=
    if strOf e "list_mode" != "" then .fail
    else .resp (st200 (intOf e "list_st")) ⟨linesBody (strList (arrOf e "lines")), ⟨none, none, 0⟩⟩
  let srv : List Char → Fetch Body := fun u =>
    if u == listURL then list
    else match files.find? (fun f => base ++ f.1 == u) with
      | some f => f.2
      | none => .resp 404 ⟨"nf".toList, ⟨none, none, 0⟩⟩
  loadURL true (fun _ => some base) srv Body.text listURL

def splitSlash (s : List Char) : List (List Char) := splitOn '/' s

/-- the directory of an epoch as a tree: plain files at the top, one directory per first path segment -/
def srcTree (e : Json) : Root Body :=
  if boolOf e "missing" then .absent "root".toList .notExist else
  if strOf e "root_err" == "notdir" then .absent "root".toList .other else
  let files := (arrOf e "files").map fun f =>
    (splitSlash (strOf f "name").toList,
     (if boolOf f "dangling" then (7, none) else (100, some (⟨[], srcPem f⟩ : Body)) : Nat × Option Body))
  let top := files.filterMap fun (segs, sc) => match segs with
    | [n] => some (Node.file n sc.1 sc.2)
    | _ => none
  let dirNames := (files.filterMap fun (segs, _) => match segs with
    | d :: _ :: _ => some d
    | _ => none).eraseDups
  let dirs := dirNames.map fun d =>
    Node.dir d true (files.filterMap fun (segs, sc) => match segs with
      | d' :: rest@(_ :: _) => if d' == d then some (Node.file (joinDotsWith '/' rest) sc.1 sc.2) else none
      | _ => none)
  .node (.dir "root".toList (strOf e "root_err" != "locked") (top ++ dirs))
where
  joinDotsWith (c : Char) : List (List Char) → List Char
    | [] => []
    | [l] => l
    | l :: ls => l ++ c :: joinDotsWith c ls

def srcRoot : List Char := "T/root".toList

def srcLoadPath (e : Json) : LoadResult (Option (PemMap Body)) :=
  loadPath true maxSize srcRoot ((srcTree e).visits srcRoot)

def matOfMap (m : Option (PemMap Body)) : Mat :=
  m.map fun pm => ((canonMap pm).map fun e => (e.1, e.2.pem)).mergeSort (fun a b => lexLe a.1 b.1)

/-- the epoch as the property reads it, without the loaders: is everything the source announces delivered, and
which material is that -/
def srcDeclared (kind : String) (base : List Char) (e : Json) : Option Mat :=
  let files := arrOf e "files"
  if kind == "url" then
    if strOf e "list_mode" != "" || st200 (intOf e "list_st") != 200 then none else
    let lines := (strList (arrOf e "lines")).filter (· != "")
    let got := lines.map fun l => files.find? fun f => strOf f "name" == l
    if got.any (fun g => match g with
        | some f => strOf f "mode" != "" || st200 (intOf f "st") != 200
        | none => true) then none
    else some (some ((got.filterMap id).map fun f => (base ++ (strOf f "name").toList, srcPem f)))
  else
    if boolOf e "missing" then some (some []) else
    if strOf e "root_err" != "" then none else
    let sel := files.filter fun f =>
      let segs := splitSlash (strOf f "name").toList
      let last := segs.getLast?.getD []
      ext last == sPem && !hasDotPrefix last
    if sel.any (boolOf · "dangling") then none
    else some (some (sel.map fun f => (srcRoot ++ '/' :: (strOf f "name").toList, srcPem f)))

def sourceH : Handler := fun inp impl => do
  if hasHarnessError impl then
    return ({ model := Json.null, agree := false, spec := true, nontrivial := false, tag := harnessTag impl } : Verdict).toJson
  let kind := strOf inp "kind"
  let epochs := arrOf inp "epochs"
  if epochs.isEmpty then throw "no epochs"
  let listURL := (strOf inp "url").toList
  let oracleBase := ((optStrOf impl "base").getD "").toList
  -- `base` by the model where the list URL is in the modelled class (it must then be what the real function said)
  let base := if kind == "url" then (modelBase listURL).getD oracleBase else oracleBase
  let baseOk := kind != "url" || base == oracleBase
  let script : Array (LoadResult Mat) := (epochs.map fun e =>
    ((if kind == "url" then srcLoadURL base listURL e else srcLoadPath e).map matOfMap)).toArray
  let refresh := intOf inp "refresh_ms" * 1000000
  let o := observe true refresh script (script.size + 64)
  let model := Json.mkObj [("calls", o.calls), ("pubs", Json.arr (o.pubs.map fun p => Json.arr (p.map fun (n : Nat) => Json.num n).toArray).toArray),
                           ("returned", o.returned)]
  let iCalls := intOf impl "calls" (-99)
  let iPubs := natLists impl "pubs"
  let iRet := boolOf impl "returned"
  let agree := iCalls == o.calls && iPubs == o.pubs && iRet == o.returned && baseOk
  -- the property on the implementation's own output: no spin, and every published set is the set of an epoch in
  -- which the source delivered everything it announced (never what is left of a failing or partly failing load)
  let canonM (m : Mat) : Mat := m.map fun b => b.mergeSort (fun a b => lexLe a.1 b.1)
  let goodSets := epochs.filterMap fun e => (srcDeclared kind base e).bind fun m => mkCerts (canonM m)
  let safe := iCalls != -1 && iCalls ≤ iPubs.length + 1 && iPubs.all (fun p => goodSets.contains p)
  let declared := (epochs.map fun e => (srcDeclared kind base e).bind fun m => mkCerts (canonM m)).toArray
  let lastGood := ((List.range iCalls.toNat).filterMap fun i => (declared[min i (declared.size - 1)]?).join).getLast?
  let live := match lastGood with
    | some s => iPubs.getLast?.getD [] == s
    | none => true
  return ({ model := model, agree := agree, spec := safe && live,
            nontrivial := o.sawBad || o.pubs.length ≥ 2,
            tag := kind ++ ":" ++ (if safe && !live then
              (if ((declared[min (iCalls.toNat - 1) (declared.size - 1)]?).join).isNone then "working-set-lost"
               else "usable-material-not-published") else o.lastTag) } : Verdict).toJson

/-! ### c11.e2e -/

def e2eReqs : List (List Char) := ["c0.test", "c1.test", "c2.test", "c3.test", "zzz.test"].map String.toList

def certSetOfIds (ids : List Nat) : CertSet := ids.map fun i => ⟨i, [("c" ++ toString (i % 10) ++ ".test").toList]⟩

def ansInt : Answer → Int
  | .cert c => c.id
  | .noCert => -1
  | .errNoCerts => -2

def answersOf (f : CertSet → Model.C11.Name → Bool → Answer) (ids : List Nat) (strict : Bool) : List Int :=
  e2eReqs.map fun r => ansInt (f (certSetOfIds ids) r strict)

structure E2ERes where
  agree : Bool
  bad : Option String      -- class of the first epoch at which the property fails on the implementation's answers
  nontrivial : Bool
  model : Json

def intLists (j : Json) (k : String) : List (List Int) :=
  (arrOf j k).map fun a => match a with
    | .arr xs => xs.toList.map fun x => x.getInt?.toOption.getD (-99)
    | _ => []

def e2eOne (sc impl : Json) : E2ERes :=
  let kind := strOf sc "kind"
  let strict := boolOf sc "strict"
  let epochs := arrOf sc "epochs"
  let base := ((optStrOf impl "base").getD "").toList
  let listURL := base ++ "list".toList
  let refresh : Int := second
  -- model: at least two loads in every epoch, the update goroutine applies every publication
  let (_, _, mAns) := epochs.foldl (fun (acc : St Mat × List Nat × List (List Int)) e =>
      let (st, cur, out) := acc
      let r := ((if kind == "url" then srcLoadURL base listURL e else srcLoadPath e).map matOfMap)
      let (st1, o1) := step true mkCerts refresh st r
      let (st2, o2) := step true mkCerts refresh st1 r
      let cur' := (o1 ++ o2).foldl (fun c o => match o with | .publish _ s => s | _ => c) cur
      (st2, cur', out ++ [answersOf getCertificate cur' strict])) ((⟨none, false⟩ : St Mat), ([] : List Nat), ([] : List (List Int)))
  -- the property, without loaders and watcher: the answers after an epoch are those of the most recent epoch in
  -- which the source delivered everything it announced and the pairs were usable
  let canonM (m : Mat) : Mat := m.map fun b => b.mergeSort (fun a b => lexLe a.1 b.1)
  let declared := epochs.map fun e => (srcDeclared kind base e).bind fun m => mkCerts (canonM m)
  let (_, sAns) := declared.foldl (fun (acc : List Nat × List (List Int)) d =>
      let cur' := d.getD acc.1
      (cur', acc.2 ++ [answersOf specAnswer cur' strict])) (([] : List Nat), ([] : List (List Int)))
  let iAns := intLists impl "answers"
  let hsWant : Int := match mAns.getLast? with
    | some a => (match a.getLast? with | some i => if i ≥ 0 then i else -1 | none => -1)
    | none => -1
  let agree := iAns == mAns && intOf impl "handshake" (-99) == hsWant
  let bad := ((iAns.zip sAns).zip declared).findSome? fun ((a, b), d) =>
    if a == b then none else some (if d.isSome then "new-set-not-effective" else "working-set-lost")
  let bad := if bad.isNone && iAns.length != sAns.length then some "harness-shape" else bad
  { agree := agree, bad := bad.map (kind ++ ":" ++ ·),
    nontrivial := (declared.zip (none :: declared)).any (fun (d, p) => d.isNone && p.isSome) ||
      (declared.filter Option.isSome).length ≥ 2,
    model := Json.arr (mAns.map fun a => Json.arr (a.map fun (i : Int) => Json.num i).toArray).toArray }

def e2eH : Handler := fun inp impl => do
  if hasHarnessError impl then
    return ({ model := Json.null, agree := false, spec := true, nontrivial := false, tag := harnessTag impl } : Verdict).toJson
  let scns := arrOf inp "scns"
  let impls := match impl with | .arr a => a.toList | _ => []
  if impls.length != scns.length then
    return ({ model := Json.null, agree := false, spec := true, nontrivial := false, tag := "harness-shape" } : Verdict).toJson
  let results := (scns.zip impls).map fun p => e2eOne p.1 p.2
  let firstBad := results.findSome? (·.bad)
  return ({ model := Json.arr (results.map (·.model)).toArray, agree := results.all (·.agree), spec := firstBad.isNone,
            nontrivial := results.any (·.nontrivial), tag := firstBad.getD "ok" } : Verdict).toJson

/-! ### c11.listeners -/

def lsnCertFile (c : Json) : List Char :=
  (strOf c "file" ++ (if boolOf c "pair" then "-cert.pem" else ".pem")).toList

def lsnKeyFile (c : Json) : List Char :=
  (strOf c "file" ++ (if boolOf c "pair" then "-key.pem" else ".pem")).toList

/-- the files of a source: certificate `i` of the description is issued for key `i` -/
def lsnBlocks (certs : List Json) : Blocks :=
  certs.zipIdx.flatMap fun (c, i) =>
    let ch := (intOf c "chain").toNat
    if boolOf c "pair" then [(lsnCertFile c, ⟨some i, none, ch⟩), (lsnKeyFile c, ⟨none, some i, 0⟩)]
    else [(lsnCertFile c, ⟨some i, some i, ch⟩)]

def lsnSource (s : Json) (certs : List Json) : SourceCfg :=
  if strOf s "type" == "file" then
    match certs with
    | [c] => ⟨.file (lsnCertFile c) (lsnKeyFile c), lsnBlocks certs⟩
    | _ => ⟨.file [] [], lsnBlocks certs⟩
  else ⟨.dir, lsnBlocks certs⟩

def lsnCertsAt (s : Json) (epoch : Nat) : List Json :=
  if epoch ≥ 1 && !(arrOf s "epoch2").isEmpty then arrOf s "epoch2" else arrOf s "certs"

def lsnStrictOpt (l : Json) : Option (List Char) :=
  let v := strOf l "strict"
  if v.isEmpty then none else some v.toList

def ansIdx : Answer → Int
  | .cert c => c.id
  | _ => -1

structure LsnRes where
  agree : Bool
  bad : Option String
  nontrivial : Bool
  model : Json

def lsnOne (sc impl : Json) : LsnRes :=
  let sources := (arrOf sc "sources").toArray
  let listeners := arrOf sc "listeners"
  let reqs := (strList (arrOf sc "reqs")).map String.toList
  let nEpochs := if sources.any (fun s => !(arrOf s "epoch2").isEmpty) then 2 else 1
  -- model: config → source → loadCertificates → store of the listener → getCertificate with the listener's option
  let modelAt (e : Nat) : List (List Int) := listeners.map fun l =>
    let s := sources[(intOf l "src").toNat]?.getD Json.null
    let certs := lsnCertsAt s e
    let ca := certs.toArray
    let src := lsnSource s certs
    let names (i : Nat) : List Model.C11.Name := match ca[i]? with | some c => (certOf i c).names | none => []
    let lc : ListenerCfg := ⟨(intOf l "src").toNat, lsnStrictOpt l⟩
    reqs.map fun r => match sourceIds src (src.blocks.map (·.1)) with
      | some ids => ansIdx (listenerAnswer names ids lc r)
      | none => -1
  -- the property, without the loaders' and the store's code: the certificates in the order of their file names,
  -- the declarative answer, strictness as the listener's own option says
  let specSetAt (s : Json) (e : Nat) : CertSet :=
    let certs := lsnCertsAt s e
    if strOf s "type" == "file" then (certs.zipIdx.map fun (c, i) => certOf i c).take 1
    else ((certs.zipIdx.map fun (c, i) => (lsnCertFile c, certOf i c)).mergeSort (fun a b => lexLe a.1 b.1)).map (·.2)
  let specAt (e : Nat) : List (List Int) := listeners.map fun l =>
    let s := sources[(intOf l "src").toNat]?.getD Json.null
    reqs.map fun r => ansIdx (specAnswer (specSetAt s e) r (strOf l "strict" == "true"))
  let epochs := List.range nEpochs
  let mAns := epochs.map modelAt
  let sAns := epochs.map specAt
  let iAns : List (List (List Int)) := (arrOf impl "answers").map fun ep => match ep with
    | .arr ls => ls.toList.map fun l => match l with
      | .arr xs => xs.toList.map fun x => x.getInt?.toOption.getD (-99)
      | _ => []
    | _ => []
  let ready := boolOf impl "ready"
  -- first (epoch, listener, request) at which the implementation's answer is not the property's
  let bad : Option String := (epochs.zip (iAns.zip sAns)).findSome? fun (e, (ia, sa)) =>
    ((listeners.zip (ia.zip sa)).findSome? fun (l, (il, sl)) =>
      let s := sources[(intOf l "src").toNat]?.getD Json.null
      ((reqs.zip (il.zip sl)).findSome? fun (r, (iv, sv)) =>
        if iv == sv then none
        else some ("listener:" ++ branch (specSetAt s e) r (strOf l "strict" == "true") ++ (if e ≥ 1 then "+epoch2" else ""))))
  let shapeOk := iAns.length == nEpochs && (iAns.all fun ia => ia.length == listeners.length && ia.all fun il => il.length == reqs.length)
  let bad := if bad.isNone && !shapeOk then some "harness-shape" else bad
  -- two listeners on one source whose strictness differs and a name on which that shows, or a second epoch
  let differ := listeners.any fun l1 => listeners.any fun l2 =>
    intOf l1 "src" == intOf l2 "src" && (strOf l1 "strict" == "true") != (strOf l2 "strict" == "true") &&
    (let s := sources[(intOf l1 "src").toNat]?.getD Json.null
     reqs.any fun r => specAnswer (specSetAt s 0) r true != specAnswer (specSetAt s 0) r false)
  { agree := iAns == mAns && ready, bad := bad, nontrivial := differ || nEpochs == 2,
    model := Json.arr (mAns.map fun ep => Json.arr (ep.map fun l => Json.arr (l.map fun (i : Int) => Json.num i).toArray).toArray).toArray }

def listenersH : Handler := fun inp impl => do
  if hasHarnessError impl then
    return ({ model := Json.null, agree := false, spec := true, nontrivial := false, tag := harnessTag impl } : Verdict).toJson
  let scns := arrOf inp "scns"
  let impls := match impl with | .arr a => a.toList | _ => []
  if impls.length != scns.length then
    return ({ model := Json.null, agree := false, spec := true, nontrivial := false, tag := "harness-shape" } : Verdict).toJson
  let results := (scns.zip impls).map fun p => lsnOne p.1 p.2
  let firstBad := results.findSome? (·.bad)
  return ({ model := Json.arr (results.map (·.model)).toArray, agree := results.all (·.agree), spec := firstBad.isNone,
            nontrivial := results.any (·.nontrivial), tag := firstBad.getD "ok" } : Verdict).toJson

/-! ### c11.closure -/

def closEnc (p : Presented × List Model.C11.Name) : String × Int × List String :=
  let calls := p.2.map String.ofList
  match p.1 with
  | .cert c => ("cert", (c.id : Int), calls)
  | .issued _ => ("issued", -1, calls)
  | .noCert => ("none", -1, calls)
  | .errNoCerts => ("nocerts", -1, calls)
  | .issueErr => ("err", -1, calls)

def closureH : Handler := fun inp impl => do
  let strict := boolOf inp "strict"
  let cs : CertSet := if boolOf inp "set" then certSetOf (arrOf inp "certs") else []
  let reqs := strList (arrOf inp "reqs")
  let kind := strOf inp "issuer"
  let issuer : Option IssuerFn := match kind with
    | "ok" => some fun _ => some ⟨1000, []⟩
    | "fail" => some fun _ => none
    | _ => none
  let model := reqs.map fun r => closEnc (tlsGetCertificate issuer (mkPublished cs) r.toList strict)
  -- the property plus the contract of an issuing source, without the closure's code: a certificate of the set
  -- whenever the declarative answer is one (and then the issuer is left alone); otherwise the issuer's word for
  -- the name as sent, or - without issuer - nothing / ErrNoCertsStored
  let specOf (r : String) : String × Int × List String := match specAnswer cs r.toList strict with
    | .cert c => ("cert", (c.id : Int), [])
    | a => match kind with
      | "ok" => ("issued", -1, [r])
      | "fail" => ("err", -1, [r])
      | _ => (if a == .noCert then "none" else "nocerts", -1, [])
  let spec := reqs.map specOf
  let implL : List (String × Int × List String) := (match impl with | .arr a => a.toList | _ => []).map fun j =>
    (strOf j "kind", intOf j "i" (-1), strList (arrOf j "calls"))
  let firstBad := ((reqs.zip (implL.zip spec)).findSome? fun (r, (i, sp)) =>
    if i == sp then none else some (kind ++ ":" ++ branch cs r.toList strict))
  let firstBad := if firstBad.isNone && implL.length != reqs.length then some "harness-shape" else firstBad
  let asked := spec.any fun sp => sp.1 != "cert"
  let served := spec.any fun sp => sp.1 == "cert"
  let toJ (l : List (String × Int × List String)) : Json := Json.arr (l.map fun (k, i, c) =>
    Json.mkObj [("kind", k), ("i", Json.num i), ("calls", Json.arr (c.map Json.str).toArray)]).toArray
  return ({ model := toJ model, agree := implL == model, spec := firstBad.isNone,
            nontrivial := asked && served && cs.length ≥ 2,
            tag := firstBad.getD (kind ++ ":" ++ (match reqs with | r :: _ => branch cs r.toList strict | [] => "noreq")) } : Verdict).toJson

def streams : List (String × Handler) :=
  [("c11.select", selectH), ("c11.watch", watchH), ("c11.watch_gap", gapH), ("c11.race", raceH),
   ("c11.loaders", loadersH), ("c11.source", sourceH), ("c11.e2e", e2eH), ("c11.listeners", listenersH),
   ("c11.closure", closureH)]
end Fabio.Driver.C11
