import Fabio.Driver.Proto
import Fabio.Driver.RouteJson
import Fabio.Model.C16
import Fabio.Model.C16Serve
import Fabio.Model.C16Relay
import Fabio.Model.C16RelayLim
import Fabio.Model.C03
/-!
Driver handlers for C16.

`c16.pool`  — `agree`: the pool model (`World.step`) predicts every observable of the real pool (reused /
              dialled / error with connection ids, key set after each cleanup, which connections the closer
              got, which are live at the end).  `spec`: an independent trace checker over the implementation's
              own output (it does not run the model): a `get` for a key whose last connection was neither
              closed nor removed by a cleanup that saw a table without the key must be `reused` with the same
              id; a `dialled` id is fresh; after a cleanup every key is a target URL of the table of that
              moment; every live connection a cleanup removed was closed.
`c16.call`  — see below.
-/
namespace Fabio.Driver.C16
open Lean Fabio Fabio.Driver Fabio.Model.C16
open Fabio.Model.Route (Str Table Route Target)

def s2l (s : String) : Str := s.toList

def getStrD (j : Json) (k : String) : String := (j.getObjValAs? String k).toOption.getD ""
def getBoolD (j : Json) (k : String) : Bool := (j.getObjValAs? Bool k).toOption.getD false
def getNatD (j : Json) (k : String) : Nat := (j.getObjValAs? Nat k).toOption.getD 0
def getNat? (j : Json) (k : String) : Option Nat := (j.getObjValAs? Nat k).toOption
def getArrD (j : Json) (k : String) : List Json :=
  match j.getObjVal? k with
  | .ok (.arr a) => a.toList
  | _ => []
def getObj? (j : Json) (k : String) : Option Json :=
  match j.getObjVal? k with
  | .ok .null => none
  | .ok v => some v
  | _ => none
def natsOf (js : List Json) : List Nat := js.filterMap fun j => (j.getNat?).toOption
def natJ (n : Nat) : Json := Json.num (JsonNumber.fromNat n)
def natArr (l : List Nat) : Json := Json.arr (l.map natJ).toArray

def insertNat (n : Nat) : List Nat → List Nat
  | [] => [n]
  | x :: xs => if n < x then n :: x :: xs else if n = x then x :: xs else x :: insertNat n xs
/-- sorted, duplicate-free -/
def sortNats (l : List Nat) : List Nat := l.foldr insertNat []

/-! ### route tables from the generated specs -/

structure RSpec where
  host : String
  path : String
  urls : List Nat
deriving Repr

def parseRoutes (j : Json) (k : String) : List RSpec :=
  (getArrD j k).map fun r => { host := getStrD r "host", path := getStrD r "path", urls := natsOf (getArrD r "urls") }

def keyOf (i : Nat) : Str := (toString i).toList
def idxOf (k : Str) : Nat := (String.ofList k).toNat!

def tableOf (rs : List RSpec) : Table :=
  rs.map fun r => (s2l r.host,
    [({ host := s2l r.host, path := s2l r.path,
        targets := r.urls.map fun u => ({ service := [], tags := [], opts := [], url := keyOf u, fixedWeight := 0 } : Target) } : Route)])

/-! ### c16.pool -/

/-- the key whose URL has no host: `grpc.DialContext` fails for it (harness/c16/pool.go) -/
def noHostKey : Nat := 5

inductive POp where
  | get (k : Nat)
  | shut (k : Nat)
  | table (rs : List RSpec)
  | cleanup
  | bad
deriving Repr

def parseOps (inp : Json) : List POp :=
  (getArrD inp "ops").map fun o =>
    match getStrD o "op" with
    | "get" => .get (getNatD o "k")
    | "shut" => .shut (getNatD o "k")
    | "table" => .table (parseRoutes o "routes")
    | "cleanup" => .cleanup
    | _ => .bad

def toEvent : POp → Option Event
  | .get k => some (.get (keyOf k) (k != noHostKey))
  | .shut k => some (.shut (keyOf k))
  | .table rs => some (.setTable (tableOf rs))
  | .cleanup => some .cleanup
  | .bad => none

def noLookup : Table → Str → Str → Option Str := fun _ _ _ => none

def keysJson (p : Pool) : List Nat := sortNats (p.keys.map idxOf)

def obsJson (w' : World) : POp → Obs → Json
  | .get _, .get _ (.reused i) => Json.mkObj [("op", "get"), ("r", "reused"), ("id", natJ i)]
  | .get _, .get _ (.dialled i) => Json.mkObj [("op", "get"), ("r", "dialled"), ("id", natJ i)]
  | .get _, _ => Json.mkObj [("op", "get"), ("r", "error")]
  | .shut _, _ => Json.mkObj [("op", "shut")]
  | .table _, _ => Json.mkObj [("op", "table")]
  | .cleanup, _ =>
    let ks := keysJson w'.pool
    if ks.isEmpty then Json.mkObj [("op", "cleanup")] else Json.mkObj [("op", "cleanup"), ("keys", natArr ks)]
  | .bad, _ => Json.null

/-- run the model over the ops; returns final world, observation JSONs, ids handed to the closer -/
def runPoolModel (ops : List POp) : World × List Json × List Nat :=
  ops.foldl (fun (acc : World × List Json × List Nat) op =>
    let (w, js, handed) := acc
    match toEvent op with
    | none => (w, js ++ [Json.null], handed)
    | some e =>
      let (w', o) := w.step some noLookup e
      let h := match o with
        | .closed cs => cs.map (·.id)
        | _ => []
      (w', js ++ [obsJson w' op o], handed ++ h)) ({}, [], [])

/-- reference bookkeeping for the spec: per key the last connection id handed out, dropped when the
connection is closed or a cleanup sees a table without the key -/
structure Ref where
  last : List (Nat × Nat) := []     -- key ↦ id
  urls : List Nat := []             -- target URL indices of the current table
  maxId : Option Nat := none
  ok : Bool := true
  reused : Bool := false
  dropped : Bool := false
  dialErr : Bool := false
  why : String := ""

def Ref.fail (r : Ref) (why : String := "malformed-observation") : Ref :=
  { r with ok := false, why := if r.why.isEmpty then why else r.why }

def specStep (r : Ref) (op : POp) (o : Json) : Ref :=
  match op with
  | .get k =>
    let res := getStrD o "r"
    match res, getNat? o "id" with
    | "reused", some id =>
      if r.last.lookup k == some id then { r with reused := true } else r.fail "reused-a-connection-that-is-not-the-pooled-one"
    | "dialled", some id =>
      let fresh := match r.maxId with
        | none => true
        | some m => decide (m < id)
      if fresh && (r.last.lookup k).isNone then
        { r with last := (k, id) :: r.last, maxId := some id }
      else r.fail (if fresh then "dialled-although-a-live-connection-is-pooled" else "dialled-connection-not-fresh")
    | "error", none => if (r.last.lookup k).isNone then { r with dialErr := true } else r.fail "error-although-a-live-connection-is-pooled"
    | _, _ => r.fail "get-handed-out-a-closed-connection"
  | .shut k => { r with last := r.last.filter (·.1 != k) }
  | .table rs => { r with urls := rs.flatMap (·.urls) }
  | .cleanup =>
    let keys := natsOf (getArrD o "keys")
    let expectKept := sortNats ((r.last.filter fun kv => r.urls.contains kv.1).map (·.1))
    -- every key after the cleanup is a target of the table; a live connection of a present backend stays
    let ok := keys.all (fun k => r.urls.contains k) && expectKept.all (fun k => keys.contains k)
      && keys.all (fun k => (r.last.lookup k).isSome)   -- and no closed connection stays pooled
    let last' := r.last.filter fun kv => r.urls.contains kv.1
    let why := if !keys.all (fun k => r.urls.contains k) then "cleanup-kept-a-backend-that-left-the-table"
               else if !expectKept.all (fun k => keys.contains k) then "cleanup-dropped-a-present-backend"
               else "cleanup-kept-a-closed-connection"
    { r with last := last', ok := r.ok && ok, dropped := r.dropped || last'.length < r.last.length,
             why := if r.why.isEmpty && !ok then why else r.why }
  | .bad => r.fail

def poolH : Handler := fun inp impl => do
  let ops := parseOps inp
  let (w, js, handed) := runPoolModel ops
  let live := sortNats ((w.pool.filter fun kc => !kc.2.shut).map (·.2.id))
  let model := Json.mkObj [
    ("closed", natArr (sortNats handed)), ("final_keys", natArr (keysJson w.pool)), ("final_live", natArr live),
    ("handed", natArr (sortNats handed)), ("obs", Json.arr js.toArray)]
  let iobs := getArrD impl "obs"
  let r := if iobs.length != ops.length then ({} : Ref).fail
           else (ops.zip iobs).foldl (fun r (p : POp × Json) => specStep r p.1 p.2) ({} : Ref)
  let handedI := natsOf (getArrD impl "handed")
  let closedI := natsOf (getArrD impl "closed")
  -- at the end exactly the connections last handed out and never closed/removed are live: nothing leaks
  let liveI := natsOf (getArrD impl "final_live")
  let spec := r.ok && handedI == closedI && liveI == sortNats (r.last.map (·.2))
  let tag :=
    if !r.ok then r.why
    else if handedI != closedI then "removed-connection-not-closed"
    else if !spec then "connection-open-outside-the-pool"
    else (if r.reused then "reuse" else "noreuse") ++ (if r.dropped then "+drop" else "") ++ (if r.dialErr then "+dialerr" else "")
  return ({ model := model, agree := model == impl, spec := spec,
            nontrivial := r.reused || r.dropped, tag := tag } : Verdict).toJson

/-! ### c16.call

`agree`: the interceptor model predicts the class of every call — `internal` (unparsable method), `notfound`,
or `forward` to one of the targets the real `Table.Lookup` names *for the host and path the model computes*
(`dstHost md`, parsed path; the harness ships the table's answers for the empty host and for every `dsthost`
value, so a wrong host choice selects a different answer) — and for plain method names the parsed path is
the method itself.  `spec`: the sentences of the property on the recorded observations — no route ⇒
`NotFound` and no backend handler ran; a routed call reached exactly one backend of the matching route,
which saw the caller's method, custom metadata and messages (as protobuf field sequences) unmodified and in order; the caller saw the
backend's messages, trailers, status code and message, and its headers whenever it sent a message;
consecutive calls to a backend that stayed in the table arrive on one connection. -/

open Spec in
def parseSMD (j : Json) (k : String) : SMD :=
  (getArrD j k).map fun e => (getStrD e "k", (getArrD e "v").map fun v => match v with | .str s => s | _ => "")

def strsOf (j : Json) (k : String) : List String :=
  (getArrD j k).map fun v => match v with | .str s => s | _ => ""

/-- [key, value] pairs in sending order → per key the values in order -/
def groupPairs (j : Json) (k : String) : Spec.SMD :=
  (getArrD j k).foldl (fun (acc : Spec.SMD) p =>
    match p with
    | .arr a =>
      match a.toList with
      | [.str key, .str v] =>
        let key := key.toLower
        if acc.any (·.1 == key) then acc.map fun e => if e.1 == key then (e.1, e.2 ++ [v]) else e
        else acc ++ [(key, [v])]
      | _ => acc
    | _ => acc) []

def toMD (m : Spec.SMD) : MD := m.map fun e => (s2l e.1, e.2.map s2l)

/-! tables: the step's script (or its simple route list turned into `route add` commands, exactly as
`harness/c16/call.go: defsOf` does), the dump of the implementation's table, and the routing configuration
of the gRPC proxy (prefix matcher, host globbing on; the generated host patterns lie in the fragment
`C03.globLib` models) -/

def placeholder (i : Nat) : Str := ("grpc://b" ++ toString i).toList

def backendIdx (u : Str) : Option Nat :=
  let p := "grpc://b".toList
  if p.isPrefixOf u then (String.ofList (u.drop p.length)).toNat? else none

def routesToDefs (rs : List RSpec) : List Fabio.Model.Route.RouteDef :=
  let rec go (n : Nat) : List (RSpec × Nat) → List Fabio.Model.Route.RouteDef
    | [] => []
    | (r, u) :: rest =>
      { cmd := .add, service := ("svc" ++ toString n).toList, src := s2l (r.host ++ r.path), dst := placeholder u,
        opts := [("proto".toList, "grpc".toList)] } :: go (n + 1) rest
  go 0 (rs.flatMap fun r => r.urls.map fun u => (r, u))

def stepDefs (st : Json) : List Fabio.Model.Route.RouteDef :=
  match getArrD st "defs" with
  | [] => routesToDefs (parseRoutes st "routes")
  | ds => ds.filterMap fun d => (RouteJson.routeDef d).toOption

def parseDump (o : Json) : Table :=
  (getArrD o "dump").map fun h =>
    (s2l (getStrD h "host"), (getArrD h "routes").map fun r =>
      ({ host := s2l (getStrD r "host"), path := s2l (getStrD r "path"),
         targets := (getArrD r "targets").map fun tg =>
           ({ service := s2l (getStrD tg "service"), tags := [], opts := [], url := s2l (getStrD tg "url"),
              fixedWeight := 0 } : Target) } : Route))

def insHost (kv : Str × List (Str × List (Str × Str))) :
    List (Str × List (Str × List (Str × Str))) → List (Str × List (Str × List (Str × Str)))
  | [] => [kv]
  | x :: xs => if Fabio.Model.Route.strLt kv.1 x.1 then kv :: x :: xs else x :: insHost kv xs

/-- host ↦ routes in table order ↦ (service, URL) of the targets in order; hosts sorted -/
def skeleton (t : Table) : List (Str × List (Str × List (Str × Str))) :=
  (t.map fun kv => (kv.1, kv.2.map fun r => (r.path, r.targets.map fun tg => (tg.service, tg.url)))).foldr insHost []

/-- the routing configuration of the proxy under test (`harness/c16/call.go: callConfig`): 2 = matcher
`iprefix`, host globbing disabled; otherwise the defaults (prefix matcher, globbing on) -/
def grpcCfg (n : Nat) : Fabio.Model.C03.Cfg :=
  { globMatch := Fabio.Model.C03.globLib,
    pathMatch := Fabio.Model.C03.pathMatch Fabio.Model.C03.globLib (if n == 2 then .iprefix else .pfx),
    pick := fun r => r.targets.headD { service := [], tags := [], opts := [], url := [], fixedWeight := 0 },
    globDisabled := n == 2 }

/-- brute-force reference for the specification: the targets a call may be sent to are the targets of every
route whose path is a prefix of the method path and whose host key is empty or matches the host (it does not
use `Lookup`, its host order or its route order) -/
def candidateURLs (n : Nat) (t : Table) (host path : Str) : List Str :=
  let nh := Fabio.Model.C03.normalizeHost host false
  let hostOK (k : Str) : Bool :=
    if n == 2 then Fabio.Model.C03.normalizeHost k false == nh
    else Fabio.Model.C03.globLib (Fabio.Model.C03.normalizeHost k false) nh
  let pathOK (p : Str) : Bool :=
    if n == 2 then (Fabio.lowerL p).isPrefixOf (Fabio.lowerL path) else p.isPrefixOf path
  (t.filter fun kv => kv.1.isEmpty || hostOK kv.1).flatMap fun kv =>
    (kv.2.filter fun r => pathOK r.path).flatMap fun r => r.targets.map (·.url)

structure CallTrack where
  /-- backend index ↦ connection id of the last call that reached it (forgotten when the backend's URL is
  absent from a table: the real 5 s cleanup may drop the connection at any moment then) -/
  lastConn : List (Nat × Nat) := []
  urls : List Nat := []
  /-- the table as the model of the command language builds it from the step's script (`Route.newTable`) -/
  table : Table := []
  /-- the table the implementation built, as `route.VerifDump` shows it -/
  dump : Table := []
  agree : Bool := true
  spec : Bool := true
  failTag : String := ""
  classes : List String := []
  model : List Json := []
  forwards : Nat := 0
  reused : Nat := 0
  /-- at least two calls of one "par" step were forwarded: they were in flight together -/
  par : Bool := false
  /-- configuration of the proxy under test -/
  cfg : Nat := 0

def CallTrack.note (t : CallTrack) (cls : String) (agree spec : Bool) (tag : String) : CallTrack :=
  { t with agree := t.agree && agree, spec := t.spec && spec,
           failTag := if t.failTag.isEmpty && !(agree && spec) then tag else t.failTag,
           classes := if t.classes.contains cls then t.classes else t.classes ++ [cls],
           model := t.model ++ [Json.str cls] }

/-! the relay model (`Model/C16Relay.lean`) run on a schedule that follows the interaction mode of the case: by
`Props.C16Relay.finished_call_is_transparent` what the caller ends up with does not depend on the schedule, so
one schedule per mode suffices to predict the whole observation — the backend's messages, trailers, status
code and message at the caller, the backend's header exactly when it sent a message, and at a backend that
reads to the end of the stream all the caller's messages. -/

open Relay in
def relaySchedule (mode : String) (ms reps : List String) (hdr tr : Spec.SMD) (st : Relay.Status) : List Relay.Ev :=
  let up : List Ev := ms.map Ev.callerSend ++ [.callerClose]
  let down : List Ev := reps.map Ev.backendSend
  let fin : List Ev := [.backendFinish tr st]
  let n := 3 * (ms.length + reps.length) + 8
  match mode with
  | "early" => [.backendHeader hdr] ++ down ++ fin ++ up ++ settle n
  | "replyfirst" => [.backendHeader hdr] ++ down ++ settle n ++ up ++ settle n ++ fin ++ settle n
  | "pingpong" =>
    -- one reply per message while there are replies, the rest after the end of the stream
    let rec go : List String → List String → List Ev
      | [], rs => [.callerClose] ++ settle n ++ rs.map Ev.backendSend
      | m :: ms', [] => [.callerSend m] ++ settle 4 ++ go ms' []
      | m :: ms', r :: rs => [.callerSend m] ++ settle 4 ++ [.backendSend r] ++ settle 4 ++ go ms' rs
    [.backendHeader hdr] ++ go ms reps ++ fin ++ settle n
  | _ => up ++ settle n ++ [.backendHeader hdr] ++ down ++ fin ++ settle n

/-- does the recorded call look like the relay model's prediction? -/
def relayAgrees (method : String) (sentMD : Spec.SMD) (mode : String) (ms : List String) (did : Spec.BackendDid)
    (saw : Spec.CallerSaw) (bsaw : Spec.BackendSaw) (drained : Bool) : Bool :=
  let s := Relay.run (Relay.init method sentMD)
    (relaySchedule mode ms did.msgs did.header did.trailer { code := did.code, message := did.message })
  match s.cFin with
  | none => false
  | some (tr, st) =>
    saw.code == st.code && saw.message == st.message && Spec.mdCarried tr saw.trailer
      && Spec.Wire.sameMsgs saw.msgs s.cGot
      && (match s.cHdr with
          | some h => Spec.mdCarried h saw.header
          -- no message, no header: none of the backend's header keys reaches the caller
          | none => did.header.all fun kv => (Spec.smdGet saw.header kv.1).isEmpty)
      && bsaw.method == s.bMethod && Spec.mdCarried s.bMD bsaw.md
      && drained == s.bEOF && (!drained || Spec.Wire.sameMsgs bsaw.msgs s.bGot)

def callStep1 (t : CallTrack) (st o : Json) : CallTrack :=
  match getStrD st "op" with
  | "table" =>
    let defs := stepDefs st
    let env := RouteJson.envOf ((getObj? o "env").getD (Json.mkObj []))
    let implErr := getBoolD o "error"
    match Fabio.Model.Route.newTable env defs with
    | .error _ =>
      -- NewTable failed: the active table stays
      { t with agree := t.agree && implErr, model := t.model ++ [Json.str "table-error"],
               failTag := if t.failTag.isEmpty && !implErr then "table-built-from-a-script-the-model-rejects" else t.failTag }
    | .ok mt =>
      let dump := parseDump o
      let same := !implErr && skeleton mt == skeleton dump
      let noEmpty := dump.all fun kv => kv.2.all fun r => !r.targets.isEmpty
      let urls := (tableURLs dump).filterMap backendIdx
      let why := if implErr then "table-script-rejected-by-the-implementation"
                 else if !noEmpty then "table-keeps-a-route-without-targets"
                 else "table-differs-from-the-command-model"
      { t with urls := urls, lastConn := t.lastConn.filter (fun kv => urls.contains kv.1),
               table := if implErr then t.table else mt, dump := if implErr then t.dump else dump,
               agree := t.agree && same && noEmpty,
               failTag := if t.failTag.isEmpty && !(same && noEmpty) then why else t.failTag,
               model := t.model ++ [Json.str "table"] }
  | "call" =>
    let method := getStrD st "method"
    let sentMD := groupPairs st "md"
    let sentMsgs := strsOf st "msgs"
    let script := (getObj? st "script").getD (Json.mkObj [])
    let did : Spec.BackendDid := { header := groupPairs script "header", msgs := strsOf script "msgs",
                                   trailer := groupPairs script "trailer", code := getNatD script "code",
                                   message := getStrD script "message" }
    let caller := (getObj? o "caller").getD (Json.mkObj [])
    let saw : Spec.CallerSaw := { header := parseSMD caller "header", msgs := strsOf caller "msgs",
                                  trailer := parseSMD caller "trailer", code := getNatD caller "code",
                                  message := getStrD caller "message" }
    let hits := natsOf (getArrD o "hits")
    let nhits := hits.foldl (· + ·) 0
    let backend := getObj? o "backend"
    let pathOK := getBoolD o "path_ok"
    let path := getStrD o "path"
    -- the parser assumption of `grpc_lookup_args_plain`, checked against net/url
    let ppOK := !plainMethod (s2l method) || (pathOK && path == method)
    let hostL := dstHost (toMD sentMD)
    let host := String.ofList hostL
    let entry := (getArrD o "oracle").find? fun e => getStrD e "h" == host
    -- the composed model: C03's Lookup on the model-built table, for the request the interceptor builds
    let answer := Fabio.Model.C03.Lookup (grpcCfg t.cfg) t.table { host := hostL, tls := false, path := s2l path }
    let modelURLs : List Nat := match answer with
      | none => []
      | some (_, r, _) => sortNats (r.targets.filterMap fun tg => backendIdx tg.url)
    -- the specification's reference, on the implementation's own table
    let cands := sortNats ((candidateURLs t.cfg t.dump hostL (s2l path)).filterMap backendIdx)
    if !pathOK then
      let ok := saw.code == codeInternal && nhits == 0 && backend.isNone
      t.note "internal" (ok && ppOK) (nhits == 0) "internal-but-backend-contacted"
    else
    match entry with
    | none => t.note "oracle-missing" false true "oracle-missing"
    | some e =>
      -- the real `Table.Lookup`, asked directly by the harness, must agree with the composed model
      let oracleOK := sortNats (natsOf (getArrD e "urls")) == modelURLs
      let urls := modelURLs
      if !oracleOK then
        -- model and implementation route differently; the property still has its say on what was observed:
        -- NotFound is right only when no route with a target matches the call
        let nfWrong := saw.code == codeNotFound && backend.isNone && !cands.isEmpty
        t.note "lookup-differs" false (!nfWrong)
          (if nfWrong then "notfound-although-a-matching-route-has-a-target" else "table-lookup-differs-from-the-routing-model")
      else
      if urls.isEmpty then
        let ok := saw.code == codeNotFound && saw.message == "no route found" && nhits == 0 && backend.isNone
                    && getNatD o "noroute" == 1
        -- property: no matching route ⇒ NotFound without contacting a backend; and NotFound only then:
        -- a route with a target whose host and path match the call must serve it
        let spec := saw.code == codeNotFound && nhits == 0 && backend.isNone && cands.isEmpty
        t.note "notfound" (ok && ppOK) spec
          (if saw.code != codeNotFound then "noroute-wrong-status"
           else if !cands.isEmpty then "notfound-although-a-matching-route-has-a-target"
           else "noroute-backend-contacted")
      else
        match backend with
        | none => t.note "forward" false (cands.isEmpty && saw.code == codeNotFound)
                    (if saw.code == codeNotFound then "route-exists-but-notfound" else "routed-call-reached-no-backend")
        | some b =>
          let idx := getNatD b "idx"
          let conn := getNatD b "conn"
          let inSet := urls.contains idx && nhits == 1
          let bsaw : Spec.BackendSaw := { method := getStrD b "method", md := parseSMD b "md", msgs := strsOf b "msgs" }
          let drained := getBoolD b "drained"
          let methodOK := bsaw.method == method
          let mdOK := Spec.mdCarried sentMD bsaw.md
          -- messages are compared as protobuf field sequences (number, wire type, value) in order
          let msgsFwd := !drained || Spec.Wire.sameMsgs bsaw.msgs sentMsgs
          let msgsBack := Spec.Wire.sameMsgs saw.msgs did.msgs
          let statusOK := saw.code == did.code && saw.message == did.message
          let trailerOK := Spec.mdCarried did.trailer saw.trailer
          let headerOK := did.msgs.isEmpty || Spec.mdCarried did.header saw.header
          let reuseOK := match t.lastConn.lookup idx with
            | some c => c == conn
            | none => true
          -- the backend reached is a target of a route matching the call (reference on the dumped table)
          let inCands := cands.contains idx && nhits == 1
          let spec := inCands && methodOK && mdOK && msgsFwd && msgsBack && statusOK && trailerOK && headerOK && reuseOK
          let relayOK := relayAgrees method sentMD (getStrD script "mode") sentMsgs did saw bsaw drained
          let tag :=
            if cands.contains idx && nhits > 1 then "call-handed-to-a-backend-more-than-once"
            else if !inCands then "backend-of-no-matching-route"
            else if !inSet then "wrong-backend"
            else if !methodOK then "method-altered"
            else if !mdOK then "metadata-lost-or-altered"
            else if !reuseOK then "connection-not-reused"
            else if !statusOK then "status-altered"
            else if !trailerOK then "trailer-lost-or-altered"
            else if !headerOK then "header-lost-or-altered"
            else if !(msgsFwd && msgsBack) then "message-altered"
            else "differs-from-the-relay-model"
          let t := { t with lastConn := (idx, conn) :: t.lastConn.filter (·.1 != idx), forwards := t.forwards + 1,
                            reused := t.reused + (if (t.lastConn.lookup idx).isSome then 1 else 0) }
          t.note "forward" (inSet && ppOK && relayOK) spec tag
  | _ => t.note "bad-step" false true "bad-step"

/-- a step of a case; the calls of a "par" step ran concurrently and are judged one by one, each as if it had
been alone (routing by the composed model, the relay model, the specification) -/
def callStep (t : CallTrack) (st o : Json) : CallTrack :=
  match getStrD st "op" with
  | "par" =>
    let subs := getArrD st "calls"
    let os := getArrD o "calls"
    if subs.length != os.length || getStrD o "op" != "par" then t.note "bad-step" false true "bad-step"
    else
      let f0 := t.forwards
      let t := (subs.zip os).foldl (fun t (p : Json × Json) => callStep1 t p.1 p.2) t
      -- a backend handler ran for a call that is none of this step's calls
      let t := if (o.getObjValAs? Int "noroute").toOption == some (-1) then
                 t.note "par" false false "backend-called-for-nobodys-call" else t
      { t with par := t.par || t.forwards ≥ f0 + 2 }
  | _ => callStep1 t st o

def callH : Handler := fun inp impl => do
  let steps := getArrD inp "steps"
  let obs := getArrD impl "obs"
  if steps.length != obs.length then
    return ({ model := Json.null, agree := false, spec := true, nontrivial := false, tag := "harness-error" } : Verdict).toJson
  let t := (steps.zip obs).foldl (fun t (p : Json × Json) => callStep t p.1 p.2) ({ cfg := getNatD inp "cfg" } : CallTrack)
  let cls := (["forward", "notfound", "internal"].filter t.classes.contains).foldl
    (fun a c => if a.isEmpty then c else a ++ "+" ++ c) ""
  -- classes of the configuration and of the pace of the calls (neither changes what the model expects)
  let slow := steps.any fun st => getNatD st "pause_ms" > 0 || getNatD ((getObj? st "script").getD (Json.mkObj [])) "delay_ms" > 0
  let sfx := (if t.par then "+par" else "") ++ (if getNatD inp "cfg" == 1 then "+shortopts" else if getNatD inp "cfg" == 2 then "+iprefix-noglob" else "") ++ (if slow then "+slow" else "")
  let tag := if t.failTag.isEmpty then (if t.reused > 0 then cls ++ "+reuse" else cls) ++ sfx else t.failTag
  return ({ model := Json.arr t.model.toArray, agree := t.agree, spec := t.spec,
            nontrivial := t.forwards > 0, tag := tag } : Verdict).toJson

/-! ### c16.race — concurrent first calls (`Props.C16.race_outcomes`): every caller gets the one pooled
connection; once the backend has left the table and a cleanup has run, no connection to it stays open. -/

def raceH : Handler := fun inp impl => do
  let n := getNatD inp "n"
  let model := Json.mkObj [("distinct", natJ 1), ("keys_left", natJ 0), ("open", natJ 0), ("shared", true), ("usable", true)]
  let distinct := getNatD impl "distinct"
  let opn := getNatD impl "open"
  let spec := opn == 0 && getBoolD impl "usable" && getBoolD impl "shared" && getNatD impl "keys_left" == 0
  let tag := if getNatD impl "keys_left" != 0 then "cleanup-kept-a-backend-that-left-the-table"
             else if opn > 0 then "orphan-after-race"
             else if !getBoolD impl "usable" then "closed-connection-handed-out"
             else if !getBoolD impl "shared" then "later-call-not-on-pooled-connection"
             else if distinct > 1 then "several-connections-handed-out"
             else s!"race-{n}"
  return ({ model := model, agree := model == impl, spec := spec, nontrivial := n ≥ 2, tag := tag } : Verdict).toJson

/-! ### c16.live — the director's own pool with its real cleanup timer -/

def liveH : Handler := fun inp impl => do
  let drop := natsOf (getArrD inp "drop")
  let bs := getArrD impl "backends"
  let expect (b : Nat) : Json :=
    let d := drop.contains b
    Json.mkObj [("b", natJ b), ("dropped", d), ("first_ok", true), ("reused", true), ("notfound", d),
                ("conn_closed", d), ("still_open", !d), ("after_same", !d), ("after_ok", true)]
  let model := Json.mkObj [("backends", Json.arr ((List.range bs.length).map expect).toArray)]
  -- the property's sentences, one by one, on what the backends and the caller reported
  let bad := bs.filterMap fun j =>
    let d := getBoolD j "dropped"
    if !(getBoolD j "first_ok" && getBoolD j "after_ok") then some "routed-call-failed"
    else if !getBoolD j "reused" then some "connection-not-reused"
    else if d && !getBoolD j "notfound" then some "removed-backend-still-served"
    else if d && !getBoolD j "conn_closed" then some "connection-to-removed-backend-kept"
    else if !d && !getBoolD j "after_same" then some "connection-of-present-backend-dropped"
    else none
  return ({ model := model, agree := model == impl, spec := bad.isEmpty, nontrivial := !drop.isEmpty && bs.length > 0,
            tag := bad.head?.getD s!"drop-{drop.length}" } : Verdict).toJson

/-! ### c16.serve — the real binary: per-listener directors, transport credentials, message limits

`agree`: `Serve.Proxy.call` (interceptor, open gates, director, pool with the credentials of every dialled
connection) and `Serve.outcome` (assumed handshake behaviour, limits) predict for every call the status the
caller gets and which backend handler runs; a forwarded call is relayed both ways unmodified.
`spec` does not run the pool model: a call whose route exists may reach only that route's backend; when the
route's own scheme and TLS options can reach the backend (TLS iff `grpcs`, certificate accepted) and the
messages are within the configured limits, the call must reach it and be relayed; a message over a limit must
be reported (`ResourceExhausted`), never dropped silently; no route ⇒ `NotFound`, nobody contacted. -/

open Serve in
def serveRoutes (inp : Json) : List (Nat × Nat × Tgt) :=
  let rs := getArrD inp "routes"
  (List.range rs.length).zip rs |>.map fun (i, r) =>
    let scheme := getStrD r "scheme"
    let b := getNatD r "b"
    (i, b, { key := (scheme ++ "://b" ++ toString b).toList, grpcs := scheme == "grpcs",
             skipVerify := getBoolD r "skip", serverName := s2l (getStrD r "sn") })

open Serve in
def serveBackendOf (impl : Json) (b : Nat) : Backend :=
  match (getArrD impl "backends")[b]? with
  | none => .plain
  | some d => if getBoolD d "tls" then .tls ((strsOf d "names").map s2l) (getBoolD d "trusted") else .plain

def hexLens (l : List String) : List Nat := l.map fun h => h.length / 2

/-- the status code the relay with limits (`Model/C16RelayLim.lean`) predicts for a call whose backend reads the
caller's stream to its end and then answers (`c16.serve`'s backends), on the schedule of `relaySchedule`'s
default mode -/
def limitedCode (lim : Serve.Limits) (method : String) (sent replies : List String) (scode : Nat) : Option Nat :=
  let n := 3 * (sent.length + replies.length) + 8
  let st : Relay.Status := { code := scode, message := if scode == 0 then "" else "scripted" }
  let es : List Relay.Ev := sent.map Relay.Ev.callerSend ++ [.callerClose] ++ Relay.settle n ++
    replies.map Relay.Ev.backendSend ++ [.backendFinish [] st] ++ Relay.settle n
  (RelayLim.runL lim (Relay.init method []) es).cFin.map (·.2.code)

open Serve in
def serveH : Handler := fun inp impl => do
  let listeners := (getArrD inp "listeners").map (getBoolD · "tls")
  let lim : Limits := { rx := match getNatD inp "rx" with | 0 => 4194304 | n => n,
                        tx := match getNatD inp "tx" with | 0 => 4194304 | n => n }
  let routes := serveRoutes inp
  let host := s2l (getStrD impl "dial_host")
  let routeOf (path : Str) : Option (Nat × Nat × Tgt) :=
    routes.find? fun r => ("/svc.r" ++ toString r.1).toList.isPrefixOf path
  let lookup : Table → Str → Str → Option Tgt := fun _ _ p => (routeOf p).map (·.2.2)
  let calls := getArrD inp "calls"
  let obs := getArrD impl "obs"
  if calls.length != obs.length then
    return ({ model := Json.null, agree := false, spec := true, nontrivial := false, tag := "harness-error" } : Verdict).toJson
  let step := fun (acc : Proxy × List Json × Bool × Bool × String × List String × Nat) (co : Json × Json) =>
    let (p, model, agree, spec, failTag, classes, fwds) := acc
    let (c, o) := co
    let l := getNatD c "l"
    let method := s2l (getStrD o "method")
    let sentMD := groupPairs c "md"
    let req := natsOf (getArrD c "req")
    let rep := natsOf (getArrD c "rep")
    let scode := getNatD c "code"
    let code := getNatD o "code"
    let hits := getNatD o "hits"
    let backend : Option Nat := (o.getObjValAs? Nat "backend").toOption
    let sent := strsOf o "sent"
    let replies := strsOf o "replies"
    let saw := strsOf o "saw"
    let got := strsOf o "got"
    let relayed := getBoolD o "drained" && Spec.Wire.sameMsgs saw sent && Spec.Wire.sameMsgs got replies
      && Spec.mdCarried sentMD (parseSMD o "bmd") && getStrD o "bmethod" == getStrD o "method"
    -- the harness's messages have the sizes the input names
    let sizesOK := hexLens sent == req && hexLens replies == rep
    let rt := routeOf method
    -- the access gate of this call's target: the verdict of the target's own rules (oracle: the real
    -- `AccessDeniedAddr`, property C12) is the model's `gate` parameter
    let deniedR : Bool := match rt with
      | some (i, _, _) => (match (getArrD impl "denied")[i]? with | some (.bool b) => b | _ => false)
      | none => false
    let gate : Gate := gateOf (fun _ => deniedR) (fun _ _ => true)
    let (p', res) := p.call some lookup gate l true (toMD sentMD) method true
    -- the model's prediction
    let (cls, mcode, mback) : String × Nat × Option Nat :=
      match res, rt with
      | some (.status sc), _ => ((if sc == codeNotFound then "notfound" else if sc == codePermissionDenied then "denied" else "status"), sc, none)
      | some (.proxied _ _ (some sec)), some (_, b, _) =>
        let oc := outcome host lim sec (serveBackendOf impl b) req rep scode
        if !handshake host sec (serveBackendOf impl b) then ("unreachable", oc, none)
        else if !lim.allOK req rep then ("limit", oc, some b)
        else ("forward", oc, some b)
      | _, _ => ("bad-call", 0, none)
    -- where the connection comes up, the relay with limits must predict the same status as `Serve.outcome`
    let limOK := (cls != "forward" && cls != "limit") ||
      limitedCode lim (getStrD o "method") sent replies scode == some mcode
    let agreeC := sizesOK && code == mcode && limOK &&
      (match cls with
       | "forward" => backend == mback && hits == 1 && relayed
       | "limit" => (backend == mback || backend.isNone) && hits ≤ 1
       | "bad-call" => false
       | _ => backend.isNone && hits == 0)
    -- the specification, from the input and the implementation's observation alone
    let (specC, why) : Bool × String :=
      match rt with
      | none => (code == codeNotFound && hits == 0 && backend.isNone,
                 if code != codeNotFound then "noroute-wrong-status" else "noroute-backend-contacted")
      | some (_, b, t) =>
        let only := hits ≤ 1 && (backend.isNone || backend == some b) && !(deniedR && hits > 0)
        let ideal : Security := if t.grpcs then .tls t.serverName t.skipVerify else .insecure
        let reach := handshake host ideal (serveBackendOf impl b)
        let within := lim.allOK req rep
        if !only then (false, if deniedR && hits > 0 then "denied-call-reached-a-backend" else "backend-of-no-matching-route")
        else if deniedR then (code == codePermissionDenied, "denied-call-wrong-status")
        else if !reach then (true, "")
        else if !within then (code == codeResourceExhausted, "message-over-the-limit-not-reported")
        else if backend != some b then
          (false,
            if code == codeResourceExhausted then "message-within-the-limits-rejected"
            else if t.grpcs && !(listeners[l]?.getD false) then "grpcs-target-dialled-in-clear-text-on-a-listener-without-certificate-source"
            else match res with
              | some (.proxied _ (.reused _) (some sec)) =>
                if sec != dialSecurity (listeners[l]?.getD false) t then "connection-dialled-with-another-routes-tls-options"
                else "routed-call-not-forwarded"
              | _ => "routed-call-not-forwarded")
        else if code == codeResourceExhausted && scode != codeResourceExhausted then (false, "message-within-the-limits-rejected")
        else if code != scode then (false, "status-altered")
        else (relayed, "message-or-metadata-altered")
    let tlsFwd := cls == "forward" && (match rt with | some (_, _, t) => t.grpcs | none => false)
    let cls' := if tlsFwd then "forward-tls" else cls
    (p', model ++ [Json.mkObj [("class", cls), ("code", natJ mcode), ("backend", match mback with | some b => natJ b | none => Json.null)]],
     agree && agreeC, spec && specC,
     (if failTag.isEmpty && !specC then why else if failTag.isEmpty && !agreeC then "differs-from-the-model:" ++ cls else failTag),
     (if classes.contains cls' then classes else classes ++ [cls']),
     fwds + (if cls == "forward" then 1 else 0))
  let (_, model, agree, spec, failTag, classes, fwds) :=
    (calls.zip obs).foldl step (Proxy.start listeners, [], true, true, "", [], 0)
  let order := ["forward", "forward-tls", "limit", "unreachable", "denied", "notfound"]
  let cls := (order.filter classes.contains).foldl (fun a c => if a.isEmpty then c else a ++ "+" ++ c) ""
  let mixed := listeners.contains true && listeners.contains false
  let tag := if failTag.isEmpty then (if mixed then "mixed:" else "") ++ cls else failTag
  return ({ model := Json.arr model.toArray, agree := agree, spec := spec, nontrivial := fwds > 0, tag := tag } : Verdict).toJson

def streams : List (String × Handler) :=
  [("c16.pool", poolH), ("c16.call", callH), ("c16.race", raceH), ("c16.live", liveH), ("c16.serve", serveH)]
end Fabio.Driver.C16
