import Lean.Data.Json
/-!
Line protocol of the model driver.

One JSON object per input line: `{"stream": "<name>", "in": <case>, "impl": <what the Go code produced>}`.
One JSON object per output line: `{"model": <model output>, "agree": bool, "spec": bool, "nontrivial": bool,
"tag": "<branch tag>"}`; `agree` = model output equals implementation output (canonical JSON),
`spec` = the property's specification predicate holds of the *implementation's* output.
-/
namespace Fabio.Driver
open Lean

abbrev Handler := Json → Json → Except String Json   -- in → impl → verdict object

structure Verdict where
  model : Json
  agree : Bool
  spec : Bool := true
  nontrivial : Bool := true
  tag : String := ""

def Verdict.toJson (v : Verdict) : Json :=
  Json.mkObj [("model", v.model), ("agree", v.agree), ("spec", v.spec),
              ("nontrivial", v.nontrivial), ("tag", v.tag)]

def errLine (msg : String) : String :=
  (Json.mkObj [("error", msg), ("agree", false), ("spec", true), ("nontrivial", false), ("tag", "driver-error")]).compress

def handleLine (hs : List (String × Handler)) (line : String) : String :=
  match Json.parse line with
  | .error e => errLine s!"parse: {e}"
  | .ok j =>
    match j.getObjValAs? String "stream" with
    | .error e => errLine e
    | .ok s =>
      match hs.lookup s with
      | none => errLine s!"unknown stream {s}"
      | some h =>
        let inp := (j.getObjVal? "in").toOption.getD Json.null
        let impl := (j.getObjVal? "impl").toOption.getD Json.null
        -- the harness's watchdog: the real code did not answer within the ceiling. Like a panic this is an outcome
        -- no property here allows (every property presupposes that the operation completes); it is judged without
        -- consulting the stream's handler
        if (impl.getObjVal? "hang").toOption.isSome then
          (Json.mkObj [("model", Json.null), ("agree", false), ("spec", false), ("nontrivial", true),
                       ("tag", "impl-hang")]).compress
        else
        match h inp impl with
        | .error e => errLine s!"{s}: {e}"
        | .ok v => v.compress

partial def loop (hs : List (String × Handler)) (hin hout : IO.FS.Stream) : IO Unit := do
  let line ← hin.getLine
  if line.isEmpty then return ()
  let l := line.trimAsciiEnd.toString
  if l.isEmpty then loop hs hin hout else
  hout.putStrLn (handleLine hs l)
  loop hs hin hout

def run (hs : List (String × Handler)) : IO Unit := do
  let hin ← IO.getStdin
  let hout ← IO.getStdout
  loop hs hin hout
  hout.flush

end Fabio.Driver
