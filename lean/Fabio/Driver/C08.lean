import Fabio.Driver.Proto
namespace Fabio.Driver.C08
open Lean Fabio.Driver

def streams : List (String × Handler) := []
end Fabio.Driver.C08
