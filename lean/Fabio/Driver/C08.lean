import Fabio.Driver.Proto
import Fabio.Model.C08
import Fabio.Model.C08Serve
import Fabio.Model.C08Main
/-!
Driver handlers for C08.  `agree` compares the model with the real code; `spec` evaluates the sentences of
the property on the implementation's own output with reference functions that do not use the model's
`addHeaders` (names are matched ignoring ASCII case instead of through `canonicalKey`, the peer is read off
`RemoteAddr` by a separate three-line splitter, the port of the client's Host by a separate reader).
-/
namespace Fabio.Driver.C08
open Lean Fabio Fabio.Driver Fabio.Model.C08

abbrev SHdrs := List (String × List String)

def s2l (s : String) : Str := s.toList
def l2s (l : Str) : String := String.ofList l

/-! ### JSON plumbing -/

def getStrD (j : Json) (k : String) : String := (j.getObjValAs? String k).toOption.getD ""
def getBoolD (j : Json) (k : String) : Bool := (j.getObjValAs? Bool k).toOption.getD false
def getIntD (j : Json) (k : String) : Int := (j.getObjValAs? Int k).toOption.getD 0
def getNatD (j : Json) (k : String) : Nat := (j.getObjValAs? Nat k).toOption.getD 0
def getArrD (j : Json) (k : String) : Array Json :=
  match j.getObjVal? k with
  | .ok (.arr a) => a
  | _ => #[]

def parseWire (j : Json) : List (String × Option String) :=
  (getArrD j "wire").toList.map fun e =>
    (getStrD e "k", match e.getObjVal? "v" with
                    | .ok (.str s) => some s
                    | _ => none)

def parseHdrs (j : Json) (k : String) : SHdrs :=
  (getArrD j k).toList.map fun e =>
    (getStrD e "k", (getArrD e "v").toList.map fun v => match v with | .str s => s | _ => "")

def parseCfg (j : Json) : Cfg :=
  match j.getObjVal? "cfg" with
  | .ok c => { clientIPHeader := s2l (getStrD c "cip"), tlsHeader := s2l (getStrD c "tlsh"),
               tlsHeaderValue := s2l (getStrD c "tlsv"), localIP := s2l (getStrD c "lip"),
               stsMaxAge := getIntD c "age", stsSubdomains := getBoolD c "sub", stsPreload := getBoolD c "pre",
               requestID := s2l (getStrD c "reqid") }
  | _ => {}

def insertSorted (e : String × List String) : SHdrs → SHdrs
  | [] => [e]
  | x :: xs => if e.1 < x.1 then e :: x :: xs else x :: insertSorted e xs
def sortHdrs (h : SHdrs) : SHdrs := h.foldr insertSorted []

def toS (h : Headers) : SHdrs := sortHdrs (h.map fun e => (l2s e.1, e.2.map l2s))
def hdrsJson (h : SHdrs) : Json :=
  Json.arr (h.map fun e => Json.mkObj [("k", Json.str e.1), ("v", Json.arr (e.2.map Json.str).toArray)]).toArray

def wireL (w : List (String × Option String)) : List (Str × Option Str) :=
  w.map fun e => (s2l e.1, e.2.map s2l)

/-! ### reference functions of the specification -/

def lowerS (s : String) : String := l2s (lowerL (s2l s))
def eqFold (a b : String) : Bool := lowerS a == lowerS b

/-- every value the client sent under `name`, ignoring the casing of the name -/
def sent (w : List (String × Option String)) (name : String) : List String :=
  w.filterMap fun e => if eqFold e.1 name then e.2 else none
/-- the first value the client sent under `name` (`""` when none) -/
def sentFirst (w : List (String × Option String)) (name : String) : String := (sent w name).headD ""
/-- every value the upstream receives under `name`, ignoring the casing of the name -/
def recv (h : SHdrs) (name : String) : List String :=
  (h.filter fun e => eqFold e.1 name).flatMap (·.2)

/-- peer IP as written in `RemoteAddr`: `[v6]:port` or `v4:port` -/
def specPeer (remote : String) : String :=
  match s2l remote with
  | '[' :: t => l2s (t.takeWhile (· != ']'))
  | l => l2s (l.takeWhile (· != ':'))

/-- the port the client asked for: `name:port`, `[v6]:port`; `none` when the Host carries no port;
`some none` = the Host is not of a recognised form (the sentence is not evaluated). -/
def specHostPort (host : String) : Option (Option String) :=
  let l := s2l host
  match l with
  | '[' :: _ =>
    let rest := (l.dropWhile (· != ']')).drop 1
    match rest with
    | [] => some none
    | ':' :: p => if p.isEmpty then some none else if p.all Char.isDigit then some (some (l2s p)) else none
    | _ => none
  | _ =>
    let name := l.takeWhile (· != ':')
    let rest := l.dropWhile (· != ':')
    match rest with
    | [] => some none
    | _ :: p => if p.contains ':' then none
                else if name.isEmpty || p.isEmpty then some none else some (some (l2s p))

def lastElemS (s : String) : String := l2s (lastElem (s2l s))
def startsWith (s p : String) : Bool := (s2l p).isPrefixOf (s2l s)

def managedLower : List String :=
  ["x-forwarded-for", "x-real-ip", "x-forwarded-proto", "x-forwarded-port", "x-forwarded-host",
   "x-forwarded-prefix", "forwarded", "upgrade"]

structure SpecIn where
  wire : List (String × Option String)
  cfg : Cfg
  peer : String
  tls : Bool
  host : String           -- the Host the client asked for
  out : SHdrs             -- what the upstream received
  viaReverseProxy : Bool  -- X-Forwarded-For is expected on every request (ReverseProxy appends it)
  reqid : Option String   -- expected request id value when the header is configured
  checkConn : Bool := false -- `out` is addHeaders' own result: also check the rewritten Connection header

/-- The sentences of the property, each with a name; returns the names of the failing ones. -/
def specClauses (s : SpecIn) : List String :=
  let cip := l2s s.cfg.clientIPHeader
  let tlsh := l2s s.cfg.tlsHeader
  let rid := l2s s.cfg.requestID
  let ws := eqFold (sentFirst s.wire "Upgrade") "websocket"
  let cipFree := cip != "" && !(managedLower.contains (lowerS cip)) && !(eqFold cip tlsh) && !(eqFold cip rid && rid != "")
  let tlshFree := tlsh != ""
  let firstHop := sentFirst s.wire "X-Forwarded-Proto" == "" && sentFirst s.wire "Forwarded" == ""
      && !(managedLower.contains (lowerS cip) && cip != "") && !(managedLower.contains (lowerS tlsh) && tlsh != "")
      && !(managedLower.contains (lowerS rid) && rid != "")
  let nilXFF := s.wire.any fun e => eqFold e.1 "X-Forwarded-For" && e.2.isNone
  let xff := recv s.out "X-Forwarded-For"
  let conn := if ws then (if s.tls then "wss" else "ws") else (if s.tls then "https" else "http")
  let plainOrTls := if s.tls then "https" else "http"
  let mgd (n : String) : Bool := (cip != "" && eqFold cip n) || (tlsh != "" && eqFold tlsh n) || (rid != "" && eqFold rid n)
  let c (name : String) (ok : Bool) : List String := if ok then [] else [name]
  -- Connection tokens, as written, and whether one names a header fabio maintains
  let toks (vs : List String) : List String := vs.flatMap fun v => (splitComma (s2l v)).map l2s
  let namesManaged (t : String) : Bool :=
    let n := lowerS (l2s (trimBlanks (s2l t)))
    n != "" && ((managedLower.contains n && n != "upgrade") || mgd n)
  -- the configured client-IP header is overwritten with the peer address
  c "clientip" (!cipFree || recv s.out cip == [s.peer]) ++
  -- the peer is the last element of X-Forwarded-For (websocket path by addHeaders, otherwise by ReverseProxy)
  c "xff" (!(ws || s.viaReverseProxy) || nilXFF || mgd "X-Forwarded-For" ||
      (xff.length == 1 && lastElemS (xff.headD "") == s.peer)) ++
  -- X-Real-Ip carries the peer unless the client sent one
  c "xrealip" (mgd "X-Real-Ip" ||
      (if sentFirst s.wire "X-Real-Ip" == "" then recv s.out "X-Real-Ip" == [s.peer]
       else recv s.out "X-Real-Ip" == sent s.wire "X-Real-Ip" || recv s.out "X-Real-Ip" == [s.peer])) ++
  -- the TLS header is present with the configured value exactly when the connection used TLS
  c "tlsheader" (!tlshFree ||
      (if s.tls then recv s.out tlsh == [l2s s.cfg.tlsHeaderValue] else recv s.out tlsh == [])) ++
  -- X-Forwarded-Proto and Forwarded are supplied when absent and describe the actual connection
  c "xfproto" (!firstHop || recv s.out "X-Forwarded-Proto" == [plainOrTls]) ++
  -- a client Forwarded header that says nothing about the protocol does not change that
  c "xfproto-forwarded-without-proto" (
      !(sentFirst s.wire "X-Forwarded-Proto" == "" && sentFirst s.wire "Forwarded" != "" &&
        (afterSub "proto=".toList (s2l (sentFirst s.wire "Forwarded"))).isNone) ||
      mgd "X-Forwarded-Proto" || mgd "Forwarded" || recv s.out "X-Forwarded-Proto" == [plainOrTls]) ++
  c "forwarded" (!firstHop ||
      ((recv s.out "Forwarded").length == 1 &&
        (let f := (recv s.out "Forwarded").headD ""
         let p := "for=" ++ s.peer ++ "; proto=" ++ conn
         f == p || startsWith f (p ++ ";")))) ++
  -- X-Forwarded-Host is the host the client asked for
  c "xfhost" (mgd "X-Forwarded-Host" || sentFirst s.wire "X-Forwarded-Host" != "" || s.host == "" ||
      recv s.out "X-Forwarded-Host" == [s.host]) ++
  -- X-Forwarded-Port is the port of the host the client asked for, else 443/80 by TLS
  c "xfport" (mgd "X-Forwarded-Port" || sentFirst s.wire "X-Forwarded-Port" != "" ||
      (match specHostPort s.host with
       | none => true
       | some (some p) => recv s.out "X-Forwarded-Port" == [p]
       | some none => recv s.out "X-Forwarded-Port" == [if s.tls then "443" else "80"])) ++
  -- the Connection header no longer names a managed header; every other token is kept as written
  c "connection" (!s.checkConn || (s.wire.any fun e => eqFold e.1 "Connection" && e.2.isNone) ||
      (toks (recv s.out "Connection") == (toks (sent s.wire "Connection")).filter (fun t => !namesManaged t))
      || ((toks (sent s.wire "Connection")).all namesManaged && recv s.out "Connection" == [])) ++
  -- request id
  c "requestid" (match s.reqid with
      | none => true
      | some id => rid == "" || managedLower.contains (lowerS rid) || eqFold rid cip || eqFold rid tlsh ||
                   recv s.out rid == [id])

/-- Strict-Transport-Security only on TLS connections; `expectAdded` = the response is written by fabio
(not the relayed bytes of a websocket handshake), where it must then be present once when configured. -/
def stsSpec (cfg : Cfg) (tls expectAdded : Bool) (sts : List String) : Bool :=
  if !tls || cfg.stsMaxAge ≤ 0 then sts.isEmpty
  else if expectAdded then sts.length == 1 && startsWith (sts.headD "") "max-age=" else true

/-- Configurations whose names collide (TLS header called X-Forwarded-For, client-IP header called Upgrade,
the same name for two purposes) or are not header tokens cannot satisfy two sentences at once; for them
only model agreement is checked. `X-Real-Ip` / `X-Forwarded-For` as client-IP header are regular. -/
def degenerateCfg (cfg : Cfg) : Bool :=
  let cip := lowerS (l2s cfg.clientIPHeader)
  let tlsh := lowerS (l2s cfg.tlsHeader)
  let rid := lowerS (l2s cfg.requestID)
  let bad (n : String) := n != "" && !((s2l n).all isTokenChar)
  -- a header the reverse proxy removes from every request (net/http/httputil hopHeaders)
  let hop (n : String) := (fixedHopByHop.map fun k => lowerS (l2s k)).contains n
  hop cip || hop tlsh || hop rid ||
  (tlsh != "" && managedLower.contains tlsh) || (rid != "" && managedLower.contains rid) ||
  (cip != "" && managedLower.contains cip && cip != "x-forwarded-for" && cip != "x-real-ip") ||
  (cip != "" && (cip == tlsh || cip == rid)) || (tlsh != "" && tlsh == rid) ||
  bad cip || bad tlsh || bad rid

def hostClass (host : String) : String :=
  if startsWith host "[" then "host-ipv6" else ""

/-- some Upgrade line names `websocket` as one token of a list (Upgrade is a list header) -/
def upgradeListsWebsocket (w : List (String × Option String)) : Bool :=
  (sent w "Upgrade").any fun v => (splitComma (s2l v)).any fun t => lowerL (trimBlanks t) == websocket

def upgradeClass (w : List (String × Option String)) (tls : Bool) : String :=
  let u := sentFirst w "Upgrade"
  let lines := if (sent w "Upgrade").length > 1 then "+lines" else ""
  if eqFold u "websocket" then
    (if u == "websocket" then (if tls then "wss" else "ws") else (if tls then "wss-mixedcase" else "ws-mixedcase")) ++ lines
  else (if tls then "tls" else "plain") ++
    (if upgradeListsWebsocket w then "/upgrade-list" ++ lines else if u != "" then "/upgrade-other" ++ lines else "")

def forgedCount (w : List (String × Option String)) (cfg : Cfg) : Nat :=
  (w.filter fun e =>
    let n := lowerS e.1
    (managedLower.contains n && n != "upgrade") ||
    (!cfg.clientIPHeader.isEmpty && n == lowerS (l2s cfg.clientIPHeader)) ||
    (!cfg.tlsHeader.isEmpty && n == lowerS (l2s cfg.tlsHeader))).length

/-! ### c08.unit -/

def unitH : Handler := fun inp impl => do
  let wire := parseWire inp
  let cfg := parseCfg inp
  let host := getStrD inp "host"
  let remote := getStrD inp "remote"
  let proto := getStrD inp "proto"
  let strip := getStrD inp "strip"
  let tls : Option TLS := match inp.getObjVal? "tls" with
    | .ok (.obj o) => some { version := getNatD (.obj o) "v", cipher := getNatD (.obj o) "c" }
    | _ => none
  let h0 := ofWire (wireL wire)
  let r : Req := { headers := h0, host := s2l host, remoteAddr := s2l remote, tls := tls, proto := s2l proto }
  let scheme0 := l2s (scheme h0 tls.isSome)
  let port0 := l2s (localPort (s2l host) tls.isSome)
  let (mErr, mHdr, mResp) := match addHeaders cfg (s2l strip) r with
    | none => (true, ([] : SHdrs), ([] : SHdrs))
    | some h => (false, toS h, toS (addResponseHeaders cfg tls.isSome []))
  let model := Json.mkObj [("err", mErr), ("hdr", hdrsJson mHdr), ("resp", hdrsJson mResp),
                           ("scheme0", scheme0), ("port0", port0)]
  let iErr := getBoolD impl "err"
  let iHdr := sortHdrs (parseHdrs impl "hdr")
  let iResp := sortHdrs (parseHdrs impl "resp")
  let isPanic := (impl.getObjVal? "panic").toOption.isSome || (impl.getObjVal? "harness_error").toOption.isSome
  let agree := !isPanic && mErr == iErr && mHdr == iHdr && mResp == iResp &&
               scheme0 == getStrD impl "scheme0" && port0 == getStrD impl "port0"
  let failing :=
    if isPanic then ["panic"] else
    if iErr || degenerateCfg cfg then [] else
      specClauses { wire := wire, cfg := cfg, peer := specPeer remote, tls := tls.isSome, host := host,
                    out := iHdr, viaReverseProxy := false, reqid := none, checkConn := true } ++
      (if stsSpec cfg tls.isSome true (recv iResp "Strict-Transport-Security") then [] else ["sts"])
  let cls := if iErr then "remote-unparsable" else if degenerateCfg cfg then "config-collision" else
    let u := upgradeClass wire tls.isSome
    let hc := hostClass host
    let connManaged := (sent wire "Connection").any fun v => (splitComma (s2l v)).any fun t =>
      let n := lowerS (l2s (trimBlanks t))
      n != "" && (managedLower.contains n || n == lowerS (l2s cfg.clientIPHeader) || n == lowerS (l2s cfg.tlsHeader))
    (if hc != "" then u ++ "/" ++ hc else u) ++ (if connManaged then "/conn-names-managed" else "")
  let tag := match failing with
    | [] => cls
    | f :: _ => f ++ "@" ++ cls
  return ({ model := model, agree := agree, spec := failing.isEmpty,
            nontrivial := !iErr && forgedCount wire cfg > 0, tag := tag } : Verdict).toJson

/-! ### c08.proxy -/

def proxyH : Handler := fun inp impl => do
  let wire := parseWire inp
  let cfg := parseCfg inp
  let host := getStrD inp "host"
  let hostOpt := getStrD inp "hostopt"
  let strip := getStrD inp "strip"
  let conn := (impl.getObjVal? "conn").toOption.getD Json.null
  let remote := getStrD conn "remote"
  let tlsOn := getBoolD conn "tls"
  let tls : Option TLS := if tlsOn then some { version := getNatD conn "tlsv", cipher := getNatD conn "tlsc" } else none
  let target := getStrD impl "target"
  let uuid := "f47ac10b-58cc-0372-8567-0e02b2c3d479"
  let h0 := ofWire (wireL wire)
  let r : Req := { headers := h0, host := s2l host, remoteAddr := s2l remote, tls := tls, proto := s2l (getStrD conn "proto") }
  let peer := specPeer remote
  -- keys compared between model and implementation: everything this property manages
  let keys : List String := (["X-Forwarded-For", "X-Real-Ip", "X-Forwarded-Proto", "X-Forwarded-Port", "X-Forwarded-Host",
      "X-Forwarded-Prefix", "Forwarded"] ++
      [cfg.clientIPHeader, cfg.tlsHeader, cfg.requestID].filterMap fun k =>
        if k.isEmpty then none else some (l2s (canonicalKey k))).eraseDups
  let proj (h : SHdrs) : SHdrs := sortHdrs (h.filter fun e => keys.contains e.1)
  let isPanic := (impl.getObjVal? "panic").toOption.isSome || (impl.getObjVal? "harness_error").toOption.isSome
  let iHdr := sortHdrs (parseHdrs impl "hdr")
  let iSts := (getArrD impl "sts").toList.map fun v => match v with | .str s => s | _ => ""
  let iHost := getStrD impl "uhost"
  let status := getNatD impl "status"
  let reached := getBoolD impl "reached"
  -- the whole of ServeHTTP as modelled: request-id, addHeaders, Host override, response headers, handler choice
  -- (websocket upgrades are tunnelled with the headers as they are; everything else goes through
  -- httputil.ReverseProxy, which drops what the client's Connection header names and then appends the peer to
  -- X-Forwarded-For - assumption, see Model), what the client reads as Strict-Transport-Security
  let out := serveHTTP cfg (s2l uuid) (some { hostOpt := s2l hostOpt, strip := s2l strip, targetHost := s2l target }) r
  let (mHdr, mHost, mSts, mOk) := match out with
    | .forward _ uh sent _ =>
      -- http.Transport / Request.Write send the URL's host when Request.Host is empty
      (proj (toS sent), (if uh.isEmpty then target else l2s uh),
        (clientSTSAfter (if getBoolD inp "interim" then 1 else 0) out).map l2s, true)
    | _ => (([] : SHdrs), "", ([] : List String), false)
  let model := Json.mkObj [("ok", mOk), ("uhost", mHost), ("hdr", hdrsJson mHdr), ("sts", Json.arr (mSts.map Json.str).toArray)]
  let agree := !isPanic && mOk && reached && proj iHdr == mHdr && iHost == mHost && iSts == mSts
  let failing :=
    if isPanic then ["panic"] else
    if !reached then ["upstream-not-reached"] else
    if degenerateCfg cfg then [] else
      specClauses { wire := wire, cfg := cfg, peer := peer, tls := tlsOn, host := host, out := iHdr,
                    viaReverseProxy := true, reqid := some uuid } ++
      (if stsSpec cfg tlsOn (!eqFold (sentFirst wire "Upgrade") "websocket") iSts then [] else ["sts"])
  let u := upgradeClass wire tlsOn
  let cls := if degenerateCfg cfg then "config-collision" else u ++ (if hostClass host != "" then "/host-ipv6" else "") ++
    (if startsWith remote "[" then "/peer-ipv6" else "") ++
    (if hostOpt == "" then "" else if hostOpt == "dst" then "/hostopt-dst" else "/hostopt-literal") ++
    (if getBoolD inp "interim" then "/upstream-1xx" else "")
  -- former finding D12d: the client names a header of this property in its Connection header
  let connNames := (sent wire "Connection").flatMap fun v => (splitComma (s2l v)).map fun t => lowerS (l2s (trimBlanks t))
  let namesManaged := connNames.any fun n => n != "" && (managedLower.contains n ||
      n == lowerS (l2s cfg.clientIPHeader) || n == lowerS (l2s cfg.tlsHeader) || n == lowerS (l2s cfg.requestID))
  let cls := if namesManaged then cls ++ "/conn-names-managed" else cls
  let tag := match failing with
    | [] => cls
    | f :: _ => f ++ "@" ++ cls
  let _ := status
  return ({ model := model, agree := agree, spec := failing.isEmpty,
            nontrivial := forgedCount wire cfg > 0 || hostOpt != "" || tlsOn, tag := tag } : Verdict).toJson

/-! ### c08.serve: the real `ServeHTTP` in-process, recording transport -/

def kindName (k : HandlerKind) : String :=
  match k with
  | .tunnel => "tunnel"
  | .sse => "forward"      -- which flush interval the reverse proxy was built with is not observable in headers
  | .proxy => "forward"

def serveH : Handler := fun inp impl => do
  let wire := parseWire inp
  let cfg := parseCfg inp
  let host := getStrD inp "host"
  let remote := getStrD inp "remote"
  let tls : Option TLS := match inp.getObjVal? "tls" with
    | .ok (.obj o) => some { version := getNatD (.obj o) "v", cipher := getNatD (.obj o) "c" }
    | _ => none
  let target := getStrD impl "target"
  let route : Option Route := match inp.getObjVal? "route" with
    | .ok (.obj o) => some { hostOpt := s2l (getStrD (.obj o) "hostopt"), strip := s2l (getStrD (.obj o) "strip"),
                             targetHost := s2l target, redirectCode := getNatD (.obj o) "rcode",
                             hasRedirectURL := getStrD (.obj o) "rurl" != "" }
    | _ => none
  let hostOpt := match route with | some t => l2s t.hostOpt | none => ""
  let uuid := "f47ac10b-58cc-0372-8567-0e02b2c3d479"
  let h0 := ofWire (wireL wire)
  let r : Req := { headers := h0, host := s2l host, remoteAddr := s2l remote, tls := tls, proto := s2l (getStrD inp "proto") }
  let peer := specPeer remote
  let keys : List String := (["X-Forwarded-For", "X-Real-Ip", "X-Forwarded-Proto", "X-Forwarded-Port", "X-Forwarded-Host",
      "X-Forwarded-Prefix", "Forwarded"] ++
      [cfg.clientIPHeader, cfg.tlsHeader, cfg.requestID].filterMap fun k =>
        if k.isEmpty then none else some (l2s (canonicalKey k))).eraseDups
  let proj (h : SHdrs) : SHdrs := sortHdrs (h.filter fun e => keys.contains e.1)
  let isPanic := (impl.getObjVal? "panic").toOption.isSome || (impl.getObjVal? "harness_error").toOption.isSome
  let iKind := getStrD impl "kind"
  let iHdr := sortHdrs (parseHdrs impl "hdr")
  let iSts := (getArrD impl "sts").toList.map fun v => match v with | .str s => s | _ => ""
  let iHost := getStrD impl "uhost"
  let reached := getBoolD impl "reached"
  let out := serveHTTP cfg (s2l uuid) route r
  -- what fabio put into the response header map (the in-process tunnel ends in fabio's own error response)
  let (mKind, mHost, mHdr, mSts) := match out with
    | .noRoute => ("noroute", "", ([] : SHdrs), ([] : List String))
    | .redirect _ => ("redirect", "", [], [])
    | .badPeer => ("badpeer", "", [], [])
    | .forward k uh sent resp =>
      (kindName k, (if uh.isEmpty then target else l2s uh), proj (toS sent), recv (toS resp) "Strict-Transport-Security")
  let model := Json.mkObj [("kind", mKind), ("uhost", mHost), ("hdr", hdrsJson mHdr), ("sts", Json.arr (mSts.map Json.str).toArray)]
  let agree := !isPanic && mKind == iKind && iHost == mHost && proj iHdr == mHdr && iSts == mSts &&
    (reached == (mKind == "forward"))
  let forwarded := iKind == "forward" || iKind == "tunnel"
  let failing :=
    if isPanic then ["panic"] else
    -- nothing reaches the upstream unless the peer address could be read off RemoteAddr
    (if reached && (splitHostPort (s2l remote)).isNone then ["forwarded-without-peer"] else []) ++
    (if iKind == "other" then ["unexpected-response"] else []) ++
    (if !forwarded || degenerateCfg cfg then [] else
      specClauses { wire := wire, cfg := cfg, peer := peer, tls := tls.isSome, host := host, out := iHdr,
                    viaReverseProxy := true, reqid := some uuid }) ++
    (if stsSpec cfg tls.isSome (iKind == "forward") iSts then [] else ["sts"])
  let u := upgradeClass wire tls.isSome
  let cls :=
    if !forwarded then iKind ++ (if tls.isSome then "/tls" else "") else
    if degenerateCfg cfg then "config-collision" else
      iKind ++ ":" ++ u ++ (if hostClass host != "" then "/host-ipv6" else "") ++
      (if hostOpt == "" then "" else if hostOpt == "dst" then "/hostopt-dst" else "/hostopt-literal") ++
      (if sentFirst wire "Accept" == "text/event-stream" then "/sse" else "")
  let connNames := (sent wire "Connection").flatMap fun v => (splitComma (s2l v)).map fun t => lowerS (l2s (trimBlanks t))
  let namesManaged := connNames.any fun n => n != "" && (managedLower.contains n ||
      n == lowerS (l2s cfg.clientIPHeader) || n == lowerS (l2s cfg.tlsHeader) || n == lowerS (l2s cfg.requestID))
  let cls := if forwarded && namesManaged then cls ++ "/conn-names-managed" else cls
  let tag := match failing with
    | [] => cls
    | f :: _ => f ++ "@" ++ cls
  return ({ model := model, agree := agree, spec := failing.isEmpty,
            nontrivial := forwarded && (forgedCount wire cfg > 0 || hostOpt != ""), tag := tag } : Verdict).toJson

/-! ### c08.main: the real fabio executable, configured like an operator configures it -/

def parseOpts (j : Json) : Opts :=
  (getArrD j "opts").toList.filterMap fun e =>
    let src : Option Source := match getStrD e "src" with
      | "arg" => some .arg
      | "env" => some .envFabio
      | "envbare" => some .envBare
      | "file" => some .file
      | _ => none
    src.map fun s => { src := s, name := s2l (getStrD e "k"), value := s2l (getStrD e "v") }

/-- The specification's own reading of "the configured value of option `name`": command line before
`FABIO_` environment before bare environment before file, the last one written in that source (independent of
`Model.C08.optFind`: works on the JSON list). -/
def specOpt (j : Json) (name : String) : Option String :=
  let all := (getArrD j "opts").toList
  let fromSrc (src : String) : Option String :=
    ((all.filter fun e => getStrD e "src" == src && getStrD e "k" == name).map fun e => getStrD e "v").getLast?
  match fromSrc "arg" with
  | some v => some v
  | none => match fromSrc "env" with
    | some v => some v
    | none => match fromSrc "envbare" with
      | some v => some v
      | none => fromSrc "file"

def isUUIDShaped (s : String) : Bool :=
  let l := s2l s
  l.length == 36 && l.all fun c => c == '-' || c.isDigit || ('a' ≤ c && c ≤ 'f')

def mainH : Handler := fun inp impl => do
  let wire := parseWire inp
  let opts := parseOpts inp
  let host := getStrD inp "host"
  let hostOpt := getStrD inp "hostopt"
  let strip := getStrD inp "strip"
  let listener : Listener := match getStrD inp "listener" with
    | "https" => .https
    | "https+pxy" => .https
    | "https+tcp+sni" => .httpsTcpSni
    | _ => .http
  let conn := (impl.getObjVal? "conn").toOption.getD Json.null
  let remote := getStrD conn "remote"
  let st : TLS := { version := getNatD conn "tlsv", cipher := getNatD conn "tlsc" }
  let target := getStrD impl "target"
  let started := getBoolD impl "started"
  let isPanic := (impl.getObjVal? "panic").toOption.isSome || (impl.getObjVal? "harness_error").toOption.isSome ||
    (impl.getObjVal? "hang").toOption.isSome
  let iHdr := sortHdrs (parseHdrs impl "hdr")
  let iSts := (getArrD impl "sts").toList.map fun v => match v with | .str s => s | _ => ""
  let iHost := getStrD impl "uhost"
  let reached := getBoolD impl "reached"
  -- the specification's configuration: read off the options by `specOpt`
  let sName (n : String) : String := (specOpt inp n).getD ""
  let ageStr := specOpt inp "proxy.header.sts.maxage"
  let ageKnown : Option Int := match ageStr with
    | none => some 0
    | some a => if a != "" && (s2l a).all Char.isDigit && !(startsWith a "0" && a.length > 1) then some (Int.ofNat a.toNat!) else none
  let sCfg : Cfg := { clientIPHeader := s2l (sName "proxy.header.clientip"), tlsHeader := s2l (sName "proxy.header.tls"),
                      tlsHeaderValue := s2l (sName "proxy.header.tls.value"), requestID := s2l (sName "proxy.header.requestid"),
                      stsMaxAge := ageKnown.getD 1 }
  -- the request id fabio generated: whatever single UUID-shaped value the upstream got that the client did not send
  let rid := sName "proxy.header.requestid"
  let uuid := match (if rid == "" then [] else recv iHdr rid) with
    | [v] => if isUUIDShaped v && !(sent wire rid).contains v then v else "<generated-uuid>"
    | _ => "<generated-uuid>"
  let h0 := ofWire (wireL wire)
  let r : Req := { headers := h0, host := s2l host, remoteAddr := s2l remote, tls := none, proto := s2l (getStrD conn "proto") }
  let out := mainServe (s2l (getStrD impl "deflip")) opts listener st (s2l uuid)
    (some { hostOpt := s2l hostOpt, strip := s2l strip, targetHost := s2l target }) r
  let mcfg := (loadCfg (s2l (getStrD impl "deflip")) opts).getD {}
  let keys : List String := (["X-Forwarded-For", "X-Real-Ip", "X-Forwarded-Proto", "X-Forwarded-Port", "X-Forwarded-Host",
      "X-Forwarded-Prefix", "Forwarded"] ++
      [mcfg.clientIPHeader, mcfg.tlsHeader, mcfg.requestID, sCfg.clientIPHeader, sCfg.tlsHeader, sCfg.requestID].filterMap fun k =>
        if k.isEmpty then none else some (l2s (canonicalKey k))).eraseDups
  let proj (h : SHdrs) : SHdrs := sortHdrs (h.filter fun e => keys.contains e.1)
  let (mStarted, mHdr, mHost, mSts, mOk) := match out with
    | none => (false, ([] : SHdrs), "", ([] : List String), false)
    | some (.forward k uh sent resp) =>
      (true, proj (toS sent), (if uh.isEmpty then target else l2s uh),
        (clientSTSAfter (if getBoolD inp "interim" then 1 else 0) (.forward k uh sent resp)).map l2s, true)
    | some _ => (true, [], "", [], false)
  let model := Json.mkObj [("started", mStarted), ("ok", mOk), ("uhost", mHost), ("hdr", hdrsJson mHdr),
                           ("sts", Json.arr (mSts.map Json.str).toArray)]
  let agree := !isPanic && mStarted == started &&
    (!started || (mOk && reached && proj iHdr == mHdr && iHost == mHost && iSts == mSts))
  let tlsOn := listener.tls
  let ws := eqFold (sentFirst wire "Upgrade") "websocket"
  -- an unparsable command-line value: fabio must refuse to run rather than run with something else
  let argBad := (getArrD inp "opts").toList.any fun e => getStrD e "src" == "arg" &&
    ((getStrD e "k" == "proxy.header.sts.maxage" && (parseInt64 (s2l (getStrD e "v")) matches .syntax | .range _)) ||
     ((getStrD e "k" == "proxy.header.sts.subdomains" || getStrD e "k" == "proxy.header.sts.preload") &&
        (parseBool (s2l (getStrD e "v"))).isNone))
  let failing :=
    if isPanic then ["panic"] else
    if !started then (if argBad then [] else ["refused-to-start"]) else
    if !reached then ["upstream-not-reached"] else
    (if degenerateCfg sCfg then [] else
      specClauses { wire := wire, cfg := sCfg, peer := specPeer remote, tls := tlsOn, host := host, out := iHdr,
                    viaReverseProxy := true, reqid := some uuid }) ++
    (if !tlsOn then (if iSts.isEmpty then [] else ["sts"])
     else match ageKnown with
       | some _ => if stsSpec sCfg tlsOn (!ws) iSts then [] else ["sts"]
       | none => [])
  let srcs := ((getArrD inp "opts").toList.map fun e => getStrD e "src").eraseDups
  let cls := if !started then "refused" else
    (if degenerateCfg sCfg then "config-collision" else upgradeClass wire tlsOn ++
      (if hostOpt == "" then "" else if hostOpt == "dst" then "/hostopt-dst" else "/hostopt-literal")) ++
    (if startsWith remote "[" then "/peer-ipv6" else "") ++
    (if getBoolD inp "interim" then "/upstream-1xx" else "") ++
    (if getStrD inp "pxy" != "" then "/proxy-protocol" else
      if getStrD inp "listener" == "http+pxy" || getStrD inp "listener" == "https+pxy" then "/pxy-listener-no-header" else "") ++
    (if getBoolD inp "h2" then "/h2" else "") ++ (if listener == .httpsTcpSni then "/sni-listener" else "") ++
    (if opts.isEmpty then "/defaults" else
      (if srcs.contains "arg" then "/arg" else "") ++ (if srcs.contains "env" || srcs.contains "envbare" then "/env" else "") ++
      (if srcs.contains "file" then "/file" else ""))
  let tag := match failing with
    | [] => cls
    | f :: _ => f ++ "@" ++ cls
  return ({ model := model, agree := agree, spec := failing.isEmpty,
            nontrivial := started && (forgedCount wire sCfg > 0 || hostOpt != "" || tlsOn), tag := tag } : Verdict).toJson

def streams : List (String × Handler) :=
  [("c08.unit", unitH), ("c08.proxy", proxyH), ("c08.hopbyhop", proxyH), ("c08.serve", serveH), ("c08.main", mainH)]
end Fabio.Driver.C08
