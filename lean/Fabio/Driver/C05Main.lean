import Fabio.Driver.C05
def main : IO Unit := Fabio.Driver.run Fabio.Driver.C05.streams
