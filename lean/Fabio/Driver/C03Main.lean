import Fabio.Driver.C03
def main : IO Unit := Fabio.Driver.run Fabio.Driver.C03.streams
