import Fabio.Driver.C08
def main : IO Unit := Fabio.Driver.run Fabio.Driver.C08.streams
