import Fabio.Driver.C12
def main : IO Unit := Fabio.Driver.run Fabio.Driver.C12.streams
