import Fabio.Driver.C11
def main : IO Unit := Fabio.Driver.run Fabio.Driver.C11.streams
