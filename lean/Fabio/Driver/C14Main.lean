import Fabio.Driver.C14
def main : IO Unit := Fabio.Driver.run Fabio.Driver.C14.streams
