import Fabio.Driver.C19
def main : IO Unit := Fabio.Driver.run Fabio.Driver.C19.streams
