import Fabio.Driver.Proto
import Fabio.Driver.RouteJson
import Fabio.Model.Route
import Fabio.Model.Parse
import Fabio.Model.C14
import Fabio.Model.C14Watch
/-!
Driver handlers for C14. `agree` compares the model (`Model/C14.lean` on top of `Model/Parse.lean` and
`Model/Route.lean`) with the real `routecmd.build` / `parseURLPrefixTag` / `makeConfig` + `NewTable`; `spec`
evaluates the property on the implementation's own output:

* `c14.build`: every emitted command, fed to the **real** `route.Parse` / `route.NewTable` on the Go side, came
  back as exactly one `route add` that a table accepts; the definitions are, in order, those the registration
  means (service, source, destination, weight, tags, options); no routing tag that fits the grammar
  (`expressibleB`) lost its command.
* `c14.poison`: the real table built from the joined text of all services holds every route of every
  registration that fits the grammar, and nothing that no registration asked for.
-/
namespace Fabio.Driver.C14
open Lean Fabio.Driver Fabio.Driver.RouteJson Fabio.Model.Route Fabio.Model.Parse Fabio.Model.C14

def objOr (j : Json) (k : String) : Json := (j.getObjVal? k).toOption.getD (Json.mkObj [])

def oracleOf (inp impl : Json) : Json :=
  match impl.getObjVal? "oracle" with
  | .ok o => o
  | .error _ => objOr inp "oracle"

def pfOf (o : Json) : ParseFloat :=
  let p := objOr o "pf"
  fun s => match p.getObjVal? (String.ofList s) with
    | .ok (.str "nan") => some .nan
    | .ok (.str "inf") => some .posInf
    | .ok (.str "-inf") => some .negInf
    | .ok (.str r) => (parseRat r).map .fin
    | _ => none

def regOf (j : Json) : Except String Reg := do
  let tags ← strList ((j.getObjVal? "tags").toOption.getD .null)
  let port := (j.getObjValAs? Int "port").toOption.getD 0
  return { name := getStrD j "name", svcAddr := getStrD j "addr", nodeAddr := getStrD j "node", port, tags }

def cfgOf (inp : Json) : Cfg :=
  { pfx := getStrD inp "prefix", env := [("DC".toList, getStrD inp "dc")] }

def errName : Err → String
  | .invalidPrefix => "invalidPrefix" | .invalidTarget => "invalidTarget" | .badURL => "badURL"
  | .badGlob => "badGlob" | .noMatch => "noMatch" | .invalidCommand => "invalidCommand"

def synName : SynErr → String
  | .routeExpected => "routeExpected" | .addInvalid => "addInvalid" | .delInvalid => "delInvalid"
  | .weightInvalid => "weightInvalid" | .weightValue => "weightValue"

def parseErrJson : ParseErr → Json
  | .syn l e => Json.mkObj [("kind", "syn"), ("line", l), ("what", synName e)]
  | .tooLong l => Json.mkObj [("kind", "tooLong"), ("line", l)]
  | .nonFinite l _ => Json.mkObj [("kind", "nonFinite"), ("line", l)]

def loadJson : Except LoadErr Table → Json
  | .error (.parse e) => Json.mkObj [("error", parseErrJson e)]
  | .error (.table e) => Json.mkObj [("error", Json.mkObj [("kind", "table"), ("what", errName e)])]
  | .ok t => Json.mkObj [("table", tableJson t)]

def strArr (l : List Str) : Json := Json.arr (l.map str).toArray

/-! ### decoding the implementation's observables -/

def targetOfJson (j : Json) : Except String Target := do
  let tags ← strList (objOr j "tags")
  let opts ← pairList ((j.getObjVal? "opts").toOption.getD .null)
  let fixed ← getRat j "fixed"
  let weight ← getRat j "weight"
  return { service := getStrD j "service", tags, opts, url := getStrD j "url", fixedWeight := fixed, weight }

def tableOfJson (j : Json) : Except String Table := do
  let hs ← j.getArr?
  hs.toList.mapM (fun h => do
    let rs ← h.getObjValAs? (Array Json) "routes"
    let rs ← rs.toList.mapM (fun r => do
      let ts ← r.getObjValAs? (Array Json) "targets"
      let ts ← ts.toList.mapM targetOfJson
      return ({ host := getStrD r "host", path := getStrD r "path", targets := ts } : Route))
    return (getStrD h "host", rs))

def errWhat (e : Json) : String :=
  let kind := (e.getObjValAs? String "kind").toOption.getD "?"
  match e.getObjValAs? String "what" with
  | .ok w => w
  | .error _ => kind

/-- what the real parser and a fresh table made of one emitted command -/
inductive CmdRead where
  | one (d : RouteDef)
  | many (n : Nat)
  | parseErr (what : String)
  | tableErr (what : String)
  | panic
  | weird (why : String)

def cmdRead (p : Json) : CmdRead :=
  let tab := objOr p "table"
  if (tab.getObjVal? "panic").toOption.isSome then .panic else
  match p.getObjVal? "error" with
  | .ok e => .parseErr (errWhat e)
  | .error _ =>
    match p.getObjValAs? (Array Json) "defs" with
    | .error _ => .weird "no defs"
    | .ok ds =>
      if ds.size != 1 then .many ds.size else
      match tab.getObjVal? "error" with
      | .ok e => .tableErr (errWhat e)
      | .error _ =>
        match routeDef ds[0]! with
        | .ok d => if d.cmd == .add then .one d else .weird "not a route add"
        | .error e => .weird e

/-! ### c14.build -/

/-- Walk the intents in order against the definitions the real parser read from the emitted commands; `none`
when a definition is not the one meant by the next intents, else the intents that got no command. -/
def matchEmitted (pf : ParseFloat) : List Intent → List RouteDef → Option (List Intent)
  | is, [] => some is
  | [], _ :: _ => none
  | i :: is, d :: ds =>
    if wantDef pf i == some d then matchEmitted pf is ds
    else (matchEmitted pf is (d :: ds)).map (i :: ·)

/-- the first field in which a definition differs from what an intent means -/
def diffField (pf : ParseFloat) (i : Intent) (d : RouteDef) : String :=
  if d.service != i.service then "service"
  else if d.src != i.src then "src"
  else if d.dst != i.dst then "dst"
  else if d.tags != i.tags then "tags"
  else if d.opts != optsOfPairs (i.opts.map splitKV) then "opts"
  else match parseWeight pf i.weight with
    | .ok w => if d.weight != w then "weight" else "none"
    | .error _ => "weight"

def ptagJson (tag : Str) (r : Option (Str × Str)) : Json :=
  match r with
  | some (route, opts) => Json.mkObj [("tag", str tag), ("route", str route), ("opts", str opts), ("ok", true)]
  | none => Json.mkObj [("tag", str tag), ("route", str []), ("opts", str []), ("ok", false)]

def buildH : Handler := fun inp impl => do
  let reg ← regOf (objOr inp "reg")
  let c := cfgOf inp
  let o := oracleOf inp impl
  let env := envOf o
  let pf := pfOf o
  let is := intents c reg
  let cmds := build env pf c reg
  let ptags := reg.tags.map (fun t => ptagJson t (parseTag c.pfx c.env t))
  let m := Json.mkObj [("cmds", strArr cmds), ("ptags", Json.arr ptags.toArray)]
  let implCmds ← strList ((impl.getObjVal? "cmds").toOption.getD .null)
  let okCmds := implCmds == cmds
  let okTags := (impl.getObjVal? "ptags").toOption == some (Json.arr ptags.toArray)
  -- the property, on the implementation's own output
  let parsed := ((impl.getObjValAs? (Array Json) "parsed").toOption.getD #[]).toList.map cmdRead
  let firstBad : Option String := parsed.findSome? (fun r => match r with
    | .one _ => none
    | .many n => some s!"cmd-injects:{n}-defs"
    | .parseErr w => some s!"cmd-rejected:{w}"
    | .tableErr w => some s!"cmd-table-rejects:{w}"
    | .panic => some "cmd-panics"
    | .weird w => some s!"cmd-weird:{w}")
  let defs := parsed.filterMap (fun r => match r with | .one d => some d | _ => none)
  let (spec, tag) : Bool × String :=
    match firstBad with
    | some t => (false, t)
    | none =>
      if parsed.length != implCmds.length then (false, "cmd-without-oracle") else
      match matchEmitted pf is defs with
      | none =>
        let f := if is.length == defs.length then
            ((is.zip defs).findSome? (fun (i, d) => let f := diffField pf i d; if f == "none" then none else some f)).getD "?"
          else "count"
        (false, s!"denotes-other:{f}")
      | some dropped =>
        if dropped.any (expressibleB env pf) then (false, "expressible-dropped")
        else (true, if is.isEmpty then "no-route-tag" else if dropped.isEmpty then "emit-all"
                    else if defs.isEmpty then "drop-all" else "emit+drop")
  let tag := if !okTags then tag ++ "/ptag-differs" else if !okCmds then tag ++ "/cmds-differ" else tag
  let nontrivial := !is.isEmpty && (is.any (fun i => !i.tags.isEmpty || !i.opts.isEmpty || !i.weight.isEmpty) || is.length != defs.length)
  return ({ model := m, agree := okCmds && okTags, spec, nontrivial, tag } : Verdict).toJson

/-! ### c14.poison -/

def clamp0 (r : Rat) : Rat := if r < 0 then 0 else r

def keyOfSrc (src : Str) : Str × Str := (lowerL (hostpath src).1, (hostpath src).2)

/-- the table holds the target the definition describes (de-duplication ignores options) -/
def present (env : Env) (t : Table) (d : RouteDef) : Bool :=
  match env.normURL d.dst with
  | none => false
  | some url =>
    let k := keyOfSrc d.src
    match t.route k.1 k.2 with
    | none => false
    | some r => r.targets.any (fun x => x.service == d.service && x.url == url && x.tags == d.tags &&
        ratClose x.fixedWeight (clamp0 d.weight))

/-- a target of the table is what some definition asked for -/
def asked (env : Env) (defs : List RouteDef) (host path : Str) (x : Target) : Bool :=
  defs.any (fun d => keyOfSrc d.src == (host, path) && x.service == d.service && env.normURL d.dst == some x.url &&
    x.tags == d.tags && Fabio.Model.Parse.sortOpts x.opts == d.opts && ratClose x.fixedWeight (clamp0 d.weight))

def poisonH : Handler := fun inp impl => do
  let regsJ := (inp.getObjValAs? (Array Json) "regs").toOption.getD #[]
  let regs ← regsJ.toList.mapM regOf
  let c := cfgOf inp
  let o := oracleOf inp impl
  let env := envOf o
  let pf := pfOf o
  let text := config env pf c regs
  let res := loadTable env pf text
  let m := (loadJson res).setObjVal! "text" (str text)
  let implText := getStrD impl "text"
  let okText := implText == text
  let okTable := closeJson (loadJson res) impl
  -- the property
  let allIntents := (named regs).flatMap (intents c)
  let wanted := (allIntents.filter (expressibleB env pf)).filterMap (wantDef pf)
  let allowed := allIntents.filterMap (wantDef pf)
  let hostile := allIntents.any (fun i => !expressibleB env pf i)
  let (spec, tag) : Bool × String :=
    if (impl.getObjVal? "panic").toOption.isSome then (false, "update-panics") else
    if (impl.getObjVal? "blocked").toOption.isSome then (false, "update-blocked:makeConfig") else
    match impl.getObjVal? "error" with
    | .ok e => (false, s!"update-lost:{errWhat e}")
    | .error _ =>
      match (impl.getObjVal? "table").toOption.map tableOfJson with
      | some (.ok t) =>
        if !wanted.all (present env t) then (false, "route-missing")
        else if !t.all (fun kv => kv.2.all (fun r => r.targets.all (asked env allowed kv.1 r.path))) then (false, "injected-route")
        else (true, if hostile then "table+inexpressible-dropped" else if t.isEmpty then "empty" else "table")
      | _ => (false, "no-table")
  let tag := if !okText then tag ++ "/text-differs" else if !okTable then tag ++ "/table-differs" else tag
  return ({ model := m, agree := okText && okTable, spec, nontrivial := wanted.length ≥ 1 && (hostile || wanted.length ≥ 2), tag } : Verdict).toJson

/-! ### c14.history -/

def maxSlots : Nat := 8

def evOf (j : Json) : Except String (Option Ev) := do
  let slot := (j.getObjValAs? Int "slot").toOption.getD (-1)
  if slot < 0 || slot ≥ (maxSlots : Int) then return none
  let k := slot.toNat
  match (j.getObjValAs? String "op").toOption.getD "" with
  | "register" =>
    match j.getObjVal? "reg" with
    | .ok (.obj o) => do let r ← regOf (.obj o); return some (.register k r)
    | _ => return none
  | "deregister" => return some (.deregister k)
  | "fail" => return some (.fail k)
  | "pass" => return some (.pass k)
  | _ => return none

/-- remove one occurrence -/
def removeOne (d : RouteDef) : List RouteDef → Option (List RouteDef)
  | [] => none
  | x :: xs => if x == d then some xs else (removeOne d xs).map (x :: ·)

def removeAll : List RouteDef → List RouteDef → Option (List RouteDef)
  | [], l => some l
  | d :: ds, l => (removeOne d l).bind (removeAll ds)

/-- the definitions read from the text are, as a multiset, between what the current registrations must have
(`wanted`) and what they may have (`allowed`) -/
def stepVerdict (env : Env) (pf : ParseFloat) (c : Cfg) (regs : List Reg) (step : Json) : Bool × String :=
  let allIntents := (named regs).flatMap (intents c)
  let wanted := (allIntents.filter (expressibleB env pf)).filterMap (wantDef pf)
  let optional := (allIntents.filter (fun i => !expressibleB env pf i)).filterMap (wantDef pf)
  if (step.getObjVal? "blocked").toOption.isSome then (false, "update-blocked:makeConfig") else
  match step.getObjVal? "error" with
  | .ok e => (false, s!"update-lost:{errWhat e}")
  | .error _ =>
    let parsed : Option (List RouteDef) :=
      match step.getObjValAs? (Array Json) "defs" with
      | .ok a => (a.toList.mapM routeDef).toOption
      | .error _ => none
    match parsed with
    | some defs =>
      match removeAll wanted defs with
      | none => (false, "current-registration-not-denoted")
      | some extra =>
        match removeAll extra optional with
        | none => (false, "stale-or-foreign-command")
        | some _ => (true, "ok")
    | none => (false, "no-defs")

def historyH : Handler := fun inp impl => do
  let c := cfgOf inp
  let o := oracleOf inp impl
  let env := envOf o
  let pf := pfOf o
  let stepsJ := (inp.getObjValAs? (Array Json) "steps").toOption.getD #[]
  let steps ← stepsJ.toList.mapM (fun st => do
    let evs ← (st.getArr?.toOption.getD #[]).toList.mapM evOf
    return evs.filterMap id)
  let cats := catalogs [] steps
  let texts := cats.map (fun cat => config env pf c (current cat))
  let m := Json.mkObj [("steps", Json.arr (texts.map (fun t => Json.mkObj [("text", str t)])).toArray)]
  let implSteps := ((impl.getObjValAs? (Array Json) "steps").toOption.getD #[]).toList
  let implTexts := implSteps.map (fun st => getStrD st "text")
  let agree := implTexts == texts
  -- the property, step by step, on what fabio's own parser read from the implementation's text
  let verdicts := (cats.zip implSteps).map (fun (cat, st) => stepVerdict env pf c (current cat) st)
  let bad := verdicts.find? (fun v => !v.1)
  let spec := bad.isNone && implSteps.length == cats.length
  -- does the history contain a re-registration of a live instance that changes what must be emitted?
  let rereg := (texts.zip (texts.drop 1)).any (fun (a, b) => a != b) &&
    steps.any (fun evs => evs.any (fun e => match e with | .register _ _ => true | _ => false))
  let tag := (match bad with
    | some v => v.2
    | none => if implSteps.length != cats.length then "step-count" else if rereg then "history" else "static") ++
    (if agree then "" else "/text-differs")
  return ({ model := m, agree, spec, nontrivial := rereg, tag } : Verdict).toJson

/-! ### c14.watch -/

/-- the `register` option of a definition -/
def regName (d : RouteDef) : Option Str := d.opts.lookup Fabio.Model.C05Glue.kRegister

/-- One step of `c14.watch`, judged on the implementation's own table and `Register` calls: the active table holds
the route of every current routing tag that fits the grammar and nothing that neither a current registration nor
the operator's manual text asked for; the names last handed to `Register` are those the current registrations
(and the manual text) ask for. -/
def watchVerdict (env : Env) (pf : ParseFloat) (c : Cfg) (regs : List Reg) (manDefs : List RouteDef) (manOK : Bool)
    (step : Json) : Bool × String :=
  let allIntents := (named regs).flatMap (intents c)
  let wanted := (allIntents.filter (expressibleB env pf)).filterMap (wantDef pf)
  let allowed := allIntents.filterMap (wantDef pf) ++ manDefs
  if (step.getObjVal? "blocked").toOption.isSome then (false, "update-blocked:makeConfig") else
  if (step.getObjVal? "crash").toOption.isSome then (false, "update-crashes") else
  if !manOK then (true, "man-rejected") else
  if manDefs.any (fun d => d.cmd != .add) then (true, "man-nonadd") else
  match (step.getObjVal? "table").toOption.map tableOfJson with
  | some (.ok t) =>
    if !wanted.all (present env t) then (false, "update-lost:route-missing")
    else if !t.all (fun kv => kv.2.all (fun r => r.targets.all (asked env allowed kv.1 r.path))) then
      (false, "update-lost:stale-or-foreign-route")
    else
      let calls : List (List Str) :=
        (((step.getObjValAs? (Array Json) "registered").toOption.getD #[]).toList.map
          (fun j => (strList j).toOption.getD []))
      if (step.getObjValAs? Bool "started").toOption != some true then (false, "update-lost:not-serving") else
      match calls.getLast? with
      | none => (false, "register-not-called")
      | some names =>
        if !(wanted.filterMap regName).all (fun n => names.contains n) then (false, "alias-missing")
        else if !names.all (fun n => (allowed.filterMap regName).contains n) then (false, "alias-foreign")
        else (true, "ok")
  | _ => (false, "no-table")

def optStrOf (j : Json) : Option Str :=
  match j with
  | .str s => some s.toList
  | _ => none

def watchH : Handler := fun inp impl => do
  let c := cfgOf inp
  let o := oracleOf inp impl
  let env := envOf o
  let pf := pfOf o
  let stepsJ := (inp.getObjValAs? (Array Json) "steps").toOption.getD #[]
  let steps ← stepsJ.toList.mapM (fun st => do
    let evs ← (st.getArr?.toOption.getD #[]).toList.mapM evOf
    return evs.filterMap id)
  let mans : List (Option Str) := ((inp.getObjValAs? (Array Json) "man").toOption.getD #[]).toList.map optStrOf
  let cats := catalogs [] steps
  let texts := cats.map (fun cat => config env pf c (current cat))
  -- every update is delivered twice (the second delivery returns when the loop has finished with the first)
  let evsOf (k : Nat) (text : Str) : List Fabio.Model.C14Watch.WEv :=
    (match (mans.getD k none) with
     | some m => [.man m, .man m]
     | none => []) ++ [.svc text, .svc text]
  let (_, states) := (texts.zipIdx).foldl (fun (acc : Fabio.Model.C14Watch.WState × List Fabio.Model.C14Watch.WState) (tk : Str × Nat) =>
    let s' := Fabio.Model.C14Watch.run env pf acc.1 (evsOf tk.2 tk.1)
    (s', acc.2 ++ [s'])) (Fabio.Model.C14Watch.init, [])
  let mSteps := (texts.zip states).map (fun (t, s) => Json.mkObj [("text", str t), ("table", tableJson s.table),
    ("registered", Json.arr ((Fabio.Model.C14Watch.collapse s.registered).map strArr).toArray),
    ("started", s.started)])
  let m := Json.mkObj [("steps", Json.arr mSteps.toArray)]
  let implSteps := ((impl.getObjValAs? (Array Json) "steps").toOption.getD #[]).toList
  let agreeStep (ms is : Json) : Bool :=
    getStrD is "text" == getStrD ms "text" && closeJson (objOr ms "table" |> fun t => Json.mkObj [("table", t)]) is &&
    (is.getObjVal? "registered").toOption == (ms.getObjVal? "registered").toOption &&
    (is.getObjVal? "started").toOption == (ms.getObjVal? "started").toOption
  let agree := implSteps.length == mSteps.length && (mSteps.zip implSteps).all (fun (a, b) => agreeStep a b)
  -- the property, step by step; the manual text in force at a step is the last one delivered
  let manAt (k : Nat) : Option Json := ((List.range (k+1)).reverse.findSome? (fun j =>
    match mans.getD j none with
    | some _ => implSteps[j]?
    | none => none))
  let verdicts := (cats.zipIdx.zip implSteps).map (fun ((cat, k), st) =>
    let (manDefs, manOK) : List RouteDef × Bool := match manAt k with
      | some ms =>
        (match ms.getObjValAs? (Array Json) "man_defs" with
         | .ok a => ((a.toList.mapM routeDef).toOption.getD [], (ms.getObjValAs? Bool "man_ok").toOption.getD false)
         | .error _ => ([], (ms.getObjValAs? Bool "man_ok").toOption.getD false))
      | none => ([], true)
    watchVerdict env pf c (current cat) manDefs manOK st)
  let bad := verdicts.find? (fun v => !v.1)
  let spec := bad.isNone && implSteps.length == cats.length
  let changes := (texts.zip (texts.drop 1)).any (fun (a, b) => a != b)
  let someRoute := cats.any (fun cat => ((named (current cat)).flatMap (intents c)).any (expressibleB env pf))
  -- a property of the input, not of the outcome: the manual text is outside the scope of the spec
  let outside := verdicts.any (fun v => v.2 == "man-rejected" || v.2 == "man-nonadd")
  let tag := (match bad with
    | some v => v.2
    | none => if implSteps.length != cats.length then "step-count"
              else if outside then (verdicts.find? (fun v => v.2 != "ok")).map (·.2) |>.getD "man-outside"
              else if mans.any (·.isSome) then "history+manual" else if changes then "history" else "static") ++
    (if agree then "" else "/watch-differs")
  return ({ model := m, agree, spec, nontrivial := changes && someRoute && !outside, tag } : Verdict).toJson

/-! ### c14.expand, c14.quote -/

def expandH : Handler := fun inp impl => do
  let s := getStrD inp "s"
  let c := cfgOf inp
  let ex := expand (envLookup c.env) s
  let tg := ptagJson (c.pfx ++ s) (parseTag c.pfx c.env (c.pfx ++ s))
  let m := Json.mkObj [("expand", str ex), ("tag", tg)]
  let okE := getStrD impl "expand" == ex
  let okT := (impl.getObjVal? "tag").toOption == some tg
  let tag := (if s.contains '$' then (if s.contains '{' then "braced" else "plain") else "no-dollar") ++
    (if !okE then "/expand-differs" else if !okT then "/tag-differs" else "")
  return ({ model := m, agree := okE && okT, spec := true, nontrivial := s.contains '$', tag } : Verdict).toJson

def hexVal (c : Char) : Nat :=
  if '0' ≤ c && c ≤ '9' then c.toNat - 48 else if 'a' ≤ c && c ≤ 'f' then c.toNat - 87 else if 'A' ≤ c && c ≤ 'F' then c.toNat - 55 else 0

def unhex : List Char → List UInt8
  | a :: b :: rest => UInt8.ofNat (hexVal a * 16 + hexVal b) :: unhex rest
  | _ => []

def quoteH : Handler := fun inp impl => do
  let bs := unhex (getStrD inp "hex")
  let pr := objOr impl "print"
  let printHi : Char → Bool := fun c => match pr.getObjVal? (toString c.toNat) with
    | .ok (.bool b) => b
    | _ => false
  let q := quoteBytes printHi bs
  let implQ := getStrD impl "quoted"
  let valid := (impl.getObjValAs? Bool "valid").toOption.getD false
  -- on valid UTF-8 the character-level model (the one `renderQ` uses) must agree too
  let chars : Option Str := (String.fromUTF8? (ByteArray.mk bs.toArray)).map (·.toList)
  let okChars := !valid || (match chars with
    | some s => quote printHi s == implQ
    | none => false)
  let okB := q == implQ
  let escapes := match chars with
    | some s => implQ != ['"'] ++ s ++ ['"']
    | none => true
  let tag := (if !valid then "invalid-utf8" else if escapes then "escapes" else "plain") ++
    (if !okB then "/bytes-differ" else if !okChars then "/chars-differ" else "")
  return ({ model := str q, agree := okB && okChars, spec := true, nontrivial := escapes, tag } : Verdict).toJson

def streams : List (String × Handler) :=
  [("c14.build", buildH), ("c14.poison", poisonH), ("c14.history", historyH), ("c14.watch", watchH), ("c14.expand", expandH), ("c14.quote", quoteH)]
end Fabio.Driver.C14
