import Fabio.Driver.Proto
import Fabio.Driver.RouteJson
import Fabio.Model.Route
import Fabio.Model.Parse
import Fabio.Model.C02
import Fabio.Model.C02Loop
import Fabio.Model.C02Buf
/-!
Driver handlers for C02.

* `c02.history` — `agree`: the active table after every event equals the Lean step machine `WB.trace` whose
  `build` is the model of `route.NewTable` (`Parse.loadTable`, oracles for ParseFloat/url/glob shipped on the
  implementation line). `spec`: the history sentence of the property evaluated on the implementation's OWN
  observables only — with `build_i` = what the real `NewTable` made of the i-th concatenated text (computed in
  the harness process) the active table after event i must be the table of the last `build_j`, `j ≤ i`, that is a
  table (the empty table if none); no crash of the child, no panic of `NewTable`.
  Round 3: an event may carry `amp` (an over-long line inserted, comment lines appended: `ampText` mirrors the
  harness), the session has a routes format (`fmt`) and may start through the real static/file backend (`via`: the
  first event is then a service update whatever it says — `Source.events`). `spec` additionally demands
  Round 4: every step carries `served` — the answers of the REAL lookup closures of `main.go` (`newHTTPProxy(…).Lookup`,
  `lookupHostFn`, `lookupHostMatcher`) in the child to probe requests, judged in the harness against the table that must
  be active (class `request-served-from-other-table`): the property as a request sees it. `spec` additionally demands
  COMPLETENESS: whenever the real `NewTable` accepted a text, the number of definitions the real `Parse` made of it
  equals `commandLines text` counted here (class `accepted-text-incomplete`). `agree` additionally compares the
  `Register` calls of the loop (consecutive duplicates collapsed) with `registeredTrace` (model of `ParseAliases`).
* `c02.custom` — same for the custom backend: `agree` against `customTrace` (repaired `newTableCustom`,
  `buildDefs` = `Route.newTable` on the definitions Go's encoding/json decoded), `spec`: active = table of the
  last document that decoded into a fresh variable and built.
* `c02.nopanic` — `spec`: outcome ≠ panic and no panic while the built table was rendered and looked up;
  `agree`: outcome class (and, for ASCII texts, the host/path/target skeleton) equals the total model's.
* `c02.buffer` (round 4) — what the real `route.NewTable` leaves in the `bytes.Buffer` it was handed. `agree`: the
  number of unread bytes equals `C02Buf.leftAfterParse` (the model of `bufio.Scanner.Scan` on a `bytes.Buffer`, stopped
  at the first line the line parser rejects). `spec`, on the implementation's own output: no panic, never more left than
  was there, an ACCEPTED text was read to its end, and the loop's protocol on the same buffer (Reset, write, build) gives
  the table of the new text alone.
* `c02.swap` — `spec`: no mixed answer, no table out of publication order, none outside the load window, no
  unpublished or nil table.
-/
namespace Fabio.Driver.C02
open Lean Fabio.Driver Fabio.Driver.RouteJson Fabio.Model.Route Fabio.Model.Parse Fabio.Model.C02 Fabio.Model.C02Loop

def objOr (j : Json) (k : String) : Json := (j.getObjVal? k).toOption.getD (Json.mkObj [])
def has (j : Json) (k : String) : Bool := (j.getObjVal? k).toOption.isSome
def arrOf (j : Json) (k : String) : List Json :=
  match j.getObjVal? k with
  | .ok (.arr a) => a.toList
  | _ => []
def natOf (j : Json) (k : String) : Nat := (j.getObjValAs? Nat k).toOption.getD 0

def pfOf (o : Json) : ParseFloat :=
  let p := objOr o "pf"
  fun s => match p.getObjVal? (String.ofList s) with
    | .ok (.str "nan") => some .nan
    | .ok (.str "inf") => some .posInf
    | .ok (.str "-inf") => some .negInf
    | .ok (.str r) => (parseRat r).map .fin
    | _ => none

def emptyDump : Json := Json.arr #[]

/-- `route.NewTable` as the model's `build` -/
def buildOf (o : Json) : Text → Option Table :=
  let env := envOf o
  let pf := pfOf o
  fun text => (loadTable env pf text).toOption

/-- the table an implementation-side build outcome denotes (`none` = error or panic) -/
def builtTable (b : Json) : Option Json := (b.getObjVal? "table").toOption

def crashTag (impl : Json) : Option String :=
  match impl.getObjVal? "crash" with
  | .ok c => some (if has c "hang" then "update-loop-hang" else if has c "panic" then "update-loop-panic" else "child-bad-reply")
  | .error _ => none

/-! ### c02.history -/

def boolOf (j : Json) (k : String) : Bool := (j.getObjValAs? Bool k).toOption.getD false

def padLine : Str := "# pad pad pad pad pad pad pad pad pad pad pad pad pad pad pad pad".toList

/-- the harness's `amp.expandLines` -/
def ampText (s : Str) (a : Json) : Str :=
  let long := min (natOf a "long") (2^21)
  let s1 :=
    if long > 0 then
      let l := if boolOf a "longCmd" then "route add ".toList ++ List.replicate long 's' ++ " /long http://a:1/".toList
               else '#' :: List.replicate (long - 1) 'x'
      let ls := splitOn '\n' s
      let at_ := natOf a "longAt"
      join ['\n'] (ls.take at_ ++ [l] ++ ls.drop at_)
    else s
  let pad := min (natOf a "pad") 4096
  let pre := min (natOf a "pre") 4096
  (List.replicate pre (padLine ++ ['\n'])).flatten ++ s1 ++ (List.replicate pad ('\n' :: padLine)).flatten

def eventText (j : Json) : Option Str :=
  if has j "hex" then none else
  let t := getStrD j "text"
  some (match j.getObjVal? "amp" with
    | .ok a => if a.isNull then t else ampText t a
    | .error _ => t)

/-- `forceSvc`: the first event of a session that starts through the static / file backend -/
def eventOf (forceSvc : Bool) (j : Json) : Option Ev :=
  (eventText j).map fun t =>
    match (j.getObjValAs? String "src").toOption with
    | some "man" => if forceSvc then .svc t else .man t
    | _ => .svc t

def dedupAdj {α} [BEq α] : List α → List α
  | a :: b :: r => if a == b then dedupAdj (b :: r) else a :: dedupAdj (b :: r)
  | l => l

/-- walk the implementation's steps: `cur` = table of the last good build so far; result = (ok, class flags) -/
structure HistAcc where
  cur : Json := emptyDump
  ok : Bool := true
  bad : String := ""
  seenOk : Bool := false
  failAfterOk : Bool := false
  recovered : Bool := false
  panics : Bool := false
  nOk : Nat := 0
  nFail : Nat := 0

def histStep (a : HistAcc) (step : Json) : HistAcc :=
  let b := objOr step "build"
  let active := (step.getObjVal? "active").toOption.getD Json.null
  let a := if has b "panic" then { a with panics := true, ok := false, bad := if a.bad.isEmpty then "newtable-panic" else a.bad } else a
  -- round 4: the answers of main.go's lookup closures to the probe requests, judged by the harness against the table
  -- that must be active (real NewTable of the last good text)
  let a := if has (objOr step "served") "bad" then
      { a with ok := false, bad := if a.bad.isEmpty then "request-served-from-other-table" else a.bad } else a
  match builtTable b with
  | some t =>
    let a := { a with cur := t, seenOk := true, nOk := a.nOk + 1, recovered := a.recovered || a.failAfterOk }
    if active == t then a else { a with ok := false, bad := if a.bad.isEmpty then "valid-not-applied" else a.bad }
  | none =>
    let a := { a with nFail := a.nFail + 1, failAfterOk := a.failAfterOk || a.seenOk }
    if active == a.cur then a else { a with ok := false, bad := if a.bad.isEmpty then "last-good-not-kept" else a.bad }

def historyH : Handler := fun inp impl => do
  let evsJ := arrOf inp "events"
  let steps := arrOf impl "steps"
  let acc := steps.foldl histStep {}
  let crash := crashTag impl
  let via := (inp.getObjValAs? String "via").toOption.getD ""
  let viaOn := via == "static" || via == "file"
  -- the model
  let evs := (evsJ.zipIdx).map (fun (j, i) => eventOf (viaOn && i == 0) j)
  let inModel := evs.all Option.isSome
  let evl := evs.filterMap id
  let o := objOr impl "oracle"
  -- completeness, on the implementation's observables: a text the real NewTable accepted was parsed by the real
  -- Parse into exactly as many definitions as the text has command lines
  let txs := texts evl
  let incomplete := inModel && (steps.zip txs).any (fun (s, tx) =>
    match builtTable (objOr s "build"), (s.getObjValAs? Nat "ndefs").toOption with
    | some _, some n => n != commandLines tx
    | _, _ => false)
  let spec := acc.ok && crash.isNone && steps.length == evsJ.length && !incomplete
  let trace := WB.trace (buildOf o) (WB.init ([] : Table)) evl
  let reg := dedupAdj (registeredTrace (pfOf o) (buildOf o) (WB.init ([] : Table)) evl).flatten
  let regJ := Json.arr (reg.map (fun a => Json.arr (a.map str).toArray)).toArray
  let m := Json.mkObj [("active", Json.arr (trace.map tableJson).toArray), ("registered", regJ)]
  let regOk := steps.isEmpty || (impl.getObjVal? "registered").toOption == some regJ
  let tablesOk := crash.isNone && trace.length == steps.length &&
     (trace.zip steps).all (fun (t, s) => closeJson (tableJson t) ((s.getObjVal? "active").toOption.getD Json.null))
  let agree := !inModel || (tablesOk && regOk)
  let tag := match crash with
    | some c => c
    | none =>
      if !acc.ok then acc.bad
      else if steps.length != evsJ.length then "steps-missing"
      else if incomplete then "accepted-text-incomplete"
      else if inModel && tablesOk && !regOk then "registered-differs"
      else
        let base := if acc.nFail == 0 then "all-build" else if acc.nOk == 0 then "none-builds"
          else if acc.recovered then "fail-then-recover" else if acc.failAfterOk then "fail-keeps-last" else "fail-first"
        let base := if viaOn then base ++ "/" ++ via else base
        let base := if evsJ.any (fun j => has j "amp") then base ++ "/amp" else base
        if inModel then base else base ++ "/bytes-outside-model"
  return ({ model := m, agree, spec, nontrivial := acc.failAfterOk && acc.recovered, tag } : Verdict).toJson

/-! ### c02.custom -/

def pollOf (step : Json) : Except String (Poll (List RouteDef)) := do
  let d := objOr step "decoded"
  if has d "httpError" then return .httpError
  if has d "decodeError" then return .decodeError
  if has d "null" then return .null
  let ds ← (arrOf d "defs").mapM (fun j => do
    let rd ← routeDef j
    -- the custom backend's documents carry the full command names; anything else is an invalid command
    let c := (j.getObjValAs? String "cmd").toOption.getD ""
    let cmd : Cmd := if c == "route add" then .add else if c == "route del" then .del
      else if c == "route weight" then .weight else .other c.toList
    return { rd with cmd := cmd })
  return .defs ds

structure CustAcc where
  cur : Json := emptyDump
  ok : Bool := true
  bad : String := ""
  nInstalled : Nat := 0
  nKept : Nat := 0
  nullSeen : Bool := false

def custStep (a : CustAcc) (step : Json) : CustAcc :=
  let d := objOr step "decoded"
  let b := objOr step "build"
  let active := (step.getObjVal? "active").toOption.getD Json.null
  let a := if has d "null" then { a with nullSeen := true } else a
  let a := if has b "panic" then { a with ok := false, bad := if a.bad.isEmpty then "newtablecustom-panic" else a.bad } else a
  let a := if has (objOr step "served") "bad" then
      { a with ok := false, bad := if a.bad.isEmpty then "request-served-from-other-table" else a.bad } else a
  match (if has d "defs" then builtTable b else none) with
  | some t =>
    let a := { a with cur := t, nInstalled := a.nInstalled + 1 }
    if active == t then a else { a with ok := false, bad := if a.bad.isEmpty then "active-differs-from-document" else a.bad }
  | none =>
    let a := { a with nKept := a.nKept + 1 }
    if active == a.cur then a else { a with ok := false, bad := if a.bad.isEmpty then "last-good-not-kept" else a.bad }

def customH : Handler := fun inp impl => do
  let pollsJ := arrOf inp "polls"
  let steps := arrOf impl "steps"
  let crash := crashTag impl
  -- on a crash the last step carries no "active": judge the steps before it
  let judged := if crash.isSome then steps.dropLast else steps
  let acc := judged.foldl custStep {}
  let spec := acc.ok && crash.isNone && steps.length == pollsJ.length
  let o := objOr impl "oracle"
  let env := envOf o
  let polls ← steps.mapM pollOf
  let trace := customTrace (newTableCustom (fun ds => (newTable env ds).toOption)) ([] : Table) polls
  let m := Json.arr (trace.map (fun t => match t with | some t => tableJson t | none => Json.null)).toArray
  let agree := crash.isNone && trace.length == steps.length &&
    (trace.zip steps).all (fun (t, s) => match t with
      | some t => closeJson (tableJson t) ((s.getObjVal? "active").toOption.getD Json.null)
      | none => false)
  let tag := match crash with
    | some c => if acc.nullSeen || (steps.getLast?.map (fun s => has (objOr s "decoded") "null")).getD false then c ++ "-on-null" else c
    | none =>
      if !acc.ok then acc.bad
      else if steps.length != pollsJ.length then "steps-missing"
      else if acc.nInstalled == 0 then "nothing-installed"
      else if acc.nKept == 0 then "all-installed" else (if acc.nullSeen then "mixed+null" else "mixed")
  return ({ model := m, agree, spec, nontrivial := acc.nInstalled > 0 && acc.nKept > 0, tag } : Verdict).toJson

/-! ### c02.nopanic -/

def skeletonJson (t : Table) : Json :=
  Json.arr ((sortHosts t).flatMap (fun kv => kv.2.map (fun r =>
    Json.mkObj [("host", str r.host), ("path", str r.path),
      ("targets", Json.arr (r.targets.map (fun tg => Json.arr #[str tg.service, str tg.url])).toArray)]))).toArray

def nopanicH : Handler := fun inp impl => do
  let kind := (inp.getObjValAs? String "kind").toOption.getD "text"
  let outcome := (impl.getObjValAs? String "outcome").toOption.getD "?"
  let usePanic := has impl "usePanic"
  -- completeness (see c02.history): only where the text the harness built can be rebuilt here — no generated
  -- targets, no bytes outside UTF-8, at most 70000 characters in the inserted line
  let ampJ := (inp.getObjVal? "amp").toOption.getD Json.null
  let rebuildable := kind == "text" && !has inp "hex" && (ampJ.isNull || (natOf ampJ "targets" == 0 && natOf ampJ "long" ≤ 70000))
  let incomplete := rebuildable && outcome == "table" &&
    (match (impl.getObjValAs? Nat "ndefs").toOption with
     | some n => n != commandLines (if ampJ.isNull then getStrD inp "text" else ampText (getStrD inp "text") ampJ)
     | none => false)
  let spec := outcome != "panic" && outcome != "?" && !usePanic && !incomplete
  let what := match impl.getObjVal? "what" with
    | .ok (.str s) => s
    | .ok w => (w.getObjValAs? String "kind").toOption.getD "err" ++
        (match (w.getObjValAs? String "what").toOption with | some s => ":" ++ (s.takeWhile (· != ':')).toString | none => "")
    | .error _ => ""
  let modelled := kind == "text" && has impl "oracle" && !has inp "amp" && !has inp "hex"
  -- round 4: hostile custom-backend documents are compared with the model of NewTableCustom on what Go decoded
  let jsonModelled := kind == "json" && outcome != "?" && ((has impl "defs" && has impl "oracle") || has impl "nullDoc")
  let (m, agree, cls) :=
    if jsonModelled then
      if has impl "nullDoc" then (Json.mkObj [("outcome", "error")], outcome == "error" || outcome == "panic", "")
      else
        let step := Json.mkObj [("decoded", Json.mkObj [("defs", (impl.getObjVal? "defs").toOption.getD (Json.arr #[]))])]
        match pollOf step with
        | .ok (.defs ds) =>
          (match newTable (envOf (objOr impl "oracle")) ds with
           | .ok t =>
             let sk := skeletonJson t
             let ascii := ds.all (fun d => (d.service ++ d.src ++ d.dst).all (fun c => c.toNat < 128 && c.toNat > 0))
             let skOk := !ascii || !has impl "skeleton" || (impl.getObjVal? "skeleton").toOption == some sk
             (Json.mkObj [("outcome", "table"), ("skeleton", sk)], (outcome == "table" && skOk) || outcome == "panic", "")
           | .error _ => (Json.mkObj [("outcome", "error")], outcome == "error" || outcome == "panic", ""))
        | _ => (Json.null, true, "/outside-model")
    else if modelled then
      let o := objOr impl "oracle"
      let text := getStrD inp "text"
      let res := loadTable (envOf o) (pfOf o) text
      match res with
      | .ok t =>
        let sk := skeletonJson t
        let skOk := !text.all (fun c => c.toNat < 128) || !has impl "skeleton" || (impl.getObjVal? "skeleton").toOption == some sk
        (Json.mkObj [("outcome", "table"), ("skeleton", sk)], outcome == "table" && skOk, "")
      | .error _ => (Json.mkObj [("outcome", "error")], outcome == "error", "")
    else (Json.null, true, "/outside-model")
  let tag :=
    if usePanic then kind ++ ":use-panic"
    else if outcome == "panic" then kind ++ ":build-panic"
    else if incomplete then kind ++ ":accepted-text-incomplete"
    else if outcome == "table" then kind ++ ":table" ++ cls
    else kind ++ ":error:" ++ what ++ cls
  let nontrivial := outcome == "table" || (outcome == "error" && what != "decode" && !what.startsWith "syn")
  return ({ model := m, agree, spec, nontrivial, tag } : Verdict).toJson

/-! ### c02.buffer -/

def bufferH : Handler := fun inp impl => do
  let outcome := (impl.getObjValAs? String "outcome").toOption.getD "?"
  let left := natOf impl "left"
  let len := natOf impl "len"
  let reuse := (impl.getObjValAs? String "reuse").toOption.getD "?"
  let ampJ := (inp.getObjVal? "amp").toOption.getD Json.null
  let inModel := !has inp "hex" && has impl "oracle"
  let spec := (outcome == "table" || outcome == "error") && left ≤ len && (outcome != "table" || left == 0) && reuse == "same"
  let what := (objOr impl "what" |>.getObjValAs? String "kind").toOption.getD ""
  let (m, agree) :=
    if inModel then
      let text := if ampJ.isNull then getStrD inp "text" else ampText (getStrD inp "text") ampJ
      let ml := Fabio.Model.C02Buf.leftAfterParse (pfOf (objOr impl "oracle")) text
      (Json.mkObj [("left", ml), ("len", byteLen text)], ml == left && byteLen text == len)
    else (Json.null, true)
  let size := if len ≤ 4096 then "1chunk" else if len ≤ 65536 then "chunks" else "big"
  let tag :=
    if outcome == "panic" then "build-panic"
    else if outcome != "table" && outcome != "error" then "harness-error"
    else if left > len then "left-exceeds-length"
    else if outcome == "table" && left > 0 then "accepted-text-not-read-to-end"
    else if reuse != "same" then "reused-buffer-" ++ reuse
    else (if left > 0 then "tail-left/" else "drained/") ++ (if outcome == "table" then "table" else "err:" ++ what) ++ "/" ++ size ++
      (if inModel then "" else "/bytes-outside-model")
  return ({ model := m, agree, spec, nontrivial := left > 0, tag } : Verdict).toJson

/-! ### c02.swap -/

def swapH : Handler := fun _inp impl => do
  let by_ := objOr impl "byFamily"
  let zero := fun k => natOf impl k == 0
  let spec := has impl "lookups" && zero "mixed" && zero "order" && zero "window" && zero "unknown" && zero "nilTable"
  let tag := if !has impl "lookups" then "harness-error"
    else if !zero "mixed" then "mixed-answer" else if !zero "nilTable" then "nil-table-loaded"
    else if !zero "unknown" then "unpublished-table" else if !zero "order" then "went-back-in-time"
    else if !zero "window" then "outside-load-window"
    else "clean-" ++ (impl.getObjValAs? String "matcher").toOption.getD "?"
  let m := Json.mkObj [("mixed", (0 : Nat)), ("order", (0 : Nat)), ("window", (0 : Nat)), ("unknown", (0 : Nat)), ("nilTable", (0 : Nat))]
  return ({ model := m, agree := spec, spec, nontrivial := natOf by_ "A" > 0 && natOf by_ "B" > 0, tag } : Verdict).toJson

def streams : List (String × Handler) :=
  [("c02.history", historyH), ("c02.custom", customH), ("c02.nopanic", nopanicH), ("c02.buffer", bufferH),
   ("c02.swap", swapH)]
end Fabio.Driver.C02
