import Fabio.Driver.Proto
import Fabio.Model.C10
import Fabio.Model.C10Std
import Fabio.Generated.C10
namespace Fabio.Driver.C10
open Lean Fabio.Driver Fabio.Model.C10

/-! Hex transport of byte strings. -/

def hexVal (c : Char) : Option Nat :=
  if '0' ≤ c ∧ c ≤ '9' then some (c.toNat - 48)
  else if 'a' ≤ c ∧ c ≤ 'f' then some (c.toNat - 87)
  else if 'A' ≤ c ∧ c ≤ 'F' then some (c.toNat - 55)
  else none

def hexDecodeL : List Char → Option Bytes
  | [] => some []
  | [_] => none
  | a :: b :: rest => do
    let x ← hexVal a
    let y ← hexVal b
    let r ← hexDecodeL rest
    pure (UInt8.ofNat (x * 16 + y) :: r)

def hexDecode (s : String) : Except String Bytes :=
  match hexDecodeL s.toList with
  | some b => .ok b
  | none => .error "bad hex"

def hexDigit (n : Nat) : Char := if n < 10 then Char.ofNat (48 + n) else Char.ofNat (87 + n)

def hexEncode (b : Bytes) : String :=
  String.ofList (b.foldr (fun x acc => hexDigit (x.toNat / 16) :: hexDigit (x.toNat % 16) :: acc) [])

def panicJ : Json := Json.mkObj [("panic", true)]

def isPanicJ (j : Json) : Bool := (j.getObjVal? "panic").toOption.isSome

/-- What the implementation reported for a byte string (see harness/c10/observe.go). -/
structure Obs where
  size : Option Nat
  sizeErr : Option String
  ok : Bool
  name : String
  route : Option String
  /-- the same connection delivered in small pieces: the model's `stream` has no delivery pattern, so this is `route` -/
  routeChunked : Option String
deriving BEq

structure Oracles where
  tlsOk : Bool
  tlsName : String
  strictOk : Bool
  strictName : String

def optStr (j : Json) (k : String) : Option String :=
  match j.getObjVal? k with
  | .ok (Json.str s) => some s
  | _ => none

def readObs (j : Json) : Except String Obs := do
  let ok ← j.getObjValAs? Bool "ok"
  let name ← j.getObjValAs? String "name"
  return { size := (j.getObjValAs? Nat "size").toOption, sizeErr := optStr j "size_err", ok := ok, name := name,
           route := optStr j "route", routeChunked := optStr j "route_chunked" }

def readOracles (j : Json) : Except String Oracles := do
  return { tlsOk := ← j.getObjValAs? Bool "tls_ok", tlsName := ← j.getObjValAs? String "tls_name",
           strictOk := ← j.getObjValAs? Bool "strict_ok", strictName := ← j.getObjValAs? String "strict_name" }

/-- The model's view of a byte string `b` a client sends: the three calls the harness makes. `none` = the
model reaches a panic point. -/
def modelObs (b : Bytes) : Option Obs × String :=
  let sz := clientHelloBufferSize (b.take 9)
  let rs := readServerName (b.drop 5)
  let rt := sniRoute b
  let tag := match sz with
    | .reject s => "size:" ++ s
    | .panic _ => "size:panic"
    | .ok n => match rt with
      | .ok nm =>
        -- accepted: `:std-rejects` marks the lenient class (a standard server refuses these bytes, see the
        -- `malformed_accepted_exception_*` theorems of Props/C10Std.lean)
        (if nm.isEmpty then "ok-no-name" else "ok-sni") ++ (if (stdRoute b).isNone then ":std-rejects" else "")
      | .reject s =>
        if s == "read-full" then
          -- a truncated record: fewer than `n` bytes arrived. The tag names what `readServerName` makes of the
          -- bytes that did arrive; it accepts only at the cut named in `Props.C10.truncation_exception`.
          (match unmarshal (b.drop 5) with
           | .ok _ => if b.length < n then "short:accepted-by-readServerName" else "short:ok"
           | .reject s => "short:" ++ s
           | .panic _ => "short:panic")
        else "parse:" ++ s
      | .panic _ => "parse:panic"
  -- `ServeTCP` up to the dial (Model/C10Std.lean): the argument of `Lookup`, if it gets that far
  let sv := serveTCP b
  match sz, rs, rt, sv with
  | .panic _, _, _, _ | _, .panic _, _, _ | _, _, .panic _, _ | _, _, _, .panic _ => (none, tag)
  | sz, .ok (nm, ok), _, sv =>
    let route := match sv with | .lookup host _ _ => some (hexEncode host) | _ => none
    (some { size := match sz with | .ok n => some n | _ => none
            sizeErr := match sz with | .reject s => some s | _ => none
            ok := ok, name := hexEncode nm, route := route, routeChunked := route }, tag)

def obsJson (o : Option Obs) : Json :=
  match o with
  | none => panicJ
  | some o => Json.mkObj [("size", match o.size with | some n => Json.num n | none => Json.null),
      ("size_err", match o.sizeErr with | some s => Json.str s | none => Json.null),
      ("ok", o.ok), ("name", o.name), ("route", match o.route with | some s => Json.str s | none => Json.null),
      ("route_chunked", match o.routeChunked with | some s => Json.str s | none => Json.null)]

def nonEmpty (s : String) : Option String := if s.isEmpty then none else some s

/-- The property on the implementation's own output for a byte string `b` (independent of the model
functions): no panic; the buffer size stays within the first record (`≤ 5 + recordLength ≤ 5 + 16384`) and
covers `data[5:]`; nothing is routed unless exactly that many bytes arrived; whatever the strict RFC reader
accepts is accepted with the same name; whenever both fabio and crypto/tls accept, they see the same name. -/
def specBytes (b : Bytes) (o : Obs) (orc : Oracles) : Bool :=
  let recLen := (b.getD 3 0).toNat * 256 + (b.getD 4 0).toNat
  let sizeOk := match o.size with
    | some n => 10 ≤ n ∧ n ≤ recLen + 5 ∧ recLen ≤ 16384 ∧ 9 ≤ b.length
    | none => true
  let routeOk := match o.route with
    | some _ => (match o.size with | some n => decide (n ≤ b.length) | none => false)
    | none => true
  let strictOk := !orc.strictOk ||
    (o.route == nonEmpty orc.strictName && o.size.isSome &&
      (o.size != some b.length || (o.ok && o.name == orc.strictName)))
  let oraclesOk := !(orc.strictOk && orc.tlsOk) || orc.strictName == orc.tlsName
  let bothOk := !(orc.tlsOk && o.route.isSome) || o.route == some orc.tlsName
  -- the Lean reading of "a standard TLS server" (Model/C10Std.lean, `Props.C10Std.std_route_agree`): whatever it
  -- accepts is routed by its name (not routed when the name is empty)
  let stdOk := match stdRoute b with
    | some n => o.size.isSome && o.route == nonEmpty (hexEncode n)
    | none => true
  -- "it is rejected instead" (`Props.C10Std.malformed_rejected_partial` / `accepted_is_framed`): whatever
  -- `readServerName` accepts is an exactly framed ClientHello (every vector nests, nothing dangling behind the last
  -- extension) with a session id of at most 32 bytes; a routed connection carried such a message in its first record
  let framed (msg : Bytes) : Bool := match frame msg with
    | some rh => rh.sessionId.length ≤ 32
    | none => false
  -- (the message of a routed connection: the 4-byte handshake header and as many bytes as it announces; the
  -- record around it need not be complete — fabio reads the message, not the record)
  let hsLen := (b.getD 6 0).toNat * 65536 + (b.getD 7 0).toNat * 256 + (b.getD 8 0).toNat
  let framedOk := (!o.ok || framed (b.drop 5)) && (o.route.isNone || framed ((b.drop 5).take (4 + hsLen)))
  -- "from the same bytes": the routing decision does not depend on how the bytes are delivered
  let deliveryOk := o.routeChunked == o.route
  -- `Props.C10Std.tls_route_agree`: what crypto/tls accepts (message complete within the first record, session id
  -- within RFC 5246's 32 bytes) is routed by the name crypto/tls reports
  let tlsImplies := !orc.tlsOk || match firstMessage maxRecordLen b with
    | some msg => (match frame msg with
      | some rh => rh.sessionId.length > 32 || o.route == nonEmpty orc.tlsName
      | none => true)
    | none => true
  sizeOk && routeOk && strictOk && oraclesOk && bothOk && stdOk && framedOk && deliveryOk && tlsImplies

/-- extension types whose bodies crypto/tls (go1.24 `clientHelloMsg.unmarshal`) parses, other than `server_name` -/
def tlsKnownExts : List Nat := [5, 10, 11, 13, 16, 18, 23, 35, 41, 42, 43, 44, 45, 50, 51, 57, 0xff01, 0xfe0d]

/-- The message of the first record is one on which crypto/tls and `stdServerName 255` must agree in **both**
directions: record-layer version below 0x1000 (crypto/tls refuses other first records), and no extension whose
body crypto/tls looks into except `server_name`. `none`: not such a case. -/
def tlsExactCase (b : Bytes) : Option Bytes :=
  if (b.getD 1 0).toNat ≥ 0x10 then none else
  match firstMessage maxRecordLen b with
  | none => none
  | some msg =>
    match frame msg with
    | none => some msg
    | some rh =>
      match rh.extensions with
      | none => some msg
      | some es => if es.all (fun e => !tlsKnownExts.contains e.1) then some msg else none

/-- The tie of the Lean model of the oracles to the oracles themselves: `stdRoute` (Lean) and the strict reader
of the harness (`wire.go`, Go) must agree exactly, and whenever crypto/tls accepts a hello that is complete within
the first record, `stdServerName 255` (crypto/tls's reading with opaque bodies for the other extensions) accepts it
with the same name. -/
def oracleModelAgrees (b : Bytes) (orc : Oracles) : Bool :=
  let strictSame := match stdRoute b with
    | some n => orc.strictOk && orc.strictName == hexEncode n
    | none => !orc.strictOk
  let tlsSame := !orc.tlsOk || match firstMessage maxRecordLen b with
    | some msg => stdServerName 255 msg == some ((hexDecode orc.tlsName).toOption.getD [])
    | none => true
  -- … and in both directions where crypto/tls has nothing else to object to
  let tlsExact := match tlsExactCase b with
    | some msg => (stdServerName 255 msg).isSome == orc.tlsOk
    | none => true
  strictSame && tlsSame && tlsExact

/-- The functions **translated from the current Go source** (`Generated.C10.XBufSize`, `XUnmarshal`, written by
`tools/factgen/xlate.go` on every run) evaluated on the same bytes as the implementation: the buffer size of the
first 9 bytes and `readServerName(b[5:])`. This validates the translator (its combinators, its integer model)
against the real code on every case; `Props/C10Xlate.lean` proves the translation equal to the model. -/
def xlateAgrees (b : Bytes) (o : Obs) : Bool :=
  let sizeOk := !Generated.C10.XBufSize.translated || match Generated.C10.XBufSize.run { p0 := b.take 9 } with
    | .ok ((n, none), _) => o.size == some n.toNat && 0 ≤ n
    | .ok ((_, some _), _) => o.size.isNone && o.sizeErr.isSome
    | .panic _ => false
  let nameOk := !Generated.C10.XUnmarshal.translated || match Generated.C10.XUnmarshal.run { p0 := b.drop 5 } with
    | .ok (true, s) => o.ok && o.name == hexEncode s.m_serverName
    | .ok (false, _) => !o.ok && o.name == ""
    | .panic _ => false
  sizeOk && nameOk

def bytesH (real : Bool) : Handler := fun inp impl => do
  let hex ← inp.getObjValAs? String "hex"
  let b ← hexDecode hex
  let (m, tag) := modelObs b
  if isPanicJ impl then
    return ({ model := obsJson m, agree := m.isNone, spec := false, nontrivial := true, tag := "impl-panic:" ++ tag } : Verdict).toJson
  let o ← readObs impl
  let orc ← readOracles impl
  let spec := specBytes b o orc && (!real || (orc.tlsOk && orc.strictOk))
  let nontrivial := if real then orc.tlsOk && orc.strictOk && o.route.isSome else o.size.isSome
  return ({ model := obsJson m, agree := m == some o && xlateAgrees b o && oracleModelAgrees b orc, spec := spec, nontrivial := nontrivial, tag := tag } : Verdict).toJson

/-! Abstract hellos (stream `c10.model`). -/

def byteAt (j : Json) (k : String) (i : Nat) : UInt8 :=
  match j.getObjVal? k with
  | .ok (Json.arr a) => match a[i]? with
    | some v => match v.getInt? with
      | .ok n => UInt8.ofNat (n % 256).toNat
      | .error _ => 0
    | none => 0
  | _ => 0

def hexField (j : Json) (k : String) : Except String Bytes := do
  let s ← j.getObjValAs? String k
  hexDecode s

def pairs : Bytes → List (UInt8 × UInt8)
  | a :: b :: rest => (a, b) :: pairs rest
  | _ => []

def readExt (j : Json) : Except String Ext := do
  let isSni ← j.getObjValAs? Bool "is_sni"
  if isSni then
    let es := match j.getObjVal? "sni" with
      | .ok (Json.arr a) => a.toList
      | _ => []
    let entries ← es.mapM fun e => do
      let t ← e.getObjValAs? Int "t"
      let nm ← hexField e "name"
      pure (UInt8.ofNat (t % 256).toNat, nm)
    return .serverName entries
  else
    let t ← j.getObjValAs? Int "typ"
    let body ← hexField j "body"
    return .other (t % 65536).toNat body

def readHello (j : Json) : Except String Hello := do
  let hasExts ← j.getObjValAs? Bool "has_exts"
  let exts ← match j.getObjVal? "exts" with
    | .ok (Json.arr a) => a.toList.mapM readExt
    | _ => pure []
  return { versHi := byteAt j "vers" 0, versLo := byteAt j "vers" 1, random := ← hexField j "random",
           sessionId := ← hexField j "sid", cipherSuites := pairs (← hexField j "ciphers"),
           compressionMethods := ← hexField j "comp", extensions := if hasExts then some exts else none }

def sniPos (es : List Ext) : String :=
  match es.findIdx? (fun e => e.typ == 0) with
  | none => "nosni"
  | some i => if es.length == 1 then "sni-only" else if i == 0 then "sni-first"
              else if i + 1 == es.length then "sni-last" else "sni-mid"

def modelH : Handler := fun inp impl => do
  let h ← readHello inp
  let b := record (byteAt inp "recv" 0) (byteAt inp "recv" 1) h
  let (m, mtag) := modelObs b
  let mj := (obsJson m).setObjVal! "hex" (hexEncode b)
  let wf : Bool := decide (WellFormed h) && decide (FitsRecord h)
  let tag := if wf then "wf-" ++ (match h.extensions with | none => "noext" | some es => sniPos es) ++
                 (if b.length ≥ 16383 + 5 then ":largest-record" else "")
             else "nonwf-" ++ mtag
  -- `/tlsx`: a case of the two-way comparison between crypto/tls and the Lean reading of a standard server
  let tag := if (tlsExactCase b).isSome then tag ++ "/tlsx" else tag
  if isPanicJ impl then
    return ({ model := mj, agree := m.isNone, spec := false, nontrivial := true, tag := "impl-panic:" ++ tag } : Verdict).toJson
  let o ← readObs impl
  let orc ← readOracles impl
  let ihex ← impl.getObjValAs? String "hex"
  let want := hexEncode (sniOf h)
  let encOk := ihex == hexEncode b && (!wf || stdRoute b == some (sniOf h))   -- `Props.C10Std.std_route_record`
  let wfSpec := !wf ||
    (o.ok && o.name == want && o.size == some b.length && o.route == nonEmpty want &&
     orc.strictOk && orc.strictName == want && (!orc.tlsOk || orc.tlsName == want))
  let nontrivial := wf && (match h.extensions with | some es => es.length ≥ 2 && es.any (fun e => e.typ == 0) | none => false)
  return ({ model := mj, agree := m == some o && encOk && xlateAgrees b o && oracleModelAgrees b orc, spec := encOk && specBytes b o orc && wfSpec,
            nontrivial := nontrivial, tag := tag } : Verdict).toJson

def streams : List (String × Handler) :=
  [("c10.real", bytesH true), ("c10.mutate", bytesH false), ("c10.model", modelH)]
end Fabio.Driver.C10
