import Fabio.Driver.C09
def main : IO Unit := Fabio.Driver.run Fabio.Driver.C09.streams
