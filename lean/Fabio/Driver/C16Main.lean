import Fabio.Driver.C16
def main : IO Unit := Fabio.Driver.run Fabio.Driver.C16.streams
