import Fabio.Driver.Proto
import Fabio.Driver.RouteJson
import Fabio.Model.C03
import Fabio.Model.C03Fold
namespace Fabio.Driver.C03Fold
open Lean Fabio Fabio.Driver Fabio.Driver.RouteJson Fabio.Model.Route Fabio.Model.C03 Fabio.Model.C03Fold

def objPairs (j : Json) (k : String) : List (Str × Json) :=
  match (j.getObjVal? k).toOption with
  | some (.obj m) => m.toList.map (fun (p, v) => (p.toList, v))
  | _ => []

/-- `c03.ipath`: the paths of one host in table order and the path `Lookup` answers with, paths beyond ASCII.
Model: `sortPaths lowerU`, `firstMatch (pathMatchBy lowerU …)`. Specification on the implementation's own
order and answer: the answer is a path of the table that matches; for prefix and iprefix no matching path is
longer (runes); a matching path exists ⇒ routed. `lowerU` itself is compared with the shipped
`strings.ToLower` of every string of the case. -/
def ipathH : Handler := fun inp impl => do
  let paths ← strList ((inp.getObjVal? "paths").toOption.getD .null)
  let uri ← getStr inp "uri"
  let kindS := (inp.getObjValAs? String "matcher").toOption.getD "prefix"
  let kind ← (if kindS == "prefix" then pure MatcherKind.pfx else if kindS == "iprefix" then pure MatcherKind.iprefix
    else if kindS == "glob" then pure MatcherKind.glob else throw s!"unknown matcher {kindS}")
  let pgTab := objPairs impl "pathglob"
  let pg : Str → Str → Bool := fun p _ => match pgTab.lookup p with | some (.bool b) => b | _ => false
  let m := pathMatchBy lowerU pg kind
  let sorted := sortPaths lowerU paths.eraseDups
  let ans := firstMatch m uri sorted
  let ansJ : Json := match ans with | some p => str p | none => Json.null
  let model := Json.mkObj [("order", Json.arr (sorted.map str).toArray), ("res", ansJ)]
  if (impl.getObjVal? "panic").toOption.isSome then
    return ({ model, agree := false, spec := false, nontrivial := true, tag := "lookup-panics" } : Verdict).toJson
  if (impl.getObjVal? "error").toOption.isSome then
    return ({ model, agree := false, spec := true, nontrivial := false, tag := "impl-build-error" } : Verdict).toJson
  let lowerOK := (objPairs impl "lower").all (fun (s, v) => match v with | .str l => lowerU s == l.toList | _ => false)
  let iorder ← strList ((impl.getObjVal? "order").toOption.getD .null)
  let ires := (impl.getObjVal? "res").toOption.getD .null
  let ians : Option Str := match ires with | .str s => some s.toList | _ => none
  let orderOK := sorted == iorder
  let resOK := ans == ians
  -- specification on the implementation's table order and answer
  let cands := iorder.filter (fun p => m uri p)
  let specV : Option String := match ians with
    | none => if cands.isEmpty then none else some "candidate-not-routed"
    | some a =>
      if !cands.contains a then some "answer-not-a-candidate"
      else if kind != .glob && cands.any (fun c => c.length > a.length) then some ("shorter-path-won-" ++ kindS ++ "-fold")
      else none
  let uni := (uri :: paths).any (fun s => s.any (fun c => c.toNat ≥ 128))
  let tag := match specV with
    | some t => t
    | none =>
      if !lowerOK then "tolower-model-differs" else if !orderOK then "path-order-differs" else if !resOK then "answer-differs"
      else kindS ++ (if uni then "-unicode" else "-ascii") ++ (if ians.isNone then "-none" else "") ++ (if cands.length ≥ 2 then "-multi" else "")
  return ({ model, agree := lowerOK && orderOK && resOK, spec := specV.isNone, nontrivial := cands.length ≥ 2, tag } : Verdict).toJson

end Fabio.Driver.C03Fold
