import Fabio.Driver.Proto
import Fabio.Model.C15
import Fabio.Model.C15Cmd
import Fabio.Model.C15Listen
import Fabio.Model.C15Slice
import Fabio.Props.C15
import Fabio.Generated.C15
namespace Fabio.Driver.C15
open Lean Fabio.Driver Fabio.Model.C15

def S (s : String) : Str := s.toList
def J (s : Str) : Json := Json.str (String.ofList s)

def isPanicJson (j : Json) : Bool := (j.getObjVal? "panic").toOption.isSome

def strArr (j : Json) : Except String (List String) := do
  let a ← j.getArr?
  a.toList.mapM (fun x => x.getStr?)

def pairArr (j : Json) : Except String (List (Str × Str)) := do
  let a ← j.getArr?
  a.toList.mapM (fun x => do
    let p ← strArr x
    match p with
    | [k, v] => pure (S k, S v)
    | _ => throw "pair expected")

def optStr (j : Json) : Option String :=
  match j with
  | .str s => some s
  | _ => none

def fabioPrefixes : List Str := [S "FABIO_", []]

/-! ### c15.flagtable -/

def usageWord (kind : String) : String :=
  if kind == "kvslice" then "string" else if kind == "stringslice" then "value"
  else if kind == "floatslice" then "numlist" else kind

def flagtableH : Handler := fun _ impl => do
  let rows ← (do
    let a ← impl.getArr?
    a.toList.mapM (fun x => do
      let p ← strArr x
      match p with
      | [k, v] => pure (k, v)
      | _ => throw "pair expected"))
  let model := Fabio.Generated.C15.flagTable.map (fun (n, k, _) => (String.ofList n, usageWord k))
  let mj := Json.arr (model.map (fun (n, k) => Json.arr #[Json.str n, Json.str k])).toArray
  let agree := model == rows
  -- specification on the implementation's own table: no two flags share an environment variable
  let spec := Fabio.Props.C15.noCollision fabioPrefixes (rows.map (fun r => S r.1))
  return ({ model := mj, agree := agree, spec := spec, nontrivial := rows.length > 1,
            tag := if !spec then "env-name-collision" else if agree then "table" else "table-differs" } : Verdict).toJson

/-! ### c15.sources -/

def digestsOf (j : Json) : Except String (List String) := strArr j

def sourcesH : Handler := fun inp impl => do
  let flag ← inp.getObjValAs? String "flag"
  let valsJ ← (← inp.getObjVal? "vals").getArr?
  let vals : List (Option String) := valsJ.toList.map optStr
  if vals.length != 4 then throw "vals must have 4 entries"
  let args ← pairArr (← inp.getObjVal? "args")
  let env ← strArr (← inp.getObjVal? "env")
  let propsJ := (inp.getObjVal? "props").toOption.getD Json.null
  let props : Option Map ← (match propsJ with
    | .null => pure none
    | j => do let l ← pairArr j; pure (some l.reverse))   -- a later line overwrites an earlier one
  let src : Sources := { cmd := args, environ := env.map S, prefixes := fabioPrefixes, props := props }
  let ci := impl
  if (ci.getObjVal? "harness_error").toOption.isSome then
    return ({ model := Json.null, agree := true, spec := true, nontrivial := false, tag := "harness-skip" } : Verdict).toJson
  if isPanicJson ci then
    return ({ model := Json.null, agree := false, spec := false, nontrivial := true, tag := "panic" } : Verdict).toJson
  let combined ← ci.getObjValAs? String "combined"
  let dflt ← ci.getObjValAs? String "dflt"
  let effJ ← (← ci.getObjVal? "eff").getArr?
  let eff : List (Option (List String)) := effJ.toList.map (fun j => (strArr j).toOption)
  let effAt (s c : Nat) : Option String := do
    let row ← eff[s]?
    let r ← row
    r[c]?
  -- model: ParseFlags on the raw inputs
  let (msrc, mraw, mpanic) := match resolve (S flag) [] src with
    | .ok (sr, raw) => (sr, raw, false)
    | .panic _ => (Src.dflt, [], true)
  let midx : Nat := match msrc with
    | .cmdline => 0 | .env i => 1 + i | .props => 3 | .dflt => 4
  let mj := Json.mkObj [("src", midx), ("raw", J mraw), ("panic", mpanic)]
  let agree :=
    !mpanic &&
    (if midx == 4 then combined == dflt
     else (effAt midx midx == some combined) && ((vals[midx]?).join == some (String.ofList mraw)))
  -- specification, independent of the model: first source that is set wins; the same value has the same
  -- effect through every channel
  let setIdx := (List.range 4).filter (fun s => (vals[s]?).join.isSome)
  let precOK := match setIdx.head? with
    | none => combined == dflt
    | some s => effAt s s == some combined
  let anyPanic := combined == "panic" || dflt == "panic" ||
    eff.any (fun r => match r with | some l => l.any (· == "panic") | none => false)
  let equivBad : Option Nat := setIdx.findSome? (fun s =>
    match (eff[s]?).join with
    | none => some s
    | some row =>
      let ds := row.filter (· != "n/a")
      match ds with
      | [] => none
      | d :: rest => if rest.all (· == d) then none else some s)
  -- loading is a function of its inputs: the configuration without any source is what it was before this
  -- process loaded anything, and a returned Config is not changed by later loads
  let dflt0 := (ci.getObjValAs? String "dflt0").toOption.getD dflt
  let again := (ci.getObjValAs? String "combined_again").toOption.getD combined
  let pureOK := dflt == dflt0 && again == combined
  let spec := precOK && equivBad.isNone && !anyPanic && pureOK
  let selfEff := setIdx.filterMap (fun s => effAt s s)
  let distinct := Fabio.Props.C15.allDistinct selfEff
  let nontrivial := setIdx.length ≥ 2 && distinct
  let tag :=
    if anyPanic then "panic"
    else if dflt != dflt0 then "default-changed-by-earlier-load"
    else if again != combined then "config-changed-by-later-load"
    else if let some s := equivBad then s!"same-value-different-effect-src{s}"
    else if !precOK then s!"precedence-expected-src{setIdx.head?.getD 4}"
    else s!"win{setIdx.head?.getD 4}-of-{setIdx.length}"
  return ({ model := mj, agree := agree, spec := spec, nontrivial := nontrivial, tag := tag } : Verdict).toJson

/-! ### c15.kvslice -/

def strLt : Str → Str → Bool
  | [], [] => false
  | [], _ :: _ => true
  | _ :: _, [] => false
  | a :: as, b :: bs => if a.toNat < b.toNat then true else if a.toNat > b.toNat then false else strLt as bs

def insertSorted (x : Str × Str) : Map → Map
  | [] => [x]
  | y :: ys => if strLt x.1 y.1 then x :: y :: ys else y :: insertSorted x ys

def sortMap (m : Map) : Map := m.foldl (fun acc x => insertSorted x acc) []

def mapsJson (ms : List Map) : Json :=
  Json.arr (ms.map (fun m => Json.arr ((sortMap m).map (fun (k, v) => Json.arr #[J k, J v])).toArray)).toArray

def kvsliceH : Handler := fun inp impl => do
  let s ← inp.getObjValAs? String "s"
  let cs := S s
  let outside := outsideUnquoteFragment cs
  let m := parseKVSlice unquote cs
  let mj : Json := match m with
    | .panic w => Json.mkObj [("panic", w)]
    | .ok (.error e) => Json.mkObj [("err", J e)]
    | .ok (.ok ms) => Json.mkObj [("maps", mapsJson ms), ("nil", ms.isEmpty)]
  let implPanic := isPanicJson impl
  let implMaps := (impl.getObjVal? "maps").toOption
  -- shape of the implementation's own answer: no empty map; nil exactly when there are no maps
  let shapeOK : Bool := match implMaps with
    | none => true
    | some j =>
      match j.getArr? with
      | .error _ => false
      | .ok a =>
        a.all (fun mm => match mm.getArr? with | .ok kv => kv.size > 0 | .error _ => false) &&
        ((impl.getObjValAs? Bool "nil").toOption == some (a.size == 0))
  let spec := !implPanic && shapeOK
  let agree := if outside then !implPanic else mj == impl
  let tag :=
    if implPanic then "panic"
    else if outside then "outside-unquote-fragment"
    else match m with
      | .panic _ => "model-panic"
      | .ok (.error e) =>
        if e == S "unbalanced quotes" then "err-unbalanced-quotes"
        else if e == S "unterminated escape sequence" then "err-unterminated-escape"
        else if e == S "invalid escape sequence" then "err-invalid-escape"
        else "err-unexpected-item"
      | .ok (.ok ms) => s!"maps{ms.length}"
  let seps := cs.filter (fun c => isSep c || isQuote c)
  return ({ model := mj, agree := agree, spec := spec, nontrivial := seps.length ≥ 2, tag := tag } : Verdict).toJson

/-! ### c15.robust -/

def containsSub (hay needle : Str) : Bool :=
  match hay with
  | [] => needle.isEmpty
  | _ :: t => needle.isPrefixOf hay || containsSub t needle

def robustH : Handler := fun inp impl => do
  let args ← pairArr (← inp.getObjVal? "args")
  let env ← strArr (← inp.getObjVal? "env")
  if (impl.getObjVal? "harness_error").toOption.isSome then
    return ({ model := Json.null, agree := true, spec := true, nontrivial := false, tag := "harness-skip" } : Verdict).toJson
  if isPanicJson impl then
    return ({ model := Json.null, agree := false, spec := false, nontrivial := true, tag := "panic-in-harness" } : Verdict).toJson
  let out ← impl.getObjValAs? String "out"
  let msg ← impl.getObjValAs? String "msg"
  let glob ← impl.getObjValAs? Int "glob"
  let run ← impl.getObjValAs? String "run"
  let propsJ := (impl.getObjVal? "props").toOption.getD Json.null
  let props : Option Map ← (match propsJ with
    | .null => pure none
    | j => do let l ← pairArr j; pure (some l))
  let src : Sources := { cmd := args, environ := env.map S, prefixes := fabioPrefixes, props := props }
  -- model: never a panic; glob.cache.size resolved from the sources and validated
  let r := resolve (S "glob.cache.size") (S "1000") src
  let (mpanic, graw) := match r with
    | .ok (_, raw) => (false, raw)
    | .panic _ => (true, [])
  let gval := atoiDec graw
  let predicted : String := match gval with
    | some n => if n ≤ 0 then "reject" else s!"size {n}"
    | none => "unknown"
  let mj := Json.mkObj [("panic", mpanic), ("glob", predicted)]
  let globErr := containsSub (S msg) (S "glob.cache.size")
  let agree := !mpanic && out != "panic" &&
    (if out == "cfg" then
       (match gval with | some n => n ≥ 1 && glob == n | none => true)
     else if globErr then (match gval with | some n => n ≤ 0 | none => true)
     else true)
  let spec := out != "panic" && (out != "cfg" || (glob ≥ 1 && run != "panic"))
  let noEq := env.any (fun e => !(S e).contains '=')
  let weird := noEq || env.any (fun e => (S e).head? == some '=') || props.isSome
    || (inp.getObjValAs? String "focus").toOption.isSome
  let tag :=
    if out == "panic" then
      (if noEq && containsSub (S msg) (S "[1] with length 1") then "panic-env-entry-without-eq"
       else match (inp.getObjValAs? String "focus_kind").toOption with
         | some k => s!"panic-on-degenerate-{k}-value"
         | none => "panic-other")
    else if out == "cfg" then
      (if glob ≤ 0 then "accepted-glob-cache-size-below-1" else if run == "panic" then "accepted-but-glob-cache-panics" else "cfg")
    else if globErr then "err-glob-cache-size"
    else if (S msg).take 11 == S "properties:" || containsSub (S msg) (S "circular") then "err-properties"
    else "err-other"
  return ({ model := mj, agree := agree, spec := spec, nontrivial := weird, tag := tag } : Verdict).toJson


/-! ### c15.cmdline -/

def formalOf (n : Str) : Option Bool :=
  match Fabio.Generated.C15.flagTable.find? (fun r => r.1 == n) with
  | some r => some (r.2.1 == "bool")
  | none => none

def formOf (s : String) : Option Form :=
  if s == "eq1" then some .eq1 else if s == "eq2" then some .eq2 else if s == "split1" then some .split1
  else if s == "split2" then some .split2 else if s == "bare1" then some .bare1 else if s == "bare2" then some .bare2
  else none

def prepassNames : List Str := [S "v", S "version", S "cfg"]

def strsJ (l : List Str) : Json := Json.arr (l.map J).toArray
def pairsJ (l : List (Str × Str)) : Json := Json.arr (l.map (fun (a, b) => Json.arr #[J a, J b])).toArray

def tokErrName : TokErr → String
  | .badSyntax _ => "bad-syntax" | .undefined _ => "undefined" | .help => "help"
  | .needsArg _ => "needs-arg" | .invalidValue _ _ => "invalid-value"

def cmdlineH : Handler := fun inp impl => do
  let argv ← strArr (← inp.getObjVal? "argv")
  if (impl.getObjVal? "harness_error").toOption.isSome then
    return ({ model := Json.null, agree := true, spec := true, nontrivial := false, tag := "harness-skip" } : Verdict).toJson
  if isPanicJson impl then
    return ({ model := Json.null, agree := false, spec := false, nontrivial := true, tag := "panic-in-harness" } : Verdict).toJson
  let intentJ := (inp.getObjVal? "intent").toOption.getD Json.null
  let intent : Option (List (Str × Str × Form)) := match intentJ with
    | .null => none
    | j => (do
        let a ← j.getArr?
        a.toList.mapM (fun x => do
          let p ← strArr x
          match p with
          | [n, v, f] => match formOf f with
            | some fm => pure (S n, S v, fm)
            | none => throw "form"
          | _ => throw "triple expected")).toOption
  let preJ ← impl.getObjVal? "pre"
  let preOut ← preJ.getObjValAs? String "out"
  let preRest ← strArr (← preJ.getObjVal? "rest")
  let prePath ← preJ.getObjValAs? String "path"
  let direct ← impl.getObjValAs? String "direct"
  let canon ← impl.getObjValAs? String "canon"
  let want ← impl.getObjValAs? String "want"
  -- oracle for `Set`: what the flag's own parser said about each value it was given
  let acceptJ ← (← impl.getObjVal? "accept").getArr?
  let acceptTab : List (Str × Str × Bool) := acceptJ.toList.filterMap (fun x =>
    match x.getArr? with
    | .ok #[n, v, b] => match n.getStr?, v.getStr?, b.getBool? with
      | .ok n, .ok v, .ok b => some (S n, S v, b)
      | _, _, _ => none
    | _ => none)
  let known (n v : Str) : Option Bool := (acceptTab.find? (fun r => r.1 == n && r.2.1 == v)).map (·.2.2)
  -- the model
  let mpre := parsePre (S "fabio" :: argv.map S)
  let (mpreOut, mrest, mpath) : String × List Str × Str := match mpre with
    | .panic _ => ("panic", [], [])
    | .ok .version => ("version", [], [])
    | .ok .invalidConfig => ("invalid-config", [], [])
    | .ok (.ok p) => ("ok", p.rest, p.path)
  let preAgree := mpreOut == preOut && (mpreOut != "ok" || (mrest == preRest.map S && mpath == S prePath))
  let mtok := tokenise formalOf (fun n v => (known n v).getD false) mrest []
  let unknownOracle : Bool := match mtok with
    | .ok t => t.pairs.any (fun (n, v) => (known n v).isNone)
    | .error (.invalidValue n v) => (known n v).isNone
    | .error _ => false
  let (mtokErr, mpairs, mpos) : String × List (Str × Str) × List Str := match mtok with
    | .ok t => ("", t.pairs, t.positional)
    | .error e => (tokErrName e, [], [])
  let tokJ := (impl.getObjVal? "tok").toOption.getD Json.null
  let tokAgree : Bool := if mpreOut != "ok" then tokJ.isNull else
    match tokJ with
    | .null => false
    | t =>
      let terr := (t.getObjValAs? String "err").toOption.getD "?"
      let tpairs := ((t.getObjVal? "pairs").toOption.bind (fun j => (pairArr j).toOption)).getD []
      let tpos := ((t.getObjVal? "positional").toOption.bind (fun j => (strArr j).toOption)).getD []
      !unknownOracle && terr == mtokErr && (mtokErr != "" || (tpairs == mpairs && tpos.map S == mpos))
  let mj := Json.mkObj [("pre", Json.mkObj [("out", mpreOut), ("rest", strsJ mrest), ("path", J mpath)]),
                        ("tok", Json.mkObj [("err", mtokErr), ("pairs", pairsJ mpairs), ("positional", strsJ mpos)])]
  let anyPanic := preOut == "panic" || direct == "panic" || canon == "panic" || want == "panic"
  -- as typed = as tokenised (both through the real Load)
  let directOK := direct == "n/a" || canon == "n/a" || direct == canon
  let agree := preAgree && tokAgree && directOK && !anyPanic
  -- specification (no model function involved): an argument vector that spells assignments to settable options
  -- in forms that fit their kinds, with plain values in the two-argument forms, has the effect of `-name=value`
  let (hyp, excluded) : Bool × Bool := match intent with
    | none => (false, false)
    | some xs =>
      let describes := spell xs == argv.map S
      let wfAll := xs.all (fun (n, _, f) =>
        !prepassNames.contains n &&
        (match formalOf n, f with
         | some _, .eq1 | some _, .eq2 => true
         | some false, .split1 | some false, .split2 => true
         | some true, .bare1 | some true, .bare2 => true
         | _, _ => false))
      let bareTrue := xs.all (fun (_, v, f) => (f != .bare1 && f != .bare2) || v == S "true")
      let plain := xs.all (fun (_, v, f) => (f != .split1 && f != .split2) || decide (preClass v = .other))
      (describes && wfAll && bareTrue && plain && want != "n/a", describes && wfAll && bareTrue && !plain)
  let spellOK := !hyp || (direct != "n/a" && direct == want)
  let spec := !anyPanic && spellOK
  let tag :=
    if anyPanic then "panic"
    else if hyp && !spellOK then "spelling-changes-effect"
    else if excluded then "excluded-split-value-is-prepass-word"
    else if mpreOut != "ok" then s!"pre-{mpreOut}"
    else if mtokErr != "" then s!"tok-{mtokErr}"
    else if hyp then
      (match intent with
       | some xs => if xs.any (fun (_, _, f) => f == .split1 || f == .split2) then "spelled-split" else "spelled-eq-or-bare"
       | none => "spelled")
    else if mpath != [] then "cfg-path"
    else if !mpos.isEmpty then "positional-left"
    else "free-form"
  let nontrivial := argv.length ≥ 2 || mpreOut != "ok"
  return ({ model := mj, agree := agree, spec := spec, nontrivial := nontrivial, tag := tag } : Verdict).toJson

/-! ### c15.listen -/

def handledProtos : List Str := Fabio.Generated.C15.listenProtosHandled.map String.toList

def lerrName : LErr → String
  | .field k => s!"err-key-{String.ofList k}" | .needAddr => "err-need-addr" | .twoAddrs => "err-two-addresses"
  | .csNeedsTLSProto => "err-cs-needs-tls-proto" | .protoNeedsCs => "err-proto-needs-cs"

def listenH : Handler := fun inp impl => do
  let opt ← inp.getObjValAs? String "opt"
  let value ← inp.getObjValAs? String "value"
  if (impl.getObjVal? "harness_error").toOption.isSome then
    return ({ model := Json.null, agree := true, spec := true, nontrivial := false, tag := "harness-skip" } : Verdict).toJson
  if isPanicJson impl then
    return ({ model := Json.null, agree := false, spec := false, nontrivial := true, tag := "panic-in-harness" } : Verdict).toJson
  let out ← impl.getObjValAs? String "out"
  let listenJ ← (← impl.getObjVal? "listen").getArr?
  let listen : List (Str × Str × Str) := listenJ.toList.filterMap (fun x =>
    match strArr x with
    | .ok [a, p, c] => some (S a, S p, S c)
    | _ => none)
  let csNames ← strArr (← impl.getObjVal? "cs_names")
  let addrJ ← (← impl.getObjVal? "addr_of").getArr?
  let addrTab : List (Str × Option Str) := addrJ.toList.filterMap (fun x =>
    match x.getArr? with
    | .ok #[a, b] => match a.getStr? with
      | .ok a => some (S a, (optStr b).map S)
      | _ => none
    | _ => none)
  let fieldJ ← (← impl.getObjVal? "field_ok").getArr?
  let fieldTab : List (Str × Str × Bool) := fieldJ.toList.filterMap (fun x =>
    match x.getArr? with
    | .ok #[k, v, b] => match k.getStr?, v.getStr?, b.getBool? with
      | .ok k, .ok v, .ok b => some (S k, S v, b)
      | _, _, _ => none
    | _ => none)
  let E : ListenEnv :=
    { addrOf := fun a => ((addrTab.find? (fun r => r.1 == a)).map (·.2)).join
      fieldOK := fun k v => ((fieldTab.find? (fun r => r.1 == k && r.2.1 == v)).map (·.2.2)).getD false
      csNames := csNames.map S }
  let cs := S value
  let outside := outsideUnquoteFragment cs
  -- the model: kvslice parse, then the listener rules; `ui.addr` takes exactly one listener, and none when empty
  let isUI := opt == "ui.addr"
  let parsed := parseKVSlice unquote cs
  let mtag : String := match parsed with
    | .panic _ => "model-panic"
    | .ok (.error _) => if isUI && cs.isEmpty then "ui-empty" else "err-kvslice"
    | .ok (.ok ms) =>
      if isUI && cs.isEmpty then "ui-empty"
      else if isUI && ms.length != 1 then "err-ui-count"
      else match parseListenersM E ms with
        | .error e => lerrName e
        | .ok ls => s!"accepted{ls.length}"
  -- the verdict comes from the composed model: the resolved values as `load` sees them → `listenersOf`
  let csRaw := (inp.getObjValAs? String "cs").toOption.getD ""
  let vals : List Resolved :=
    [{ name := S "proxy.cs", src := .cmdline, raw := S csRaw }, { name := S opt, src := .cmdline, raw := cs }]
  let X : ListenExt := { addrOf := E.addrOf, fieldOK := E.fieldOK }
  let kvBad := match parsed with | .ok (.ok _) => false | _ => true
  let (mout, mlist) : String × List (Str × Str × Str) :=
    if kvBad && !cs.isEmpty then ("err", [])
    else match listenersOf unquote X vals with
      | .error _ => ("err", [])
      | .ok (ls, ui) =>
        if isUI then ("cfg", [match ui with | some l => (l.addr, l.proto, l.cs) | none => ([], [], [])])
        else ("cfg", ls.map (fun l => (l.addr, l.proto, l.cs)))
  let mj := Json.mkObj [("out", mout), ("listen", Json.arr (mlist.map (fun (a, p, c) => Json.arr #[J a, J p, J c])).toArray)]
  -- the same input loaded several times gave the same answer (observed by the harness)
  let stable := (impl.getObjValAs? Bool "stable").toOption.getD true
  let agree :=
    if out == "panic" then false
    else if outside then true
    else mout == out && (out != "cfg" || mlist == listen)
  -- specification on the implementation's own answer: an accepted listener has an address and a protocol that
  -- `main.startServers` has a case for (case literals regenerated from main.go)
  let runnable := listen.all (fun (a, p, _) => (isUI && cs.isEmpty) || (!a.isEmpty && handledProtos.contains p))
  let spec := out != "panic" && (out != "cfg" || runnable) && stable
  let tag :=
    if out == "panic" then "panic"
    else if !stable then "same-input-different-listener"
    else if out == "cfg" && !runnable then "accepted-listener-cannot-be-started"
    else if outside then "outside-unquote-fragment"
    else mtag
  let nontrivial := cs.contains ';' || cs.contains ','
  return ({ model := mj, agree := agree, spec := spec, nontrivial := nontrivial, tag := tag } : Verdict).toJson

/-! ### c15.slices -/

def joinWith (sep : Str) : List Str → Str
  | [] => []
  | [a] => a
  | a :: t => a ++ sep ++ joinWith sep t

def slicesH : Handler := fun inp impl => do
  let isFloat ← inp.getObjValAs? Bool "float"
  let dflt ← strArr (← inp.getObjVal? "dflt")
  let sets ← strArr (← inp.getObjVal? "sets")
  if (impl.getObjVal? "harness_error").toOption.isSome then
    return ({ model := Json.null, agree := true, spec := true, nontrivial := false, tag := "harness-skip" } : Verdict).toJson
  if isPanicJson impl then
    return ({ model := Json.null, agree := false, spec := false, nontrivial := true, tag := "panic" } : Verdict).toJson
  let value ← impl.getObjValAs? String "value"
  let errAt ← impl.getObjValAs? Int "err_at"
  let backing ← strArr (← impl.getObjVal? "backing")
  let before ← strArr (← impl.getObjVal? "before")
  let fieldsJ ← (← impl.getObjVal? "fields").getArr?
  let tab : List (Str × Bool × Str) := fieldsJ.toList.filterMap (fun x =>
    match x.getArr? with
    | .ok #[f, ok, c] => match f.getStr?, ok.getBool?, c.getStr? with
      | .ok f, .ok ok, .ok c => some (S f, ok, S c)
      | _, _, _ => none
    | _ => none)
  let parse : Str → Option Str :=
    if isFloat then fun f => match tab.find? (fun r => r.1 == f) with
      | some (_, true, c) => some c
      | _ => none
    else some
  let sep : Str := if isFloat then [','] else [Char.ofNat 0]
  -- the model: the store holds the default's array; the variable starts as the default slice
  let h0 : Store Str := [before.map S]
  let v0 : SliceH := { arr := 0, len := dflt.length, cap := before.length }
  let (hN, vN, mErr, _) := sets.foldl (fun (acc : Store Str × SliceH × Int × Int) s =>
      let (h, _, e, i) := acc
      let r := sliceSet ([] : Str) (fun n => n) parse h (S s)
      (r.1, r.2.1, (if !r.2.2 && e < 0 then i else e), i + 1)) (h0, v0, (-1 : Int), (0 : Int))
  let mvalue := joinWith sep (hN.read vN)
  let mbacking := (hN[0]?).getD []
  let mj := Json.mkObj [("value", J mvalue), ("err_at", mErr), ("backing", Json.arr (mbacking.map J).toArray)]
  let agree := (sets.isEmpty || S value == mvalue) && errAt == mErr && backing.map S == mbacking
  -- specification: the default's array is what it was, and the value is a function of the last string
  let untouched := backing == before
  let valueOK := match sets.getLast? with
    | none => true
    | some s => S value == joinWith sep (setValue parse (listFields (S s)))
  let spec := untouched && valueOK
  let tag :=
    if !untouched then "default-array-overwritten"
    else if !valueOK then "value-not-a-function-of-the-string"
    else if errAt ≥ 0 then "element-does-not-parse"
    else s!"{if isFloat then "float" else "string"}-sets{sets.length}"
  let nontrivial := !sets.isEmpty && !dflt.isEmpty
  return ({ model := mj, agree := agree, spec := spec, nontrivial := nontrivial, tag := tag } : Verdict).toJson

def streams : List (String × Handler) :=
  [("c15.flagtable", flagtableH), ("c15.sources", sourcesH), ("c15.kvslice", kvsliceH), ("c15.robust", robustH),
   ("c15.cmdline", cmdlineH), ("c15.listen", listenH), ("c15.slices", slicesH)]
end Fabio.Driver.C15
