import Fabio.Driver.Proto
import Fabio.Model.C15
import Fabio.Props.C15
import Fabio.Generated.C15
namespace Fabio.Driver.C15
open Lean Fabio.Driver Fabio.Model.C15

def S (s : String) : Str := s.toList
def J (s : Str) : Json := Json.str (String.ofList s)

def isPanicJson (j : Json) : Bool := (j.getObjVal? "panic").toOption.isSome

def strArr (j : Json) : Except String (List String) := do
  let a ← j.getArr?
  a.toList.mapM (fun x => x.getStr?)

def pairArr (j : Json) : Except String (List (Str × Str)) := do
  let a ← j.getArr?
  a.toList.mapM (fun x => do
    let p ← strArr x
    match p with
    | [k, v] => pure (S k, S v)
    | _ => throw "pair expected")

def optStr (j : Json) : Option String :=
  match j with
  | .str s => some s
  | _ => none

def fabioPrefixes : List Str := [S "FABIO_", []]

/-! ### c15.flagtable -/

def usageWord (kind : String) : String :=
  if kind == "kvslice" then "string" else if kind == "stringslice" then "value"
  else if kind == "floatslice" then "numlist" else kind

def flagtableH : Handler := fun _ impl => do
  let rows ← (do
    let a ← impl.getArr?
    a.toList.mapM (fun x => do
      let p ← strArr x
      match p with
      | [k, v] => pure (k, v)
      | _ => throw "pair expected"))
  let model := Fabio.Generated.C15.flagTable.map (fun (n, k, _) => (String.ofList n, usageWord k))
  let mj := Json.arr (model.map (fun (n, k) => Json.arr #[Json.str n, Json.str k])).toArray
  let agree := model == rows
  -- specification on the implementation's own table: no two flags share an environment variable
  let spec := Fabio.Props.C15.noCollision fabioPrefixes (rows.map (fun r => S r.1))
  return ({ model := mj, agree := agree, spec := spec, nontrivial := rows.length > 1,
            tag := if !spec then "env-name-collision" else if agree then "table" else "table-differs" } : Verdict).toJson

/-! ### c15.sources -/

def digestsOf (j : Json) : Except String (List String) := strArr j

def sourcesH : Handler := fun inp impl => do
  let flag ← inp.getObjValAs? String "flag"
  let valsJ ← (← inp.getObjVal? "vals").getArr?
  let vals : List (Option String) := valsJ.toList.map optStr
  if vals.length != 4 then throw "vals must have 4 entries"
  let args ← pairArr (← inp.getObjVal? "args")
  let env ← strArr (← inp.getObjVal? "env")
  let propsJ := (inp.getObjVal? "props").toOption.getD Json.null
  let props : Option Map ← (match propsJ with
    | .null => pure none
    | j => do let l ← pairArr j; pure (some l.reverse))   -- a later line overwrites an earlier one
  let src : Sources := { cmd := args, environ := env.map S, prefixes := fabioPrefixes, props := props }
  let ci := impl
  if (ci.getObjVal? "harness_error").toOption.isSome then
    return ({ model := Json.null, agree := true, spec := true, nontrivial := false, tag := "harness-skip" } : Verdict).toJson
  if isPanicJson ci then
    return ({ model := Json.null, agree := false, spec := false, nontrivial := true, tag := "panic" } : Verdict).toJson
  let combined ← ci.getObjValAs? String "combined"
  let dflt ← ci.getObjValAs? String "dflt"
  let effJ ← (← ci.getObjVal? "eff").getArr?
  let eff : List (Option (List String)) := effJ.toList.map (fun j => (strArr j).toOption)
  let effAt (s c : Nat) : Option String := do
    let row ← eff[s]?
    let r ← row
    r[c]?
  -- model: ParseFlags on the raw inputs
  let (msrc, mraw, mpanic) := match resolve (S flag) [] src with
    | .ok (sr, raw) => (sr, raw, false)
    | .panic _ => (Src.dflt, [], true)
  let midx : Nat := match msrc with
    | .cmdline => 0 | .env i => 1 + i | .props => 3 | .dflt => 4
  let mj := Json.mkObj [("src", midx), ("raw", J mraw), ("panic", mpanic)]
  let agree :=
    !mpanic &&
    (if midx == 4 then combined == dflt
     else (effAt midx midx == some combined) && ((vals[midx]?).join == some (String.ofList mraw)))
  -- specification, independent of the model: first source that is set wins; the same value has the same
  -- effect through every channel
  let setIdx := (List.range 4).filter (fun s => (vals[s]?).join.isSome)
  let precOK := match setIdx.head? with
    | none => combined == dflt
    | some s => effAt s s == some combined
  let anyPanic := combined == "panic" || dflt == "panic" ||
    eff.any (fun r => match r with | some l => l.any (· == "panic") | none => false)
  let equivBad : Option Nat := setIdx.findSome? (fun s =>
    match (eff[s]?).join with
    | none => some s
    | some row =>
      let ds := row.filter (· != "n/a")
      match ds with
      | [] => none
      | d :: rest => if rest.all (· == d) then none else some s)
  let spec := precOK && equivBad.isNone && !anyPanic
  let selfEff := setIdx.filterMap (fun s => effAt s s)
  let distinct := Fabio.Props.C15.allDistinct selfEff
  let nontrivial := setIdx.length ≥ 2 && distinct
  let tag :=
    if anyPanic then "panic"
    else if let some s := equivBad then s!"same-value-different-effect-src{s}"
    else if !precOK then s!"precedence-expected-src{setIdx.head?.getD 4}"
    else s!"win{setIdx.head?.getD 4}-of-{setIdx.length}"
  return ({ model := mj, agree := agree, spec := spec, nontrivial := nontrivial, tag := tag } : Verdict).toJson

/-! ### c15.kvslice -/

def strLt : Str → Str → Bool
  | [], [] => false
  | [], _ :: _ => true
  | _ :: _, [] => false
  | a :: as, b :: bs => if a.toNat < b.toNat then true else if a.toNat > b.toNat then false else strLt as bs

def insertSorted (x : Str × Str) : Map → Map
  | [] => [x]
  | y :: ys => if strLt x.1 y.1 then x :: y :: ys else y :: insertSorted x ys

def sortMap (m : Map) : Map := m.foldl (fun acc x => insertSorted x acc) []

def mapsJson (ms : List Map) : Json :=
  Json.arr (ms.map (fun m => Json.arr ((sortMap m).map (fun (k, v) => Json.arr #[J k, J v])).toArray)).toArray

def kvsliceH : Handler := fun inp impl => do
  let s ← inp.getObjValAs? String "s"
  let cs := S s
  let outside := outsideUnquoteFragment cs
  let m := parseKVSlice unquote cs
  let mj : Json := match m with
    | .panic w => Json.mkObj [("panic", w)]
    | .ok (.error e) => Json.mkObj [("err", J e)]
    | .ok (.ok ms) => Json.mkObj [("maps", mapsJson ms), ("nil", ms.isEmpty)]
  let implPanic := isPanicJson impl
  let implMaps := (impl.getObjVal? "maps").toOption
  -- shape of the implementation's own answer: no empty map; nil exactly when there are no maps
  let shapeOK : Bool := match implMaps with
    | none => true
    | some j =>
      match j.getArr? with
      | .error _ => false
      | .ok a =>
        a.all (fun mm => match mm.getArr? with | .ok kv => kv.size > 0 | .error _ => false) &&
        ((impl.getObjValAs? Bool "nil").toOption == some (a.size == 0))
  let spec := !implPanic && shapeOK
  let agree := if outside then !implPanic else mj == impl
  let tag :=
    if implPanic then "panic"
    else if outside then "outside-unquote-fragment"
    else match m with
      | .panic _ => "model-panic"
      | .ok (.error e) =>
        if e == S "unbalanced quotes" then "err-unbalanced-quotes"
        else if e == S "unterminated escape sequence" then "err-unterminated-escape"
        else if e == S "invalid escape sequence" then "err-invalid-escape"
        else "err-unexpected-item"
      | .ok (.ok ms) => s!"maps{ms.length}"
  let seps := cs.filter (fun c => isSep c || isQuote c)
  return ({ model := mj, agree := agree, spec := spec, nontrivial := seps.length ≥ 2, tag := tag } : Verdict).toJson

/-! ### c15.robust -/

def containsSub (hay needle : Str) : Bool :=
  match hay with
  | [] => needle.isEmpty
  | _ :: t => needle.isPrefixOf hay || containsSub t needle

def robustH : Handler := fun inp impl => do
  let args ← pairArr (← inp.getObjVal? "args")
  let env ← strArr (← inp.getObjVal? "env")
  if (impl.getObjVal? "harness_error").toOption.isSome then
    return ({ model := Json.null, agree := true, spec := true, nontrivial := false, tag := "harness-skip" } : Verdict).toJson
  if isPanicJson impl then
    return ({ model := Json.null, agree := false, spec := false, nontrivial := true, tag := "panic-in-harness" } : Verdict).toJson
  let out ← impl.getObjValAs? String "out"
  let msg ← impl.getObjValAs? String "msg"
  let glob ← impl.getObjValAs? Int "glob"
  let run ← impl.getObjValAs? String "run"
  let propsJ := (impl.getObjVal? "props").toOption.getD Json.null
  let props : Option Map ← (match propsJ with
    | .null => pure none
    | j => do let l ← pairArr j; pure (some l))
  let src : Sources := { cmd := args, environ := env.map S, prefixes := fabioPrefixes, props := props }
  -- model: never a panic; glob.cache.size resolved from the sources and validated
  let r := resolve (S "glob.cache.size") (S "1000") src
  let (mpanic, graw) := match r with
    | .ok (_, raw) => (false, raw)
    | .panic _ => (true, [])
  let gval := atoiDec graw
  let predicted : String := match gval with
    | some n => if n ≤ 0 then "reject" else s!"size {n}"
    | none => "unknown"
  let mj := Json.mkObj [("panic", mpanic), ("glob", predicted)]
  let globErr := containsSub (S msg) (S "glob.cache.size")
  let agree := !mpanic && out != "panic" &&
    (if out == "cfg" then
       (match gval with | some n => n ≥ 1 && glob == n | none => true)
     else if globErr then (match gval with | some n => n ≤ 0 | none => true)
     else true)
  let spec := out != "panic" && (out != "cfg" || (glob ≥ 1 && run != "panic"))
  let noEq := env.any (fun e => !(S e).contains '=')
  let weird := noEq || env.any (fun e => (S e).head? == some '=') || props.isSome
    || (inp.getObjValAs? String "focus").toOption.isSome
  let tag :=
    if out == "panic" then
      (if noEq && containsSub (S msg) (S "[1] with length 1") then "panic-env-entry-without-eq"
       else match (inp.getObjValAs? String "focus_kind").toOption with
         | some k => s!"panic-on-degenerate-{k}-value"
         | none => "panic-other")
    else if out == "cfg" then
      (if glob ≤ 0 then "accepted-glob-cache-size-below-1" else if run == "panic" then "accepted-but-glob-cache-panics" else "cfg")
    else if globErr then "err-glob-cache-size"
    else if (S msg).take 11 == S "properties:" || containsSub (S msg) (S "circular") then "err-properties"
    else "err-other"
  return ({ model := mj, agree := agree, spec := spec, nontrivial := weird, tag := tag } : Verdict).toJson

def streams : List (String × Handler) :=
  [("c15.flagtable", flagtableH), ("c15.sources", sourcesH), ("c15.kvslice", kvsliceH), ("c15.robust", robustH)]
end Fabio.Driver.C15
