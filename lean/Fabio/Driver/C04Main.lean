import Fabio.Driver.C04
def main : IO Unit := Fabio.Driver.run Fabio.Driver.C04.streams
