import Fabio.Driver.Proto
import Fabio.Model.C06
import Fabio.Model.C06Access
/-!
Driver handlers for C06.

Sequential streams (`c06.globcache`, `c06.rr`, `c06.redirect`): the model programs are run under the
sequential schedule and compared exactly with the implementation, call by call; both the repaired and the
"current" micro-step programs are run and must agree with each other sequentially (tag `model-forms-differ`).

Race streams (`c06.*-race`): the implementation's counts are judged by the specification predicates of the
model (`targetShare` — the exact share the theorem `rr_target_share_any_schedule` promises for EVERY
schedule —, the cache bound of `globcache_inv`, no foreign Location, no panic, no race report).
-/
namespace Fabio.Driver.C06
open Lean Fabio.Driver Fabio.Model.C06

def panicJson : Json := Json.mkObj [("panic", true)]

def canonImpl (j : Json) : Json :=
  match j.getObjVal? "panic" with
  | .ok _ => panicJson
  | .error _ => j

def natsJson (xs : List Nat) : Json := Json.arr (xs.map (fun (n : Nat) => toJson n)).toArray
def sortNats (xs : List Nat) : List Nat := (xs.toArray.qsort (· < ·)).toList
def getNatD (j : Json) (k : String) (d : Nat := 0) : Nat := (j.getObjValAs? Nat k).toOption.getD d
def getBoolD (j : Json) (k : String) (d : Bool := false) : Bool := (j.getObjValAs? Bool k).toOption.getD d
def getNats (j : Json) (k : String) : List Nat := ((j.getObjValAs? (Array Nat) k).toOption.getD #[]).toList

/-- run one thread to completion on its own -/
def runSeq (steps : List St) (s : State) (l : Local) : State × Local :=
  let r := Fabio.Model.C06.run (List.replicate steps.length 0) [{ steps := steps, loc := l }] s
  (r.1, (r.2.head?.map (·.loc)).getD l)

/-! ### c06.globcache -/

structure GcStep where
  ok : Bool
  keys : List Nat
  l : List Nat
  h : Nat
  n : Nat
deriving BEq

def GcStep.toJson (x : GcStep) : Json :=
  Json.mkObj [("ok", x.ok), ("keys", natsJson x.keys), ("l", natsJson x.l), ("h", x.h), ("n", x.n)]

def gcStepOf (j : Json) : GcStep :=
  { ok := getBoolD j "ok", keys := getNats j "keys", l := getNats j "l", h := getNatD j "h", n := getNatD j "n" }

/-- fold the ops through one form of `Get`; `none` = the goroutine panicked -/
def gcModel (get : Nat → List St) (size : Nat) (ops : List Nat) : Option (List GcStep) :=
  let rec go (s : State) (l : Local) (acc : List GcStep) : List Nat → Option (List GcStep)
    | [] => some acc.reverse
    | p :: ps =>
      let (s', l') := runSeq (get p) s l
      if l'.dead then none else
      let ok := match l'.gets.getLast? with
        | some (_, .ok _) => true
        | _ => false
      go s' l' ({ ok := ok, keys := sortNats (keys s'.cache.m), l := s'.cache.l, h := s'.cache.h, n := s'.cache.n } :: acc) ps
  go { cache := Cache.new size } {} [] ops

def gcH : Handler := fun inp impl => do
  let size ← inp.getObjValAs? Nat "size"
  let univ ← inp.getObjValAs? (Array String) "universe"
  let ops0 ← inp.getObjValAs? (Array Nat) "ops"
  let ops := ops0.toList.map (· + 1)          -- pattern ids are universe index + 1 (0 = unused ring slot)
  let ci := canonImpl impl
  let compiles := ((impl.getObjValAs? (Array Bool) "compiles").toOption.getD (univ.map fun _ => true))
  let compile : Nat → Option Nat := fun p => if compiles.getD (p - 1) false then some p else none
  let mRep := gcModel (getRepaired compile) size ops
  let mCur := gcModel (getCurrent compile) size ops
  let formsAgree := mRep == mCur
  let model := match mRep with
    | none => panicJson
    | some steps => Json.mkObj [("compiles", toJson compiles), ("steps", Json.arr (steps.map GcStep.toJson).toArray)]
  let implSteps := ((ci.getObjVal? "steps").toOption.bind (fun j => j.getArr?.toOption)).map (fun a => a.toList.map gcStepOf)
  let agree := formsAgree && (match mRep, implSteps with
    | none, _ => ci == panicJson
    | some ms, some is => ms == is
    | _, _ => false)
  -- the property on the implementation's own output
  let spec := size == 0 || (match implSteps with
    | none => false
    | some is => is.length == ops.length &&
        (is.zip ops).all (fun (st, p) => cacheOK size st.keys st.l st.h st.n && st.ok == compiles.getD (p - 1) false))
  let distinct := (ops.eraseDups).length
  let evicts := distinct > size
  let bad := ops.any (fun p => !(compiles.getD (p - 1) false))
  let tag := if !formsAgree then "model-forms-differ" else if size == 0 then "size0"
    else if bad then (if evicts then "evict+compile-error" else "compile-error") else if evicts then "evict" else "fill"
  return ({ model := model, agree := agree, spec := spec, nontrivial := decide (size ≥ 1) && evicts, tag := tag } : Verdict).toJson

/-! ### c06.rr -/

def rrH : Handler := fun inp impl => do
  let start ← inp.getObjValAs? Nat "start"
  let picks ← inp.getObjValAs? Nat "picks"
  let weights ← inp.getObjValAs? (Array Nat) "weights"
  let ci := canonImpl impl
  let ring := getNats ci "ring"
  let N := ring.length
  let s0 : State := { total := start }
  let (sR, lR) := runSeq (rrThreadRepaired N picks).steps s0 {}
  let (sC, lC) := runSeq (rrThreadCurrent N picks).steps s0 {}
  let formsAgree := sR.total == sC.total && lR.picks == lC.picks && lR.dead == lC.dead
  let ringA := ring.toArray
  let seq := lR.picks.map (fun i => ringA[i]?.getD 0)
  let model := if lR.dead then panicJson else
    Json.mkObj [("ring", natsJson ring), ("seq", natsJson seq), ("cursor", sR.total)]
  let agree := formsAgree && model == ci
  let implSeq := getNats ci "seq"
  let spec := ci != panicJson && getNatD ci "cursor" == start + picks && implSeq.length == picks &&
    (List.range weights.size).all (fun t => implSeq.count t == targetShareFast ring start picks t)
  let tag := if !formsAgree then "model-forms-differ" else
    if N == weights.size then (if picks ≥ N then "plain-cycles" else "plain-partial")
    else (if picks ≥ N then "weighted-cycles" else if start % N + picks > N then "weighted-wrap" else "weighted-partial")
  return ({ model := model, agree := agree, spec := spec, nontrivial := decide (picks ≥ 2), tag := tag } : Verdict).toJson

/-! ### c06.redirect

The model's `build` is a parameter; the driver instantiates it with what the implementation answers to the same
request on a freshly built table that has seen nothing else (`alone_*`, shipped by the harness).  The repaired
model program hands request `k` exactly `build k`; the specification demands the same of the implementation:
the answer to request `k` in the sequence equals the answer to request `k` alone. -/

def rdClass (tmpl : Nat) : String :=
  if tmpl ≤ 2 then "path-only" else if tmpl ≤ 4 then "host-only" else if tmpl == 7 then "fixed" else "host+path"

def rdSimplePrefix (tmpl : Nat) : String := if tmpl == 2 then "https://to.example/new" else "https://to.example"

def rdH : Handler := fun inp impl => do
  let tmpl ← inp.getObjValAs? Nat "tmpl"
  let src := getNatD inp "src"
  let strip := (inp.getObjValAs? String "strip").toOption.getD ""
  let prepend := (inp.getObjValAs? String "prepend").toOption.getD ""
  let reqs := ((inp.getObjVal? "reqs").toOption.bind (fun j => j.getArr?.toOption)).getD #[]
  let n := reqs.size
  let ci := canonImpl impl
  let implArr := (ci.getArr?.toOption.getD #[])
  let str (j : Json) (k : String) : String := (j.getObjValAs? String k).toOption.getD ""
  -- requests are identified by their index; `build` = the isolated answer to that request
  let (_, lR) := runSeq (rdThreadRepaired id (List.range n)).steps {} {}
  let (_, lC) := runSeq (rdThreadCurrent id (List.range n)).steps {} {}
  let formsAgree := lR.locs == lC.locs
  let answer (code : Nat) (loc : String) : Json := Json.mkObj [("code", code), ("location", loc)]
  let model := Json.arr (lR.locs.map (fun (_, loc) =>
    match loc with
    | some q => let a := implArr.getD q Json.null; answer (getNatD a "alone_code") (str a "alone_location")
    | none => Json.null)).toArray
  let got := Json.arr (implArr.map (fun a => answer (getNatD a "code") (str a "location")))
  let agree := formsAgree && implArr.size == n && model == got
  -- closed form for the simplest class (plain path templates, no options, no escapes): prefix ++ path ++ ?query
  let simple := tmpl ≤ 2 && src == 0 && strip == "" && prepend == ""
  let closedOK := (implArr.toList.zip reqs.toList).all (fun (a, q) =>
    let path := str q "path"
    let qs := str q "query"
    !simple || path.toList.contains '%' ||
      (str a "location" == rdSimplePrefix tmpl ++ (if path == "/" && tmpl == 1 then "/" else path) ++ (if qs == "" then "" else "?" ++ qs)
        && getNatD a "code" == 301))
  let isolated := implArr.size == n && implArr.all (fun a =>
    str a "location" == str a "alone_location" && getNatD a "code" == getNatD a "alone_code")
  let spec := isolated && closedOK
  let hosts := (reqs.toList.map (fun q => str q "host")).eraseDups.length
  let paths := (reqs.toList.map (fun q => str q "path")).eraseDups.length
  let cls := rdClass tmpl ++ (if strip != "" then "+strip" else "") ++ (if prepend != "" then "+prepend" else "")
  let tag := if !formsAgree then "model-forms-differ" else if !isolated then "cross-request:" ++ cls
    else if !closedOK then "closed-form:" ++ cls else cls
  return ({ model := model, agree := agree, spec := spec,
            nontrivial := decide (n ≥ 2) && (decide (hosts ≥ 2) || decide (paths ≥ 2)), tag := tag } : Verdict).toJson

/-! ### access decisions (`c06.access`, and the classes of `c06.access-race`)

The harness ships the numeric forms of its address and block pools; rules and requests refer to them by index.
The decision is `Model.C06.accessDenied` (the closed form of `Target.AccessDeniedHTTP`; the interleaving theorem
`Props.C06Access.access_decision_any_schedule` says every request observes exactly this under any schedule). -/

def addrOf (j : Json) : Option Addr :=
  let bits := getNatD j "bits"
  if bits == 0 then none else some { bits := bits, val := getNatD j "val" }

def blockOf (j : Json) : Block := { bits := getNatD j "bits", val := getNatD j "val", plen := getNatD j "plen" }

def jsonArr (j : Json) (k : String) : Array Json := ((j.getObjVal? k).toOption.bind (fun a => a.getArr?.toOption)).getD #[]

structure AccPools where
  blocks : Array Block
  addrs : Array (Option Addr)

def poolsOf (j : Json) : AccPools :=
  { blocks := (jsonArr j "blocks").map blockOf, addrs := (jsonArr j "addrs").map addrOf }

/-- rule kinds of the harness: 0 none, 1 allow, 2 deny, 3 allow and deny together, 4/5 a list with an item that
does not parse — the last three deny everybody (`denyAll`: an allow list without blocks) -/
def rulesOf (p : AccPools) (j : Json) : Rules :=
  let bs := (getNats j "blocks").map (fun i => p.blocks.getD i ⟨0, 0, 0⟩)
  match getNatD j "kind" with
  | 0 => .none
  | 1 => .allow bs
  | 2 => .deny bs
  | _ => .allow []

def accReqOf (p : AccPools) (j : Json) : AccReq :=
  let remote := getNatD j "remote"
  { remote := (p.addrs.getD remote none), noport := getBoolD j "noport",
    xff := (getNats j "xff").map (fun i => (i == remote, p.addrs.getD i none)) }

def rulesClass (j : Json) : String :=
  match getNatD j "kind" with
  | 0 => "none" | 1 => "allow" | 2 => "deny" | 3 => "allow+deny" | _ => "unparsable-rule"

def accH : Handler := fun inp impl => do
  let ci := canonImpl impl
  let pools := poolsOf ((ci.getObjVal? "pools").toOption.getD Json.null)
  let rj := (inp.getObjVal? "rules").toOption.getD Json.null
  let rules := rulesOf pools rj
  let reqs := (jsonArr inp "reqs").toList
  let answers := (jsonArr ci "answers").toList
  let want := reqs.map (fun q => if accessDenied rules (accReqOf pools q) then 403 else 301)
  let got := answers.map (fun a => getNatD a "code")
  -- the TCP / gRPC entry points look at the remote address alone
  let hasDirect := answers.all (fun a => (a.getObjVal? "direct").toOption.isSome)
  let wantAddr := reqs.map (fun q => denyByIP rules (accReqOf pools q).remote)
  let model := Json.mkObj [("codes", natsJson want), ("addr_denied", toJson wantAddr), ("direct", toJson (want.map (· == 403)))]
  let agree := ci != panicJson && got == want &&
    answers.map (fun a => getBoolD a "addr_denied") == wantAddr && answers.map (fun a => getBoolD a "tcp_denied") == wantAddr &&
    (!hasDirect || answers.map (fun a => getBoolD a "direct") == want.map (· == 403))
  let isolated := answers.length == reqs.length && answers.all (fun a =>
    getNatD a "code" == getNatD a "alone_code" && getBoolD a "addr_denied" == getBoolD a "alone_denied" &&
    getBoolD a "direct" == getBoolD a "alone_direct")
  let spec := isolated && agree
  let hasXff := reqs.any (fun q => !(getNats q "xff").isEmpty)
  let odd := reqs.any (fun q => getBoolD q "noport" || (accReqOf pools q).remote.isNone)
  let cls := rulesClass rj ++ (if hasXff then "+xff" else "") ++ (if odd then "+bad-remote" else "")
  let tag := if ci == panicJson then "panic:" ++ cls else if !isolated then "cross-request:" ++ cls
    else if !agree then "decision:" ++ cls else cls
  return ({ model := model, agree := agree, spec := spec,
            nontrivial := decide (reqs.length ≥ 2) && getNatD rj "kind" != 0, tag := tag } : Verdict).toJson

/-- the classes of the stress scenario: every request of a class must have got the decision of the model -/
def accessClassesOK (acc : Json) : Bool :=
  let pools := poolsOf ((acc.getObjVal? "pools").toOption.getD Json.null)
  let rules := (jsonArr acc "rules").map (rulesOf pools)
  let clients := (jsonArr acc "clients").map (accReqOf pools)
  (jsonArr acc "classes").all (fun c =>
    let n := getNatD c "n"
    let deny := accessDenied (rules.getD (getNatD c "route") .none) (clients.getD (getNatD c "client") { remote := none })
    getNatD c "other" == 0 && getNatD c "denied" == (if deny then n else 0))

def accessRequests (acc : Json) : Nat := ((jsonArr acc "classes").toList.map (fun c => getNatD c "n")).sum

/-! ### c06.isolation

Whole lookups on one shared table + one shared glob cache; the model's `build` is, as for `c06.redirect`, the answer
the same request gets from a fresh table and a fresh cache.  Everything but the load-balancing choice must be equal. -/

def isoH : Handler := fun inp impl => do
  let reqs := (jsonArr inp "reqs").toList
  let n := reqs.length
  let ci := canonImpl impl
  let pairs := (ci.getArr?.toOption.getD #[]).toList
  let (_, lR) := runSeq (rdThreadRepaired id (List.range n)).steps {} {}
  let alone (k : Nat) : Json := ((pairs[k]?.bind (fun p => (p.getObjVal? "alone").toOption)).getD Json.null)
  let model := Json.arr (lR.locs.map (fun (_, loc) => match loc with | some q => alone q | none => Json.null)).toArray
  let got := Json.arr (pairs.map (fun p => (p.getObjVal? "got").toOption.getD Json.null)).toArray
  let agree := ci != panicJson && pairs.length == n && model == got
  let differs (k : String) : Bool := pairs.any (fun p =>
    ((p.getObjVal? "got").toOption.bind (fun g => (g.getObjVal? k).toOption)) !=
    ((p.getObjVal? "alone").toOption.bind (fun g => (g.getObjVal? k).toOption)))
  let cls := (if getBoolD inp "globoff" then "glob-off" else "glob-evict") ++ (if getBoolD inp "rnd" then "+rnd" else "+rr")
  let tag := if ci == panicJson then "panic:" ++ cls else if agree then cls
    else if differs "service" then "cross-request:service:" ++ cls
    else if differs "target" then "cross-request:target:" ++ cls
    else if differs "denied" then "cross-request:access:" ++ cls
    else "cross-request:redirect:" ++ cls
  let hosts := (reqs.map (fun q => getNatD q "host")).eraseDups.length
  return ({ model := model, agree := agree, spec := agree, nontrivial := decide (n ≥ 2) && decide (hosts ≥ 2), tag := tag } : Verdict).toJson

/-! ### race streams -/

structure RouteObs where
  k : Nat
  cursor : Nat
  ring : List Nat
  counts : List Nat
  rnd : Bool
  ringChanged : Bool

def routeObsOf (j : Json) : RouteObs :=
  { k := getNatD j "k", cursor := getNatD j "cursor", ring := getNats j "ring", counts := getNats j "counts",
    rnd := (j.getObjValAs? String "picker").toOption == some "rnd", ringChanged := getBoolD j "ring_changed" }

/-- exact share of every target after `k` lookups from cursor 0 (`rr_target_share_any_schedule`; evaluated
cycle-wise, equal to `targetShare` by `targetShareFast_eq`) -/
def expectedCounts (r : RouteObs) : List Nat :=
  (List.range r.counts.length).map (fun t => targetShareFast r.ring 0 r.k t)

def stressH : Handler := fun _inp impl => do
  if (impl.getObjVal? "harness_error").toOption.isSome then
    return ({ model := Json.null, agree := false, spec := true, nontrivial := false, tag := "harness-error" } : Verdict).toJson
  let crashed := getBoolD impl "crashed" true
  let race := getBoolD impl "race" true
  let raceEnabled := getBoolD impl "race_enabled"
  let panics := getNatD impl "panics"
  let mismatch := getNatD impl "mismatch"
  let lookups := getNatD impl "lookups"
  let routes := ((impl.getObjVal? "routes").toOption.bind (fun j => j.getArr?.toOption)).getD #[] |>.toList |>.map routeObsOf
  -- single-target routes never call the picker: their cursor stays 0
  -- strategy rnd (`rnd_pick_is_a_ring_slot`): the cursor is never touched and only targets owning a ring slot
  -- (positive weight) are chosen; strategy rr: the exact share
  let shareOK := routes.all (fun r =>
    r.counts.sum == r.k &&
    (if r.rnd then
       r.cursor == 0 && ((List.range r.counts.length).zip r.counts).all (fun (t, c) => c == 0 || r.ring.contains t)
     else
       (if r.counts.length ≤ 1 then r.cursor == 0 else r.cursor == r.k) && r.counts == expectedCounts r))
  let cache := (impl.getObjVal? "cache").toOption.getD Json.null
  let cacheOK := getNatD cache "entries" ≤ getNatD cache "size" && getNatD cache "n" ≤ getNatD cache "size" &&
    getNatD cache "h" < max (getNatD cache "n") 1 && getNatD cache "l" == getNatD cache "size" &&
    -- sampled under the cache's mutex while lookups were in flight: |map| = n ≤ size at every sample
    getNatD cache "inflight_bad" == 0
  -- the ring and the target list of a published table are what they were when it was built
  -- (`published_table_any_schedule`: nothing that runs on a published table writes to it)
  let ringOK := routes.all (fun r => !r.ringChanged)
  let access := (impl.getObjVal? "access").toOption
  let accessOK := match access with
    | some a => accessClassesOK a
    | none => true
  let accounted := (routes.map (·.k)).sum + (match access with | some a => accessRequests a | none => 0)
  let model := Json.mkObj [("crashed", false), ("race", false), ("panics", (0 : Nat)), ("mismatch", (0 : Nat)),
    ("routes", Json.arr (routes.map (fun r => if r.rnd then Json.str "any ring slot" else natsJson (expectedCounts r))).toArray),
    ("cache_ok", true), ("ring_unchanged", true), ("access_ok", true)]
  let agree := !crashed && panics == 0 && mismatch == 0 && ringOK && shareOK && cacheOK && accessOK
  let spec := agree && !race
  let tag := if crashed then "crash" else if panics > 0 then "panic" else if mismatch > 0 then
      (if routes.isEmpty then "location-crosstalk" else "wrong-target")
    else if !ringOK then "ring-mutated"
    else if !shareOK then "lost-share" else if !cacheOK then "cache-overflow"
    else if !accessOK then "access-crosstalk" else if race then "data-race"
    else if !raceEnabled then "no-race-detector"
    else (if access.isSome then "ok-access" else if routes.isEmpty then "ok-redirect"
          else if routes.any (·.rnd) then "ok-rnd" else "ok") ++ (if getNatD impl "reads" > 0 then "+readers" else "")
  return ({ model := model, agree := agree, spec := spec,
            nontrivial := raceEnabled && decide (lookups ≥ 1000) &&
              ((routes.isEmpty && access.isNone) || decide (accounted ≥ 1000)),
            tag := tag } : Verdict).toJson

def streams : List (String × Handler) :=
  [("c06.globcache", gcH), ("c06.rr", rrH), ("c06.redirect", rdH),
   ("c06.rr-race", stressH), ("c06.glob-race", stressH), ("c06.redirect-race", stressH), ("c06.mixed-race", stressH),
   ("c06.rnd-race", stressH), ("c06.access", accH), ("c06.access-race", stressH), ("c06.isolation", isoH)]
end Fabio.Driver.C06
