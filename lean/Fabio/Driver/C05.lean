import Fabio.Driver.Proto
import Fabio.Driver.RouteJson
import Fabio.Model.Route
namespace Fabio.Driver.C05
open Lean Fabio.Driver Fabio.Driver.RouteJson Fabio.Model.Route

def errName : Err → String
  | .invalidPrefix => "invalidPrefix" | .invalidTarget => "invalidTarget" | .badURL => "badURL"
  | .badGlob => "badGlob" | .noMatch => "noMatch" | .invalidCommand => "invalidCommand"

def defsOf (inp : Json) : Except String (List RouteDef) := do
  let a ← inp.getObjValAs? (Array Json) "defs"
  a.toList.mapM routeDef

/-- the oracle travels in the input but is recomputed by the harness on replay; the driver reads it from
the *implementation line* when present there, else from the input -/
def scriptH : Handler := fun inp impl => do
  let defs ← defsOf inp
  let env := envOf ((inp.getObjVal? "oracle").toOption.getD (Json.mkObj []))
  let m : Json := match newTable env defs with
    | .error e => Json.mkObj [("error", errName e)]
    | .ok t => Json.mkObj [("table", tableJson t)]
  let agree := closeJson m impl
  let tag := match newTable env defs with
    | .error e => "err-" ++ errName e
    | .ok t => if t.isEmpty then "empty" else "table"
  return ({ model := m, agree, spec := true, nontrivial := tag == "table", tag } : Verdict).toJson

def streams : List (String × Handler) := [("c05.script", scriptH)]
end Fabio.Driver.C05
