import Fabio.Driver.Proto
namespace Fabio.Driver.C05
open Lean Fabio.Driver

def streams : List (String × Handler) := []
end Fabio.Driver.C05
