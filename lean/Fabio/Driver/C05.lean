import Fabio.Driver.Proto
import Fabio.Driver.RouteJson
import Fabio.Model.Route
import Fabio.Model.Parse
import Fabio.Model.C05Spec
import Fabio.Model.C05Glue
import Fabio.Model.C05Lang
/-!
Driver handlers for C05. `agree` compares the model (`Model/Route.lean`, `Model/Parse.lean`) with the real code;
`spec` evaluates the property's sentences on the implementation's own output: the table must be the one the
*spec machine* (`Model/C05Spec.lean`) prescribes for the commands, repeated adds and re-cased hosts must not
change it, no empty route or host may remain, and the rendered text must rebuild the table.
-/
namespace Fabio.Driver.C05
open Lean Fabio.Driver Fabio.Driver.RouteJson Fabio.Model.Route Fabio.Model.Parse Fabio.Model.C05Spec Fabio.Model.C05Glue

def errName : Err → String
  | .invalidPrefix => "invalidPrefix" | .invalidTarget => "invalidTarget" | .badURL => "badURL"
  | .badGlob => "badGlob" | .noMatch => "noMatch" | .invalidCommand => "invalidCommand"

def synName : SynErr → String
  | .routeExpected => "routeExpected" | .addInvalid => "addInvalid" | .delInvalid => "delInvalid"
  | .weightInvalid => "weightInvalid" | .weightValue => "weightValue"

def xerrName : XErr → String
  | .invalidWeight => "invalidWeight"
  | .table e => errName e

def isNonFiniteStr (s : String) : Bool := s == "nan" || s == "inf" || s == "-inf"

/-- a definition of a script: the weight is the exact rational of the float64, or "nan" / "inf" / "-inf" -/
def wdefOf (j : Json) : Except String WDef := do
  let cmd ← j.getObjValAs? String "cmd"
  let (w, bad) ← match j.getObjVal? "weight" with
    | .ok (.str s) =>
      if isNonFiniteStr s then pure ((0 : Rat), true) else
      match parseRat s with
      | some r => pure (r, false)
      | none => throw s!"bad weight {s}"
    | _ => pure ((0 : Rat), false)
  let tags ← strList ((j.getObjVal? "tags").toOption.getD .null)
  let opts ← pairList ((j.getObjVal? "opts").toOption.getD .null)
  return { d := { cmd := cmdOf cmd, service := getStrD j "service", src := getStrD j "src", dst := getStrD j "dst",
                  weight := w, tags, opts }, bad }

def wdefsOf (inp : Json) : Except String (List WDef) := do
  let a ← inp.getObjValAs? (Array Json) "defs"
  a.toList.mapM wdefOf

def defsOf (inp : Json) : Except String (List RouteDef) := do
  let a ← inp.getObjValAs? (Array Json) "defs"
  a.toList.mapM routeDef

def objOr (j : Json) (k : String) : Json := (j.getObjVal? k).toOption.getD (Json.mkObj [])

/-- the oracle travels on the implementation line (recomputed on replay), else in the input -/
def oracleOf (inp impl : Json) : Json :=
  match impl.getObjVal? "oracle" with
  | .ok o => o
  | .error _ => objOr inp "oracle"

def pfOf (o : Json) : ParseFloat :=
  let p := objOr o "pf"
  fun s => match p.getObjVal? (String.ofList s) with
    | .ok (.str "nan") => some .nan
    | .ok (.str "inf") => some .posInf
    | .ok (.str "-inf") => some .negInf
    | .ok (.str r) => (parseRat r).map .fin
    | _ => none

/-! ### model outputs in the harness's canonical shape -/

def parseErrJson : ParseErr → Json
  | .syn l e => Json.mkObj [("kind", "syn"), ("line", l), ("what", synName e)]
  | .tooLong l => Json.mkObj [("kind", "tooLong"), ("line", l)]
  | .nonFinite l _ => Json.mkObj [("kind", "nonFinite"), ("line", l)]

def loadErrJson : LoadErr → Json
  | .parse e => parseErrJson e
  | .table e => Json.mkObj [("kind", "table"), ("what", errName e)]

def loadJson : Except LoadErr Table → Json
  | .error e => Json.mkObj [("error", loadErrJson e)]
  | .ok t => Json.mkObj [("table", tableJson t)]

def loadErrWJson : LoadErrW → Json
  | .parse e => parseErrJson e
  | .cmd e => Json.mkObj [("kind", "table"), ("what", xerrName e)]

def loadWJson : Except LoadErrW Table → Json
  | .error e => Json.mkObj [("error", loadErrWJson e)]
  | .ok t => Json.mkObj [("table", tableJson t)]

def loadWTag : Except LoadErrW Table → String
  | .error (.parse (.syn _ e)) => "err-" ++ synName e
  | .error (.parse (.tooLong _)) => "err-tooLong"
  | .error (.parse (.nonFinite _ _)) => "driver-nonfinite"   -- `parseW` never reports it
  | .error (.cmd e) => "err-" ++ xerrName e
  | .ok t => if t.isEmpty then "empty" else "table"

/-! ### decoding the implementation's dump -/

def targetOfJson (j : Json) : Except String Target := do
  let tags ← strList (objOr j "tags")
  let opts ← pairList ((j.getObjVal? "opts").toOption.getD .null)
  let fixed ← getRat j "fixed"
  let weight ← getRat j "weight"
  return { service := getStrD j "service", tags, opts, url := getStrD j "url", fixedWeight := fixed, weight }

def routeOfJson (j : Json) : Except String Route := do
  let ts ← j.getObjValAs? (Array Json) "targets"
  let ts ← ts.toList.mapM targetOfJson
  return { host := getStrD j "host", path := getStrD j "path", targets := ts }

def tableOfJson (j : Json) : Except String Table := do
  let hs ← j.getArr?
  hs.toList.mapM (fun h => do
    let rs ← h.getObjValAs? (Array Json) "routes"
    let rs ← rs.toList.mapM routeOfJson
    return (getStrD h "host", rs))

/-- the implementation's observable: `Except errorJson Table` -/
def implTable (impl : Json) : Except String (Except Json Table) :=
  match impl.getObjVal? "table" with
  | .ok t => do let t ← tableOfJson t; return .ok t
  | .error _ =>
    match impl.getObjVal? "error" with
    | .ok e => return .error e
    | .error _ => throw s!"neither table nor error: {impl.compress}"

/-! ### the spec machine against a dump -/

def targetClose (a b : Target) : Bool :=
  a.service == b.service && a.url == b.url && a.tags == b.tags && Fabio.Model.Parse.sortOpts a.opts == Fabio.Model.Parse.sortOpts b.opts &&
  ratClose a.fixedWeight b.fixedWeight && ratClose a.weight b.weight

def targetsClose : List Target → List Target → Bool
  | [], [] => true
  | a :: as, b :: bs => targetClose a b && targetsClose as bs
  | _, _ => false

def noEmptyB (t : Table) : Bool := t.all (fun kv => !kv.2.isEmpty && kv.2.all (fun r => !r.targets.isEmpty))

/-- does the dump show exactly what the spec prescribes? `keys` = every (host,path) a command named -/
def specMatches (S : Spec) (keys : List (Str × Str)) (t : Table) : Bool :=
  noEmptyB t &&
  t.all (fun kv => kv.2.all (fun r => r.host == kv.1 && targetsClose (S r.host r.path) r.targets)) &&
  keys.all (fun k => (S k.1 k.2).isEmpty || (t.route k.1 k.2).isSome)

def keysOf (defs : List RouteDef) : List (Str × Str) := defs.map (fun d => key d.src)

/-- routes of a host are in strictly descending path order (the final sort) -/
def sortedDescB : List Route → Bool
  | a :: b :: rest => pathLt b.path a.path && sortedDescB (b :: rest)
  | _ => true

/-- spec verdict for "commands ↦ table": the spec machine's result vs the implementation's -/
def specVerdict (env : Env) (defs : List RouteDef) (impl : Except Json Table) : Bool :=
  match specRun env defs, impl with
  | .ok S, .ok t => specMatches S (keysOf defs) t && t.all (fun kv => sortedDescB kv.2)
  | .error e, .error j =>
    (j.getStr?.toOption == some (errName e)) ||
    ((j.getObjValAs? String "kind").toOption == some "table" && (j.getObjValAs? String "what").toOption == some (errName e))
  | _, _ => false

/-- the same for commands whose weight may be non-finite (`specRunW`) -/
def specVerdictW (env : Env) (xs : List WDef) (impl : Except Json Table) : Bool :=
  match specRunW env xs, impl with
  | .ok S, .ok t => specMatches S (keysOf (xs.map (·.d))) t && t.all (fun kv => sortedDescB kv.2)
  | .error e, .error j =>
    (j.getStr?.toOption == some (xerrName e)) ||
    ((j.getObjValAs? String "kind").toOption == some "table" && (j.getObjValAs? String "what").toOption == some (xerrName e))
  | _, _ => false

/-- the option-derived fields of every target of a dump are `derive` of that target's own options
(`route.VerifDump` omits zero values) -/
def derivedOfJson (j : Json) : Derived :=
  { strip := getStrD j "strip", prepend := getStrD j "prepend", host := getStrD j "hostopt", auth := getStrD j "auth",
    tlsSkip := (j.getObjValAs? Bool "tlsskipverify").toOption.getD false,
    pxyProto := (j.getObjValAs? Bool "pxyproto").toOption.getD false,
    redirect := (j.getObjValAs? Nat "redirect").toOption.getD 0 }

def targetsOfDump (tj : Json) : List Json :=
  match tj.getArr? with
  | .error _ => []
  | .ok hs => hs.toList.flatMap (fun h =>
      match h.getObjValAs? (Array Json) "routes" with
      | .error _ => []
      | .ok rs => rs.toList.flatMap (fun r =>
          match r.getObjValAs? (Array Json) "targets" with
          | .error _ => []
          | .ok ts => ts.toList))

def derivedOK (impl : Json) : Bool :=
  match impl.getObjVal? "table" with
  | .error _ => true
  | .ok tj => (targetsOfDump tj).all (fun j =>
      match pairList ((j.getObjVal? "opts").toOption.getD .null) with
      | .error _ => false
      | .ok o => decide (derivedOfJson j = derive o))

/-! ### c05.script -/

def sameOutcome (a b : Json) : Bool :=
  (a.getObjVal? "table").toOption == (b.getObjVal? "table").toOption &&
  (a.getObjVal? "error").toOption == (b.getObjVal? "error").toOption

def scriptH : Handler := fun inp impl => do
  -- the harness echoes the definitions with the weights' exact rationals filled in (corpus and shrunk inputs
  -- carry only the decimal text)
  let defs ← match impl.getObjVal? "defs" with
    | .ok _ => wdefsOf impl
    | .error _ => wdefsOf inp
  let env := envOf (oracleOf inp impl)
  let res := newTableW env defs
  let m : Json := match res with
    | .error e => Json.mkObj [("error", xerrName e)]
    | .ok t => Json.mkObj [("table", tableJson t)]
  let okDerived := derivedOK impl
  let agree := closeJson m impl && okDerived
  let tag := match res with
    | .error e => "err-" ++ xerrName e
    | .ok t => if t.isEmpty then "empty" else "table"
  let tag := if defs.any (·.bad) then tag ++ "+nonfinite" else tag
  let it ← implTable impl
  let okSpec := specVerdictW env defs it
  let okDup := match impl.getObjVal? "dupLast" with
    | .ok d => sameOutcome d impl
    | .error _ => true
  let okCase := match impl.getObjVal? "recased" with
    | .ok d => sameOutcome d impl
    | .error _ => true
  -- the same commands as text through `NewTable` (shipped when the command language can carry them all)
  let okText := match impl.getObjVal? "viaText" with
    | .ok d => sameOutcome d impl
    | .error _ => true
  -- the same commands through the JSON wire format of the custom backend
  let okJSON := match impl.getObjVal? "viaJSON" with
    | .ok d => sameOutcome d impl
    | .error _ => true
  -- the text the harness wrote for the commands is the model writer's text (`Model/C05Lang.lean`)
  let wtexts : List Str := match (match impl.getObjVal? "defs" with | .ok _ => impl | .error _ => inp).getObjValAs? (Array Json) "defs" with
    | .ok a => a.toList.map (fun j => getStrD j "wtext")
    | .error _ => []
  let okWriter := match impl.getObjValAs? String "viaTextSrc" with
    | .ok src => src.toList == Fabio.Model.C05Lang.scriptText (wtexts.zip (defs.map (·.d)))
    | .error _ => true
  let agree := agree && okWriter
  let tag := if !okSpec then tag ++ "/spec-machine" else if !okDup then tag ++ "/add-not-idempotent"
    else if !okCase then tag ++ "/host-case-sensitive" else if !okDerived then tag ++ "/derived-fields"
    else if !okText then tag ++ "/text-differs-from-commands" else if !okJSON then tag ++ "/json-differs-from-commands"
    else if !okWriter then tag ++ "/writer-differs" else tag
  return ({ model := m, agree, spec := okSpec && okDup && okCase && okDerived && okText && okJSON,
            nontrivial := (res.toOption.map (fun t => !t.isEmpty)).getD false, tag } : Verdict).toJson

/-! ### c05.text -/

def strOfJson (j : Json) (k : String) : Str := getStrD j k

/-- mirror of the harness's `textIn.full`: insert a comment line of `long` bytes before line `longAt` -/
def fullTextOf (text : Str) (inp : Json) : Str :=
  let long := ((inp.getObjValAs? Nat "long").toOption.getD 0)
  if long = 0 then text else
  let long := if long > 1048576 then 1048576 else long
  let at_ := ((inp.getObjValAs? Int "longAt").toOption.getD 0).toNat
  let ls := splitOn '\n' text
  let at_ := if at_ > ls.length then ls.length else at_
  let line : Str := '#' :: List.replicate (long - 1) 'x'
  join ['\n'] (ls.take at_ ++ [line] ++ ls.drop at_)

def fullText (inp : Json) : Str := fullTextOf (strOfJson inp "text") inp

/-- a text the harness rendered from structured definitions travels on the implementation line -/
def fullTextI (inp impl : Json) : Str :=
  match impl.getObjValAs? String "text" with
  | .ok s => fullTextOf s.toList inp
  | .error _ => fullText inp

def textH : Handler := fun inp impl => do
  let o := oracleOf inp impl
  let env := envOf o
  let pf := pfOf o
  let text := fullTextI inp impl
  -- total over float64 weights: a NaN/±Inf weight is a command the table code refuses (`validWeight`)
  let res := loadTableW env pf text
  let m := loadWJson res
  let tag := loadWTag res
  let okDerived := derivedOK impl
  let agree := closeJson m impl && okDerived
  let it ← implTable impl
  -- spec: the parsed commands (model parser), run on the spec machine, vs the implementation's table
  let pw := parseW pf text
  let okSpec := (match pw with
    | .error e => (match it with
        | .error j => j == parseErrJson e
        | .ok _ => false)
    | .ok xs => specVerdictW env xs it) && okDerived
  -- … and the commands the harness *wrote* (shipped when the text is a well-formed rendering of definitions), run
  -- on the spec machine: independent of any parser
  let okWant ← match impl.getObjVal? "want" with
    | .ok w => do
      let xs ← wdefsOf w
      pure (specVerdictW env xs it)
    | .error _ => pure true
  let okSpec := okSpec && okWant
  let tag := match pw with
    | .ok xs => if xs.any (·.bad) then tag ++ "+nonfinite" else tag
    | .error _ => tag
  let tag := if okSpec then tag else
    (match res with
      | .error (.parse (.tooLong _)) => "long-line-swallowed"
      | _ => if !okDerived then tag ++ "/derived-fields" else if !okWant then tag ++ "/not-the-commands-written"
             else tag ++ "/spec-machine")
  return ({ model := m, agree, spec := okSpec, nontrivial := tag != "empty", tag } : Verdict).toJson

/-! ### c05.line -/

def cmdName : Cmd → String
  | .add => "route add" | .del => "route del" | .weight => "route weight" | .other s => String.ofList s

def defJson (d : RouteDef) : Json :=
  Json.mkObj [("cmd", cmdName d.cmd), ("service", str d.service), ("src", str d.src), ("dst", str d.dst),
    ("weight", ratJson d.weight), ("tags", Json.arr (d.tags.map str).toArray),
    ("opts", Json.arr (d.opts.map (fun kv => Json.arr #[str kv.1, str kv.2])).toArray)]

def lineTag (r : Except ParseErr (List RouteDef)) : String :=
  match r with
  | .error (.syn _ e) => "err-" ++ synName e
  | .error (.tooLong _) => "err-tooLong"
  | .error (.nonFinite _ _) => "outside-nonfinite-weight"
  | .ok [] => "skip"
  | .ok ds =>
    match ds.getLast? with
    | none => "skip"
    | some d =>
      match d.cmd with
      | .add => "add" ++ (if d.weight != 0 then "+w" else "") ++ (if d.tags.isEmpty then "" else "+t") ++ (if d.opts.isEmpty then "" else "+o")
      | .del => if !d.tags.isEmpty then (if d.service.isEmpty then "del-tags" else "del-svc-tags")
                else if d.src.isEmpty then "del-svc" else if d.dst.isEmpty then "del-svc-src" else "del-svc-src-dst"
      | .weight => (if d.service.isEmpty then "weight-src" else "weight-svc") ++ (if d.tags.isEmpty then "" else "+t")
      | .other _ => "other"

/-- sanity of what the real parser returned for a line: service/src/dst are `\S*` tokens, tags are trimmed and
carry no quote or comma -/
def implDefsSane (impl : Json) : Bool :=
  match impl.getObjValAs? (Array Json) "defs" with
  | .error _ => true
  | .ok a => a.toList.all (fun d =>
      let tokOK := fun k => (getStrD d k).all (fun c => !isReSpace c)
      let tags := (strList (objOr d "tags")).toOption.getD []
      tokOK "service" && tokOK "src" && tokOK "dst" &&
      tags.all (fun t => !t.contains '"' && !t.contains ',' && trimSpace t == t))

/-- print-then-parse: for a line the harness wrote from a definition (`want`, shipped for well-formed lines only),
the real parser returned exactly that definition -/
def wantOK (impl : Json) : Bool :=
  match impl.getObjVal? "want" with
  | .error _ => true
  | .ok w => (impl.getObjVal? "defs").toOption == some (Json.arr #[w])

def lineH : Handler := fun inp impl => do
  let o := oracleOf inp impl
  let pf := pfOf o
  -- a line rendered by the harness from a structured definition travels on the implementation line
  let line := match impl.getObjValAs? String "line" with
    | .ok l => l.toList
    | .error _ => strOfJson inp "line"
  let res := parse pf line
  let okWant := wantOK impl
  let tag := lineTag res
  let tag := if okWant then tag else tag ++ "/not-the-definition-written"
  let m : Json := match res with
    | .error e => Json.mkObj [("error", parseErrJson e)]
    | .ok ds => Json.mkObj [("defs", Json.arr (ds.map defJson).toArray)]
  if lineTag res == "outside-nonfinite-weight" then
    -- Go's Parse accepts the line: compare with the weight-blind parser, weights of flagged commands masked
    let mask := fun (j : Json) => match j.getObjValAs? String "weight" with
      | .ok w => if isNonFiniteStr w then j.setObjVal! "weight" "nonfinite" else j
      | .error _ => j
    let mw : Json := match parseW pf line with
      | .error e => Json.mkObj [("error", parseErrJson e)]
      | .ok xs => Json.mkObj [("defs", Json.arr (xs.map (fun x =>
          if x.bad then (defJson x.d).setObjVal! "weight" "nonfinite" else defJson x.d)).toArray)]
    let implDefs := (impl.getObjValAs? (Array Json) "defs").toOption.map (fun a => Json.arr (a.map mask))
    let agree := (mw.getObjVal? "defs").toOption == implDefs &&
                 (mw.getObjVal? "error").toOption == (impl.getObjVal? "error").toOption
    return ({ model := mw, agree, spec := implDefsSane impl && okWant, nontrivial := true,
              tag := if okWant then "nonfinite-weight" else "nonfinite-weight/not-the-definition-written" } : Verdict).toJson
  let agree := (m.getObjVal? "defs").toOption == (impl.getObjVal? "defs").toOption &&
               (m.getObjVal? "error").toOption == (impl.getObjVal? "error").toOption
  return ({ model := m, agree, spec := implDefsSane impl && okWant,
            nontrivial := !tag.startsWith "skip" && !tag.startsWith "err-routeExpected", tag } : Verdict).toJson

/-! ### c05.roundtrip -/

def clamp0 (r : Rat) : Rat := if r < 0 then 0 else r

/-- `a` (before) and `b` (after the round trip): same service, URL, tags, options; weight equal to the four
decimals the text carries (a weight ≤ 0 means "no fixed weight" and comes back as 0) -/
def targetRT (a b : Target) : Bool :=
  a.service == b.service && a.url == b.url && a.tags == b.tags && Fabio.Model.Parse.sortOpts a.opts == Fabio.Model.Parse.sortOpts b.opts &&
  (let d := clamp0 a.fixedWeight - b.fixedWeight
   (if d < 0 then -d else d) ≤ (1 : Rat) / 20000 + eps)

def targetsRT : List Target → List Target → Bool
  | [], [] => true
  | a :: as, b :: bs => targetRT a b && targetsRT as bs
  | _, _ => false

def routesRT : List Route → List Route → Bool
  | [], [] => true
  | a :: as, b :: bs => a.host == b.host && a.path == b.path && targetsRT a.targets b.targets && routesRT as bs
  | _, _ => false

def tablesRT : Table → Table → Bool
  | [], [] => true
  | a :: as, b :: bs => a.1 == b.1 && routesRT a.2 b.2 && tablesRT as bs
  | _, _ => false

def anyTarget (t : Table) (p : Target → Bool) : Bool := t.any (fun kv => kv.2.any (fun r => r.targets.any p))

def hasDupBy {α} [BEq α] (f : Target → α) (ts : List Target) : Bool :=
  match ts with
  | [] => false
  | x :: xs => xs.any (fun y => f y == f x) || hasDupBy f xs

/-- the property's own hypothesis fails: some route holds two targets that differ at most in weight -/
def differOnlyInWeight (t : Table) : Bool :=
  t.any (fun kv => kv.2.any (fun r => hasDupBy (fun x => (x.service, x.url, x.tags, Fabio.Model.Parse.sortOpts x.opts)) r.targets))

def dupKeyB (t : Table) : Bool :=
  t.any (fun kv => kv.2.any (fun r => hasDupBy (fun x => (x.service, x.url, (norm4 x).fixedWeight, x.tags)) r.targets))

def needsEscape (s : Str) : Bool := s.any (fun c => c == '\\' || c == '"' || c.toNat < 0x20 || c.toNat == 0x7f)

def roundtripH : Handler := fun _inp impl => do
  let o := oracleOf _inp impl
  let env := envOf o
  let pf := pfOf o
  let t1j := objOr impl "t"
  match t1j.getObjVal? "table" with
  | .error _ =>
    return ({ model := Json.null, agree := true, spec := true, nontrivial := false, tag := "source-rejected" } : Verdict).toJson
  | .ok tj =>
  let t ← tableOfJson tj
  let text := strOfJson impl "text"
  let rendered := render t
  let okRender := rendered == text
  let res2 := loadTable env pf text
  let m2 := loadJson res2
  let i2 := objOr impl "t2"
  let okLoad := closeJson m2 i2
  let it2 ← implTable i2
  let rtOK := match it2 with
    | .ok t2 => tablesRT t t2
    | .error _ => false
  let urlStable := (impl.getObjValAs? Bool "urlStable").toOption.getD true
  let zero := anyTarget t (fun x => x.weight ≤ 0)
  let emptyTag := anyTarget t (fun x => !x.tags.isEmpty && (join [','] x.tags).isEmpty)
  let esc := anyTarget t (fun x => x.tags.any needsEscape)
  let rounded := anyTarget t (fun x => 0 < x.fixedWeight && round4Rat x.fixedWeight != x.fixedWeight)
  let neg := anyTarget t (fun x => x.fixedWeight < 0)
  -- the text is a fixpoint once the weights have four decimals: the rebuilt table renders to the text of the
  -- original with every weight rounded (`weight 0.0000` = no fixed weight is no longer written)
  let okFix := match impl.getObjValAs? String "text2" with
    | .ok t2 => t2.toList == render (t.map (fun kv => (kv.1, kv.2.map (fun r => { r with targets := r.targets.map norm4 }))))
    | .error _ => true
  let (spec, tag) :=
    if rtOK && !okFix then (false, "text-not-a-fixpoint")
    else if rtOK then (true, "rebuilt" ++ (if rounded then "+rounded" else "") ++ (if neg then "+neg" else ""))
    else if differOnlyInWeight t then (true, "outside-two-targets-differ-only-in-weight")
    else if zero then (false, "zero-weight-not-rendered")
    else if emptyTag then (false, "single-empty-tag")
    else if dupKeyB t then (false, "dup-key-after-render")
    else if !urlStable then (false, "url-unstable")
    else if esc then (false, "tag-needs-escaping")
    else (false, "roundtrip-mismatch")
  let nontrivial := anyTarget t (fun x => !x.tags.isEmpty || !x.opts.isEmpty || 0 < x.fixedWeight) &&
    t.any (fun kv => kv.2.length > 1 || kv.2.any (fun r => r.targets.length > 1))
  let tag := if !okRender then tag ++ "/render-differs" else if !okLoad then tag ++ "/reload-differs" else tag
  return ({ model := Json.mkObj [("text", str rendered), ("t2", m2)], agree := okRender && okLoad, spec, nontrivial, tag } : Verdict).toJson

/-! ### c05.aliases — `route.ParseAliases` against the model and against `route.Parse` on the same text -/

def namesJson (ns : List Str) : Json := Json.arr (ns.map str).toArray

/-- the `register` options of the definitions the real `Parse` returned (options shipped sorted by key) -/
def implRegisterNames (defs : Array Json) : List Str :=
  defs.toList.filterMap (fun d =>
    match pairList ((d.getObjVal? "opts").toOption.getD .null) with
    | .ok o => o.lookup kRegister
    | .error _ => none)

def aliasesH : Handler := fun inp impl => do
  let o := oracleOf inp impl
  let pf := pfOf o
  let text := fullText inp
  let res := parseAliases pf text
  let m : Json := match res with
    | .error e => Json.mkObj [("error", parseErrJson e)]
    | .ok ns => Json.mkObj [("names", namesJson ns)]
  let agree := (m.getObjVal? "names").toOption == (impl.getObjVal? "names").toOption &&
               (m.getObjVal? "error").toOption == (impl.getObjVal? "error").toOption
  -- spec, on the implementation's two outputs: what `Parse` accepts `ParseAliases` accepts, with the register
  -- options of those very definitions; a syntax error is the same error on the same line
  let p := objOr impl "parse"
  let (spec, cls) : Bool × String := match p.getObjValAs? (Array Json) "defs" with
    | .ok defs => ((impl.getObjVal? "names").toOption == some (namesJson (implRegisterNames defs)), "")
    | .error _ =>
      match p.getObjVal? "error" with
      | .ok e =>
        if (e.getObjValAs? String "kind").toOption == some "syn" then
          ((impl.getObjVal? "error").toOption == some e, "")
        else (true, "+parse-" ++ ((e.getObjValAs? String "kind").toOption.getD "?"))
      | .error _ => (false, "+no-parse-result")
  let tag := (match res with
    | .error (.syn _ e) => "err-" ++ synName e
    | .error (.tooLong _) => "err-tooLong"
    | .error (.nonFinite _ _) => "driver-nonfinite"
    | .ok [] => "no-names"
    | .ok ns => if ns.any (·.isEmpty) then "names+empty" else "names") ++ cls
  let tag := if spec then tag else tag ++ "/differs-from-parse"
  return ({ model := m, agree, spec, nontrivial := tag != "no-names", tag } : Verdict).toJson

/-! ### c05.api — the admin endpoint `/api/routes` on a reachable table -/

def apiEntryJson (a : ApiRoute) : Json :=
  Json.mkObj [("service", str a.service), ("host", str a.host), ("path", str a.path), ("src", str a.src),
    ("dst", str a.dst), ("opts", Json.arr (a.opts.map (fun kv => Json.arr #[str kv.1, str kv.2])).toArray),
    ("weight", ratJson a.weight), ("tags", Json.arr (a.tags.map str).toArray)]

def apiH : Handler := fun _inp impl => do
  let t1j := objOr impl "t"
  match t1j.getObjVal? "table" with
  | .error _ =>
    return ({ model := Json.null, agree := true, spec := true, nontrivial := false, tag := "source-rejected" } : Verdict).toJson
  | .ok tj =>
  let t ← tableOfJson tj
  let raw := strOfJson impl "raw"
  let mraw := apiRaw t
  let okRaw := mraw == raw
  let mlist := Json.arr ((apiRoutes t).map apiEntryJson).toArray
  let ilist := (impl.getObjVal? "list").toOption.getD (Json.arr #[])
  let okList := closeJson mlist ilist && (match ilist.getArr? with
    | .ok a => a.size == (apiRoutes t).length
    | .error _ => false)
  -- spec on the implementation's outputs: NewTable reads the `?raw` body exactly as it reads String(), and the
  -- listing enumerates the targets of the dump
  let okReload := sameOutcome (objOr impl "rawReload") (objOr impl "strReload")
  let okStatus := (impl.getObjValAs? Nat "status").toOption == some 200 &&
    (impl.getObjValAs? Nat "rawStatus").toOption == some 200
  let n := (apiRoutes t).length
  let tag := (if n == 0 then "empty" else if n == 1 then "one" else "many") ++
    (if !okRaw then "/raw-differs" else if !okList then "/listing-differs" else if !okReload then "/raw-reload-differs"
     else if !okStatus then "/status" else "")
  return ({ model := Json.mkObj [("raw", str mraw), ("list", mlist)], agree := okRaw && okList,
            spec := okReload && okList && okStatus, nontrivial := n > 1, tag } : Verdict).toJson

def streams : List (String × Handler) :=
  [("c05.script", scriptH), ("c05.text", textH), ("c05.line", lineH), ("c05.roundtrip", roundtripH),
   ("c05.aliases", aliasesH), ("c05.api", apiH)]
end Fabio.Driver.C05
