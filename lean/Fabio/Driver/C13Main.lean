import Fabio.Driver.C13
def main : IO Unit := Fabio.Driver.run Fabio.Driver.C13.streams
