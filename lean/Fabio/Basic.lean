/-!
Shared helpers for the executable models (core Lean only: this module is linked into the model driver).
Go strings are modelled as `String` where only whole-string operations matter and as `List Char` /
`List UInt8` where the code indexes into them.
-/
namespace Fabio

/-- Result of a Go computation that may panic. Panics are values, never defaults. -/
inductive Outcome (α : Type) where
  | ok (a : α)
  | panic (why : String)
deriving Repr, BEq, DecidableEq

namespace Outcome
def isPanic {α} : Outcome α → Bool
  | .panic _ => true
  | .ok _ => false
def map {α β} (f : α → β) : Outcome α → Outcome β
  | .ok a => .ok (f a)
  | .panic w => .panic w
def bind {α β} (x : Outcome α) (f : α → Outcome β) : Outcome β :=
  match x with
  | .ok a => f a
  | .panic w => .panic w
instance : Monad Outcome where
  pure := .ok
  bind := bind
end Outcome

/-- ASCII lower-casing of one character (Go's `strings.ToLower` restricted to ASCII; the generators keep
case-sensitive positions ASCII, see DESIGN.md §5). -/
def lowerChar (c : Char) : Char := if 'A' ≤ c ∧ c ≤ 'Z' then Char.ofNat (c.toNat + 32) else c
def lowerL (s : List Char) : List Char := s.map lowerChar

/-- Last index of a character in a list, `none` when absent (Go: `strings.LastIndexByte` = -1). -/
def lastIndexOf (c : Char) (s : List Char) : Option Nat :=
  let rec go (i : Nat) (best : Option Nat) : List Char → Option Nat
    | [] => best
    | x :: xs => go (i+1) (if x == c then some i else best) xs
  go 0 none s

/-- First index of a character. -/
def indexOf (c : Char) (s : List Char) : Option Nat :=
  let rec go (i : Nat) : List Char → Option Nat
    | [] => none
    | x :: xs => if x == c then some i else go (i+1) xs
  go 0 s

end Fabio
