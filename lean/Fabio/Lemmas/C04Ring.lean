import Fabio.Model.C04
import Fabio.Model.C04Spec
/-!
Helper lemmas for C04, ring part (core Lean only): the free-slot scan (DESIGN.md appendix A.2), the counting
invariant of `placeK` / `fill`, and the equality of the array implementation used by the driver with the
list model.
-/
namespace Fabio.Lemmas.C04
open Fabio Fabio.Model.C04

/-! ### A.2: the scan finds a free slot whenever one exists -/

theorem findFree_spec (ring : Ring) (fuel next : Nat) (hn : next < ring.length)
    (j : Nat) (hj : j < ring.length) (hfree : ring[j]? = some none)
    (hd : (j + ring.length - next) % ring.length < fuel) :
    ∃ k, findFree ring next fuel = some k ∧ ring[k]? = some none := by
  induction fuel generalizing next with
  | zero => omega
  | succ f ih =>
    unfold findFree
    have hlt : next < ring.length := hn
    have : ring[next]? = some ring[next] := List.getElem?_eq_getElem hlt
    rw [this]
    cases hv : ring[next] with
    | none => exact ⟨next, rfl, by rw [this, hv]⟩
    | some v =>
      simp only
      have hU : 0 < ring.length := by omega
      have hne : next ≠ j := by
        intro h; subst h; rw [this, hv] at hfree; simp at hfree
      apply ih ((next + 1) % ring.length) (Nat.mod_lt _ hU)
      have h1 : (j + ring.length - next) % ring.length ≠ 0 := by
        intro h0
        have : (j + ring.length - next) % ring.length = 0 := h0
        by_cases hjn : next ≤ j
        · have e : j + ring.length - next = (j - next) + ring.length := by omega
          rw [e, Nat.add_mod_right, Nat.mod_eq_of_lt (by omega)] at this; omega
        · have e : j + ring.length - next < ring.length := by omega
          rw [Nat.mod_eq_of_lt e] at this; omega
      by_cases hwrap : next + 1 = ring.length
      · have e1 : (next + 1) % ring.length = 0 := by rw [hwrap, Nat.mod_self]
        rw [e1]
        have : (j + ring.length - 0) % ring.length = j := by
          simp [Nat.mod_eq_of_lt hj]
        rw [this]
        have e2 : (j + ring.length - next) % ring.length = j + 1 := by
          have : j + ring.length - next = j + 1 := by omega
          rw [this, Nat.mod_eq_of_lt (by omega)]
        omega
      · have e1 : (next + 1) % ring.length = next + 1 := Nat.mod_eq_of_lt (by omega)
        rw [e1]
        by_cases hjn : next < j
        · have a : (j + ring.length - (next+1)) % ring.length = j - (next+1) := by
            have : j + ring.length - (next+1) = (j - (next+1)) + ring.length := by omega
            rw [this, Nat.add_mod_right, Nat.mod_eq_of_lt (by omega)]
          have b : (j + ring.length - next) % ring.length = j - next := by
            have : j + ring.length - next = (j - next) + ring.length := by omega
            rw [this, Nat.add_mod_right, Nat.mod_eq_of_lt (by omega)]
          omega
        · have a : (j + ring.length - (next+1)) % ring.length = j + ring.length - (next+1) :=
            Nat.mod_eq_of_lt (by omega)
          have b : (j + ring.length - next) % ring.length = j + ring.length - next :=
            Nat.mod_eq_of_lt (by omega)
          omega

/-- a list with a positive count of `a` has an index holding `a` -/
theorem exists_index_of_count_pos {α} [BEq α] [LawfulBEq α] (l : List α) (a : α) (h : 0 < l.count a) :
    ∃ j, j < l.length ∧ l[j]? = some a := by
  have hm : a ∈ l := List.count_pos_iff.mp h
  obtain ⟨j, hj, e⟩ := List.getElem_of_mem hm
  exact ⟨j, hj, by rw [List.getElem?_eq_getElem hj, e]⟩

/-- With fuel `ring.length` the scan succeeds as soon as one slot is free. -/
theorem findFree_of_free (ring : Ring) (next : Nat) (hn : next < ring.length) (hfree : 0 < ring.count none) :
    ∃ k, findFree ring next ring.length = some k ∧ k < ring.length ∧ ring[k]? = some none := by
  obtain ⟨j, hj, e⟩ := exists_index_of_count_pos ring none hfree
  obtain ⟨k, hk, hk2⟩ := findFree_spec ring ring.length next hn j hj e (Nat.mod_lt _ (by omega))
  refine ⟨k, hk, ?_, hk2⟩
  by_cases hkl : k < ring.length
  · exact hkl
  · rw [List.getElem?_eq_none (by omega)] at hk2; cases hk2

/-! ### one store -/

theorem set_counts (ring : Ring) (p i : Nat) (hp : p < ring.length) (hfree : ring[p]? = some none) :
    (ring.set p (some i)).length = ring.length ∧
    (ring.set p (some i)).count none + 1 = ring.count none ∧
    (ring.set p (some i)).count (some i) = ring.count (some i) + 1 ∧
    ∀ j, j ≠ i → (ring.set p (some i)).count (some j) = ring.count (some j) := by
  have hv : ring[p] = none := by
    rw [List.getElem?_eq_getElem hp] at hfree; exact Option.some.inj hfree
  have hpos : 0 < ring.count none := by
    apply List.count_pos_iff.mpr
    rw [← hv]; exact List.getElem_mem hp
  refine ⟨by simp, ?_, ?_, ?_⟩
  · rw [List.count_set hp, hv]; simp; omega
  · rw [List.count_set hp, hv]; simp
  · intro j hj
    rw [List.count_set hp, hv]
    have : (some i == some j) = false := by simp; exact fun h => hj h.symm
    simp [this]

/-! ### `placeK`: k stores of target i -/

theorem placeK_spec (i step : Nat) : ∀ (k : Nat) (ring : Ring) (next : Nat),
    k ≤ ring.count none → (k = 0 ∨ next < ring.length) →
    ∃ ring', placeK i step k ring next = .ok ring' ∧ ring'.length = ring.length ∧
      ring'.count none + k = ring.count none ∧
      ring'.count (some i) = ring.count (some i) + k ∧
      ∀ j, j ≠ i → ring'.count (some j) = ring.count (some j) := by
  intro k
  induction k with
  | zero => intro ring next _ _; exact ⟨ring, rfl, rfl, rfl, rfl, fun _ _ => rfl⟩
  | succ k ih =>
    intro ring next hk hn
    have hn : next < ring.length := by
      rcases hn with h | h
      · omega
      · exact h
    obtain ⟨p, hp, hpl, hpf⟩ := findFree_of_free ring next hn (by omega)
    obtain ⟨hl, hc0, hci, hcj⟩ := set_counts ring p i hpl hpf
    have hlen : 0 < ring.length := by omega
    obtain ⟨ring', h1, h2, h3, h4, h5⟩ := ih (ring.set p (some i)) ((p + step) % ring.length)
      (by omega) (Or.inr (by rw [hl]; exact Nat.mod_lt _ hlen))
    refine ⟨ring', ?_, by rw [h2, hl], by omega, by omega, fun j hj => by rw [h5 j hj, hcj j hj]⟩
    simp only [placeK, hp]
    exact h1

/-! ### `fill`: all entries -/

/-- slots requested by the entries with a positive count -/
def posSum (pl : List (Int × Nat)) : Nat := (pl.map (fun e => e.1.toNat)).sum

theorem fill_spec (used : Nat) : ∀ (pl : List (Int × Nat)) (ring : Ring),
    (pl.map (·.2)).Nodup → posSum pl ≤ ring.count none → (posSum pl = 0 ∨ 0 < ring.length) →
    ∃ ring', fill used pl ring = .ok ring' ∧ ring'.length = ring.length ∧
      ring'.count none + posSum pl = ring.count none ∧
      (∀ e ∈ pl, ring'.count (some e.2) = ring.count (some e.2) + e.1.toNat) ∧
      ∀ j, j ∉ pl.map (·.2) → ring'.count (some j) = ring.count (some j) := by
  intro pl
  induction pl with
  | nil => intro ring _ _ _; exact ⟨ring, rfl, rfl, by simp [posSum], by simp, fun _ _ => rfl⟩
  | cons e rest ih =>
    intro ring hnd hsum hlen
    obtain ⟨n, i⟩ := e
    simp only [List.map_cons, List.nodup_cons] at hnd
    obtain ⟨hi, hnd'⟩ := hnd
    have hps : posSum ((n, i) :: rest) = n.toNat + posSum rest := by simp [posSum]
    by_cases hn : n ≤ 0
    · have hz : n.toNat = 0 := by omega
      rw [hps, hz] at hsum hlen
      obtain ⟨ring', h1, h2, h3, h4, h5⟩ := ih ring hnd' (by omega) (by simpa using hlen)
      refine ⟨ring', by simp only [fill, hn, if_true]; exact h1, h2, by rw [hps, hz]; omega, ?_, ?_⟩
      · intro e he
        rcases List.mem_cons.mp he with rfl | he
        · simp only [hz, Nat.add_zero]
          exact h5 i hi
        · exact h4 e he
      · intro j hj
        simp only [List.map_cons, List.mem_cons, not_or] at hj
        exact h5 j hj.2
    · rw [hps] at hsum hlen
      have hnpos : 0 < n.toNat := by omega
      have hlen' : 0 < ring.length := by
        rcases hlen with h | h
        · omega
        · exact h
      obtain ⟨r1, p1, p2, p3, p4, p5⟩ := placeK_spec i (used / n.toNat) n.toNat ring 0 (by omega) (Or.inr hlen')
      obtain ⟨ring', h1, h2, h3, h4, h5⟩ := ih r1 hnd' (by omega) (Or.inr (by omega))
      refine ⟨ring', ?_, by rw [h2, p2], by rw [hps]; omega, ?_, ?_⟩
      · simp only [fill, hn, if_false, p1]; exact h1
      · intro e he
        rcases List.mem_cons.mp he with rfl | he
        · simp only
          rw [h5 i hi, p4]
        · rw [h4 e he]
          have : e.2 ≠ i := by
            intro h; apply hi; rw [← h]; exact List.mem_map_of_mem he
          rw [p5 e.2 this]
      · intro j hj
        simp only [List.map_cons, List.mem_cons, not_or] at hj
        rw [h5 j hj.2, p5 j hj.1]

/-! ### entries, sums -/

theorem foldl_add_int (l : List Int) (a : Int) : l.foldl (· + ·) a = a + l.sum := by
  induction l generalizing a with
  | nil => simp
  | cons x xs ih => simp only [List.foldl_cons, List.sum_cons, ih]; omega

theorem sumInt_eq (ns : List Int) : sumInt ns = ns.sum := by
  simp [sumInt, foldl_add_int]

theorem toNat_sum (ns : List Int) (h : ∀ n ∈ ns, 0 ≤ n) : (ns.map Int.toNat).sum = ns.sum.toNat ∧ 0 ≤ ns.sum := by
  induction ns with
  | nil => simp
  | cons x xs ih =>
    have hx : 0 ≤ x := h x (by simp)
    obtain ⟨e, p⟩ := ih (fun n hn => h n (by simp [hn]))
    simp only [List.map_cons, List.sum_cons, e]
    constructor <;> omega

theorem entries_map_fst (ns : List Int) (k : Nat) : (ns.zipIdx k).map (·.1) = ns := by
  induction ns generalizing k with
  | nil => rfl
  | cons x xs ih => simp [ih]

theorem entries_map_snd (ns : List Int) (k : Nat) : (ns.zipIdx k).map (·.2) = List.range' k ns.length := by
  induction ns generalizing k with
  | nil => rfl
  | cons x xs ih => simp [ih, List.range'_succ]

theorem posSum_entries (ns : List Int) : posSum (entries ns) = (ns.map Int.toNat).sum := by
  have : (entries ns).map (fun e => e.1.toNat) = ((entries ns).map (·.1)).map Int.toNat := by simp
  rw [posSum, this, entries, entries_map_fst]

theorem posSum_perm {a b : List (Int × Nat)} (h : a.Perm b) : posSum a = posSum b :=
  List.Perm.sum_nat (h.map _)

/-! ### the array implementation equals the list model -/

theorem findFreeA_eq (ring : Array (Option Nat)) (next fuel : Nat) :
    findFreeA ring next fuel = findFree ring.toList next fuel := by
  induction fuel generalizing next with
  | zero => rfl
  | succ f ih =>
    simp only [findFreeA, findFree, Array.getElem?_toList, Array.length_toList]
    split <;> simp_all

theorem placeKA_eq (i step : Nat) : ∀ (k : Nat) (ring : Array (Option Nat)) (next : Nat),
    (placeKA i step k ring next).map Array.toList = placeK i step k ring.toList next := by
  intro k
  induction k with
  | zero => intro ring next; rfl
  | succ k ih =>
    intro ring next
    simp only [placeKA, placeK, findFreeA_eq, Array.length_toList]
    cases hf : findFree ring.toList next ring.size with
    | none => rfl
    | some p =>
      simp only
      rw [ih]
      simp

theorem fillA_eq (used : Nat) : ∀ (pl : List (Int × Nat)) (ring : Array (Option Nat)),
    (fillA used pl ring).map Array.toList = fill used pl ring.toList := by
  intro pl
  induction pl with
  | nil => intro ring; rfl
  | cons e rest ih =>
    intro ring
    obtain ⟨n, i⟩ := e
    simp only [fillA, fill]
    split
    · exact ih ring
    · have h := placeKA_eq i (used / n.toNat) n.toNat ring 0
      cases hA : placeKA i (used / n.toNat) n.toNat ring 0 with
      | ok r =>
        rw [hA] at h
        simp only [Outcome.map] at h
        rw [← h]
        exact ih r
      | panic w =>
        rw [hA] at h
        simp only [Outcome.map] at h
        rw [← h]
        rfl

end Fabio.Lemmas.C04
