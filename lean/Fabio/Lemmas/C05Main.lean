import Fabio.Lemmas.C05Add
import Fabio.Lemmas.C05Del
import Fabio.Lemmas.C05Weight
/-!
C05 — assembly: the per-command lemmas (`C05Add`, `C05Del`, `C05Weight`) combined into statements about
command lists: every reachable table satisfies the invariants, and the concrete table refines the spec machine.
-/
namespace Fabio.Lemmas.C05Main
open Fabio Fabio.Model.Route Fabio.Model.Parse Fabio.Model.C05Spec
open Fabio.Lemmas

variable {env : Env} {t t1 : Table} {d : RouteDef}

/-! ### `HostsOK` under del and weight -/

theorem hostsOK_of_keys_sub {t t' : Table} (hh : HostsOK env t)
    (hs : ∀ kv ∈ t', ∃ kv0 ∈ t, kv0.1 = kv.1) : HostsOK env t' := by
  intro kv hkv
  obtain ⟨kv0, h0, he⟩ := hs kv hkv
  rw [← he]; exact hh kv0 h0

theorem keys_prune_sub (t : Table) : ∀ kv ∈ prune t, ∃ kv0 ∈ t, kv0.1 = kv.1 := by
  intro kv hkv
  obtain ⟨kv0, h0, he, _⟩ := C05Del.mem_prune hkv
  exact ⟨kv0, h0, by rw [he]⟩

theorem keys_mapRoutes_sub (t : Table) (f : Route → Route) :
    ∀ kv ∈ mapRoutes t f, ∃ kv0 ∈ t, kv0.1 = kv.1 := by
  intro kv hkv
  unfold mapRoutes at hkv
  obtain ⟨kv0, h0, he⟩ := List.mem_map.mp hkv
  exact ⟨kv0, h0, by rw [← he]⟩

theorem hostsOK_delAll (skip : Target → Bool) (hh : HostsOK env t) : HostsOK env (C05Del.delAll t skip) := by
  unfold C05Del.delAll
  apply hostsOK_of_keys_sub hh
  intro kv hkv
  obtain ⟨kv1, h1, he1⟩ := keys_prune_sub _ kv hkv
  obtain ⟨kv0, h0, he0⟩ := keys_mapRoutes_sub _ _ kv1 h1
  exact ⟨kv0, h0, he0.trans he1⟩

theorem hostsOK_delOne (host path : Str) (skip : Target → Bool) (hh : HostsOK env t) :
    HostsOK env (C05Del.delOne t host path skip) := by
  unfold C05Del.delOne
  cases hr : t.route host path with
  | none => exact hh
  | some r =>
    dsimp only
    obtain ⟨rs0, hl, _, _, _⟩ := C05Del.route_some hr
    apply hostsOK_of_keys_sub hh
    intro kv hkv
    obtain ⟨kv1, h1, he1⟩ := keys_prune_sub _ kv hkv
    rcases C05Del.mem_set hl h1 with he | hm
    · exact ⟨(host, rs0), C05Del.mem_of_lookup hl, by rw [← he1, he]⟩
    · exact ⟨kv1, hm, he1⟩

theorem hostsOK_del (hh : HostsOK env t) (h : delRoute env t d = .ok t1) : HostsOK env t1 := by
  rw [C05Del.delRoute_eq] at h
  split at h
  · cases h; exact hostsOK_delAll _ hh
  · split at h
    · cases h; exact hostsOK_delAll _ hh
    · split at h
      · cases h; exact hostsOK_delOne _ _ _ hh
      · split at h
        · cases h
        · cases h; exact hostsOK_delOne _ _ _ hh

theorem hostsOK_weigh (hh : HostsOK env t) (h : weighRoute t d = .ok t1) : HostsOK env t1 := by
  have hk := C05Weight.hosts_weigh h
  intro kv hkv
  have : kv.1 ∈ t1.map (·.1) := List.mem_map.mpr ⟨kv, hkv, rfl⟩
  rw [hk] at this
  obtain ⟨kv0, h0, he⟩ := List.mem_map.mp this
  rw [← he]; exact hh kv0 h0

/-! ### one command -/

/-- what every table built by commands satisfies -/
structure Good (env : Env) (t : Table) : Prop where
  inv : Inv t
  hosts : HostsOK env t

theorem good_nil : Good env ([] : Table) := ⟨C05Add.inv_nil, fun _ h => nomatch h⟩

theorem good_apply (hg : Good env t) (h : applyDef env t d = .ok t1) : Good env t1 := by
  unfold applyDef at h
  split at h
  · exact ⟨C05Add.inv_add hg.inv h, C05Add.hostsOK_add hg.hosts h⟩
  · exact ⟨C05Del.inv_del hg.inv h, hostsOK_del hg.hosts h⟩
  · exact ⟨C05Weight.inv_weigh hg.inv h, hostsOK_weigh hg.hosts h⟩
  · cases h

theorem apply_refines (hg : Good env t) : (applyDef env t d).map abs = specApply env (abs t) d := by
  unfold applyDef specApply
  cases hc : d.cmd with
  | add => exact C05Add.add_refines hg.inv hg.hosts
  | del => exact C05Del.del_refines hg.inv
  | weight => exact C05Weight.weigh_refines hg.inv
  | other s => rfl

/-! ### command lists -/

theorem good_fold (defs : List RouteDef) : ∀ {t t1 : Table}, Good env t →
    defs.foldlM (applyDef env) t = .ok t1 → Good env t1 := by
  induction defs with
  | nil => intro t t1 hg h; simp [List.foldlM, pure, Except.pure] at h; subst h; exact hg
  | cons d ds ih =>
    intro t t1 hg h
    rw [List.foldlM_cons] at h
    cases ha : applyDef env t d with
    | error e => rw [ha] at h; simp [bind, Except.bind] at h
    | ok t2 =>
      rw [ha] at h
      simp only [bind, Except.bind] at h
      exact ih (good_apply hg ha) h

theorem fold_refines (defs : List RouteDef) : ∀ {t : Table}, Good env t →
    (defs.foldlM (applyDef env) t).map abs = defs.foldlM (specApply env) (abs t) := by
  induction defs with
  | nil => intro t _; rfl
  | cons d ds ih =>
    intro t hg
    rw [List.foldlM_cons, List.foldlM_cons]
    have hr := apply_refines (d := d) hg
    cases ha : applyDef env t d with
    | error e =>
      rw [ha] at hr
      simp only [Except.map] at hr
      rw [← hr]; rfl
    | ok t2 =>
      rw [ha] at hr
      simp only [Except.map] at hr
      rw [← hr]
      simp only [bind, Except.bind]
      exact ih (good_apply hg ha)

theorem reachable_good (h : Reachable env t) : Good env t := by
  obtain ⟨defs, hd⟩ := h
  exact good_fold defs good_nil hd

theorem abs_nil : abs ([] : Table) = specEmpty := by
  funext h p; rfl

theorem newTable_eq (defs : List RouteDef) : newTable env defs =
    (defs.foldlM (applyDef env) []).map C05Weight.sortTable := by
  unfold newTable buildFrom
  cases defs.foldlM (applyDef env) ([] : Table) <;> rfl

/-- the table `NewTable` returns (after the final sort) is good as well -/
theorem good_newTable {defs : List RouteDef} (h : newTable env defs = .ok t) : Good env t := by
  rw [newTable_eq] at h
  cases hf : defs.foldlM (applyDef env) ([] : Table) with
  | error e => rw [hf] at h; cases h
  | ok t0 =>
    rw [hf] at h
    simp only [Except.map] at h
    cases h
    have hg := good_fold defs good_nil hf
    refine ⟨C05Weight.inv_sort hg.inv, ?_⟩
    intro kv hkv
    unfold C05Weight.sortTable at hkv
    obtain ⟨kv0, h0, he⟩ := List.mem_map.mp hkv
    rw [← he]; exact hg.hosts kv0 h0

/-- **refinement**: building the table from any command list and abstracting gives exactly what the spec
machine computes — same error or same (host,path) ↦ targets map. -/
theorem refines_spec (defs : List RouteDef) : (newTable env defs).map abs = specRun env defs := by
  rw [newTable_eq]
  unfold specRun
  rw [← abs_nil, ← fold_refines defs good_nil]
  cases hf : defs.foldlM (applyDef env) ([] : Table) with
  | error e => rfl
  | ok t0 =>
    simp only [Except.map]
    rw [C05Weight.abs_sort (good_fold defs good_nil hf).inv.wf]

end Fabio.Lemmas.C05Main
