import Fabio.Model.C09
/-! Helper lemmas for C09 (core Lean only). -/
namespace Fabio.Lemmas.C09
open Fabio.Model.C09

/-! ### scripted connection -/

theorem connRead_stream (cap : Nat) (s : Script) :
    streamOf s = (connRead cap s).1 ++ streamOf (connRead cap s).2.2 := by
  induction s with
  | nil => simp [connRead, streamOf]
  | cons e r ih =>
    cases e with
    | eof => simp [connRead, streamOf]
    | err => simp [connRead, streamOf]
    | chunk bs =>
      simp only [connRead]
      split
      · next h => subst h; simpa [streamOf] using ih
      · split
        · simp [streamOf]
        · simp [streamOf, ← List.append_assoc, List.take_append_drop]

theorem connRead_end (cap : Nat) (s : Script) : endOf (connRead cap s).2.2 = endOf s := by
  induction s with
  | nil => simp [connRead, endOf]
  | cons e r ih =>
    cases e with
    | eof => simp [connRead, endOf]
    | err => simp [connRead, endOf]
    | chunk bs =>
      simp only [connRead]
      split
      · simpa [endOf] using ih
      · split <;> simp [endOf]

/-- An error comes without data, and only when the stream is at its end. -/
theorem connRead_err (cap : Nat) (s : Script) (e : RdErr) (h : (connRead cap s).2.1 = some e) :
    (connRead cap s).1 = [] ∧ streamOf s = [] ∧ endOf s = e ∧ streamOf (connRead cap s).2.2 = [] := by
  induction s with
  | nil => simp [connRead] at h; simp [connRead, streamOf, endOf, h]
  | cons ev r ih =>
    cases ev with
    | eof => simp [connRead] at h; simp [connRead, streamOf, endOf, h]
    | err => simp [connRead] at h; simp [connRead, streamOf, endOf, h]
    | chunk bs =>
      simp only [connRead] at h ⊢
      split at h
      · next hb => subst hb; simp only [if_true]; simpa [streamOf, endOf] using ih h
      · split at h <;> simp at h

/-- With room in the destination, a read without an error delivers at least one byte. -/
theorem connRead_progress (cap : Nat) (hcap : 0 < cap) (s : Script) (h : (connRead cap s).2.1 = none) :
    (connRead cap s).1 ≠ [] := by
  induction s with
  | nil => simp [connRead] at h
  | cons ev r ih =>
    cases ev with
    | eof => simp [connRead] at h
    | err => simp [connRead] at h
    | chunk bs =>
      simp only [connRead] at h ⊢
      split
      · next hb => subst hb; simp only [if_true] at h; exact ih h
      · next hb =>
        split
        · exact hb
        · intro ht
          have ht' : bs.take cap = [] := ht
          have : (bs.take cap).length = 0 := by rw [ht']; rfl
          rw [List.length_take] at this
          have hl : 0 < bs.length := List.length_pos_iff.mpr hb
          omega

theorem connRead_data_noerr (cap : Nat) (s : Script) (h : (connRead cap s).1 ≠ []) :
    (connRead cap s).2.1 = none := by
  cases he : (connRead cap s).2.1 with
  | none => rfl
  | some e => exact absurd (connRead_err cap s e he).1 h

theorem totalBytes_connRead (cap : Nat) (s : Script) :
    totalBytes s = (connRead cap s).1.length + totalBytes (connRead cap s).2.2 := by
  unfold totalBytes
  rw [connRead_stream cap s, List.length_append]

/-! ### copyBuffer -/

/-- What the loop guarantees, for every script, every writer script and enough fuel. -/
structure CopyOK (s : Script) (w : WScript) (r : CopyRes) : Prop where
  notStuck : r.err ≠ .stuck
  pref : r.written <+: streamOf s
  counter : r.counter = r.written.length
  clean : (r.err = .none ∨ r.err = .read) → r.written = streamOf s ∧ r.err = .ofRd (endOf s)
  fullWriter : w = [] → (r.err = .none ∨ r.err = .read)

theorem connWrite_le (bs : Bytes) (w : WScript) : (connWrite bs w).1 ≤ bs.length := by
  cases w with
  | nil => simp [connWrite]
  | cons e r => cases e <;> simp [connWrite] <;> omega

theorem copyLoop_ok (cap : Nat) (hcap : 0 < cap) :
    ∀ (fuel : Nat) (s : Script) (w : WScript), totalBytes s < fuel → CopyOK s w (copyLoop cap fuel s w) := by
  intro fuel
  induction fuel with
  | zero => intro s w h; omega
  | succ fuel ih =>
    intro s w hf
    have hst := connRead_stream cap s
    have hend := connRead_end cap s
    have htot := totalBytes_connRead cap s
    rcases hcr : connRead cap s with ⟨bs, er, s'⟩
    rw [hcr] at hst hend htot
    simp only at hst hend htot
    simp only [copyLoop, hcr]
    by_cases hbs : bs = []
    · -- no data: must be an error
      subst hbs
      simp only [ne_eq, not_true_eq_false, if_false]
      cases er with
      | none =>
        exfalso
        have := connRead_progress cap hcap s (by rw [hcr])
        rw [hcr] at this; exact this rfl
      | some e =>
        have he := connRead_err cap s e (by rw [hcr])
        rw [hcr] at he
        refine ⟨by cases e <;> simp [CopyErr.ofRd], ?_, rfl, ?_, ?_⟩
        · simp [he.2.1]
        · intro _; simp [he.2.1, he.2.2.1]
        · intro _; cases e <;> simp [CopyErr.ofRd]
    · simp only [ne_eq, hbs, not_false_eq_true, if_true]
      have hnone : er = none := by
        have := connRead_data_noerr cap s (by rw [hcr]; exact hbs)
        rw [hcr] at this; exact this
      subst hnone
      have hlen : 0 < bs.length := List.length_pos_iff.mpr hbs
      rcases hcw : connWrite bs w with ⟨nw, ew, w'⟩
      have hle : nw ≤ bs.length := by have := connWrite_le bs w; rw [hcw] at this; exact this
      simp only
      have hpre : bs.take nw <+: streamOf s := by
        rw [hst]; exact (List.take_prefix nw bs).trans (List.prefix_append bs _)
      by_cases hew : ew = true
      · subst hew
        simp only [if_true]
        refine ⟨by simp, hpre, by simp [List.length_take]; omega, by simp, ?_⟩
        intro hw; subst hw; simp [connWrite] at hcw
      · have : ew = false := by cases ew <;> simp_all
        subst this
        simp only [Bool.false_eq_true, if_false]
        by_cases hnw : nw = bs.length
        · subst hnw
          simp only [not_true_eq_false, if_false]
          have hrec := ih s' w' (by omega)
          refine ⟨hrec.notStuck, ?_, ?_, ?_, ?_⟩
          · rw [hst]; exact (List.prefix_append_right_inj bs).mpr hrec.pref
          · simp [hrec.counter]
          · intro h
            have := hrec.clean h
            rw [hst, this.1, this.2, hend]; exact ⟨rfl, rfl⟩
          · intro hw; subst hw
            have : w' = [] := by simp [connWrite] at hcw; exact hcw
            exact hrec.fullWriter this
        · simp only [hnw, not_false_eq_true, if_true]
          refine ⟨by simp, hpre, by simp [List.length_take]; omega, by simp, ?_⟩
          intro hw; subst hw; simp [connWrite] at hcw; omega

theorem copyBuffer_ok (cap : Nat) (hcap : 0 < cap) (s : Script) (w : WScript) :
    CopyOK s w (copyBuffer cap s w) :=
  copyLoop_ok cap hcap _ s w (Nat.lt_succ_self _)

/-! ### bufio.Reader: nothing is lost or reordered between the socket, the buffer and the caller -/

/-- A pending error is consistent with the socket: the socket is at its end. -/
def WF (b : BufReader) : Prop := ∀ e, b.err = some e → streamOf b.conn = []

/-- What is still to come through the reader: the buffered bytes, then the rest of the socket. -/
def rest (b : BufReader) : Bytes := b.buf ++ streamOf b.conn

theorem wf_new (s : Script) (n : Nat) : WF (BufReader.new s n) := by
  intro e h; simp [BufReader.new] at h

theorem rest_new (s : Script) (n : Nat) : rest (BufReader.new s n) = streamOf s := by
  simp [rest, BufReader.new]

theorem fill_ok (b : BufReader) (hb : WF b) : WF b.fill ∧ rest b.fill = rest b := by
  unfold BufReader.fill
  have hst := connRead_stream (b.size - b.buf.length) b.conn
  rcases hcr : connRead (b.size - b.buf.length) b.conn with ⟨bs, e, c'⟩
  rw [hcr] at hst
  simp only at hst ⊢
  constructor
  · intro x hx
    simp only at hx ⊢
    cases e with
    | some y =>
      have := connRead_err _ b.conn y (by rw [hcr])
      rw [hcr] at this; exact this.2.2.2
    | none =>
      simp only at hx
      have := hb x hx
      rw [this] at hst
      have := List.append_eq_nil_iff.mp hst.symm
      exact this.2
  · simp [rest, hst, List.append_assoc]

theorem peekLoop_ok (n : Nat) : ∀ (fuel : Nat) (b : BufReader), WF b →
    WF (BufReader.peekLoop n fuel b) ∧ rest (BufReader.peekLoop n fuel b) = rest b := by
  intro fuel
  induction fuel with
  | zero => intro b hb; exact ⟨hb, rfl⟩
  | succ f ih =>
    intro b hb
    simp only [BufReader.peekLoop]
    split
    · have h1 := fill_ok b hb
      have h2 := ih b.fill h1.1
      exact ⟨h2.1, h2.2.trans h1.2⟩
    · exact ⟨hb, rfl⟩

theorem peek_ok (n : Nat) (b : BufReader) (hb : WF b) :
    WF (b.peek n).2.2 ∧ rest (b.peek n).2.2 = rest b := by
  have h := peekLoop_ok n (n + 1) b hb
  unfold BufReader.peek
  simp only
  split
  · exact h
  · split
    · split
      · refine ⟨?_, h.2⟩
        intro e he; simp at he
      · exact h
    · exact h

theorem read_ok (n : Nat) (b : BufReader) (hb : WF b) :
    WF (b.read n).2.2 ∧ (b.read n).1 ++ rest (b.read n).2.2 = rest b := by
  unfold BufReader.read
  split
  · split
    · exact ⟨hb, rfl⟩
    · refine ⟨?_, rfl⟩
      intro e he; simp at he
  · split
    · next hbuf =>
      split
      · refine ⟨?_, rfl⟩
        intro e he; simp at he
      · split
        · have hst := connRead_stream n b.conn
          rcases hcr : connRead n b.conn with ⟨bs, e, c'⟩
          rw [hcr] at hst
          simp only at hst ⊢
          refine ⟨?_, ?_⟩
          · intro x hx; simp at hx
          · simp [rest, hbuf, hst]
        · have hst := connRead_stream b.size b.conn
          rcases hcr : connRead b.size b.conn with ⟨bs, e, c'⟩
          rw [hcr] at hst
          simp only at hst ⊢
          split
          · next hbs =>
            refine ⟨?_, ?_⟩
            · intro x hx; simp at hx
            · simp [rest, hbuf, hst, hbs]
          · refine ⟨?_, ?_⟩
            · intro x hx
              simp only at hx ⊢
              have := connRead_err _ b.conn x (by rw [hcr]; exact hx)
              rw [hcr] at this; exact this.2.2.2
            · simp [rest, hbuf, hst, ← List.append_assoc, List.take_append_drop]
    · refine ⟨?_, ?_⟩
      · intro e he; exact hb e he
      · simp [rest, ← List.append_assoc, List.take_append_drop]

theorem readFullLoop_ok (want : Nat) : ∀ (fuel : Nat) (acc : Bytes) (b : BufReader), WF b →
    WF (BufReader.readFullLoop want fuel acc b).2.2 ∧
    (BufReader.readFullLoop want fuel acc b).1 ++ rest (BufReader.readFullLoop want fuel acc b).2.2 = acc ++ rest b := by
  intro fuel
  induction fuel with
  | zero => intro acc b hb; exact ⟨hb, rfl⟩
  | succ f ih =>
    intro acc b hb
    simp only [BufReader.readFullLoop]
    split
    · exact ⟨hb, rfl⟩
    · have hr := read_ok (want - acc.length) b hb
      rcases hrd : b.read (want - acc.length) with ⟨bs, e, b'⟩
      rw [hrd] at hr
      simp only at hr ⊢
      have hsum : (acc ++ bs) ++ rest b' = acc ++ rest b := by rw [List.append_assoc, hr.2]
      cases e with
      | none =>
        have := ih (acc ++ bs) b' hr.1
        exact ⟨this.1, this.2.trans hsum⟩
      | some e =>
        simp only
        split
        · exact ⟨hr.1, hsum⟩
        · split
          · exact ⟨hr.1, hsum⟩
          · exact ⟨hr.1, hsum⟩

theorem readFull_ok (want : Nat) (b : BufReader) (hb : WF b) :
    WF (b.readFull want).2.2 ∧ (b.readFull want).1 ++ rest (b.readFull want).2.2 = rest b := by
  have := readFullLoop_ok want (want + 1) [] b hb
  simpa [BufReader.readFull] using this

/-- Reading through the `bufio.Reader` from now on yields exactly `rest`. -/
theorem asScript_stream (b : BufReader) (hb : WF b) : streamOf b.asScript = rest b := by
  unfold BufReader.asScript rest
  cases he : b.err with
  | none =>
    by_cases hbuf : b.buf = [] <;> simp [hbuf, streamOf]
  | some e =>
    have := hb e he
    by_cases hbuf : b.buf = [] <;> cases e <;> simp [hbuf, streamOf, this]

/-! ### SNIProxy.ServeTCP -/

theorem copy_full_writer (s : Script) :
    (copyBuffer copyBufSize s []).written = streamOf s := by
  have h := copyBuffer_ok copyBufSize (by decide) s []
  exact (h.clean (h.fullWriter rfl)).1

/-- Where the client's stream goes: the hello that is replayed, the bytes read ahead into the bufio
buffer, and what is still in the socket; and what the upstream is sent, for either copy source. -/
theorem sni_split (src : CopySrc) (routed : Bool) (line : Bytes) (s : Script)
    (h : (sniServe src routed line s).stage = .tunnel) :
    ∃ tail : Bytes,
      streamOf s = (sniServe src routed line s).hello ++ (sniServe src routed line s).excess ++ tail ∧
      (sniServe src routed line s).upstream =
        line ++ (sniServe src routed line s).hello ++
          (match src with | .rawConn => tail | .buffered => (sniServe src routed line s).excess ++ tail) := by
  have hp := peek_ok 9 (BufReader.new s) (wf_new s _)
  rw [rest_new] at hp
  unfold sniServe at h ⊢
  rcases hpk : (BufReader.new s).peek 9 with ⟨hdr, pe, rd1⟩
  rw [hpk] at hp
  simp only [hpk] at h ⊢
  cases pe with
  | some e => simp at h
  | none =>
    simp only at h ⊢
    cases hhs : helloSize hdr with
    | none => simp [hhs] at h
    | some want =>
      simp only [hhs] at h ⊢
      have hf := readFull_ok want rd1 hp.1
      rcases hrf : rd1.readFull want with ⟨data, fe, rd2⟩
      rw [hrf] at hf
      simp only [hrf] at hf h ⊢
      cases fe with
      | some e => simp at h
      | none =>
        simp only at h ⊢
        cases routed with
        | false => simp at h
        | true =>
          simp only [Bool.not_true, Bool.false_eq_true, if_false] at h ⊢
          refine ⟨streamOf rd2.conn, ?_, ?_⟩
          · rw [← hp.2, ← hf.2]; simp [rest, List.append_assoc]
          · cases src with
            | rawConn => simp [copy_full_writer]
            | buffered => simp [copy_full_writer, asScript_stream rd2 hf.1, rest]

/-! ### the tunnel state machine -/

structure Inv (pre : Bytes) (s : Tun) : Prop where
  up : s.upSaw = pre ++ s.cSent.take s.c2u
  c2uLe : s.c2u ≤ s.cSent.length
  cl : s.clSaw = s.uSent.take s.u2c
  u2cLe : s.u2c ≤ s.uSent.length
  c2uDone : s.c2uDone = true → s.cFin = true ∧ s.c2u = s.cSent.length
  u2cDone : s.u2cDone = true → s.uFin = true ∧ s.u2c = s.uSent.length

theorem inv_init (pre : Bytes) : Inv pre (Tun.init pre) := by
  constructor <;> simp [Tun.init]

theorem step_inv (m : Mode) (pre : Bytes) (s : Tun) (e : Ev) (h : Inv pre s) : Inv pre (step m s e) := by
  obtain ⟨h1, h2, h3, h4, h5, h6⟩ := h
  cases e <;> simp only [step]
  case clientSend bs =>
    split
    · exact ⟨h1, h2, h3, h4, h5, h6⟩
    · next hf =>
      refine ⟨?_, ?_, h3, h4, ?_, h6⟩
      · simp [h1, List.take_append_of_le_length h2]
      · simp; omega
      · intro hd; have := h5 hd; simp_all
  case clientFin => exact ⟨h1, h2, h3, h4, fun hd => ⟨rfl, (h5 hd).2⟩, h6⟩
  case upSend bs =>
    split
    · exact ⟨h1, h2, h3, h4, h5, h6⟩
    · refine ⟨h1, h2, ?_, ?_, h5, ?_⟩
      · simp [h3, List.take_append_of_le_length h4]
      · simp; omega
      · intro hd; have := h6 hd; simp_all
  case upFin => exact ⟨h1, h2, h3, h4, h5, fun hd => ⟨rfl, (h6 hd).2⟩⟩
  case fwdC2U =>
    split
    · exact ⟨h1, h2, h3, h4, h5, h6⟩
    · refine ⟨?_, ?_, h3, h4, ?_, h6⟩
      · simp [h1, List.append_assoc, List.take_append_drop]
      · simp
      · intro hd; have := h5 hd; simp_all
  case fwdU2C =>
    split
    · exact ⟨h1, h2, h3, h4, h5, h6⟩
    · refine ⟨h1, h2, ?_, ?_, h5, ?_⟩
      · simp [h3, List.take_append_drop]
      · simp
      · intro hd; have := h6 hd; simp_all
  case c2uEOF =>
    split
    · exact ⟨h1, h2, h3, h4, h5, h6⟩
    · next hg =>
      have hg' : s.cFin = true ∧ s.c2u = s.cSent.length := by
        simp only [not_or, Bool.not_eq_true, Bool.not_eq_eq_eq_not, Nat.not_lt] at hg
        exact ⟨by simpa using hg.2.2.1, by omega⟩
      cases m <;> exact ⟨h1, h2, h3, h4, fun _ => hg', h6⟩
  case u2cEOF =>
    split
    · exact ⟨h1, h2, h3, h4, h5, h6⟩
    · next hg =>
      have hg' : s.uFin = true ∧ s.u2c = s.uSent.length := by
        simp only [not_or, Bool.not_eq_true, Bool.not_eq_eq_eq_not, Nat.not_lt] at hg
        exact ⟨by simpa using hg.2.2.1, by omega⟩
      cases m <;> exact ⟨h1, h2, h3, h4, h5, fun _ => hg'⟩
  case finish =>
    cases m <;> (dsimp only; split <;> exact ⟨h1, h2, h3, h4, h5, h6⟩)

theorem run_inv (m : Mode) (pre : Bytes) : ∀ (h : List Ev) (s : Tun), Inv pre s → Inv pre (run m s h) := by
  intro h
  induction h with
  | nil => intro s hs; exact hs
  | cons e t ih => intro s hs; exact ih _ (step_inv m pre s e hs)

/-- Mode `firstEnds` (the code): the ends see EOF only through the teardown, and the teardown needs one
finished direction. -/
structure InvFirst (s : Tun) : Prop where
  torn : s.torn = true → s.c2uDone = true ∨ s.u2cDone = true
  upEOF : s.upEOF = true → s.torn = true
  clEOF : s.clEOF = true → s.torn = true

/-- Mode `halfClose`: the teardown needs both directions finished. -/
structure InvHalf (s : Tun) : Prop where
  torn : s.torn = true → s.c2uDone = true ∧ s.u2cDone = true
  upEOF : s.upEOF = true → s.c2uDone = true
  clEOF : s.clEOF = true → s.u2cDone = true

/-- Mode `clientHalf` (the repaired code): the teardown needs the upstream→client direction finished; the
upstream sees EOF when the client→upstream direction has ended (`CloseWrite`) or through the teardown; the client
sees EOF only through the teardown. -/
structure InvCH (s : Tun) : Prop where
  torn : s.torn = true → s.u2cDone = true
  upEOF : s.upEOF = true → s.c2uDone = true ∨ s.torn = true
  clEOF : s.clEOF = true → s.torn = true

theorem step_invCH (s : Tun) (e : Ev) (h : InvCH s) : InvCH (step .clientHalf s e) := by
  obtain ⟨a, b, c⟩ := h
  cases e <;> simp only [step] <;> (try split) <;>
    first
    | exact ⟨a, b, c⟩
    | (constructor <;> simp_all)

theorem run_invCH : ∀ (h : List Ev) (s : Tun), InvCH s → InvCH (run .clientHalf s h) := by
  intro h
  induction h with
  | nil => intro s hs; exact hs
  | cons e t ih => intro s hs; exact ih _ (step_invCH s e hs)

theorem invCH_init (pre : Bytes) : InvCH (Tun.init pre) := by constructor <;> simp [Tun.init]

theorem step_invFirst (s : Tun) (e : Ev) (h : InvFirst s) : InvFirst (step .firstEnds s e) := by
  obtain ⟨a, b, c⟩ := h
  cases e <;> simp only [step] <;> (try split) <;>
    first
    | exact ⟨a, b, c⟩
    | (constructor <;> simp_all <;> (cases hd : s.c2uDone <;> simp_all))

theorem step_invHalf (s : Tun) (e : Ev) (h : InvHalf s) : InvHalf (step .halfClose s e) := by
  obtain ⟨a, b, c⟩ := h
  cases e <;> simp only [step] <;> (try split) <;>
    first
    | exact ⟨a, b, c⟩
    | (constructor <;> simp_all)

theorem run_invFirst : ∀ (h : List Ev) (s : Tun), InvFirst s → InvFirst (run .firstEnds s h) := by
  intro h
  induction h with
  | nil => intro s hs; exact hs
  | cons e t ih => intro s hs; exact ih _ (step_invFirst s e hs)

theorem run_invHalf : ∀ (h : List Ev) (s : Tun), InvHalf s → InvHalf (run .halfClose s h) := by
  intro h
  induction h with
  | nil => intro s hs; exact hs
  | cons e t ih => intro s hs; exact ih _ (step_invHalf s e hs)

theorem invFirst_init (pre : Bytes) : InvFirst (Tun.init pre) := by constructor <;> simp [Tun.init]
theorem invHalf_init (pre : Bytes) : InvHalf (Tun.init pre) := by constructor <;> simp [Tun.init]

/-- After the teardown nothing is delivered any more, whatever happens. -/
theorem torn_step (m : Mode) (s : Tun) (e : Ev) (h : s.torn = true) :
    (step m s e).torn = true ∧ (step m s e).clSaw = s.clSaw ∧ (step m s e).upSaw = s.upSaw := by
  cases e <;> simp only [step] <;> (try split) <;> simp_all
  all_goals (cases m <;> simp_all)

theorem torn_run (m : Mode) : ∀ (h : List Ev) (s : Tun), s.torn = true →
    (run m s h).torn = true ∧ (run m s h).clSaw = s.clSaw ∧ (run m s h).upSaw = s.upSaw := by
  intro h
  induction h with
  | nil => intro s hs; exact ⟨hs, rfl, rfl⟩
  | cons e t ih =>
    intro s hs
    have h1 := torn_step m s e hs
    have h2 := ih _ h1.1
    exact ⟨h2.1, h2.2.1.trans h1.2.1, h2.2.2.trans h1.2.2⟩

/-- What a side has sent only grows. -/
theorem uSent_step (m : Mode) (s : Tun) (e : Ev) : s.uSent.length ≤ (step m s e).uSent.length := by
  cases e <;> simp only [step] <;> (try split) <;> (try cases m) <;> (try dsimp only) <;> (try split) <;> simp

theorem uSent_run (m : Mode) : ∀ (h : List Ev) (s : Tun), s.uSent.length ≤ (run m s h).uSent.length := by
  intro h
  induction h with
  | nil => intro s; exact Nat.le_refl _
  | cons e t ih => intro s; exact Nat.le_trans (uSent_step m s e) (ih _)


end Fabio.Lemmas.C09
