import Fabio.Model.C18
/-!
Helper lemmas for C18: `Time` (`Option Nat`, `none` = never) as a max/min lattice, `drain`, `maxReturn`
(bounds, attainment, permutation invariance). Core Lean only.
-/
namespace Fabio.Lemmas.C18
open Fabio.Model.C18

/-! ### order facts about `Time` -/

theorem tle_refl (a : Time) : tle a a = true := by
  cases a <;> simp [tle]

theorem tle_trans {a b c : Time} (h1 : tle a b = true) (h2 : tle b c = true) : tle a c = true := by
  cases a <;> cases b <;> cases c <;> simp_all [tle]
  omega

theorem tmax_le {a b c : Time} (h1 : tle a c = true) (h2 : tle b c = true) : tle (tmax a b) c = true := by
  cases a <;> cases b <;> cases c <;> simp_all [tle, tmax]
  omega

theorem le_tmax_left (a b : Time) : tle a (tmax a b) = true := by
  cases a <;> cases b <;> simp [tle, tmax]
  omega

theorem le_tmax_right (a b : Time) : tle b (tmax a b) = true := by
  cases a <;> cases b <;> simp [tle, tmax]
  omega

theorem tmin_le_right (a b : Time) : tle (tmin a b) b = true := by
  cases a <;> cases b <;> simp [tle, tmin]
  omega

theorem le_tmin {a b c : Time} (h1 : tle c a = true) (h2 : tle c b = true) : tle c (tmin a b) = true := by
  cases a <;> cases b <;> cases c <;> simp_all [tle, tmin]
  omega

theorem tmax_comm (a b : Time) : tmax a b = tmax b a := by
  cases a <;> cases b <;> simp [tmax, Nat.max_comm]

theorem tmax_assoc (a b c : Time) : tmax (tmax a b) c = tmax a (tmax b c) := by
  cases a <;> cases b <;> cases c <;> simp [tmax, Nat.max_assoc]

theorem tmax_none_left (a : Time) : tmax none a = none := by cases a <;> rfl
theorem tmax_none_right (a : Time) : tmax a none = none := by cases a <;> rfl

/-! ### `drain` and `maxReturn` -/

theorem le_drain {t0 : Nat} {ws : List Time} {e : Time} (h : e ∈ ws) : tle e (drain t0 ws) = true := by
  induction ws with
  | nil => cases h
  | cons w ws ih =>
    simp only [drain]
    cases h with
    | head => exact le_tmax_left _ _
    | tail _ h' => exact tle_trans (ih h') (le_tmax_right _ _)

theorem start_le_drain (t0 : Nat) (ws : List Time) : tle (some t0) (drain t0 ws) = true := by
  induction ws with
  | nil => simp [drain, tle]
  | cons w ws ih => exact tle_trans ih (le_tmax_right _ _)

theorem drain_none {t0 : Nat} {ws : List Time} (h : none ∈ ws) : drain t0 ws = none := by
  have := le_drain (t0 := t0) h
  cases hd : drain t0 ws with
  | none => rfl
  | some d => rw [hd] at this; simp [tle] at this

theorem le_maxReturn {t0 : Nat} {rs : List Time} {r : Time} (h : r ∈ rs) : tle r (maxReturn t0 rs) = true := by
  induction rs with
  | nil => cases h
  | cons x xs ih =>
    simp only [maxReturn]
    cases h with
    | head => exact le_tmax_left _ _
    | tail _ h' => exact tle_trans (ih h') (le_tmax_right _ _)

theorem maxReturn_le {t0 d : Nat} {rs : List Time} (h0 : t0 ≤ d)
    (h : ∀ r ∈ rs, tle r (some d) = true) : tle (maxReturn t0 rs) (some d) = true := by
  induction rs with
  | nil => simp [maxReturn, tle, h0]
  | cons x xs ih =>
    simp only [maxReturn]
    exact tmax_le (h x (List.mem_cons_self ..)) (ih (fun r hr => h r (List.mem_cons_of_mem _ hr)))

theorem maxReturn_attained (t0 : Nat) (rs : List Time) :
    maxReturn t0 rs = some t0 ∨ maxReturn t0 rs ∈ rs := by
  induction rs with
  | nil => left; rfl
  | cons x xs ih =>
    simp only [maxReturn]
    have hx : tmax x (maxReturn t0 xs) = x ∨ tmax x (maxReturn t0 xs) = maxReturn t0 xs := by
      cases x <;> cases hm : maxReturn t0 xs <;> simp [tmax]
      omega
    cases hx with
    | inl h => right; rw [h]; exact List.mem_cons_self ..
    | inr h =>
      rw [h]
      cases ih with
      | inl h0 => left; exact h0
      | inr hm => right; exact List.mem_cons_of_mem _ hm

theorem maxReturn_perm {t0 : Nat} {a b : List Time} (h : a.Perm b) : maxReturn t0 a = maxReturn t0 b := by
  induction h with
  | nil => rfl
  | cons x _ ih => simp only [maxReturn, ih]
  | swap x y l => simp only [maxReturn]; rw [← tmax_assoc, ← tmax_assoc, tmax_comm y x]
  | trans _ _ ih1 ih2 => exact ih1.trans ih2

end Fabio.Lemmas.C18
