import Fabio.Model.C12Serve
/-! Helper lemmas for the round-3 part of C12 (several targets, first requests arriving together). -/
namespace Fabio.Lemmas.C12
open Fabio Fabio.Model.C12

/-- the state a request thread can be in while nobody writes the rule map `cell` -/
def ReaderOK (cell : Rules) (peer : TCPPeer) (rd : Reader) : Prop :=
  (rd.pc = 0 ∧ rd.result = none) ∨
  (rd.pc = 1 ∧ rd.result = none ∧ cell.isEmpty = false) ∨
  (rd.pc = 2 ∧ rd.result = some (accessDeniedTCP cell peer))

theorem stepReader_ok (cell : Rules) (peer : TCPPeer) (rd : Reader) (h : ReaderOK cell peer rd) :
    ReaderOK cell peer (stepReader cell peer rd) := by
  rcases h with ⟨h0, hr⟩ | ⟨h1, hr, he⟩ | ⟨h2, hr⟩
  · unfold stepReader; rw [h0]
    by_cases he : cell.isEmpty = true
    · right; right; simp [he, accessDeniedTCP]
    · right; left; simp at he; simp [he]
  · unfold stepReader; rw [h1]
    right; right
    refine ⟨rfl, ?_⟩
    simp [accessDeniedTCP, he]
    cases peer <;> rfl
  · unfold stepReader; rw [h2]
    right; right; exact ⟨h2, hr⟩

theorem stepAt_ok (cell : Rules) (peer : TCPPeer) (rs : List Reader) (tid : Nat)
    (h : ∀ rd ∈ rs, ReaderOK cell peer rd) : ∀ rd ∈ stepAt cell peer rs tid, ReaderOK cell peer rd := by
  induction rs generalizing tid with
  | nil => intro rd hrd; simp [stepAt] at hrd
  | cons r rs ih =>
    cases tid with
    | zero =>
      intro rd hrd
      simp only [stepAt, List.mem_cons] at hrd
      rcases hrd with rfl | hrd
      · exact stepReader_ok cell peer r (h r (by simp))
      · exact h rd (by simp [hrd])
    | succ n =>
      intro rd hrd
      simp only [stepAt, List.mem_cons] at hrd
      rcases hrd with rfl | hrd
      · exact h _ (by simp)
      · exact ih n (fun x hx => h x (by simp [hx])) rd hrd

theorem runSched_reads_ok (peer : TCPPeer) (cell : Rules) (rs : List Reader) (sched : List Action)
    (hs : sched.all Action.isRead = true) (h : ∀ rd ∈ rs, ReaderOK cell peer rd) :
    (runSched peer (cell, rs) sched).1 = cell ∧ ∀ rd ∈ (runSched peer (cell, rs) sched).2, ReaderOK cell peer rd := by
  induction sched generalizing rs with
  | nil => exact ⟨rfl, h⟩
  | cons a as ih =>
    cases a with
    | write r => simp [Action.isRead] at hs
    | read tid =>
      simp only [List.all_cons, Action.isRead, Bool.true_and] at hs
      simp only [runSched]
      exact ih (stepAt cell peer rs tid) hs (stepAt_ok cell peer rs tid h)

end Fabio.Lemmas.C12
