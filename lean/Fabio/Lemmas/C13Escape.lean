import Fabio.Model.C13
import Fabio.Lemmas.C13
/-!
C13, round 3: `net/url` path escaping round-trips for arbitrary byte strings (core Lean only).

`unescape (escape s) = some s`, `validEncoded (escape s)`, hence `URL.EscapedPath()` always is a valid encoding
that decodes to `URL.Path`. The 256-case facts about the hex digits are discharged by kernel evaluation over
`Fin 256` (`byte_cases`); everything else is induction over the string.
-/
namespace Fabio.Lemmas.C13
open Fabio Fabio.Model.C13

theorem unescape_pct (h1 h2 : UInt8) (rest : Str) :
    unescape (37 :: h1 :: h2 :: rest) =
      if ishex h1 && ishex h2 then (unescape rest).map (fun r => ((unhex h1 <<< 4) ||| unhex h2) :: r) else none := by
  rw [unescape]

set_option maxRecDepth 100000 in
theorem byte_cases : ∀ c : Fin 256, (let b := UInt8.ofNat c.val;
    ishex (upperhex (b >>> 4)) = true ∧ ishex (upperhex (b &&& 15)) = true ∧
    shouldEscape (upperhex (b >>> 4)) .path = false ∧ shouldEscape (upperhex (b &&& 15)) .path = false ∧
    ((unhex (upperhex (b >>> 4)) <<< 4) ||| unhex (upperhex (b &&& 15))) = b ∧
    upperhex (b >>> 4) ≠ 36 ∧ upperhex (b &&& 15) ≠ 36) := by decide

theorem byte_roundtrip (b : UInt8) :
    ishex (upperhex (b >>> 4)) = true ∧ ishex (upperhex (b &&& 15)) = true ∧
    shouldEscape (upperhex (b >>> 4)) .path = false ∧ shouldEscape (upperhex (b &&& 15)) .path = false ∧
    ((unhex (upperhex (b >>> 4)) <<< 4) ||| unhex (upperhex (b &&& 15))) = b ∧
    upperhex (b >>> 4) ≠ 36 ∧ upperhex (b &&& 15) ≠ 36 := by
  have := byte_cases ⟨b.toNat, b.toNat_lt⟩
  simpa only [UInt8.ofNat_toNat] using this

theorem not_shouldEscape_ne_pct (c : UInt8) (h : shouldEscape c .path = false) : c ≠ 37 := by
  intro e; subst e; revert h; decide

/-- **`net/url` path escaping is inverted by unescaping, for every byte string.** -/
theorem unescape_escape (s : Str) : unescape (escape .path s) = some s := by
  induction s with
  | nil => rfl
  | cons c cs ih =>
    unfold escape
    by_cases h : shouldEscape c .path = true
    · obtain ⟨x1, x2, _, _, e, _, _⟩ := byte_roundtrip c
      simp [h, unescape_pct, x1, x2, ih, e]
    · have h' : shouldEscape c .path = false := by simpa using h
      simp only [h', Bool.false_eq_true, if_false]
      rw [unescape_cons_ne _ _ (not_shouldEscape_ne_pct c h'), ih]; rfl

/-- …and what `escape` writes is a valid encoding -/
theorem validEncoded_escape (s : Str) : validEncoded (escape .path s) = true := by
  induction s with
  | nil => rfl
  | cons c cs ih =>
    unfold escape
    by_cases h : shouldEscape c .path = true
    · obtain ⟨_, _, y1, y2, _, _, _⟩ := byte_roundtrip c
      have : validExtra.contains (37 : UInt8) = true := by decide
      simp only [h, if_true]
      simp only [validEncoded, List.all_cons, this, Bool.true_or, y1, y2, Bool.not_false, Bool.or_true, Bool.true_and]
      exact ih
    · have h' : shouldEscape c .path = false := by simpa using h
      simp only [h', Bool.false_eq_true, if_false]
      simp only [validEncoded, List.all_cons, h', Bool.not_false, Bool.or_true, Bool.true_and]
      exact ih

theorem escape_append (m : Mode) (a b : Str) : escape m (a ++ b) = escape m a ++ escape m b := by
  induction a with
  | nil => rfl
  | cons c cs ih => simp only [List.cons_append, escape]; split <;> simp [ih]

/-- escaping introduces no `$` -/
theorem escape_no_dollar (s : Str) (h : ∀ c ∈ s, c ≠ 36) : ∀ c ∈ escape .path s, c ≠ 36 := by
  induction s with
  | nil => intro c hc; simp [escape] at hc
  | cons d ds ih =>
    have ih := ih (fun c hc => h c (by simp [hc]))
    obtain ⟨_, _, _, _, _, z1, z2⟩ := byte_roundtrip d
    intro c hc
    unfold escape at hc
    split at hc
    · simp only [List.mem_cons] at hc
      rcases hc with rfl | rfl | rfl | hc
      · decide
      · exact z1
      · exact z2
      · exact ih c hc
    · simp only [List.mem_cons] at hc
      rcases hc with rfl | hc
      · exact h _ (by simp)
      · exact ih c hc

/-- **`URL.EscapedPath()` always decodes to `Path`** (whatever the raw-path hint holds) -/
theorem escapedPath_decodes (u : URL) : unescape (escapedPath u) = some u.path := by
  unfold escapedPath
  split
  · rename_i h; simp only [Bool.and_eq_true, beq_iff_eq] at h; exact h.2
  · split
    · rename_i h; simp only [beq_iff_eq] at h; rw [h]; rfl
    · exact unescape_escape _

/-- …and is a valid encoding -/
theorem escapedPath_valid (u : URL) : validEncoded (escapedPath u) = true := by
  unfold escapedPath
  split
  · rename_i h; simp only [Bool.and_eq_true] at h; exact h.1.2
  · split
    · decide
    · exact validEncoded_escape _



/-- `unescape` of a concatenation whose first part decodes -/
theorem unescape_append (a b a' : Str) (h : unescape a = some a') :
    unescape (a ++ b) = (unescape b).map (fun r => a' ++ r) := by
  induction a using unescape.induct generalizing a' with
  | case1 => simp [unescape] at h; subst h; simp
  | case2 h1 h2 rest hx ih =>
    simp only [unescape_pct, hx, if_true, Option.map_eq_some_iff] at h
    obtain ⟨r, hr, rfl⟩ := h
    simp only [List.cons_append, unescape_pct, hx, if_true, ih r hr]
    cases unescape b <;> simp
  | case3 h1 h2 rest hx => simp [unescape_pct, hx] at h
  | case4 => simp [unescape] at h
  | case5 x => simp [unescape] at h
  | case6 c rest hn1 hn2 hn3 ih =>
    have hc : c ≠ 37 := by
      intro e; subst e
      match rest, hn1, hn2, hn3 with
      | [], _, h2, _ => exact h2 rfl rfl
      | [x], _, _, h3 => exact h3 x rfl rfl
      | x :: y :: r, h1, _, _ => exact h1 x y r rfl rfl
    rw [unescape_cons_ne _ _ hc, Option.map_eq_some_iff] at h
    obtain ⟨r, hr, rfl⟩ := h
    simp only [List.cons_append]
    rw [unescape_cons_ne _ _ hc, ih r hr]
    cases unescape b <;> simp



/-- `unescape` passes over a prefix without `%` -/
theorem unescape_nopct_append (a b : Str) (h : ∀ c ∈ a, c ≠ 37) :
    unescape (a ++ b) = (unescape b).map (fun r => a ++ r) := by
  induction a with
  | nil => simp
  | cons c cs ih =>
    have := ih (fun d hd => h d (by simp [hd]))
    simp only [List.cons_append]
    rw [unescape_cons_ne _ _ (h c (by simp)), this]
    cases unescape b <;> simp

/-- A prefix without `%` that is removed literally from both the escaped and the decoded path leaves a rest
that is a valid encoding of the decoded rest. -/
theorem rest_decodes (u : URL) (s r' p' : Str) (hs : ∀ c ∈ s, c ≠ 37)
    (hraw : escapedPath u = s ++ r') (hpath : u.path = s ++ p') :
    validEncoded r' = true ∧ unescape r' = some p' := by
  have hv := escapedPath_valid u
  have hu := escapedPath_decodes u
  rw [hraw] at hv hu
  rw [validEncoded_append, Bool.and_eq_true] at hv
  refine ⟨hv.2, ?_⟩
  rw [unescape_nopct_append _ _ hs, hpath] at hu
  cases h : unescape r' with
  | none => simp [h] at hu
  | some x => simp only [h, Option.map_some, Option.some.injEq, List.append_cancel_left_eq] at hu; rw [hu]

theorem escapedPath_of_path (p : Str) (h : p ≠ [42]) : escapedPath ({ path := p } : URL) = escape .path p := by
  unfold escapedPath
  simp [h]

end Fabio.Lemmas.C13
