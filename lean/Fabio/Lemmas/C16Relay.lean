import Fabio.Model.C16Relay
/-! Helper lemmas for the relay model of C16: the invariant of `Relay.step`. -/
namespace Fabio.Lemmas.C16Relay
open Fabio.Model.C16.Spec (SMD)
open Fabio.Model.C16.Relay

/-- no header item in a queue -/
def NoHdr (q : List Item) : Prop := ∀ h, Item.header h ∉ q

/-- The invariant of the relay. `fwd`/`bwd`: per direction, what one end sent is what the other end received
followed by what is in flight (second stream, the message a forwarder holds, first stream) — nothing lost,
duplicated, reordered or altered anywhere.  The remaining fields order the control events. -/
structure Inv (s : St) : Prop where
  fwd : s.cSent = s.bGot ++ s.qB ++ s.s2c.held ++ s.qA
  bwd : s.bSent = s.cGot ++ msgsOf s.qD ++ s.c2s.held ++ s.qC
  eofA : s.s2c = .eof → s.qA = [] ∧ s.cClosed = true
  closedB : s.bClosed = true → s.s2c = .eof
  eofB : s.bEOF = true → s.qB = [] ∧ s.bClosed = true
  hdr1 : s.first = true → s.qD = [] ∧ s.cGot = [] ∧ s.cHdr = none ∧ ∀ m, s.c2s ≠ .send m
  hdr0 : s.first = false → s.bSent ≠ [] ∧ (∀ m, s.c2s ≠ .hdr m) ∧
    ((s.cHdr = some s.bHdr ∧ NoHdr s.qD) ∨ (s.cHdr = none ∧ s.cGot = [] ∧ ∃ r, s.qD = .header s.bHdr :: r ∧ NoHdr r))
  hdrm : ∀ m, s.c2s = .hdr m → s.bSent ≠ []
  done : ∀ tr st, s.c2s = .done tr st → s.bFin = some (tr, st) ∧ s.qC = []
  dfin : ∀ f, s.dFin = some f → ∃ tr st, s.c2s = .done tr st ∧ f = (tr, st.norm)
  cfin : ∀ f, s.cFin = some f → s.dFin = some f ∧ s.qD = []

theorem inv_init (method : String) (md : SMD) : Inv (init method md) := by
  refine ⟨rfl, rfl, ?_, ?_, ?_, ?_, ?_, ?_, ?_, ?_, ?_⟩ <;> simp [init]

theorem msgsOf_append (a b : List Item) : msgsOf (a ++ b) = msgsOf a ++ msgsOf b := by
  simp [msgsOf, List.filterMap_append]

@[simp] theorem msgsOf_header_cons (h : SMD) (q : List Item) : msgsOf (.header h :: q) = msgsOf q := rfl
@[simp] theorem msgsOf_msg_cons (m : Msg) (q : List Item) : msgsOf (.msg m :: q) = m :: msgsOf q := rfl
@[simp] theorem msgsOf_nil : msgsOf [] = [] := rfl

theorem noHdr_append_msg {q : List Item} (h : NoHdr q) (m : Msg) : NoHdr (q ++ [.msg m]) := by
  intro x hx
  rcases List.mem_append.mp hx with hx | hx
  · exact h x hx
  · simp at hx

theorem noHdr_tail {i : Item} {q : List Item} (h : NoHdr (i :: q)) : NoHdr q :=
  fun x hx => h x (List.mem_cons_of_mem _ hx)

theorem inv_step (s : St) (e : Ev) (h : Inv s) : Inv (step s e) := by
  obtain ⟨fwd, bwd, eofA, closedB, eofB, hdr1, hdr0, hdrm, done, dfin, cfin⟩ := h
  cases e with
  | callerSend m =>
    simp only [step]
    split
    · exact ⟨fwd, bwd, eofA, closedB, eofB, hdr1, hdr0, hdrm, done, dfin, cfin⟩
    · rename_i hc
      refine ⟨?_, bwd, ?_, closedB, eofB, hdr1, hdr0, hdrm, done, dfin, cfin⟩
      · simp [fwd]
      · intro he; have := (eofA he).2; simp [this] at hc
  | callerClose =>
    simp only [step]
    exact ⟨fwd, bwd, fun he => ⟨(eofA he).1, rfl⟩, closedB, eofB, hdr1, hdr0, hdrm, done, dfin, cfin⟩
  | callerRecv =>
    simp only [step]
    split
    · -- a header item arrives
      rename_i hd r hq
      have hf : s.first = false := by
        cases hfe : s.first with
        | false => rfl
        | true => have := (hdr1 hfe).1; rw [this] at hq; cases hq
      obtain ⟨hne, hnh, hcase⟩ := hdr0 hf
      have hsec : s.cHdr = none ∧ s.cGot = [] ∧ hd = s.bHdr ∧ NoHdr r := by
        rcases hcase with ⟨_, hno⟩ | ⟨h1, h2, r', hr', hno⟩
        · exact absurd (by rw [hq]; exact List.mem_cons_self) (hno hd)
        · rw [hq] at hr'; injection hr' with e1 e2; injection e1 with e1; subst e2; exact ⟨h1, h2, e1, hno⟩
      obtain ⟨_, _, ehd, hno⟩ := hsec
      refine ⟨fwd, ?_, eofA, closedB, eofB, ?_, ?_, hdrm, done, dfin, ?_⟩
      · rw [bwd, hq]; simp
      · intro hfe; rw [hf] at hfe; cases hfe
      · intro _; exact ⟨hne, hnh, Or.inl ⟨by simp [ehd], hno⟩⟩
      · intro f hcf; have := (cfin f hcf).2; rw [this] at hq; cases hq
    · -- a message arrives
      rename_i m r hq
      have hf : s.first = false := by
        cases hfe : s.first with
        | false => rfl
        | true => have := (hdr1 hfe).1; rw [this] at hq; cases hq
      obtain ⟨hne, hnh, hcase⟩ := hdr0 hf
      have hfst : s.cHdr = some s.bHdr ∧ NoHdr s.qD := by
        rcases hcase with h1 | ⟨_, _, r', hr', _⟩
        · exact h1
        · rw [hq] at hr'; injection hr' with e1 _; cases e1
      refine ⟨fwd, ?_, eofA, closedB, eofB, ?_, ?_, hdrm, done, dfin, ?_⟩
      · rw [bwd, hq]; simp
      · intro hfe; rw [hf] at hfe; cases hfe
      · intro _; exact ⟨hne, hnh, Or.inl ⟨hfst.1, noHdr_tail (by rw [← hq]; exact hfst.2)⟩⟩
      · intro f hcf; have := (cfin f hcf).2; rw [this] at hq; cases hq
    · rename_i hq
      split
      · rename_i f hdf
        refine ⟨fwd, bwd, eofA, closedB, eofB, hdr1, hdr0, hdrm, done, dfin, ?_⟩
        intro f' hf'; simp only [Option.some.injEq] at hf'; subst hf'; exact ⟨hdf, hq⟩
      · exact ⟨fwd, bwd, eofA, closedB, eofB, hdr1, hdr0, hdrm, done, dfin, cfin⟩
  | backendRecv =>
    simp only [step]
    split
    · exact ⟨fwd, bwd, eofA, closedB, eofB, hdr1, hdr0, hdrm, done, dfin, cfin⟩
    · split
      · rename_i m r hq
        refine ⟨?_, bwd, eofA, closedB, ?_, hdr1, hdr0, hdrm, done, dfin, cfin⟩
        · rw [fwd, hq]; simp
        · intro he; have := (eofB he).1; rw [this] at hq; cases hq
      · rename_i hq
        split
        · rename_i hc
          exact ⟨fwd, bwd, eofA, closedB, fun _ => ⟨hq, hc⟩, hdr1, hdr0, hdrm, done, dfin, cfin⟩
        · exact ⟨fwd, bwd, eofA, closedB, eofB, hdr1, hdr0, hdrm, done, dfin, cfin⟩
  | backendHeader hd =>
    simp only [step]
    split
    · exact ⟨fwd, bwd, eofA, closedB, eofB, hdr1, hdr0, hdrm, done, dfin, cfin⟩
    · rename_i hc
      have hemp : s.bSent = [] := by
        cases hb : s.bSent with
        | nil => rfl
        | cons a l => simp [hb] at hc
      refine ⟨fwd, bwd, eofA, closedB, eofB, hdr1, ?_, hdrm, done, dfin, cfin⟩
      intro hf; exact absurd hemp (hdr0 hf).1
  | backendSend m =>
    simp only [step]
    split
    · exact ⟨fwd, bwd, eofA, closedB, eofB, hdr1, hdr0, hdrm, done, dfin, cfin⟩
    · rename_i hc
      refine ⟨fwd, ?_, eofA, closedB, eofB, hdr1, ?_, ?_, ?_, dfin, cfin⟩
      · simp [bwd]
      · intro hf; obtain ⟨_, h2, h3⟩ := hdr0 hf; exact ⟨by simp, h2, h3⟩
      · intro _ _; simp
      · intro tr st hd; have := (done tr st hd).1; simp [this] at hc
  | backendFinish tr st =>
    simp only [step]
    split
    · exact ⟨fwd, bwd, eofA, closedB, eofB, hdr1, hdr0, hdrm, done, dfin, cfin⟩
    · rename_i hc
      refine ⟨fwd, bwd, eofA, closedB, eofB, hdr1, hdr0, hdrm, ?_, dfin, cfin⟩
      intro tr' st' hd; have := (done tr' st' hd).1; simp [this] at hc
  | s2cStep =>
    simp only [step]
    split
    · rename_i hs
      split
      · -- the handler has returned
        refine ⟨?_, bwd, ?_, ?_, eofB, hdr1, hdr0, hdrm, done, dfin, cfin⟩
        · rw [fwd, hs]; simp [S2C.held]
        · intro he; cases he
        · intro hb; have := closedB hb; rw [hs] at this; cases this
      · split
        · rename_i m r hq
          refine ⟨?_, bwd, ?_, ?_, eofB, hdr1, hdr0, hdrm, done, dfin, cfin⟩
          · rw [fwd, hs, hq]; simp [S2C.held]
          · intro he; cases he
          · intro hb; have := closedB hb; rw [hs] at this; cases this
        · rename_i hq
          split
          · rename_i hc
            refine ⟨?_, bwd, fun _ => ⟨hq, hc⟩, fun _ => rfl, eofB, hdr1, hdr0, hdrm, done, dfin, cfin⟩
            rw [fwd, hs]; simp [S2C.held]
          · exact ⟨fwd, bwd, eofA, closedB, eofB, hdr1, hdr0, hdrm, done, dfin, cfin⟩
    · rename_i m hs
      refine ⟨?_, bwd, ?_, ?_, ?_, hdr1, hdr0, hdrm, done, dfin, cfin⟩
      · rw [fwd, hs]; simp [S2C.held]
      · intro he; cases he
      · intro hb; have := closedB hb; rw [hs] at this; cases this
      · intro he; have := closedB (eofB he).2; rw [hs] at this; cases this
    · exact ⟨fwd, bwd, eofA, closedB, eofB, hdr1, hdr0, hdrm, done, dfin, cfin⟩
    · exact ⟨fwd, bwd, eofA, closedB, eofB, hdr1, hdr0, hdrm, done, dfin, cfin⟩
  | c2sStep =>
    have nodone : ∀ {x : C2S}, (∀ tr st, x ≠ .done tr st) → s.c2s = x → s.dFin = none := by
      intro x hx hs
      cases hd : s.dFin with
      | none => rfl
      | some f => obtain ⟨tr, st, h1, _⟩ := dfin f hd; rw [hs] at h1; exact absurd h1 (hx tr st)
    simp only [step]
    split
    · rename_i hs
      split
      · rename_i m r hq
        rcases Bool.eq_false_or_eq_true s.first with hf | hf
        · rw [if_pos hf]
          obtain ⟨h1, h2, h3, _⟩ := hdr1 hf
          refine ⟨fwd, ?_, eofA, closedB, eofB, ?_, ?_, ?_, ?_, ?_, cfin⟩
          · rw [bwd, hs, hq]; simp [C2S.held]
          · intro _; exact ⟨h1, h2, h3, by intro m'; simp⟩
          · intro hfe; have hfe' : s.first = false := hfe; rw [hf] at hfe'; cases hfe'
          · intro m' _; rw [bwd, hs, hq]; simp [C2S.held]
          · intro tr st hd; cases hd
          · intro f hd; have := nodone (x := .recv) (by intro _ _ hh; cases hh) hs; rw [this] at hd; cases hd
        · rw [if_neg (by simp [hf])]
          refine ⟨fwd, ?_, eofA, closedB, eofB, ?_, ?_, ?_, ?_, ?_, cfin⟩
          · rw [bwd, hs, hq]; simp [C2S.held]
          · intro hfe; have hfe' : s.first = true := hfe; rw [hf] at hfe'; cases hfe'
          · intro _; obtain ⟨a, _, c⟩ := hdr0 hf; exact ⟨a, by intro m'; simp, c⟩
          · intro m' hm; cases hm
          · intro tr st hd; cases hd
          · intro f hd; have := nodone (x := .recv) (by intro _ _ hh; cases hh) hs; rw [this] at hd; cases hd
      · rename_i hq
        split
        · rename_i tr st hb
          refine ⟨fwd, ?_, eofA, closedB, eofB, ?_, ?_, ?_, ?_, ?_, cfin⟩
          · rw [bwd, hs]; simp [C2S.held]
          · intro hf; obtain ⟨h1, h2, h3, _⟩ := hdr1 hf; exact ⟨h1, h2, h3, by intro m'; simp⟩
          · intro hf; obtain ⟨a, _, c⟩ := hdr0 hf; exact ⟨a, by intro m'; simp, c⟩
          · intro m' hm; cases hm
          · intro tr' st' hd; injection hd with e1 e2; subst e1; subst e2; exact ⟨hb, hq⟩
          · intro f hd; have := nodone (x := .recv) (by intro _ _ hh; cases hh) hs; rw [this] at hd; cases hd
        · exact ⟨fwd, bwd, eofA, closedB, eofB, hdr1, hdr0, hdrm, done, dfin, cfin⟩
    · -- `src.Header()`, `dst.SendHeader(md)`
      rename_i m hs
      have hf : s.first = true := by
        cases hfe : s.first with
        | true => rfl
        | false => exact absurd hs ((hdr0 hfe).2.1 m)
      obtain ⟨h1, h2, h3, _⟩ := hdr1 hf
      have hdn := nodone (x := .hdr m) (by intro _ _ hh; cases hh) hs
      refine ⟨fwd, ?_, eofA, closedB, eofB, ?_, ?_, ?_, ?_, ?_, ?_⟩
      · rw [bwd, hs, h1]; simp [C2S.held]
      · intro hfe; cases hfe
      · intro _
        refine ⟨hdrm m hs, by intro m'; simp, Or.inr ⟨h3, h2, [], ?_, ?_⟩⟩
        · rw [h1]; rfl
        · intro x hx; cases hx
      · intro m' hm; cases hm
      · intro tr st hd; cases hd
      · intro f hd; rw [hdn] at hd; cases hd
      · intro f hc; have := (cfin f hc).1; rw [hdn] at this; cases this
    · rename_i m hs
      have hf : s.first = false := by
        cases hfe : s.first with
        | false => rfl
        | true => exact absurd hs ((hdr1 hfe).2.2.2 m)
      obtain ⟨hne, _, hcase⟩ := hdr0 hf
      have hdn := nodone (x := .send m) (by intro _ _ hh; cases hh) hs
      refine ⟨fwd, ?_, eofA, closedB, eofB, ?_, ?_, ?_, ?_, ?_, ?_⟩
      · rw [bwd, hs]; simp [C2S.held, msgsOf_append]
      · intro hfe; rw [hf] at hfe; cases hfe
      · intro _
        refine ⟨hne, by intro m'; simp, ?_⟩
        rcases hcase with ⟨a, b⟩ | ⟨a, b, r, hr, hno⟩
        · exact Or.inl ⟨a, noHdr_append_msg b m⟩
        · exact Or.inr ⟨a, b, r ++ [.msg m], by rw [hr]; rfl, noHdr_append_msg hno m⟩
      · intro m' hm; cases hm
      · intro tr st hd; cases hd
      · intro f hd; rw [hdn] at hd; cases hd
      · intro f hc; have := (cfin f hc).1; rw [hdn] at this; cases this
    · exact ⟨fwd, bwd, eofA, closedB, eofB, hdr1, hdr0, hdrm, done, dfin, cfin⟩
  | selS2C =>
    simp only [step]
    split
    · rename_i hc
      simp only [Bool.and_eq_true, decide_eq_true_eq] at hc
      exact ⟨fwd, bwd, eofA, fun _ => hc.1.1, fun he => ⟨(eofB he).1, rfl⟩, hdr1, hdr0, hdrm, done, dfin, cfin⟩
    · exact ⟨fwd, bwd, eofA, closedB, eofB, hdr1, hdr0, hdrm, done, dfin, cfin⟩
  | selC2S =>
    simp only [step]
    split
    · rename_i tr st hs
      split
      · rename_i hn
        refine ⟨fwd, bwd, eofA, closedB, eofB, hdr1, hdr0, hdrm, done, ?_, ?_⟩
        · intro f hf; simp only [Option.some.injEq] at hf; exact ⟨tr, st, hs, hf.symm⟩
        · intro f hc; have := (cfin f hc).1; simp [this] at hn
      · exact ⟨fwd, bwd, eofA, closedB, eofB, hdr1, hdr0, hdrm, done, dfin, cfin⟩
    · exact ⟨fwd, bwd, eofA, closedB, eofB, hdr1, hdr0, hdrm, done, dfin, cfin⟩

theorem inv_run (s : St) (es : List Ev) (h : Inv s) : Inv (run s es) := by
  induction es generalizing s with
  | nil => exact h
  | cons e es ih => exact ih (step s e) (inv_step s e h)

end Fabio.Lemmas.C16Relay
