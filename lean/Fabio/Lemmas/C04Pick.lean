import Fabio.Model.C04
import Mathlib.Data.List.Rotate
/-!
Helper lemmas for C04, picker part: closed form of `k` sequential `rrPicker` calls and the cycle property.
-/
namespace Fabio.Lemmas.C04
open Fabio Fabio.Model.C04

theorem rrPick_ok (ring : Ring) (h : 0 < ring.length) (total : Nat) :
    ∃ s, rrPick ring total = .ok (s, (total + 1) % uint64Size) ∧ ring[total % ring.length]? = some s := by
  have hlt : total % ring.length < ring.length := Nat.mod_lt _ h
  refine ⟨ring[total % ring.length], ?_, List.getElem?_eq_getElem hlt⟩
  unfold rrPick
  have : ring.length ≠ 0 := by omega
  simp [this, List.getElem?_eq_getElem hlt]

/-- closed form: the j-th of k sequential calls returns slot `((total + j) mod 2⁶⁴) mod N` -/
theorem rrRun_spec (ring : Ring) (h : 0 < ring.length) : ∀ (k total : Nat), total < uint64Size →
    ∃ out, rrRun ring k total = .ok out ∧ out.length = k ∧
      ∀ j, j < k → out[j]? = ring[((total + j) % uint64Size) % ring.length]? := by
  intro k
  induction k with
  | zero => intro total _; exact ⟨[], rfl, rfl, fun j hj => by omega⟩
  | succ k ih =>
    intro total ht
    obtain ⟨s, hs, hs2⟩ := rrPick_ok ring h total
    have hU : 0 < uint64Size := by decide
    obtain ⟨rest, hr, hl, hj⟩ := ih ((total + 1) % uint64Size) (Nat.mod_lt _ hU)
    refine ⟨s :: rest, ?_, by simp [hl], ?_⟩
    · simp only [rrRun, hs, hr]
    · intro j hjk
      cases j with
      | zero =>
        simp only [List.getElem?_cons_zero, Nat.add_zero, Nat.mod_eq_of_lt ht]
        exact hs2.symm
      | succ j =>
        simp only [List.getElem?_cons_succ]
        rw [hj j (by omega)]
        have : ((total + 1) % uint64Size + j) % uint64Size = (total + (j + 1)) % uint64Size := by
          rw [Nat.mod_add_mod]; congr 1; omega
        rw [this]

/-- A window of `N = ring.length` sequential calls that does not cross the uint64 wrap-around returns a
rotation of the ring. -/
theorem rrRun_cycle (ring : Ring) (h : 0 < ring.length) (total : Nat) (hw : total + ring.length ≤ uint64Size) :
    rrRun ring ring.length total = .ok (ring.rotate total) := by
  obtain ⟨out, ho, hl, hj⟩ := rrRun_spec ring h ring.length total (by omega)
  rw [ho]
  congr 1
  apply List.ext_getElem?
  intro j
  by_cases hjl : j < ring.length
  · have e : (total + j) % uint64Size = total + j := Nat.mod_eq_of_lt (by omega)
    rw [hj j hjl, List.getElem?_rotate hjl, e, Nat.add_comm]
  · rw [List.getElem?_eq_none (by omega), List.getElem?_eq_none (by rw [List.length_rotate]; omega)]

end Fabio.Lemmas.C04
