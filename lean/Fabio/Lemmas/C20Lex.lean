import Fabio.Lemmas.C20Host
/-! C20 helper lemmas: `lex`/`parse`, `uuid.ToString`, `hostport` against its specification, `write`. -/
namespace Fabio.Lemmas.C20
open Fabio Fabio.Model.C20

/-! ## lex -/

/-- state invariant of the `lex` loop: how far the index must have advanced -/
def lexInv (s : List Char) : LexState → Nat → Prop
  | .start, i => i = 0
  | .text, i => 1 ≤ i
  | .dollar, i => 1 ≤ i
  | .field, i => 2 ≤ i
  | .dot, i => i = 8 ∧ s.take 8 = headerPrefix ++ ['.']
  | .header, i => 9 ≤ i ∧ s.take 8 = headerPrefix ++ ['.']

theorem headerPrefix_length : headerPrefix.length = 7 := by decide

theorem take_succ_of_append_cons (pre : List Char) (r : Char) (rs : List Char) :
    (pre ++ r :: rs).take (pre.length + 1) = pre ++ [r] := by
  induction pre with
  | nil => simp
  | cons x xs ih => simpa using ih

theorem lexLoop_inv (s : List Char) (rest : List Char) :
    ∀ (st : LexState) (pre : List Char), s = pre ++ rest → s ≠ [] → lexInv s st pre.length →
      1 ≤ (lexLoop s st pre.length rest).2 ∧ (lexLoop s st pre.length rest).2 ≤ s.length ∧
      ((lexLoop s st pre.length rest).1 = .header →
        9 ≤ (lexLoop s st pre.length rest).2 ∧ s.take 8 = headerPrefix ++ ['.']) := by
  induction rest with
  | nil =>
    intro st pre hs hne hinv
    have hlen : s.length = pre.length := by simp [hs]
    have hpos : 1 ≤ s.length := by
      cases s with
      | nil => exact absurd rfl hne
      | cons => simp
    cases st <;> simp only [lexLoop, lexInv] at hinv ⊢
    all_goals
      refine ⟨by omega, by omega, ?_⟩
      intro hh
      first | exact ⟨by omega, hinv.2⟩ | cases hh
  | cons r rs ih =>
    intro st pre hs hne hinv
    have hlen : s.length = pre.length + (rs.length + 1) := by simp [hs]
    have hs' : s = (pre ++ [r]) ++ rs := by simp [hs]
    have hl' : (pre ++ [r]).length = pre.length + 1 := by simp
    have step : ∀ st', lexInv s st' (pre.length + 1) →
        1 ≤ (lexLoop s st' (pre.length + 1) rs).2 ∧ (lexLoop s st' (pre.length + 1) rs).2 ≤ s.length ∧
        ((lexLoop s st' (pre.length + 1) rs).1 = .header →
          9 ≤ (lexLoop s st' (pre.length + 1) rs).2 ∧ s.take 8 = headerPrefix ++ ['.']) := by
      intro st' hi
      have := ih st' (pre ++ [r]) hs' hne
      rw [hl'] at this
      exact this hi
    cases st <;> simp only [lexLoop, lexInv] at hinv ⊢
    · split
      · exact step .dollar (by simp [lexInv])
      · exact step .text (by simp [lexInv])
    · split
      · simp; omega
      · exact step .text (by simp [lexInv])
    · split
      · exact step .field (by simp [lexInv]; omega)
      · exact step .text (by simp [lexInv])
    · split
      · split
        · rename_i hr htake
          have h7 : pre.length = 7 := by
            have := congrArg List.length htake
            simp [headerPrefix_length] at this
            omega
          refine step .dot ?_
          simp only [lexInv]
          refine ⟨by omega, ?_⟩
          have : s.take (pre.length + 1) = pre ++ [r] := by
            rw [hs]; exact take_succ_of_append_cons pre r rs
          rw [h7] at this
          rw [this]
          have hp : s.take pre.length = pre := by rw [hs]; simp
          rw [← htake, hp, hr]
        · simp; omega
      · split
        · exact step .field (by simp [lexInv]; omega)
        · simp; omega
    · obtain ⟨h1, h2⟩ := hinv
      split
      · exact step .header ⟨by omega, h2⟩
      · simp; omega
    · obtain ⟨h1, h2⟩ := hinv
      split
      · exact step .header ⟨by omega, h2⟩
      · exact ⟨by simp; omega, by simp; omega, fun _ => ⟨by simp; omega, h2⟩⟩

theorem lex_inv (s : List Char) (h : s ≠ []) :
    1 ≤ (lex s).2 ∧ (lex s).2 ≤ s.length ∧
      ((lex s).1 = .header → 9 ≤ (lex s).2 ∧ s.take 8 = headerPrefix ++ ['.']) :=
  lexLoop_inv s s .start [] rfl h rfl

theorem lex_progress (s : List Char) (h : s ≠ []) : 1 ≤ (lex s).2 ∧ (lex s).2 ≤ s.length :=
  ⟨(lex_inv s h).1, (lex_inv s h).2.1⟩

theorem lex_header_len (s : List Char) (h : (lex s).1 = .header) : 9 ≤ (lex s).2 := by
  by_cases hs : s = []
  · subst hs; simp [lex, lexLoop] at h
  · exact ((lex_inv s hs).2.2 h).1

/-! ## parse -/

theorem parseLoop_step (known : List Char → Bool) (fuel : Nat) (s : List Char) (acc : List Item)
    (hs : s ≠ []) :
    ∃ (typ : ItemType) (n : Nat), 1 ≤ n ∧ n ≤ s.length ∧
      (typ = .header → 9 ≤ n ∧ s.take 8 = headerPrefix ++ ['.']) ∧
      parseLoop known (fuel+1) s acc =
        match typ with
        | .text => parseLoop known fuel (s.drop n) (.text (s.take n) :: acc)
        | .header => parseLoop known fuel (s.drop n) (.header ((s.take n).drop 8) :: acc)
        | .field =>
          if known (s.take n) then parseLoop known fuel (s.drop n) (.field (s.take n) :: acc)
          else .ok (.error (s.take n)) := by
  have hinv := lex_inv s hs
  generalize hl : lex s = p at hinv
  obtain ⟨typ, n⟩ := p
  simp only at hinv
  obtain ⟨h1, h2, h3⟩ := hinv
  obtain ⟨k, rfl⟩ := Int.eq_ofNat_of_zero_le (by omega : 0 ≤ n)
  refine ⟨typ, k, by omega, by omega, ?_, ?_⟩
  · intro h; have := h3 h; exact ⟨by omega, this.2⟩
  · have hne : s.isEmpty = false := by cases s <;> simp_all
    have hb : ¬ ((k : Int) < 0 ∨ (s.length : Int) < k) := by omega
    rw [parseLoop]
    simp only [hne, hl, hb, Int.toNat_natCast]
    cases typ
    · simp
    · simp
    · have : ¬ (min k s.length < 8) := by have := (h3 rfl).1; omega
      simp [this]


theorem parseLoop_total (known : List Char → Bool) :
    ∀ (fuel : Nat) (s : List Char) (acc : List Item), s.length < fuel →
      (parseLoop known fuel s acc).isPanic = false := by
  intro fuel
  induction fuel with
  | zero => intro s acc h; omega
  | succ fuel ih =>
    intro s acc h
    by_cases hs : s = []
    · subst hs; simp [parseLoop]
    · obtain ⟨typ, n, h1, h2, _, heq⟩ := parseLoop_step known fuel s acc hs
      rw [heq]
      have hlt : (s.drop n).length < fuel := by simp; omega
      cases typ
      · exact ih _ _ hlt
      · simp only
        split
        · exact ih _ _ hlt
        · rfl
      · exact ih _ _ hlt

theorem parse_total (known : List Char → Bool) (format : List Char) :
    (parseWith known format).isPanic = false :=
  parseLoop_total known _ _ _ (Nat.lt_succ_self _)

/-- source text of an item -/
def itemSrc : Item → List Char
  | .text s => s
  | .header n => headerPrefix ++ ['.'] ++ n
  | .field n => n

theorem parseLoop_concat (known : List Char → Bool) :
    ∀ (fuel : Nat) (s : List Char) (acc : List Item) (p : List Item),
      parseLoop known fuel s acc = .ok (.ok p) →
      p.flatMap itemSrc = acc.reverse.flatMap itemSrc ++ s := by
  intro fuel
  induction fuel with
  | zero => intro s acc p h; simp [parseLoop] at h
  | succ fuel ih =>
    intro s acc p h
    by_cases hs : s = []
    · subst hs
      simp [parseLoop] at h
      subst h; simp
    · obtain ⟨typ, n, h1, h2, h3, heq⟩ := parseLoop_step known fuel s acc hs
      rw [heq] at h
      cases typ
      · have := ih _ _ _ h
        rw [this]
        simp [itemSrc]
      · simp only at h
        split at h
        · have := ih _ _ _ h
          rw [this]
          simp [itemSrc]
        · simp at h
      · have := ih _ _ _ h
        rw [this]
        obtain ⟨h9, h8⟩ := h3 rfl
        have : headerPrefix ++ ['.'] ++ (s.take n).drop 8 = s.take n := by
          rw [← h8]
          have : s.take 8 = (s.take n).take 8 := by
            rw [List.take_take]; congr 1; omega
          rw [this, List.take_append_drop]
        simp only [List.reverse_cons, List.flatMap_append, List.flatMap_cons, List.flatMap_nil,
          itemSrc, List.append_nil, List.append_assoc]
        simp only [List.append_assoc] at this
        congr 1
        calc headerPrefix ++ (['.'] ++ ((s.take n).drop 8 ++ s.drop n))
            = (headerPrefix ++ (['.'] ++ (s.take n).drop 8)) ++ s.drop n := by
              simp only [List.append_assoc]
          _ = s := by rw [this, List.take_append_drop]

theorem parse_concat (known : List Char → Bool) (format : List Char) (p : List Item)
    (h : parseWith known format = .ok (.ok p)) : p.flatMap itemSrc = format := by
  have := parseLoop_concat known _ _ _ _ h
  simpa using this

theorem parseLoop_known (known : List Char → Bool) :
    ∀ (fuel : Nat) (s : List Char) (acc : List Item) (p : List Item),
      (∀ n, Item.field n ∈ acc → known n = true) →
      parseLoop known fuel s acc = .ok (.ok p) →
      ∀ n, Item.field n ∈ p → known n = true := by
  intro fuel
  induction fuel with
  | zero => intro s acc p _ h; simp [parseLoop] at h
  | succ fuel ih =>
    intro s acc p hacc h
    by_cases hs : s = []
    · subst hs
      simp [parseLoop] at h
      subst h
      intro n hn
      exact hacc n (by simpa using hn)
    · obtain ⟨typ, n, h1, h2, h3, heq⟩ := parseLoop_step known fuel s acc hs
      rw [heq] at h
      cases typ
      · refine ih _ _ _ ?_ h
        intro m hm
        simp at hm
        exact hacc m hm
      · simp only at h
        split at h
        · rename_i hk
          refine ih _ _ _ ?_ h
          intro m hm
          simp at hm
          rcases hm with rfl | hm
          · exact hk
          · exact hacc m hm
        · simp at h
      · refine ih _ _ _ ?_ h
        intro m hm
        simp at hm
        exact hacc m hm

theorem parse_known (known : List Char → Bool) (format : List Char) (p : List Item)
    (h : parseWith known format = .ok (.ok p)) : ∀ n, Item.field n ∈ p → known n = true :=
  parseLoop_known known _ _ _ _ (by simp) h

/-! ## uuid.ToString -/

theorem hexTable : ∀ k, k < 16 → halfbyte2hexchar[k]? = some (Nat.digitChar k) := by decide

theorem getIdx_hex (k : Nat) (hk : k < 16) : getIdx halfbyte2hexchar k = .ok (Nat.digitChar k) := by
  simp [getIdx, hexTable k hk]

theorem hexHi (b : UInt8) :
    getIdx halfbyte2hexchar ((b.toNat >>> 4) &&& 0x0f) = .ok (Nat.digitChar (b.toNat / 16)) := by
  have hb : b.toNat < 256 := UInt8.toNat_lt b
  have h1 : b.toNat >>> 4 = b.toNat / 16 := by rw [Nat.shiftRight_eq_div_pow]
  have h2 : (b.toNat / 16) &&& 0x0f = (b.toNat / 16) % 16 := Nat.and_two_pow_sub_one_eq_mod _ 4
  rw [h1, h2, Nat.mod_eq_of_lt (by omega)]
  exact getIdx_hex _ (by omega)

theorem hexLo (b : UInt8) :
    getIdx halfbyte2hexchar (b.toNat &&& 0x0f) = .ok (Nat.digitChar (b.toNat % 16)) := by
  have h2 : b.toNat &&& 0x0f = b.toNat % 16 := Nat.and_two_pow_sub_one_eq_mod _ 4
  rw [h2]
  exact getIdx_hex _ (Nat.mod_lt _ (by decide))

theorem hexByte_eq (b : UInt8) :
    Spec.hexByte b = [Nat.digitChar (b.toNat / 16), Nat.digitChar (b.toNat % 16)] := by
  have hb : b.toNat < 256 := UInt8.toNat_lt b
  unfold Spec.hexByte Spec.zpad
  by_cases h : b.toNat < 16
  · rw [Nat.toDigits_of_lt_base h]
    have : b.toNat / 16 = 0 := by omega
    have h' : b.toNat % 16 = b.toNat := by omega
    simp [this, h']
  · rw [Nat.toDigits_of_base_le (by decide) (by omega),
      Nat.toDigits_of_lt_base (by omega : b.toNat / 16 < 16)]
    simp


theorem getIdx_cons_zero {α} (a : α) (l : List α) : getIdx (a :: l) 0 = .ok a := rfl
theorem getIdx_cons_succ {α} (a : α) (l : List α) (n : Nat) : getIdx (a :: l) (n+1) = getIdx l n := rfl

theorem uuidLoop_step (u : List UInt8) (n : Nat) (ns : List Nat) (i : Nat) (buf : List Char) (b : UInt8)
    (hu : u[i]? = some b) (hn : n + 1 < buf.length) :
    uuidLoop u (n :: ns) i buf =
      uuidLoop u ns (i+1) ((buf.set n (Nat.digitChar (b.toNat / 16))).set (n+1) (Nat.digitChar (b.toNat % 16))) := by
  have h1 : n < buf.length := by omega
  have hget : getIdx u i = .ok b := by simp [getIdx, hu]
  rw [uuidLoop, hget, bind_ok, hexHi, bind_ok]
  have hs1 : setIdx buf n (Nat.digitChar (b.toNat / 16)) = .ok (buf.set n (Nat.digitChar (b.toNat / 16))) := by
    simp [setIdx, h1]
  rw [hs1, bind_ok, hexLo, bind_ok]
  have hs2 : setIdx (buf.set n (Nat.digitChar (b.toNat / 16))) (n+1) (Nat.digitChar (b.toNat % 16)) =
      .ok ((buf.set n (Nat.digitChar (b.toNat / 16))).set (n+1) (Nat.digitChar (b.toNat % 16))) := by
    simp [setIdx, hn]
  rw [hs2, bind_ok]

theorem setIdx_ok {α} (l : List α) (n : Nat) (a : α) (h : n < l.length) : setIdx l n a = .ok (l.set n a) := by
  simp [setIdx, h]

theorem uuidText_explicit (a0 a1 a2 a3 a4 a5 a6 a7 a8 a9 a10 a11 a12 a13 a14 a15 a16 a17 a18 a19 a20 a21 a22 a23 : UInt8) :
    Spec.uuidText [a0, a1, a2, a3, a4, a5, a6, a7, a8, a9, a10, a11, a12, a13, a14, a15, a16, a17, a18, a19, a20, a21, a22, a23] =
      [Nat.digitChar (a0.toNat / 16), Nat.digitChar (a0.toNat % 16), Nat.digitChar (a1.toNat / 16), Nat.digitChar (a1.toNat % 16), Nat.digitChar (a2.toNat / 16), Nat.digitChar (a2.toNat % 16), Nat.digitChar (a3.toNat / 16), Nat.digitChar (a3.toNat % 16), '-', Nat.digitChar (a4.toNat / 16), Nat.digitChar (a4.toNat % 16), Nat.digitChar (a5.toNat / 16), Nat.digitChar (a5.toNat % 16), '-', Nat.digitChar (a6.toNat / 16), Nat.digitChar (a6.toNat % 16), Nat.digitChar (a7.toNat / 16), Nat.digitChar (a7.toNat % 16), '-', Nat.digitChar (a8.toNat / 16), Nat.digitChar (a8.toNat % 16), Nat.digitChar (a9.toNat / 16), Nat.digitChar (a9.toNat % 16), '-', Nat.digitChar (a10.toNat / 16), Nat.digitChar (a10.toNat % 16), Nat.digitChar (a11.toNat / 16), Nat.digitChar (a11.toNat % 16), Nat.digitChar (a12.toNat / 16), Nat.digitChar (a12.toNat % 16), Nat.digitChar (a13.toNat / 16), Nat.digitChar (a13.toNat % 16), Nat.digitChar (a14.toNat / 16), Nat.digitChar (a14.toNat % 16), Nat.digitChar (a15.toNat / 16), Nat.digitChar (a15.toNat % 16)] := by
  simp [Spec.uuidText, Spec.hexBytes, hexByte_eq]

theorem uuid_format (u : List UInt8) (h : u.length = 24) :
    uuidToString u = .ok (Spec.uuidText u) := by
  match u, h with
  | [a0, a1, a2, a3, a4, a5, a6, a7, a8, a9, a10, a11, a12, a13, a14, a15, a16, a17, a18, a19,
      a20, a21, a22, a23], _ =>
    unfold uuidToString uuidIdx
    rw [uuidLoop_step _ _ _ _ _ a0 rfl (by simp)]
    rw [uuidLoop_step _ _ _ _ _ a1 rfl (by simp)]
    rw [uuidLoop_step _ _ _ _ _ a2 rfl (by simp)]
    rw [uuidLoop_step _ _ _ _ _ a3 rfl (by simp)]
    rw [uuidLoop_step _ _ _ _ _ a4 rfl (by simp)]
    rw [uuidLoop_step _ _ _ _ _ a5 rfl (by simp)]
    rw [uuidLoop_step _ _ _ _ _ a6 rfl (by simp)]
    rw [uuidLoop_step _ _ _ _ _ a7 rfl (by simp)]
    rw [uuidLoop_step _ _ _ _ _ a8 rfl (by simp)]
    rw [uuidLoop_step _ _ _ _ _ a9 rfl (by simp)]
    rw [uuidLoop_step _ _ _ _ _ a10 rfl (by simp)]
    rw [uuidLoop_step _ _ _ _ _ a11 rfl (by simp)]
    rw [uuidLoop_step _ _ _ _ _ a12 rfl (by simp)]
    rw [uuidLoop_step _ _ _ _ _ a13 rfl (by simp)]
    rw [uuidLoop_step _ _ _ _ _ a14 rfl (by simp)]
    rw [uuidLoop_step _ _ _ _ _ a15 rfl (by simp)]
    rw [uuidLoop, bind_ok]
    simp only [List.replicate_succ, List.replicate_zero, List.set_cons_zero, List.set_cons_succ, Nat.reduceAdd]
    rw [uuidText_explicit]
    simp only [uuidDashes, setAll]
    rw [setIdx_ok _ _ _ (by simp), bind_ok, setIdx_ok _ _ _ (by simp), bind_ok,
      setIdx_ok _ _ _ (by simp), bind_ok, setIdx_ok _ _ _ (by simp), bind_ok]
    simp only [List.set_cons_zero, List.set_cons_succ]


def isLowerHex (c : Char) : Bool := ('0' ≤ c && c ≤ '9') || ('a' ≤ c && c ≤ 'f')

theorem digitChar_isLowerHex : ∀ k, k < 16 → isLowerHex (Nat.digitChar k) = true := by decide

theorem hexHi_isLowerHex (b : UInt8) : isLowerHex (Nat.digitChar (b.toNat / 16)) = true :=
  digitChar_isLowerHex _ (by have := UInt8.toNat_lt b; omega)

theorem hexLo_isLowerHex (b : UInt8) : isLowerHex (Nat.digitChar (b.toNat % 16)) = true :=
  digitChar_isLowerHex _ (Nat.mod_lt _ (by decide))

theorem uuid_shape (u : List UInt8) (h : u.length = 24) :
    (Spec.uuidText u).length = 36 ∧
    (∀ i, i ∈ [8, 13, 18, 23] → (Spec.uuidText u)[i]? = some '-') ∧
    (∀ i, i < 36 → i ∉ [8, 13, 18, 23] → ∃ c, (Spec.uuidText u)[i]? = some c ∧ isLowerHex c = true) := by
  match u, h with
  | [a0, a1, a2, a3, a4, a5, a6, a7, a8, a9, a10, a11, a12, a13, a14, a15, a16, a17, a18, a19, a20, a21, a22, a23], _ =>
    rw [uuidText_explicit]
    refine ⟨rfl, ?_, ?_⟩
    · intro i hi
      simp only [List.mem_cons, List.not_mem_nil, or_false] at hi
      rcases hi with rfl | rfl | rfl | rfl <;> rfl
    · intro i hi hni
      have hcases : i = 0 ∨ i = 1 ∨ i = 2 ∨ i = 3 ∨ i = 4 ∨ i = 5 ∨ i = 6 ∨ i = 7 ∨ i = 8 ∨ i = 9 ∨ i = 10 ∨ i = 11 ∨ i = 12 ∨ i = 13 ∨ i = 14 ∨ i = 15 ∨ i = 16 ∨ i = 17 ∨ i = 18 ∨ i = 19 ∨ i = 20 ∨ i = 21 ∨ i = 22 ∨ i = 23 ∨ i = 24 ∨ i = 25 ∨ i = 26 ∨ i = 27 ∨ i = 28 ∨ i = 29 ∨ i = 30 ∨ i = 31 ∨ i = 32 ∨ i = 33 ∨ i = 34 ∨ i = 35 := by omega
      rcases hcases with rfl | rfl | rfl | rfl | rfl | rfl | rfl | rfl | rfl | rfl | rfl | rfl | rfl | rfl | rfl | rfl | rfl | rfl | rfl | rfl | rfl | rfl | rfl | rfl | rfl | rfl | rfl | rfl | rfl | rfl | rfl | rfl | rfl | rfl | rfl | rfl
      all_goals
        first
        | (simp at hni; done)
        | simp [hexHi_isLowerHex, hexLo_isLowerHex]

/-! ## hostport -/

theorem lastIndexOf_go_spec (c : Char) (s : List Char) :
    ∀ (i : Nat) (b : Option Nat),
      (c ∉ s → lastIndexOf.go c i b s = b) ∧
      (c ∈ s → ∃ n, lastIndexOf.go c i b s = some (i + n) ∧ s[n]? = some c ∧ c ∉ s.drop (n+1)) := by
  induction s with
  | nil => intro i b; simp [lastIndexOf.go]
  | cons x xs ih =>
    intro i b
    simp only [lastIndexOf.go]
    by_cases hxs : c ∈ xs
    · obtain ⟨n, h1, h2, h3⟩ := (ih (i+1) (if x == c then some i else b)).2 hxs
      refine ⟨fun h => absurd (List.mem_cons_of_mem _ hxs) h, fun _ => ⟨n+1, ?_, ?_, ?_⟩⟩
      · rw [h1]; congr 1; omega
      · simpa using h2
      · simpa using h3
    · have h0 := (ih (i+1) (if x == c then some i else b)).1 hxs
      rw [h0]
      by_cases hx : x = c
      · subst hx
        refine ⟨fun h => absurd (List.mem_cons_self) h, fun _ => ⟨0, ?_, ?_, ?_⟩⟩
        · simp
        · simp
        · simpa using hxs
      · refine ⟨fun _ => by simp [hx], fun h => ?_⟩
        rcases List.mem_cons.mp h with h | h
        · exact absurd h.symm hx
        · exact absurd h hxs

theorem hostport_spec (s : List Char) :
    ∃ h p, hostport s = .ok (h, p) ∧ Spec.hostportOk s h p = true := by
  by_cases hs : s = []
  · subst hs
    exact ⟨[], [], rfl, by decide⟩
  · have hne : s.isEmpty = false := by cases s <;> simp_all
    have hspec := lastIndexOf_go_spec ':' s 0 none
    by_cases hc : ':' ∈ s
    · obtain ⟨n, h1, h2, h3⟩ := hspec.2 hc
      have hl : lastIndexOf ':' s = some n := by simpa [lastIndexOf] using h1
      obtain ⟨hn, hget⟩ := List.getElem?_eq_some_iff.mp h2
      refine ⟨s.take n, s.drop (n+1), ?_, ?_⟩
      · simp [hostport, hne, hl]; omega
      · have hsplit : s.take n ++ [':'] ++ s.drop (n+1) = s := by
          have := List.take_append_drop n s
          rw [List.drop_eq_getElem_cons hn, hget] at this
          simpa using this
        simp [Spec.hostportOk, hc, hsplit, h3]
    · have hl : lastIndexOf ':' s = none := by simpa [lastIndexOf] using hspec.1 hc
      refine ⟨s, [], ?_, ?_⟩
      · simp [hostport, hne, hl]
      · simp [Spec.hostportOk, hc]

end Fabio.Lemmas.C20
