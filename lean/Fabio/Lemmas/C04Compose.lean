import Fabio.Lemmas.C04Weights
import Fabio.Lemmas.C04Slots
import Fabio.Model.C04
import Fabio.Model.C06
/-!
Helper lemmas for the composition C04 ∘ C06 and for the `route weight` share.
-/
namespace Fabio.Lemmas.C04
open Fabio Fabio.Model.Route Fabio.Model.C04

/-- the ring as the interleaving model of C06 sees it: slot ↦ index of the target -/
def slotTargets (ring : Ring) : List Nat := ring.map (fun s => s.getD 0)

theorem slotTargets_length (ring : Ring) : (slotTargets ring).length = ring.length := by simp [slotTargets]

theorem slotTargets_count (ring : Ring) (h : ∀ s ∈ ring, s ≠ none) (i : Nat) :
    (slotTargets ring).count i = ring.count (some i) := by
  induction ring with
  | nil => rfl
  | cons s rest ih =>
    have hs : s ≠ none := h s (by simp)
    have ih' := ih (fun x hx => h x (by simp [hx]))
    cases s with
    | none => exact absurd rfl hs
    | some j =>
      simp only [slotTargets, List.map_cons, Option.getD_some, List.count_cons] at ih' ⊢
      rw [ih']
      by_cases hji : j = i <;> simp [hji]

/-- picks of target `i` after running schedule `sch` -/
abbrev hitsOf (ring : Ring) (ks : List Nat) (s : Model.C06.State) (sch : List Nat) (i : Nat) : Nat :=
  ((Model.C06.allPicks (Model.C06.run sch (ks.map (Model.C06.rrThreadRepaired ring.length)) s).2).map
    (fun j => (slotTargets ring)[j]?.getD 0)).count i

/-- number of picks performed -/
abbrev picksDone (ring : Ring) (ks : List Nat) (s : Model.C06.State) (sch : List Nat) : Nat :=
  (Model.C06.run sch (ks.map (Model.C06.rrThreadRepaired ring.length)) s).1.total - s.total

/-- ⌈K/N⌉ -/
theorem ceil_cases (K N : Nat) (hN : 0 < N) :
    (K % N = 0 ∧ (K + N - 1) / N = K / N) ∨ (K % N ≠ 0 ∧ (K + N - 1) / N = K / N + 1) := by
  have hK : N * (K / N) + K % N = K := Nat.div_add_mod K N
  have hr : K % N < N := Nat.mod_lt _ hN
  have e : K + N - 1 = (K % N + N - 1) + N * (K / N) := by omega
  rw [e, Nat.add_mul_div_left _ _ hN]
  by_cases h0 : K % N = 0
  · left
    refine ⟨h0, ?_⟩
    rw [h0, Nat.div_eq_of_lt (by omega)]; omega
  · right
    refine ⟨h0, ?_⟩
    have : (K % N + N - 1) / N = 1 := Nat.div_eq_of_lt_le (by omega) (by omega)
    rw [this]; omega

theorem toNat_slot_abs (w : Rat) (hw : 0 ≤ w) : |(((slotCount w).toNat : Nat) : Rat) - 10000 * w| < 1 := by
  have h0 := slotCount_nonneg w hw
  have : (((slotCount w).toNat : Nat) : Rat) = ((slotCount w : Int) : Rat) := by
    have : (((slotCount w).toNat : Nat) : Int) = slotCount w := Int.toNat_of_nonneg h0
    exact_mod_cast congrArg (fun z : Int => (z : Rat)) this
  rw [this]
  have := slotCount_abs w hw
  simpa [maxSlots] using this

/-! ### requested weights after `route weight` -/

theorem sumFixed_cons (t : Target) (l : List Target) :
    sumFixed (t :: l) = (if 0 < t.fixedWeight then t.fixedWeight else 0) + sumFixed l := by
  rw [sumFixed_def, sumFixed_def]
  by_cases h : 0 < t.fixedWeight
  · have : isFixed t = true := by simp [isFixed, h]
    simp [this, h]
  · have : isFixed t = false := by simp [isFixed, h]
    simp [this, h]

/-- the requested weights `route weight` writes: `c` on the matching targets -/
def spread (m : Target → Bool) (c : Rat) (ts : List Target) : List Target :=
  ts.map (fun t => if m t then { t with fixedWeight := c } else t)

theorem sumFixed_spread (m : Target → Bool) (c : Rat) (hc : 0 < c) (ts : List Target) :
    sumFixed (spread m c ts) = c * ((ts.filter m).length : Rat) + sumFixed (ts.filter (fun t => !m t)) := by
  induction ts with
  | nil => simp [spread, sumFixed_def]
  | cons t rest ih =>
    unfold spread at ih ⊢
    rw [List.map_cons, sumFixed_cons, ih]
    by_cases hm : m t
    · simp [hm, hc]; ring
    · simp [hm, sumFixed_cons]; ring

theorem weigh_sumFixed (ts : List Target) : sumFixed (weigh ts) = sumFixed ts := by
  rw [weigh_eq, sumFixed_def, sumFixed_def]
  simp only [List.filter_map, List.map_map]
  rfl

/-- combined effective weight of the targets selected by `m` -/
def shareOf (m : Target → Bool) (ts : List Target) : Rat := ((ts.filter m).map (·.weight)).sum

/-- `m` looks at service and tags only (as `matchesWeight` does) -/
def OnlyServiceTags (m : Target → Bool) : Prop := ∀ t t' : Target, t.service = t'.service → t.tags = t'.tags → m t = m t'

theorem filter_map_comm (m : Target → Bool) (g : Target → Target) (hg : ∀ t, m (g t) = m t) (ts : List Target) :
    (ts.map g).filter m = (ts.filter m).map g := by
  induction ts with
  | nil => rfl
  | cons t rest ih =>
    simp only [List.map_cons, List.filter_cons, hg, ih]
    split <;> rfl

theorem shareOf_weigh_spread (m : Target → Bool) (c : Rat) (hc : 0 < c) (ts : List Target)
    (hm : OnlyServiceTags m) (hn : (ts.filter m).length ≠ 0) :
    shareOf m (weigh (spread m c ts)) = c * ((ts.filter m).length : Rat) * scaleOf (spread m c ts) := by
  have hnf : nFixed (spread m c ts) ≠ 0 := by
    rw [nFixed_def]
    obtain ⟨t, ht⟩ := List.exists_mem_of_length_pos (Nat.pos_of_ne_zero hn)
    obtain ⟨ht1, ht2⟩ := List.mem_filter.mp ht
    have : ({ t with fixedWeight := c } : Target) ∈ (spread m c ts).filter isFixed := by
      apply List.mem_filter.mpr
      refine ⟨?_, by simp [isFixed, hc]⟩
      unfold spread
      apply List.mem_map.mpr
      exact ⟨t, ht1, by simp [ht2]⟩
    intro h0
    rw [List.eq_nil_of_length_eq_zero h0] at this; cases this
  unfold shareOf
  rw [weigh_eq]
  generalize hS : scaleOf (spread m c ts) = sc
  generalize hE : eff (spread m c ts) = ef
  have hef : ∀ t : Target, ef ({ t with fixedWeight := c }) = c * sc := by
    intro t
    rw [← hE, ← hS]; simp [eff, hnf, hc]
  rw [filter_map_comm m (fun t : Target => { t with weight := ef t }) (fun t => hm _ _ rfl rfl)]
  unfold spread
  rw [filter_map_comm m (fun t : Target => if m t = true then { t with fixedWeight := c } else t)
    (fun t => by split <;> exact hm _ _ rfl rfl)]
  simp only [List.map_map]
  have : ∀ l : List Target, (∀ t ∈ l, m t = true) →
      (l.map ((fun x : Target => x.weight) ∘ (fun t : Target => { t with weight := ef t }) ∘
        (fun t => if m t = true then { t with fixedWeight := c } else t))).sum = c * (l.length : Rat) * sc := by
    intro l hl
    induction l with
    | nil => simp
    | cons t rest ih =>
      have hmt : m t = true := hl t (by simp)
      simp only [List.map_cons, List.sum_cons, List.length_cons, Function.comp, hmt, if_true]
      rw [hef t]
      have := ih (fun x hx => hl x (by simp [hx]))
      rw [this]; push_cast; ring
  exact this _ (fun t ht => (List.mem_filter.mp ht).2)

end Fabio.Lemmas.C04
