import Fabio.Model.C15
/-! Helper lemmas for C15 (core Lean only). -/
namespace Fabio.Lemmas.C15
open Fabio Fabio.Model.C15

/-! ### upper-casing and the `.` → `_` replacement -/

def upperLetters : List Char := "ABCDEFGHIJKLMNOPQRSTUVWXYZ".toList

theorem upperChar_cases (c : Char) : upperChar c = c ∨ upperChar c ∈ upperLetters := by
  unfold upperChar
  split <;> first | (left; rfl) | (right; decide)

theorem upperChar_fixed : ∀ x ∈ upperLetters, upperChar x = x := by decide

theorem upperChar_idem (c : Char) : upperChar (upperChar c) = upperChar c := by
  rcases upperChar_cases c with h | h
  · rw [h, h]
  · exact upperChar_fixed _ h

theorem upperChar_eq_dot (c : Char) : upperChar c = '.' ↔ c = '.' := by
  constructor
  · intro h
    rcases upperChar_cases c with h' | h'
    · rw [← h', h]
    · rw [h] at h'; exact absurd h' (by decide)
  · intro h; subst h; rfl

theorem dotChar_upperChar (c : Char) : dotChar (upperChar c) = upperChar (dotChar c) := by
  unfold dotChar
  by_cases h : c = '.'
  · subst h; rfl
  · have : upperChar c ≠ '.' := fun h' => h ((upperChar_eq_dot c).1 h')
    simp [h, this]

theorem upper_idem (s : Str) : upper (upper s) = upper s := by
  simp [upper, List.map_map, Function.comp_def, upperChar_idem]

theorem dots_upper (s : Str) : dots (upper s) = upper (dots s) := by
  simp [dots, upper, List.map_map, Function.comp_def, dotChar_upperChar]

theorem upper_append (a b : Str) : upper (a ++ b) = upper a ++ upper b := by simp [upper]

theorem envName_eq (pfx name : Str) : envName pfx name = upper pfx ++ dots (upper name) := by
  simp [envName, upper_append, dots_upper]

/-! ### maps -/

theorem get_put_same (m : Map) (k v : Str) : (m.put k v).get k = some v := by
  induction m with
  | nil => simp [Map.put, Map.get]
  | cons a t ih =>
    obtain ⟨k', v'⟩ := a
    simp only [Map.put]
    split
    · simp [Map.get, List.lookup]
    · rename_i h
      have : (k == k') = false := by simp; exact fun h' => h h'.symm
      simp only [Map.get, List.lookup, this]
      exact ih

theorem get_put_other (m : Map) (k k' v : Str) (h : k' ≠ k) : (m.put k v).get k' = m.get k' := by
  induction m with
  | nil =>
    have : (k' == k) = false := by simp [h]
    simp [Map.put, Map.get, List.lookup, this]
  | cons a t ih =>
    obtain ⟨k2, v2⟩ := a
    simp only [Map.put]
    split
    · rename_i h2; subst h2
      have : (k' == k2) = false := by simp [h]
      simp [Map.get, List.lookup, this]
    · simp only [Map.get, List.lookup]
      split
      · rfl
      · exact ih

theorem keys_put (m : Map) (k v : Str) :
    (m.put k v).map (·.1) = if k ∈ m.map (·.1) then m.map (·.1) else m.map (·.1) ++ [k] := by
  induction m with
  | nil => simp [Map.put]
  | cons a t ih =>
    obtain ⟨k2, v2⟩ := a
    simp only [Map.put]
    split
    · rename_i h; subst h; simp
    · rename_i h
      simp only [List.map_cons, ih, List.mem_cons]
      have h' : ¬ k = k2 := fun e => h e.symm
      simp only [h', false_or]
      split <;> simp

theorem nodup_keys_put (m : Map) (k v : Str) (h : (m.map (·.1)).Nodup) : ((m.put k v).map (·.1)).Nodup := by
  rw [keys_put]
  split
  · exact h
  · rename_i hk
    rw [List.nodup_append]
    refine ⟨h, by simp, ?_⟩
    intro a ha b hb
    simp at hb; subst hb
    intro e; subst e; exact hk ha

theorem put_length_pos (m : Map) (k v : Str) : 0 < (m.put k v).length := by
  cases m with
  | nil => simp [Map.put]
  | cons a t =>
    obtain ⟨k2, v2⟩ := a
    simp only [Map.put]; split <;> simp

/-! ### the environment block -/

theorem splitN2_length (e : Str) : (splitN2 e).length = 1 ∨ (splitN2 e).length = 2 := by
  induction e with
  | nil => simp [splitN2]
  | cons c cs ih =>
    simp only [splitN2]
    split
    · simp
    · split
      · simp
      · rename_i a rest h1 h2
        rw [h2] at ih; simpa using ih
      · simp

/-- an entry `k=v` whose name has no `=` splits into exactly `k` and `v` (the value may contain `=`) -/
theorem splitN2_join (k v : Str) (hk : '=' ∉ k) : splitN2 (k ++ '=' :: v) = [k, v] := by
  induction k with
  | nil => simp [splitN2]
  | cons c cs ih =>
    have hc : c ≠ '=' := fun e => hk (by simp [e])
    have hcs : '=' ∉ cs := fun e => hk (by simp [e])
    simp [splitN2, hc, ih hcs]

/-- an entry without `=` is a single part -/
theorem splitN2_noeq (e : Str) (h : '=' ∉ e) : splitN2 e = [e] := by
  induction e with
  | nil => simp [splitN2]
  | cons c cs ih =>
    have hc : c ≠ '=' := fun e => h (by simp [e])
    have hcs : '=' ∉ cs := fun e => h (by simp [e])
    simp [splitN2, hc, ih hcs]

theorem envStep_ok (m : Map) (e : Str) : ∃ m', envStep m e = .ok m' := by
  unfold envStep
  simp only
  split
  · exact ⟨_, rfl⟩
  · rename_i h
    have h2 : (splitN2 e).length = 2 := by simpa using h
    match hs : splitN2 e, h2 with
    | [a, b], _ => exact ⟨_, rfl⟩

theorem envMap_ok (m : Map) (es : List Str) : ∃ m', envMap m es = .ok m' := by
  induction es generalizing m with
  | nil => exact ⟨m, rfl⟩
  | cons e es ih =>
    obtain ⟨m1, h1⟩ := envStep_ok m e
    simp only [envMap, h1]
    exact ih m1

theorem envStep_kv (m : Map) (k v : Str) (hk : '=' ∉ k) :
    envStep m (k ++ '=' :: v) = .ok (m.put (upper k) v) := by
  simp [envStep, splitN2_join k v hk]

theorem envStep_noeq (m : Map) (e : Str) (h : '=' ∉ e) : envStep m e = .ok m := by
  simp [envStep, splitN2_noeq e h]

/-! ### resolution -/

theorem envFirst_none (env : Map) (name : Str) (i : Nat) (ps : List Str)
    (h : ∀ p ∈ ps, env.get (envName p name) = none) : envFirst env name i ps = none := by
  induction ps generalizing i with
  | nil => rfl
  | cons p ps ih =>
    simp only [envFirst, h p (by simp)]
    exact ih _ (fun q hq => h q (by simp [hq]))

theorem cmdLookup_single (name v : Str) : cmdLookup name [(name, v)] = some v := by
  simp [cmdLookup]

/-! ### the kvslice lexer consumes at least one rune and never more than there are -/

theorem lexGo_bounds (unq : Str → Option Str) (s : Str) (st : LexState) (i : Nat) (rest : Str)
    (hlen : i + rest.length = s.length) (h : (st = .start ∧ rest ≠ []) ∨ (st ≠ .start ∧ 1 ≤ i)) :
    1 ≤ (lexGo unq s st i rest).2.2 ∧ (lexGo unq s st i rest).2.2 ≤ s.length := by
  induction rest generalizing st i with
  | nil =>
    rcases h with ⟨_, h⟩ | ⟨hst, hi⟩
    · exact absurd rfl h
    · simp only [List.length_nil, Nat.add_zero] at hlen
      cases st with
      | start => exact absurd rfl hst
      | text => simp [lexGo]; omega
      | qtext q => simp [lexGo]; omega
      | qtextEsc q => simp [lexGo]; omega
      | qtextEnd =>
        simp only [lexGo]
        split <;> (simp; omega)
  | cons r rest ih =>
    simp only [List.length_cons] at hlen
    have hrec : ∀ st', st' ≠ LexState.start →
        1 ≤ (lexGo unq s st' (i+1) rest).2.2 ∧ (lexGo unq s st' (i+1) rest).2.2 ≤ s.length :=
      fun st' hst' => ih st' (i+1) (by omega) (Or.inr ⟨hst', by omega⟩)
    cases st with
    | start =>
      simp only [lexGo]
      split
      · simp; omega
      · split
        · simp; omega
        · split
          · simp; omega
          · split
            · exact hrec _ (by simp)
            · exact hrec _ (by simp)
    | text =>
      rcases h with ⟨h, _⟩ | ⟨_, hi⟩
      · cases h
      · simp only [lexGo]
        split
        · simp; omega
        · exact hrec _ (by simp)
    | qtext q =>
      simp only [lexGo]
      split
      · exact hrec _ (by simp)
      · split
        · exact hrec _ (by simp)
        · exact hrec _ (by simp)
    | qtextEsc q =>
      simp only [lexGo]
      exact hrec _ (by simp)
    | qtextEnd =>
      rcases h with ⟨h, _⟩ | ⟨_, hi⟩
      · cases h
      · simp only [lexGo]
        split <;> (simp; omega)

theorem lex_bounds (unq : Str → Option Str) (s : Str) (hs : s ≠ []) :
    1 ≤ (lex unq s).2.2 ∧ (lex unq s).2.2 ≤ s.length :=
  lexGo_bounds unq s .start 0 s (by simp) (Or.inl ⟨rfl, hs⟩)

/-- with more fuel than runes the parser loop neither runs out of fuel nor slices out of range -/
theorem ploop_ok (unq : Str → Option Str) (fuel : Nat) (s : Str) (p : P) (hf : s.length < fuel) :
    ∃ r, ploop unq fuel s p = .ok r := by
  induction fuel generalizing s p with
  | zero => omega
  | succ fuel ih =>
    cases s with
    | nil => exact ⟨_, rfl⟩
    | cons c cs =>
      have hb := lex_bounds unq (c :: cs) (by simp)
      simp only [ploop]
      generalize (lex unq (c :: cs)).2.2 = n at hb ⊢
      rw [if_pos hb.2]
      split
      · apply ih
        simp only [List.length_drop]
        simp only [List.length_cons] at hf hb ⊢
        omega
      · exact ⟨_, rfl⟩

/-! ### shape of what the kvslice parser builds -/

def GoodMap (m : Map) : Prop := 0 < m.length ∧ (m.map (·.1)).Nodup

def Inv (p : P) : Prop := (∀ m ∈ p.maps, GoodMap m) ∧ (p.m.map (·.1)).Nodup

theorem inv_init : Inv {} := by simp [Inv]

theorem inv_newMap (p : P) (h : Inv p) : Inv p.newMap := by
  unfold P.newMap
  split
  · rename_i hl
    refine ⟨?_, by simp⟩
    intro m hm
    simp only [List.mem_append, List.mem_singleton] at hm
    rcases hm with hm | hm
    · exact h.1 m hm
    · subst hm; exact ⟨hl, h.2⟩
  · exact h

theorem inv_putFirst (p : P) (h : Inv p) : Inv p.putFirst := by
  unfold P.putFirst
  split
  · exact ⟨h.1, nodup_keys_put _ _ _ h.2⟩
  · exact h

theorem inv_state (p : P) (st : PState) (h : Inv p) : Inv { p with state := st } := h
theorem inv_k (p : P) (k : Str) (st : PState) (h : Inv p) : Inv { p with k := k, state := st } := h

theorem inv_pstep (p p' : P) (typ : Item) (val : Str) (h : Inv p) (hs : pstep p typ val = .ok p') : Inv p' := by
  unfold pstep at hs
  split at hs <;> split at hs <;> first
    | (cases hs; done)
    | (injection hs with hs; subst hs
       first
        | exact h
        | exact inv_putFirst _ h
        | exact inv_newMap _ (inv_putFirst _ h)
        | exact inv_newMap _ ⟨h.1, nodup_keys_put _ _ _ h.2⟩
        | exact ⟨h.1, nodup_keys_put _ _ _ h.2⟩)

theorem inv_ploop (unq : Str → Option Str) (fuel : Nat) (s : Str) (p p' : P) (h : Inv p)
    (hr : ploop unq fuel s p = .ok (.ok p')) : Inv p' := by
  induction fuel generalizing s p with
  | zero =>
    cases s with
    | nil => simp only [ploop] at hr; injection hr with hr; injection hr with hr; subst hr; exact h
    | cons c cs => simp [ploop] at hr
  | succ fuel ih =>
    cases s with
    | nil => simp only [ploop] at hr; injection hr with hr; injection hr with hr; subst hr; exact h
    | cons c cs =>
      simp only [ploop] at hr
      split at hr
      · split at hr
        · rename_i p1 hp1
          exact ih _ _ (inv_pstep _ _ _ _ h hp1) hr
        · cases hr
      · cases hr

theorem good_pfinish (p : P) (h : Inv p) : ∀ m ∈ pfinish p, GoodMap m := by
  have key : ∀ q : P, Inv q → ∀ m ∈ (if q.m.length > 0 then q.maps ++ [q.m] else q.maps), GoodMap m := by
    intro q hq m hm
    split at hm
    · rename_i hl
      simp only [List.mem_append, List.mem_singleton] at hm
      rcases hm with hm | hm
      · exact hq.1 m hm
      · subst hm; exact ⟨hl, hq.2⟩
    · exact hq.1 m hm
  unfold pfinish
  simp only
  split
  · exact key _ ⟨h.1, nodup_keys_put _ _ _ h.2⟩
  · exact key _ (inv_putFirst _ h)
  · exact key _ h

/-! ### glob cache indices -/

def GCInv (c : GC) : Prop := 1 ≤ c.size ∧ c.n ≤ c.size ∧ c.h < c.size ∧ (c.n < c.size → c.h = 0)

theorem gcMiss_ok (c : GC) (h : GCInv c) : ∃ c', gcMiss c = .ok c' ∧ GCInv c' := by
  obtain ⟨h1, h2, h3, h4⟩ := h
  unfold gcMiss
  by_cases hn : c.n < c.size
  · rw [if_pos hn]
    refine ⟨_, rfl, h1, by simp; omega, h3, ?_⟩
    intro _; exact h4 hn
  · have hn' : c.n = c.size := by omega
    have : c.n ≠ 0 := by omega
    rw [if_neg hn, if_pos h3, if_neg this]
    refine ⟨_, rfl, h1, h2, ?_, ?_⟩
    · simp only; rw [hn']; exact Nat.mod_lt _ (by omega)
    · simp only; intro hlt; omega

theorem gcRun_ok (c : GC) (k : Nat) (h : GCInv c) : ∃ c', gcRun c k = .ok c' := by
  induction k generalizing c with
  | zero => exact ⟨c, rfl⟩
  | succ k ih =>
    obtain ⟨c1, e, h1⟩ := gcMiss_ok c h
    simp only [gcRun, e]
    exact ih c1 h1

end Fabio.Lemmas.C15
