import Fabio.Model.C08
/-!
C08 helper lemmas: ASCII case arithmetic on `Char`, and the fact that `canonicalKey` (the model of
`textproto.CanonicalMIMEHeaderKey`) sends names that differ only in letter case to the same key.
-/
namespace Fabio.Lemmas.C08
open Fabio Fabio.Model.C08

theorem toNat_ofNat_small (n : Nat) (h : n < 55296) : (Char.ofNat n).toNat = n := by
  have hv : n.isValidChar := Or.inl h
  rw [Char.ofNat, dif_pos hv]
  simp [Char.ofNatAux, Char.toNat]

theorem lowerChar_toNat (c : Char) :
    (lowerChar c).toNat = if 65 ≤ c.toNat ∧ c.toNat ≤ 90 then c.toNat + 32 else c.toNat := by
  unfold lowerChar
  have e : ('A' ≤ c ∧ c ≤ 'Z') ↔ (65 ≤ c.toNat ∧ c.toNat ≤ 90) := by
    simp [Char.le_def, UInt32.le_iff_toNat_le]
  by_cases h : 65 ≤ c.toNat ∧ c.toNat ≤ 90
  · rw [if_pos (e.mpr h), if_pos h]; exact toNat_ofNat_small _ (by omega)
  · rw [if_neg (fun x => h (e.mp x)), if_neg h]

theorem upperChar_toNat (c : Char) :
    (upperChar c).toNat = if 97 ≤ c.toNat ∧ c.toNat ≤ 122 then c.toNat - 32 else c.toNat := by
  unfold upperChar
  have e : ('a' ≤ c ∧ c ≤ 'z') ↔ (97 ≤ c.toNat ∧ c.toNat ≤ 122) := by
    simp [Char.le_def, UInt32.le_iff_toNat_le]
  by_cases h : 97 ≤ c.toNat ∧ c.toNat ≤ 122
  · rw [if_pos (e.mpr h), if_pos h]; exact toNat_ofNat_small _ (by omega)
  · rw [if_neg (fun x => h (e.mp x)), if_neg h]

/-- two characters with the same lower-case form are equal or an upper/lower pair of one ASCII letter -/
theorem lower_eq_cases {c d : Char} (h : lowerChar c = lowerChar d) :
    c = d ∨ (65 ≤ c.toNat ∧ c.toNat ≤ 90 ∧ d.toNat = c.toNat + 32) ∨ (65 ≤ d.toNat ∧ d.toNat ≤ 90 ∧ c.toNat = d.toNat + 32) := by
  have h' := congrArg Char.toNat h
  rw [lowerChar_toNat, lowerChar_toNat] at h'
  by_cases hc : 65 ≤ c.toNat ∧ c.toNat ≤ 90 <;> by_cases hd : 65 ≤ d.toNat ∧ d.toNat ≤ 90
  · rw [if_pos hc, if_pos hd] at h'; left; exact Char.toNat_inj.mp (by omega)
  · rw [if_pos hc, if_neg hd] at h'; right; left; omega
  · rw [if_neg hc, if_pos hd] at h'; right; right; omega
  · rw [if_neg hc, if_neg hd] at h'; left; exact Char.toNat_inj.mp h'

theorem isTokenChar_letter {c : Char} (h : (65 ≤ c.toNat ∧ c.toNat ≤ 90) ∨ (97 ≤ c.toNat ∧ c.toNat ≤ 122)) :
    isTokenChar c = true := by
  unfold isTokenChar
  rcases h with h | h <;> simp [h.1, h.2]

theorem canon_char_congr {c d : Char} (h : lowerChar c = lowerChar d) :
    isTokenChar c = isTokenChar d ∧ upperChar c = upperChar d ∧ (c == '-') = (d == '-') := by
  rcases lower_eq_cases h with e | ⟨h1, h2, h3⟩ | ⟨h1, h2, h3⟩
  · subst e; exact ⟨rfl, rfl, rfl⟩
  · refine ⟨?_, ?_, ?_⟩
    · rw [isTokenChar_letter (Or.inl ⟨h1, h2⟩), isTokenChar_letter (Or.inr (by omega))]
    · apply Char.toNat_inj.mp
      rw [upperChar_toNat, upperChar_toNat, if_neg (by omega), if_pos (by omega)]; omega
    · have hc : c ≠ '-' := fun e => by subst e; simp at h1
      have hd : d ≠ '-' := fun e => by subst e; simp at h3; omega
      rw [beq_eq_false_iff_ne.mpr hc, beq_eq_false_iff_ne.mpr hd]
  · refine ⟨?_, ?_, ?_⟩
    · rw [isTokenChar_letter (Or.inl ⟨h1, h2⟩), isTokenChar_letter (Or.inr (by omega))]
    · apply Char.toNat_inj.mp
      rw [upperChar_toNat, upperChar_toNat, if_pos (by omega), if_neg (by omega)]; omega
    · have hd : d ≠ '-' := fun e => by subst e; simp at h1
      have hc : c ≠ '-' := fun e => by subst e; simp at h3; omega
      rw [beq_eq_false_iff_ne.mpr hc, beq_eq_false_iff_ne.mpr hd]

theorem canonGo_congr (up : Bool) (a b : Str) (h : lowerL a = lowerL b) : canonGo up a = canonGo up b := by
  induction a generalizing b up with
  | nil =>
    cases b with
    | nil => rfl
    | cons _ _ => simp [lowerL] at h
  | cons x xs ih =>
    cases b with
    | nil => simp [lowerL] at h
    | cons y ys =>
      simp only [lowerL, List.map_cons, List.cons.injEq] at h
      obtain ⟨_, hu, hd⟩ := canon_char_congr h.1
      simp only [canonGo, hu, h.1, hd]
      rw [ih _ ys h.2]

theorem all_token_congr (a b : Str) (h : lowerL a = lowerL b) : a.all isTokenChar = b.all isTokenChar := by
  induction a generalizing b with
  | nil =>
    cases b with
    | nil => rfl
    | cons _ _ => simp [lowerL] at h
  | cons x xs ih =>
    cases b with
    | nil => simp [lowerL] at h
    | cons y ys =>
      simp only [lowerL, List.map_cons, List.cons.injEq] at h
      simp only [List.all_cons, (canon_char_congr h.1).1, ih ys h.2]

/-- Header names that differ only in the casing of ASCII letters are filed under the same key. -/
theorem canonicalKey_casing (a b : Str) (ht : a.all isTokenChar = true) (h : lowerL a = lowerL b) :
    canonicalKey a = canonicalKey b := by
  unfold canonicalKey
  rw [← all_token_congr a b h, ht]
  simp only [if_true]
  exact canonGo_congr true a b h

end Fabio.Lemmas.C08
