import Fabio.Model.C10Std
import Fabio.Lemmas.C10
/-!
C10 — lemmas relating fabio's index/slice parser (`Model/C10.lean`) to the vector reader (`Model/C10Std.lean`).
Core Lean only.
-/
namespace Fabio.Lemmas.C10
open Fabio Fabio.Model.C10

/-! ### readers -/

theorem rdBytes_some {n : Nat} {d : Bytes} (h : n ≤ d.length) : rdBytes n d = some (d.take n, d.drop n) := by
  unfold rdBytes; rw [if_pos h]

theorem rdBytes_none {n : Nat} {d : Bytes} (h : ¬ n ≤ d.length) : rdBytes n d = none := by
  unfold rdBytes; rw [if_neg h]

theorem rdVec16_cons (a b : UInt8) (t : Bytes) : rdVec16 (a :: b :: t) = rdBytes (be16 a b) t := by
  rw [be16_eq]; rfl

theorem rdVec8_cons (a : UInt8) (t : Bytes) : rdVec8 (a :: t) = rdBytes a.toNat t := rfl

theorem isReject_of_bind_ok {α β} (x : R α) (f : α → R β) (hp : x.isPanic = false)
    (hf : ∀ a, x = .ok a → (f a).isReject = true) : (x >>= f).isReject = true := by
  cases x with
  | ok a => exact hf a rfl
  | reject s => rfl
  | panic w => cases hp

/-! ### the name loop -/

theorem nameLoop_short (fuel : Nat) (d : Bytes) (h0 : d.length ≠ 0) (h3 : d.length < 3) :
    nameLoop (fuel+1) d = .reject "name-entry-header" := by
  rw [nameLoop, if_neg h0, if_pos h3]

/-- first `host_name` entry of a split list -/
def firstHost (entries : List (UInt8 × Bytes)) : Option Bytes :=
  (entries.find? (fun e => e.1 == 0)).map (·.2)

theorem nameLoop_split : ∀ (fuel : Nat) (d : Bytes) (entries : List (UInt8 × Bytes)),
    splitNames fuel d = some entries → nameLoop fuel d = .ok (firstHost entries)
  | 0, _, _, h => by simp [splitNames] at h
  | fuel+1, [], entries, h => by
    simp only [splitNames, Option.some.injEq] at h
    subst h; rfl
  | fuel+1, [_], _, h => by simp [splitNames, rdVec16] at h
  | fuel+1, [_, _], _, h => by simp [splitNames, rdVec16] at h
  | fuel+1, ty :: a :: b :: t, entries, h => by
    rw [splitNames, rdVec16_cons] at h
    rw [nameLoop_cons]
    by_cases hl : be16 a b ≤ t.length
    · rw [rdBytes_some hl] at h
      simp only at h
      cases hs : splitNames fuel (t.drop (be16 a b)) with
      | none => rw [hs] at h; cases h
      | some es =>
        rw [hs] at h
        simp only [Option.map_some, Option.some.injEq] at h
        subst h
        rw [if_neg (by omega)]
        by_cases hty : ty = nameTypeHost
        · rw [if_pos hty]
          simp [firstHost, List.find?, hty, nameTypeHost]
        · rw [if_neg hty, nameLoop_split fuel _ es hs]
          have : (ty == 0) = false := by simpa [nameTypeHost] using hty
          simp [firstHost, List.find?, this]
    · rw [rdBytes_none hl] at h; cases h

/-! ### the extension loop -/

theorem extLoop_short (fuel : Nat) (d cur : Bytes) (h0 : d.length ≠ 0) (h4 : d.length < 4) :
    extLoop (fuel+1) d cur = .reject "ext-header" := by
  rw [extLoop, if_neg h0, if_pos h4]

theorem extLoop_split : ∀ (fuel : Nat) (d : Bytes) (es : List (Nat × Bytes)),
    splitExts fuel d = some es → ∀ cur, extLoop fuel d cur = lenientFold es cur
  | 0, _, _, h => by simp [splitExts] at h
  | fuel+1, [], es, h => by
    simp only [splitExts, Option.some.injEq] at h
    subst h; intro cur; rfl
  | fuel+1, [_], _, h => by simp [splitExts] at h
  | fuel+1, [_, _], _, h => by simp [splitExts, rdVec16] at h
  | fuel+1, [_, _, _], _, h => by simp [splitExts, rdVec16] at h
  | fuel+1, a :: b :: c :: e :: t, es, h => by
    rw [splitExts, rdVec16_cons] at h
    intro cur
    rw [extLoop_cons]
    by_cases hl : be16 c e ≤ t.length
    · rw [rdBytes_some hl] at h
      simp only at h
      cases hs : splitExts fuel (t.drop (be16 c e)) with
      | none => rw [hs] at h; cases h
      | some es' =>
        rw [hs] at h
        simp only [Option.map_some, Option.some.injEq] at h
        subst h
        rw [if_neg (by omega)]
        simp only [lenientFold, ← be16_eq]
        congr 1
        funext cur'
        exact extLoop_split fuel _ es' hs cur'
    · rw [rdBytes_none hl] at h; cases h

theorem extLoop_split_none : ∀ (fuel : Nat) (d : Bytes), d.length < fuel → splitExts fuel d = none →
    ∀ cur, (extLoop fuel d cur).isReject = true
  | 0, _, hf, _ => by omega
  | fuel+1, [], _, h => by simp [splitExts] at h
  | fuel+1, [_], _, _ => by intro cur; rw [extLoop_short _ _ _ (by simp) (by simp)]; rfl
  | fuel+1, [_, _], _, _ => by intro cur; rw [extLoop_short _ _ _ (by simp) (by simp)]; rfl
  | fuel+1, [_, _, _], _, _ => by intro cur; rw [extLoop_short _ _ _ (by simp) (by simp)]; rfl
  | fuel+1, a :: b :: c :: e :: t, hf, h => by
    rw [splitExts, rdVec16_cons] at h
    intro cur
    rw [extLoop_cons]
    by_cases hl : be16 c e ≤ t.length
    · rw [rdBytes_some hl] at h
      simp only at h
      cases hs : splitExts fuel (t.drop (be16 c e)) with
      | some es' => rw [hs] at h; cases h
      | none =>
        rw [if_neg (by omega)]
        apply isReject_of_bind_ok
        · split
          · exact serverNameExt_no_panic _ _
          · rfl
        · intro cur' _
          apply extLoop_split_none fuel _ _ hs
          simp only [List.length_cons, List.length_drop] at hf ⊢
          omega
    · rw [if_pos (by omega)]; rfl

/-! ### the stages behind the session id -/

theorem frameExts_cons (a b : UInt8) (t : Bytes) :
    frameExts (a :: b :: t) =
      if be16 a b = t.length then (splitExts (t.length + 1) t).map some else none := by
  unfold frameExts
  rw [if_neg (by simp), rdVec16_cons]
  by_cases hl : be16 a b ≤ t.length
  · rw [rdBytes_some hl]
    simp only [List.length_drop, List.length_take]
    by_cases he : be16 a b = t.length
    · rw [if_pos he, he, if_neg (by omega), List.take_length, Nat.min_self]
    · rw [if_neg he, if_pos (by omega)]
  · rw [rdBytes_none hl, if_neg (by omega)]

theorem parseExtensions_frame_some (d : Bytes) (o : Option (List (Nat × Bytes))) (h : frameExts d = some o) :
    parseExtensions d = viewExts o := by
  match d, h with
  | [], h =>
    simp only [frameExts, List.length_nil, if_true, Option.some.injEq] at h
    subst h; rfl
  | [_], h => simp [frameExts, rdVec16] at h
  | a :: b :: t, h =>
    rw [frameExts_cons] at h
    rw [parseExtensions_cons]
    by_cases he : be16 a b = t.length
    · rw [if_pos he] at h
      rw [if_neg (by omega)]
      cases hs : splitExts (t.length + 1) t with
      | none => rw [hs] at h; cases h
      | some es =>
        rw [hs] at h
        simp only [Option.map_some, Option.some.injEq] at h
        subst h
        exact extLoop_split _ _ es hs []
    · rw [if_neg he] at h; cases h

theorem parseExtensions_frame_none (d : Bytes) (h : frameExts d = none) : (parseExtensions d).isReject = true := by
  match d, h with
  | [], h => simp [frameExts] at h
  | [_], _ => rfl
  | a :: b :: t, h =>
    rw [frameExts_cons] at h
    rw [parseExtensions_cons]
    by_cases he : be16 a b = t.length
    · rw [if_pos he] at h
      rw [if_neg (by omega)]
      cases hs : splitExts (t.length + 1) t with
      | some es => rw [hs] at h; cases h
      | none => exact extLoop_split_none _ _ (by omega) hs []
    · rw [if_pos he]; rfl

theorem frameCompression_cons (c : UInt8) (t : Bytes) :
    frameCompression (c :: t) =
      if t.length < c.toNat then none else (frameExts (t.drop c.toNat)).map (fun o => (t.take c.toNat, o)) := by
  unfold frameCompression
  rw [rdVec8_cons]
  by_cases hl : c.toNat ≤ t.length
  · rw [rdBytes_some hl, if_neg (by omega)]
  · rw [rdBytes_none hl, if_pos (by omega)]

theorem compression_frame_some (d comp : Bytes) (o : Option (List (Nat × Bytes)))
    (h : frameCompression d = some (comp, o)) : (parseCompression d >>= parseExtensions) = viewExts o := by
  match d, h with
  | [], h => simp [frameCompression, rdVec8] at h
  | c :: t, h =>
    rw [frameCompression_cons] at h
    rw [parseCompression_cons]
    by_cases hl : t.length < c.toNat
    · rw [if_pos hl] at h; cases h
    · rw [if_neg hl] at h
      rw [if_neg hl, ok_bind]
      cases hs : frameExts (t.drop c.toNat) with
      | none => rw [hs] at h; cases h
      | some o' =>
        rw [hs] at h
        simp only [Option.map_some, Option.some.injEq, Prod.mk.injEq] at h
        rw [← h.2]
        exact parseExtensions_frame_some _ _ hs

theorem compression_frame_none (d : Bytes) (h : frameCompression d = none) :
    (parseCompression d >>= parseExtensions).isReject = true := by
  match d, h with
  | [], _ => rfl
  | c :: t, h =>
    rw [frameCompression_cons] at h
    rw [parseCompression_cons]
    by_cases hl : t.length < c.toNat
    · rw [if_pos hl]; rfl
    · rw [if_neg hl] at h
      rw [if_neg hl, ok_bind]
      cases hs : frameExts (t.drop c.toNat) with
      | some o' => rw [hs] at h; cases h
      | none => exact parseExtensions_frame_none _ hs

theorem frameCiphers_cons (a b : UInt8) (t : Bytes) :
    frameCiphers (a :: b :: t) =
      if be16 a b % 2 = 1 ∨ t.length < be16 a b then none
      else (frameCompression (t.drop (be16 a b))).map (fun p => (t.take (be16 a b), p)) := by
  unfold frameCiphers
  rw [rdVec16_cons]
  by_cases hl : be16 a b ≤ t.length
  · rw [rdBytes_some hl]
    simp only [List.length_take, Nat.min_eq_left hl]
    by_cases ho : be16 a b % 2 = 1
    · rw [if_pos ho, if_pos (Or.inl ho)]
    · rw [if_neg ho, if_neg (by omega)]
  · rw [rdBytes_none hl, if_pos (by omega)]

theorem ciphers_frame_some (d cs comp : Bytes) (o : Option (List (Nat × Bytes)))
    (h : frameCiphers d = some (cs, comp, o)) :
    (parseCiphers d >>= parseCompression >>= parseExtensions) = viewExts o := by
  match d, h with
  | [], h => simp [frameCiphers, rdVec16] at h
  | [_], h => simp [frameCiphers, rdVec16] at h
  | a :: b :: t, h =>
    rw [frameCiphers_cons] at h
    rw [parseCiphers_cons]
    by_cases hc : be16 a b % 2 = 1 ∨ t.length < be16 a b
    · rw [if_pos hc] at h; cases h
    · rw [if_neg hc] at h
      rw [if_neg hc, ok_bind]
      cases hs : frameCompression (t.drop (be16 a b)) with
      | none => rw [hs] at h; cases h
      | some p =>
        rw [hs] at h
        simp only [Option.map_some, Option.some.injEq, Prod.mk.injEq] at h
        obtain ⟨_, hp⟩ := h
        subst hp
        exact compression_frame_some _ _ _ hs

theorem ciphers_frame_none (d : Bytes) (h : frameCiphers d = none) :
    (parseCiphers d >>= parseCompression >>= parseExtensions).isReject = true := by
  match d, h with
  | [], _ => rfl
  | [_], _ => rfl
  | a :: b :: t, h =>
    rw [frameCiphers_cons] at h
    rw [parseCiphers_cons]
    by_cases hc : be16 a b % 2 = 1 ∨ t.length < be16 a b
    · rw [if_pos hc]; rfl
    · rw [if_neg hc] at h
      rw [if_neg hc, ok_bind]
      cases hs : frameCompression (t.drop (be16 a b)) with
      | some p => rw [hs] at h; cases h
      | none => exact compression_frame_none _ hs

/-! ### the whole message -/

theorem frameCompression_some_len (d : Bytes) (p) (h : frameCompression d = some p) : 1 ≤ d.length := by
  cases d with
  | nil => simp [frameCompression, rdVec8] at h
  | cons c t => simp

theorem frameCiphers_some_len (d : Bytes) (p) (h : frameCiphers d = some p) : 3 ≤ d.length := by
  match d, h with
  | [], h => simp [frameCiphers, rdVec16] at h
  | [_], h => simp [frameCiphers, rdVec16] at h
  | a :: b :: t, h =>
    rw [frameCiphers_cons] at h
    by_cases hc : be16 a b % 2 = 1 ∨ t.length < be16 a b
    · rw [if_pos hc] at h; cases h
    · rw [if_neg hc] at h
      cases hs : frameCompression (t.drop (be16 a b)) with
      | none => rw [hs] at h; cases h
      | some q =>
        have := frameCompression_some_len _ _ hs
        simp only [List.length_drop] at this
        simp only [List.length_cons]; omega

theorem frame_eq (b : Bytes) (h : 39 ≤ b.length) :
    frame b =
      if b.length < 39 + (b[38]'(by omega)).toNat then none
      else (frameCiphers (b.drop (39 + (b[38]'(by omega)).toNat))).map (fun p =>
        { fixed := b.take 38, sessionId := (b.drop 39).take (b[38]'(by omega)).toNat, cipherSuites := p.1,
          compressionMethods := p.2.1, extensions := p.2.2 }) := by
  unfold frame
  rw [rdBytes_some (by omega)]
  simp only
  rw [List.drop_eq_getElem_cons (by omega), rdVec8_cons]
  by_cases hl : (b[38]'(by omega)).toNat ≤ (b.drop 39).length
  · rw [rdBytes_some hl]
    simp only [List.length_drop] at hl
    rw [if_neg (by omega)]
    simp only [List.drop_drop]
  · rw [rdBytes_none hl]
    simp only [List.length_drop] at hl
    rw [if_pos (by omega)]

theorem frame_some_length (b : Bytes) (rh : RawHello) (h : frame b = some rh) : 42 ≤ b.length := by
  by_cases h39 : 39 ≤ b.length
  · rw [frame_eq b h39] at h
    by_cases hl : b.length < 39 + (b[38]'(by omega)).toNat
    · rw [if_pos hl] at h; cases h
    · rw [if_neg hl] at h
      cases hs : frameCiphers (b.drop (39 + (b[38]'(by omega)).toNat)) with
      | none => rw [hs] at h; cases h
      | some p =>
        have := frameCiphers_some_len _ _ hs
        simp only [List.length_drop] at this
        omega
  · unfold frame at h
    by_cases h38 : 38 ≤ b.length
    · rw [rdBytes_some h38] at h
      have : b.drop 38 = [] := by
        apply List.eq_nil_of_length_eq_zero; simp only [List.length_drop]; omega
      simp only [this, rdVec8] at h
      cases h
    · rw [rdBytes_none h38] at h; cases h

/-- fabio's `unmarshal` factors through the vector reader: on whatever `frame` takes apart, the result is
`fabioView` of the parts (same value, same reject site). -/
theorem unmarshal_frame_some (b : Bytes) (rh : RawHello) (h : frame b = some rh) : unmarshal b = fabioView rh := by
  have h42 := frame_some_length b rh h
  rw [frame_eq b (by omega)] at h
  unfold unmarshal
  rw [parseHead_eq b h42]
  by_cases hl : b.length < 39 + (b[38]'(by omega)).toNat
  · rw [if_pos hl] at h; cases h
  · rw [if_neg hl] at h
    cases hs : frameCiphers (b.drop (39 + (b[38]'(by omega)).toNat)) with
    | none => rw [hs] at h; cases h
    | some p =>
      rw [hs] at h
      simp only [Option.map_some, Option.some.injEq] at h
      subst h
      have hsid : ((b.drop 39).take (b[38]'(by omega)).toNat).length = (b[38]'(by omega)).toNat := by
        simp only [List.length_take, List.length_drop]; omega
      unfold fabioView
      simp only [hsid, maxSidLen]
      by_cases h32 : (b[38]'(by omega)).toNat > 32
      · rw [if_pos (Or.inl h32), if_pos h32]; rfl
      · rw [if_neg (by omega), if_neg h32, ok_bind]
        obtain ⟨cs, comp, o⟩ := p
        exact ciphers_frame_some _ _ _ _ hs

/-- … and whatever `frame` cannot take apart, `unmarshal` rejects. -/
theorem unmarshal_frame_none (b : Bytes) (h : frame b = none) : (unmarshal b).isReject = true := by
  unfold unmarshal
  by_cases h42 : b.length < 42
  · rw [parseHead_short b h42]; rfl
  · rw [frame_eq b (by omega)] at h
    rw [parseHead_eq b (by omega)]
    by_cases hl : b.length < 39 + (b[38]'(by omega)).toNat
    · rw [if_pos (Or.inr hl)]; rfl
    · rw [if_neg hl] at h
      by_cases h32 : (b[38]'(by omega)).toNat > 32
      · rw [if_pos (Or.inl h32)]; rfl
      · rw [if_neg (by omega), ok_bind]
        cases hs : frameCiphers (b.drop (39 + (b[38]'(by omega)).toNat)) with
        | some p => rw [hs] at h; cases h
        | none => exact ciphers_frame_none _ hs

/-! ### a standard server's reading implies fabio's -/

theorem bind_ok_right {α} (x : R α) : (x >>= fun a => R.ok a) = x := by
  cases x <;> rfl

theorem rdVec16_exact (a b : UInt8) (t list rest : Bytes) (h : rdVec16 (a :: b :: t) = some (list, rest))
    (hr : rest.length = 0) : be16 a b = t.length ∧ list = t := by
  rw [rdVec16_cons] at h
  by_cases hl : be16 a b ≤ t.length
  · rw [rdBytes_some hl] at h
    simp only [Option.some.injEq, Prod.mk.injEq] at h
    obtain ⟨h1, h2⟩ := h
    subst h2
    simp only [List.length_drop] at hr
    have : be16 a b = t.length := by omega
    rw [this, List.take_length] at h1
    exact ⟨this, h1.symm⟩
  · rw [rdBytes_none hl] at h; cases h

/-- What a standard server reads from a `server_name` body, fabio reads too (whatever it had before). -/
theorem serverNameExt_std (body name : Bytes) (h : stdSni body = some name) :
    serverNameExt body [] = .ok name := by
  match body, h with
  | [], h => simp [stdSni, rdVec16] at h
  | [_], h => simp [stdSni, rdVec16] at h
  | a :: b :: t, h =>
    unfold stdSni at h
    cases hv : rdVec16 (a :: b :: t) with
    | none => rw [hv] at h; cases h
    | some p =>
      obtain ⟨list, rest⟩ := p
      rw [hv] at h
      simp only at h
      by_cases hc : rest.length ≠ 0 ∨ list.length = 0
      · rw [if_pos hc] at h; cases h
      · rw [if_neg hc] at h
        obtain ⟨hlen, hlist⟩ := rdVec16_exact a b t list rest hv (by omega)
        subst hlist
        cases hs : splitNames (list.length + 1) list with
        | none => rw [hs] at h; cases h
        | some entries =>
          rw [hs] at h
          simp only at h
          rw [serverNameExt_cons, if_neg (by omega), nameLoop_split _ _ entries hs, ok_bind]
          split at h
          · cases h
          · split at h
            · cases h
            · rw [List.head?_filter] at h
              unfold firstHost
              cases hf : entries.find? (fun e => e.1 == 0) with
              | none => rw [hf] at h; simp only [Option.some.injEq] at h; subst h; rfl
              | some e =>
                rw [hf] at h
                simp only at h
                split at h
                · cases h
                · simp only [Option.some.injEq] at h; subst h; rfl

theorem lenientFold_no_sni : ∀ (es : List (Nat × Bytes)) (cur : Bytes), (∀ e ∈ es, e.1 ≠ 0) →
    lenientFold es cur = .ok cur
  | [], _, _ => rfl
  | e :: es, cur, h => by
    have h0 : ¬ e.1 = extensionServerName := h e (List.mem_cons_self ..)
    rw [lenientFold, if_neg h0, ok_bind]
    exact lenientFold_no_sni es cur (fun x hx => h x (List.mem_cons_of_mem _ hx))

/-- With pairwise distinct extension types the fold is the one `server_name` extension. -/
theorem lenientFold_unique : ∀ (es : List (Nat × Bytes)) (cur : Bytes), (es.map (·.1)).Nodup →
    lenientFold es cur =
      match es.find? (fun e => e.1 == 0) with
      | none => .ok cur
      | some e => serverNameExt e.2 cur
  | [], _, _ => rfl
  | e :: es, cur, hn => by
    rw [List.map_cons, List.nodup_cons] at hn
    by_cases h0 : e.1 = 0
    · have hfind : (e :: es).find? (fun e => e.1 == 0) = some e := by simp [List.find?, h0]
      rw [hfind, lenientFold, if_pos h0]
      have : ∀ x ∈ es, x.1 ≠ 0 := by
        intro x hx hx0
        apply hn.1
        rw [h0, ← hx0]
        exact List.mem_map_of_mem hx
      have hk : (fun cur' => lenientFold es cur') = fun c => R.ok c := by
        funext c; exact lenientFold_no_sni es c this
      rw [hk, bind_ok_right]
    · have hb : (e.1 == 0) = false := by simpa using h0
      have hfind : (e :: es).find? (fun e => e.1 == 0) = es.find? (fun e => e.1 == 0) := by
        simp [List.find?, hb]
      rw [hfind, lenientFold, if_neg h0, ok_bind]
      exact lenientFold_unique es cur hn.2

theorem stdName_view (m : Nat) (rh : RawHello) (name : Bytes) (h : stdName m rh = some name) :
    viewExts rh.extensions = .ok name := by
  unfold stdName at h
  split at h
  · cases h
  · cases he : rh.extensions with
    | none => rw [he] at h; simp only [Option.some.injEq] at h; subst h; rfl
    | some es =>
      rw [he] at h
      simp only at h
      split at h
      · cases h
      · rename_i hnd
        have hnd' : (es.map (·.1)).Nodup := Classical.not_not.mp hnd
        unfold viewExts
        simp only
        rw [lenientFold_unique es [] hnd']
        cases hf : es.find? (fun e => e.1 == 0) with
        | none => rw [hf] at h; simp only [Option.some.injEq] at h; subst h; rfl
        | some e => rw [hf] at h; exact serverNameExt_std _ _ h

/-- Agreement on the parts: a standard server's name is fabio's, provided the session id is one fabio admits. -/
theorem std_agree_of_sid (m : Nat) (b name : Bytes) (rh : RawHello) (hf : frame b = some rh)
    (hs : stdName m rh = some name) (h32 : rh.sessionId.length ≤ 32) : unmarshal b = .ok name := by
  rw [unmarshal_frame_some b rh hf]
  unfold fabioView
  rw [if_neg (by simp only [maxSidLen]; omega)]
  exact stdName_view m rh name hs

theorem stdName_sid (m : Nat) (rh : RawHello) (name : Bytes) (h : stdName m rh = some name) :
    rh.sessionId.length ≤ m := by
  unfold stdName at h
  split at h
  · cases h
  · omega

/-! ### the record layer: a standard server's name is the name fabio routes by -/

theorem take_nine (x0 x1 x2 x3 x4 x5 x6 x7 x8 : UInt8) (t : Bytes) :
    (x0 :: x1 :: x2 :: x3 :: x4 :: x5 :: x6 :: x7 :: x8 :: t).take 9 = [x0, x1, x2, x3, x4, x5, x6, x7, x8] := by
  simp [List.take]

theorem take_drop_hdr (x0 x1 x2 x3 x4 x5 x6 x7 x8 : UInt8) (t : Bytes) (n : Nat) :
    ((x0 :: x1 :: x2 :: x3 :: x4 :: x5 :: x6 :: x7 :: x8 :: t).take (n + 9)).drop 5 =
      x5 :: x6 :: x7 :: x8 :: t.take n := by
  simp [List.take, List.drop]

/-- The record layer in front of the parser: if the first record holds a complete message that `frame` takes apart
into parts a standard server (with whatever session-id bound `m`) reads `name` from, and the session id is one
fabio admits, then the start of `ServeTCP` arrives at `name`. -/
theorem sniRoute_of_message (m : Nat) (s msg name : Bytes) (rh : RawHello)
    (hm : firstMessage maxRecordLen s = some msg) (hf : frame msg = some rh) (h : stdName m rh = some name)
    (hsid : rh.sessionId.length ≤ 32) : sniRoute s = .ok name := by
  match s, hm with
  | ty :: v1 :: v2 :: r1 :: r0 :: mt :: a :: b :: c :: t, hm =>
    unfold firstMessage at hm
    simp only [← be16_eq, ← be24_eq, maxRecordLen] at hm
    split at hm
    · cases hm
    rename_i hc
    simp only [Option.some.injEq] at hm
    subst hm
    simp only [not_or] at hc
    obtain ⟨c1, c2, c3, c4, c5, c6⟩ := hc
    have hty : ty = 0x16 := Classical.not_not.mp c1
    have hmt : mt = 0x01 := Classical.not_not.mp c5
    have hnum : 0 < be16 r1 r0 ∧ be16 r1 r0 ≤ 16384 ∧ be16 r1 r0 ≤ t.length + 4 ∧ be24 a b c + 4 ≤ be16 r1 r0 :=
      ⟨by omega, by omega, by omega, by omega⟩
    have h42 := frame_some_length _ _ hf
    simp only [List.length_cons, List.length_take] at h42
    have hu := std_agree_of_sid _ _ _ rh hf h hsid
    unfold sniRoute
    simp only [peekLen, recHdrLen]
    rw [if_neg (by simp only [List.length_cons]; omega), sliceTo_ok (by simp only [List.length_cons]; omega),
      ok_bind, take_nine,
      bufsize_nine _ _ _ _ _ _ _ _ _ hty hmt ⟨hnum.1, hnum.2.1⟩ ⟨by omega, hnum.2.2.2⟩, ok_bind,
      if_neg (by simp only [List.length_cons]; omega), sliceTo_ok (by simp only [List.length_cons]; omega),
      ok_bind, sliceFrom_ok (by simp only [List.length_take, List.length_cons]; omega), ok_bind,
      take_drop_hdr]
    exact hu

theorem sniRoute_std (s name : Bytes) (h : stdRoute s = some name) : sniRoute s = .ok name := by
  unfold stdRoute at h
  cases hm : firstMessage maxRecordLen s with
  | none => rw [hm] at h; cases h
  | some msg =>
    rw [hm] at h
    simp only at h
    unfold stdServerName at h
    cases hf : frame msg with
    | none => rw [hf] at h; cases h
    | some rh =>
      rw [hf] at h
      exact sniRoute_of_message _ s msg name rh hm hf h (stdName_sid _ _ _ h)

/-! ### the strict reader accepts the encoding of every well-formed hello, with its name -/

/-- the parts of an abstract extension list -/
def rawExts (es : List Ext) : List (Nat × Bytes) := es.map (fun e => (e.typ, e.body))

theorem splitNames_enc (entries : List (UInt8 × Bytes)) (hok : ∀ e ∈ entries, e.2.length < 65536) :
    ∀ fuel, (encNameList entries).length < fuel → splitNames fuel (encNameList entries) = some entries := by
  induction entries with
  | nil =>
    intro fuel hf
    cases fuel with
    | zero => simp [encNameList] at hf
    | succ f => rfl
  | cons e es ih =>
    intro fuel hf
    cases fuel with
    | zero => omega
    | succ f =>
      have hlen : e.2.length < 65536 := hok e (List.mem_cons_self ..)
      have hshape : encNameList (e :: es) =
          e.1 :: UInt8.ofNat (e.2.length / 256) :: UInt8.ofNat (e.2.length % 256) :: (e.2 ++ encNameList es) := by
        simp [encNameList, encNameEntry, enc16]
      rw [hshape] at hf ⊢
      rw [splitNames, rdVec16_cons, be16_enc16 _ hlen, rdBytes_some (by simp)]
      simp only [List.take_left' rfl, List.drop_left' rfl]
      rw [ih (fun x hx => hok x (List.mem_cons_of_mem _ hx)) f (by
        simp only [List.length_cons, List.length_append] at hf; omega)]
      rfl

theorem splitExts_enc (es : List Ext) (hok : ∀ e ∈ es, ExtOk e) :
    ∀ fuel, (encExts es).length < fuel → splitExts fuel (encExts es) = some (rawExts es) := by
  induction es with
  | nil =>
    intro fuel hf
    cases fuel with
    | zero => simp [encExts] at hf
    | succ f => rfl
  | cons e es ih =>
    intro fuel hf
    cases fuel with
    | zero => omega
    | succ f =>
      have he : ExtOk e := hok e (List.mem_cons_self ..)
      rw [encExts_cons_shape] at hf ⊢
      rw [splitExts, rdVec16_cons, be16_enc16 _ (extOk_body_lt he), rdBytes_some (by simp)]
      simp only [List.take_left' rfl, List.drop_left' rfl]
      rw [ih (fun x hx => hok x (List.mem_cons_of_mem _ hx)) f (by
        simp only [List.length_cons, List.length_append] at hf; omega)]
      have ht := extOk_typ_lt he
      have : (UInt8.ofNat (e.typ / 256)).toNat * 256 + (UInt8.ofNat (e.typ % 256)).toNat = e.typ := by
        rw [← be16_eq, be16_enc16 _ ht]
      simp only [Option.map_some, this, rawExts, List.map_cons]

theorem hostName_eq_find (ns : List (UInt8 × Bytes)) :
    hostName ns = (ns.find? (fun e => e.1 == 0)).map (·.2) := by
  induction ns with
  | nil => rfl
  | cons e es ih =>
    by_cases h0 : e.1 = 0
    · simp [hostName, List.find?, h0]
    · have hb : (e.1 == 0) = false := by simpa using h0
      simp only [hostName, if_neg h0, List.find?, hb, ih]

theorem filter_nodup_le_one (ns : List (UInt8 × Bytes)) (hn : (ns.map (·.1)).Nodup) :
    (ns.filter (fun e => e.1 == 0)).length ≤ 1 := by
  induction ns with
  | nil => simp
  | cons e es ih =>
    rw [List.map_cons, List.nodup_cons] at hn
    by_cases h0 : e.1 = 0
    · have : es.filter (fun e => e.1 == 0) = [] := by
        rw [List.filter_eq_nil_iff]
        intro x hx hx0
        apply hn.1
        have : x.1 = 0 := by simpa using hx0
        rw [h0, ← this]
        exact List.mem_map_of_mem hx
      simp [List.filter, h0, this]
    · have hb : (e.1 == 0) = false := by simpa using h0
      simp only [List.filter, hb]
      exact ih hn.2

theorem encNameList_pos (ns : List (UInt8 × Bytes)) (h : ns ≠ []) : 0 < (encNameList ns).length := by
  cases ns with
  | nil => exact absurd rfl h
  | cons e es => simp [encNameList, encNameEntry]

theorem stdSni_enc (ns : List (UInt8 × Bytes)) (hok : ExtOk (.serverName ns)) :
    stdSni (Ext.body (.serverName ns)) = some ((hostName ns).getD []) := by
  obtain ⟨hne, hent, hnd, hlen⟩ := hok
  have hl : (encNameList ns).length < 65536 := by omega
  have hshape : Ext.body (.serverName ns) =
      UInt8.ofNat ((encNameList ns).length / 256) :: UInt8.ofNat ((encNameList ns).length % 256) ::
        encNameList ns := by
    simp [Ext.body, enc16]
  have hpos := encNameList_pos ns hne
  unfold stdSni
  rw [hshape, rdVec16_cons, be16_enc16 _ hl, rdBytes_some (Nat.le_refl _), List.take_length, List.drop_length]
  simp only [List.length_nil]
  rw [if_neg (by omega), splitNames_enc ns (fun e he => (hent e he).2.1) _ (by omega)]
  simp only
  have hany : ns.any (fun e => e.2.length == 0) = false := by
    rw [List.any_eq_false]
    intro e he
    have := (hent e he).1
    simp only [beq_iff_eq]; omega
  rw [hany]
  simp only [Bool.false_eq_true, if_false]
  rw [if_neg (by have := filter_nodup_le_one ns hnd; omega), List.head?_filter, hostName_eq_find]
  cases hf : ns.find? (fun e => e.1 == 0) with
  | none => rfl
  | some e =>
    have hmem := List.mem_of_find?_eq_some hf
    have h0 : e.1 = 0 := by simpa using List.find?_some hf
    simp only [Option.map_some, Option.getD_some]
    rw [if_neg ((hent e hmem).2.2 h0)]

theorem frameExts_enc (o : Option (List Ext)) (hok : ExtsOk o) :
    frameExts (encExtBlock o) = some (o.map rawExts) := by
  cases o with
  | none => rfl
  | some es =>
    have hshape : encExtBlock (some es) =
        UInt8.ofNat ((encExts es).length / 256) :: UInt8.ofNat ((encExts es).length % 256) :: encExts es := by
      simp [encExtBlock, enc16]
    rw [hshape, frameExts_cons, be16_enc16 _ hok.2.2, if_pos rfl, splitExts_enc es hok.1 _ (by omega)]
    rfl

/-- `frame` on the four consecutive parts of an encoded hello, with any (well-formed) extension block behind them -/
theorem frame_parts (h : Hello) (hw : WellFormed h) (o : Option (List Ext)) (hok : ExtsOk o) :
    ∃ rh, frame (headPart h ++ (encCipherBlock h ++ (encCompressionBlock h ++ encExtBlock o))) = some rh ∧
      rh.sessionId.length = h.sessionId.length ∧ rh.extensions = o.map rawExts := by
  have hr := hw.random
  have hs := hw.sessionId
  have hcl := encCiphers_length h.cipherSuites
  have hc := hw.ciphers
  have hhl := headPart_length h hr
  have hto : (UInt8.ofNat h.sessionId.length).toNat = h.sessionId.length := by simp; omega
  have htc : (UInt8.ofNat h.compressionMethods.length).toNat = h.compressionMethods.length := by
    have := hw.compression; simp; omega
  rw [frame_eq _ (by rw [List.length_append]; omega), headPart_get h hr _ (by rw [List.length_append]; omega), hto,
    if_neg (by rw [List.length_append]; omega), List.drop_left' hhl, encCipherBlock_shape, frameCiphers_cons,
    be16_enc16 _ (by omega), if_neg (by simp only [List.length_append]; omega), List.drop_left' rfl,
    encCompressionBlock_shape, frameCompression_cons, htc, if_neg (by simp only [List.length_append]; omega),
    List.drop_left' rfl, frameExts_enc _ hok]
  refine ⟨_, rfl, ?_, rfl⟩
  simp only [List.length_take, List.length_drop, List.length_append, hhl]
  omega

theorem frame_encode (h : Hello) (hw : WellFormed h) :
    ∃ rh, frame (encode h) = some rh ∧ rh.sessionId.length = h.sessionId.length ∧
      rh.extensions = h.extensions.map rawExts := by
  rw [encode_split]
  exact frame_parts h hw h.extensions hw.exts

/-- the message cut behind its compression methods, as its parts -/
theorem take_cut (h : Hello) :
    (encode h).take (cutAfterCompression h) =
      headPart h ++ (encCipherBlock h ++ (encCompressionBlock h ++ encExtBlock none)) := by
  rw [cut_eq, encode_split]
  rw [take_append_ge _ _ _ (by omega), take_append_ge _ _ _ (by omega), take_append_ge _ _ _ (by omega)]
  have hz : (headPart h).length + (encCipherBlock h).length + (encCompressionBlock h).length - (headPart h).length -
      (encCipherBlock h).length - (encCompressionBlock h).length = 0 := by omega
  rw [hz, List.take_zero]
  rfl

/-- … which the strict reader accepts as a hello without extensions. -/
theorem std_cut (h : Hello) (hw : WellFormed h) :
    stdServerName 32 ((encode h).take (cutAfterCompression h)) = some [] := by
  rw [take_cut]
  obtain ⟨rh, hf, hsid, hext⟩ := frame_parts h hw none trivial
  unfold stdServerName
  rw [hf]
  simp only
  unfold stdName
  rw [if_neg (by have := hw.sessionId; omega), hext]
  rfl

theorem find_rawExts (es : List Ext) :
    (rawExts es).find? (fun e => e.1 == 0) = (es.find? (fun e => e.typ == 0)).map (fun e => (e.typ, e.body)) := by
  induction es with
  | nil => rfl
  | cons e es ih =>
    by_cases h0 : e.typ = 0
    · simp [rawExts, List.find?, h0]
    · have hb : (e.typ == 0) = false := by simpa using h0
      simp only [rawExts, List.map_cons, List.find?, hb]
      exact ih

theorem stdName_encode (h : Hello) (hw : WellFormed h) (rh : RawHello)
    (hsid : rh.sessionId.length = h.sessionId.length) (hext : rh.extensions = h.extensions.map rawExts) :
    stdName 32 rh = some (sniOf h) := by
  unfold stdName sniOf
  rw [if_neg (by have := hw.sessionId; omega), hext]
  have hx := hw.exts
  cases he : h.extensions with
  | none => rfl
  | some es =>
    rw [he] at hx
    simp only [Option.map_some]
    have hnd : ((rawExts es).map (·.1)).Nodup := by
      have : (rawExts es).map (·.1) = es.map Ext.typ := by simp [rawExts]
      rw [this]; exact hx.2.1
    rw [if_neg (by simpa using hnd), find_rawExts]
    cases hf : es.find? (fun e => e.typ == 0) with
    | none => rfl
    | some e =>
      have hmem := List.mem_of_find?_eq_some hf
      have h0 : e.typ = 0 := by simpa using List.find?_some hf
      simp only [Option.map_some]
      cases e with
      | serverName ns => exact stdSni_enc ns (hx.1 _ hmem)
      | other t b => exact absurd h0 (hx.1 _ hmem).1

theorem firstMessage_record (a b : UInt8) (h : Hello) (hf : FitsRecord h) (tail : Bytes) :
    firstMessage maxRecordLen (record a b h ++ tail) = some (encode h) := by
  have hfit : (encode h).length ≤ 16384 := hf
  have hel := encode_length h
  have hpos := encBody_pos h
  rw [record_shape]
  simp only [List.cons_append]
  unfold firstMessage
  simp only [← be16_eq, ← be24_eq, maxRecordLen]
  rw [be16_enc16 _ (by omega), be24_enc24 _ (by omega)]
  rw [if_neg (by simp only [List.length_append, ne_eq, not_true_eq_false, false_or]; omega), List.take_left' rfl]
  simp [encode, enc24]

/-! ### `ServeTCP` up to the dial -/

/-- `serveTCP` is `sniRoute` plus the empty-name check; the bytes it hands on are the first `bufSizeOf` bytes. -/
theorem serveTCP_eq (s : Bytes) :
    serveTCP s =
      match sniRoute s with
      | .panic w => .panic w
      | .reject r => .drop r
      | .ok host =>
        if host.length = 0 then .drop "server-name-missing"
        else .lookup host (s.take (bufSizeOf s)) (s.drop (bufSizeOf s)) := by
  unfold serveTCP sniRoute bufSizeOf
  simp only [peekLen, recHdrLen]
  by_cases h9 : s.length < 9
  · rw [if_pos h9, if_pos h9]
  · rw [if_neg h9, if_neg h9, sliceTo_ok (by omega)]
    simp only [ok_bind]
    cases hb : clientHelloBufferSize (s.take 9) with
    | reject e => simp only [reject_bind]
    | panic e => simp only [panic_bind]
    | ok n =>
      simp only [ok_bind]
      obtain ⟨_, _, _, hn', hp, _, _⟩ := bufsize_spec _ _ hb
      by_cases hlen : s.length < n
      · rw [if_pos hlen, if_pos hlen]
      · rw [if_neg hlen, if_neg hlen, sliceTo_ok (by omega)]
        simp only [ok_bind]
        rw [sliceFrom_ok (by rw [List.length_take]; omega)]
        simp only [ok_bind]
        cases unmarshal ((s.take n).drop 5) <;> rfl

/-! ### `frame` loses nothing: the parts, put together again with their length prefixes, are the message -/

def encRawExts : List (Nat × Bytes) → Bytes
  | [] => []
  | e :: es => enc16 e.1 ++ (enc16 e.2.length ++ e.2) ++ encRawExts es

/-- the wire form of the parts of a ClientHello -/
def reassemble (rh : RawHello) : Bytes :=
  rh.fixed ++ ((UInt8.ofNat rh.sessionId.length :: rh.sessionId) ++
    ((enc16 rh.cipherSuites.length ++ rh.cipherSuites) ++
      ((UInt8.ofNat rh.compressionMethods.length :: rh.compressionMethods) ++
        (match rh.extensions with
         | none => []
         | some es => enc16 (encRawExts es).length ++ encRawExts es))))

theorem enc16_be (a b : UInt8) : enc16 (a.toNat * 256 + b.toNat) = [a, b] := by
  have ha := a.toNat_lt
  have hb := b.toNat_lt
  have h1 : (a.toNat * 256 + b.toNat) / 256 = a.toNat := by omega
  have h2 : (a.toNat * 256 + b.toNat) % 256 = b.toNat := by omega
  simp [enc16, h1, h2]

theorem rdBytes_eq {n : Nat} {d x r : Bytes} (h : rdBytes n d = some (x, r)) : x ++ r = d ∧ x.length = n := by
  unfold rdBytes at h
  split at h
  · rename_i hl
    simp only [Option.some.injEq, Prod.mk.injEq] at h
    obtain ⟨h1, h2⟩ := h
    subst h1 h2
    exact ⟨List.take_append_drop n d, by rw [List.length_take]; omega⟩
  · cases h

theorem rdVec16_eq {d x r : Bytes} (h : rdVec16 d = some (x, r)) : enc16 x.length ++ x ++ r = d := by
  match d, h with
  | [], h => simp [rdVec16] at h
  | [_], h => simp [rdVec16] at h
  | a :: b :: t, h =>
    simp only [rdVec16] at h
    obtain ⟨h1, h2⟩ := rdBytes_eq h
    rw [h2, enc16_be, List.append_assoc, h1]
    rfl

theorem rdVec8_eq {d x r : Bytes} (h : rdVec8 d = some (x, r)) : (UInt8.ofNat x.length :: x) ++ r = d := by
  match d, h with
  | [], h => simp [rdVec8] at h
  | a :: t, h =>
    simp only [rdVec8] at h
    obtain ⟨h1, h2⟩ := rdBytes_eq h
    rw [h2, List.cons_append, h1]
    simp

theorem splitExts_eq : ∀ (fuel : Nat) (d : Bytes) (es : List (Nat × Bytes)), splitExts fuel d = some es →
    encRawExts es = d
  | 0, _, _, h => by simp [splitExts] at h
  | fuel+1, [], es, h => by
    simp only [splitExts, Option.some.injEq] at h
    subst h; rfl
  | fuel+1, [_], _, h => by simp [splitExts] at h
  | fuel+1, a :: b :: t, es, h => by
    rw [splitExts] at h
    cases hv : rdVec16 t with
    | none => rw [hv] at h; cases h
    | some p =>
      obtain ⟨body, rest⟩ := p
      rw [hv] at h
      simp only at h
      cases hs : splitExts fuel rest with
      | none => rw [hs] at h; cases h
      | some es' =>
        rw [hs] at h
        simp only [Option.map_some, Option.some.injEq] at h
        subst h
        have ih := splitExts_eq fuel rest es' hs
        have hb := rdVec16_eq hv
        simp only [encRawExts, enc16_be, ih]
        rw [← hb]
        simp

theorem frame_reassemble (b : Bytes) (rh : RawHello) (h : frame b = some rh) : reassemble rh = b := by
  unfold frame at h
  cases h1 : rdBytes 38 b with
  | none => rw [h1] at h; cases h
  | some p1 =>
    obtain ⟨fixed, d1⟩ := p1
    rw [h1] at h
    simp only at h
    cases h2 : rdVec8 d1 with
    | none => rw [h2] at h; cases h
    | some p2 =>
      obtain ⟨sid, d2⟩ := p2
      rw [h2] at h
      simp only at h
      unfold frameCiphers at h
      cases h3 : rdVec16 d2 with
      | none => rw [h3] at h; cases h
      | some p3 =>
        obtain ⟨cs, d3⟩ := p3
        rw [h3] at h
        simp only at h
        split at h
        · cases h
        unfold frameCompression at h
        cases h4 : rdVec8 d3 with
        | none => rw [h4] at h; cases h
        | some p4 =>
          obtain ⟨comp, d4⟩ := p4
          rw [h4] at h
          simp only at h
          have e1 := (rdBytes_eq h1).1
          have e2 := rdVec8_eq h2
          have e3 := rdVec16_eq h3
          have e4 := rdVec8_eq h4
          unfold frameExts at h
          by_cases h0 : d4.length = 0
          · rw [if_pos h0] at h
            simp only [Option.map_some, Option.some.injEq] at h
            subst h
            have : d4 = [] := List.eq_nil_of_length_eq_zero h0
            subst this
            simp only [reassemble]
            rw [← e1, ← e2, ← e3, ← e4]
          · rw [if_neg h0] at h
            cases h5 : rdVec16 d4 with
            | none => rw [h5] at h; cases h
            | some p5 =>
              obtain ⟨ext, rest⟩ := p5
              rw [h5] at h
              simp only at h
              split at h
              · cases h
              rename_i hr
              cases h6 : splitExts (ext.length + 1) ext with
              | none => rw [h6] at h; cases h
              | some es =>
                rw [h6] at h
                simp only [Option.map_some, Option.some.injEq] at h
                subst h
                have e5 := rdVec16_eq h5
                have e6 := splitExts_eq _ _ _ h6
                have : rest = [] := List.eq_nil_of_length_eq_zero (Classical.not_not.mp hr)
                subst this
                simp only [reassemble, e6]
                rw [← e1, ← e2, ← e3, ← e4, ← e5]
                simp

end Fabio.Lemmas.C10
