import Fabio.Model.C20Spec
/-! C20 helper lemmas: `Outcome` plumbing and `hostport`. -/
namespace Fabio.Lemmas.C20
open Fabio Fabio.Model.C20

@[simp] theorem bind_ok {α β} (a : α) (f : α → Outcome β) : (Outcome.ok a).bind f = f a := rfl
@[simp] theorem bind_panic {α β} (w : String) (f : α → Outcome β) : (Outcome.panic w : Outcome α).bind f = .panic w := rfl
@[simp] theorem map_ok {α β} (a : α) (f : α → β) : (Outcome.ok a).map f = .ok (f a) := rfl
@[simp] theorem isPanic_ok {α} (a : α) : (Outcome.ok a).isPanic = false := rfl
@[simp] theorem isPanic_panic {α} (w : String) : (Outcome.panic w : Outcome α).isPanic = true := rfl

theorem isPanic_false_iff {α} (x : Outcome α) : x.isPanic = false ↔ ∃ a, x = .ok a := by
  cases x <;> simp

theorem lastIndexOf_go_lt (c : Char) (s : List Char) (i : Nat) (b : Option Nat) (n : Nat)
    (hb : ∀ m, b = some m → m < i) (h : lastIndexOf.go c i b s = some n) : n < i + s.length := by
  induction s generalizing i b with
  | nil => simp [lastIndexOf.go] at h; have := hb n h; simpa using this
  | cons x xs ih =>
    simp only [lastIndexOf.go] at h
    have := ih (i+1) _ (by
      intro m hm; split at hm
      · cases hm; omega
      · have := hb m hm; omega) h
    simp only [List.length_cons]; omega

theorem lastIndexOf_lt (c : Char) (s : List Char) (n : Nat) (h : lastIndexOf c s = some n) : n < s.length := by
  have := lastIndexOf_go_lt c s 0 none n (by simp) h
  omega

/-- `hostport` never panics, whatever the address looks like (D24 repaired). -/
theorem hostport_total (s : List Char) : (hostport s).isPanic = false := by
  unfold hostport
  split
  · rfl
  · split
    · rfl
    · rename_i n h
      have : n < s.length := lastIndexOf_lt ':' s n h
      have h2 : n + 1 ≤ s.length := by omega
      simp [h2, Outcome.isPanic]

end Fabio.Lemmas.C20
