import Fabio.Model.C16Race
import Fabio.Lemmas.C16
/-! Helper lemmas for the N-caller race of C16: the invariant of `RaceN.step` (repaired `Set`). -/
namespace Fabio.Lemmas.C16Race
open Fabio.Model.Route (Str)
open Fabio.Model.C16 Fabio.Model.C16.RaceN Fabio.Lemmas.C16
open Fabio.Model.C16.Race (TState tstep isDone)

theorem set_same {α} (l : List α) (i : Nat) (a : α) (h : l[i]? = some a) : l.set i a = l := by
  induction l generalizing i with
  | nil => rfl
  | cons x xs ih =>
    cases i with
    | zero => simp at h; simp [h]
    | succ n => simp at h; simp [ih n h]

theorem lt_of_get {α} {l : List α} {i : Nat} {a : α} (h : l[i]? = some a) : i < l.length := by
  rcases Nat.lt_or_ge i l.length with h' | h'
  · exact h'
  · rw [List.getElem?_eq_none h'] at h; cases h

theorem get_set_cases {α} {l : List α} {i j : Nat} {a x t : α} (hi : l[i]? = some t)
    (h : (l.set i a)[j]? = some x) : (j = i ∧ x = a) ∨ (j ≠ i ∧ l[j]? = some x) := by
  by_cases hj : j = i
  · subst hj
    rw [List.getElem?_set_self (lt_of_get hi)] at h
    injection h with h
    exact Or.inl ⟨rfl, h.symm⟩
  · rw [List.getElem?_set_ne (Ne.symm hj)] at h
    exact Or.inr ⟨hj, h⟩

/-- a thread that has not dialled yet may still dial once -/
def credit : TState → Nat
  | .start => 1
  | .missed => 1
  | _ => 0

def total (ts : List TState) : Nat := (ts.map credit).sum

theorem total_set (ts : List TState) (i : Nat) (t t' : TState) (h : ts[i]? = some t) :
    total (ts.set i t') + credit t = total ts + credit t' := by
  induction ts generalizing i with
  | nil => simp at h
  | cons x xs ih =>
    cases i with
    | zero =>
      simp at h; subst h
      simp only [total, List.set_cons_zero, List.map_cons, List.sum_cons]; omega
    | succ n =>
      simp at h
      have := ih n h
      simp only [total, List.set_cons_succ, List.map_cons, List.sum_cons] at this ⊢; omega

theorem total_replicate_start (n : Nat) : total (List.replicate n TState.start) = n := by
  induction n with
  | zero => rfl
  | succ n ih => simp only [total, List.replicate_succ, List.map_cons, List.sum_cons, credit] at ih ⊢; omega

/-- The invariant, relative to the pool `p0` and the dial counter `next0` the race started from. -/
structure J (p0 : Pool) (next0 : Nat) (k : Str) (s : NState) : Prop where
  /-- every connection dialled in the race is the live pooled connection of `k`, or was closed by `Set`, or is
  still in the hands of the thread that dialled it (which has its `Set` before it) -/
  acct : ∀ i : Nat, next0 ≤ i → i < s.next →
    (∃ c, s.pool.find k = some c ∧ c.id = i ∧ c.shut = false) ∨ i ∈ s.closed ∨ (∃ j : Nat, s.ts[j]? = some (TState.dialled i))
  /-- every caller that has returned holds the live pooled connection of `k` -/
  done : ∀ (j : Nat) (r : GetRes), s.ts[j]? = some (TState.done r) → ∃ c, s.pool.find k = some c ∧ c.shut = false ∧ r.conn? = some c.id
  /-- at most one dial per caller -/
  budget : s.next + total s.ts ≤ next0 + s.ts.length
  mono : next0 ≤ s.next
  held : ∀ j i : Nat, s.ts[j]? = some (TState.dialled i) → next0 ≤ i ∧ i < s.next
  others : ∀ k', k' ≠ k → s.pool.find k' = p0.find k'
  pooled : ∀ c, s.pool.find k = some c → c.id < s.next

theorem j_start (p : Pool) (next n : Nat) (k : Str) (hp : ∀ c, p.find k = some c → c.id < next) :
    J p next k (start p next n) := by
  refine ⟨?_, ?_, ?_, Nat.le_refl _, ?_, fun _ _ => rfl, hp⟩
  · intro i h1 h2; exact absurd h2 (Nat.not_lt.mpr h1)
  · intro j r h
    simp only [start] at h
    rcases Nat.lt_or_ge j n with hj | hj
    · rw [List.getElem?_replicate] at h; simp [hj] at h
    · rw [List.getElem?_eq_none (by simpa using hj)] at h; cases h
  · simp [start, total_replicate_start]
  · intro j i h
    simp only [start] at h
    rcases Nat.lt_or_ge j n with hj | hj
    · rw [List.getElem?_replicate] at h; simp [hj] at h
    · rw [List.getElem?_eq_none (by simpa using hj)] at h; cases h

theorem j_step (p0 : Pool) (next0 : Nat) (k : Str) (s : NState) (i : Nat) (h : J p0 next0 k s) :
    J p0 next0 k (step true k s i) := by
  obtain ⟨acct, done, budget, mono, held, others, pooled⟩ := h
  unfold step
  cases hi : s.ts[i]? with
  | none => exact ⟨acct, done, budget, mono, held, others, pooled⟩
  | some t =>
    have hlen : ∀ t', (s.ts.set i t').length = s.ts.length := fun _ => List.length_set
    cases t with
    | start =>
      simp only [tstep]
      cases hf : s.pool.find k with
      | none =>
        simp only
        have ht := total_set s.ts i .start .missed hi
        refine ⟨?_, ?_, ?_, mono, ?_, others, pooled⟩
        · intro i' h1 h2
          rcases acct i' h1 h2 with a | a | ⟨j, hj⟩
          · exact Or.inl a
          · exact Or.inr (Or.inl a)
          · refine Or.inr (Or.inr ⟨j, ?_⟩)
            have : j ≠ i := by intro e; subst e; rw [hi] at hj; cases hj
            simp only; rw [List.getElem?_set_ne (Ne.symm this)]; exact hj
        · intro j r hj
          rcases get_set_cases hi hj with ⟨_, e⟩ | ⟨_, hj'⟩
          · cases e
          · exact done j r hj'
        · simp only [hlen]; simp only [credit] at ht; omega
        · intro j i' hj
          rcases get_set_cases hi hj with ⟨_, e⟩ | ⟨_, hj'⟩
          · cases e
          · exact held j i' hj'
      | some c =>
        simp only
        cases hs : c.shut with
        | true =>
          simp only [Bool.not_true, Bool.false_eq_true, if_false]
          have ht := total_set s.ts i .start .missed hi
          refine ⟨?_, ?_, ?_, mono, ?_, others, pooled⟩
          · intro i' h1 h2
            rcases acct i' h1 h2 with a | a | ⟨j, hj⟩
            · exact Or.inl a
            · exact Or.inr (Or.inl a)
            · refine Or.inr (Or.inr ⟨j, ?_⟩)
              have : j ≠ i := by intro e; subst e; rw [hi] at hj; cases hj
              simp only; rw [List.getElem?_set_ne (Ne.symm this)]; exact hj
          · intro j r hj
            rcases get_set_cases hi hj with ⟨_, e⟩ | ⟨_, hj'⟩
            · cases e
            · exact done j r hj'
          · simp only [hlen]; simp only [credit] at ht; omega
          · intro j i' hj
            rcases get_set_cases hi hj with ⟨_, e⟩ | ⟨_, hj'⟩
            · cases e
            · exact held j i' hj'
        | false =>
          simp only [Bool.not_false, if_true]
          have ht := total_set s.ts i .start (.done (.reused c.id)) hi
          refine ⟨?_, ?_, ?_, mono, ?_, others, pooled⟩
          · intro i' h1 h2
            rcases acct i' h1 h2 with a | a | ⟨j, hj⟩
            · exact Or.inl a
            · exact Or.inr (Or.inl a)
            · refine Or.inr (Or.inr ⟨j, ?_⟩)
              have : j ≠ i := by intro e; subst e; rw [hi] at hj; cases hj
              simp only; rw [List.getElem?_set_ne (Ne.symm this)]; exact hj
          · intro j r hj
            rcases get_set_cases hi hj with ⟨_, e⟩ | ⟨_, hj'⟩
            · injection e with e; subst e; exact ⟨c, hf, hs, rfl⟩
            · exact done j r hj'
          · simp only [hlen]; simp only [credit] at ht; omega
          · intro j i' hj
            rcases get_set_cases hi hj with ⟨_, e⟩ | ⟨_, hj'⟩
            · cases e
            · exact held j i' hj'
    | missed =>
      simp only [tstep]
      have ht := total_set s.ts i .missed (.dialled s.next) hi
      refine ⟨?_, ?_, ?_, Nat.le_succ_of_le mono, ?_, others, fun c hc => Nat.lt_succ_of_lt (pooled c hc)⟩
      · intro i' h1 h2
        rcases Nat.lt_or_ge i' s.next with hlt | hge
        · rcases acct i' h1 hlt with a | a | ⟨j, hj⟩
          · exact Or.inl a
          · exact Or.inr (Or.inl a)
          · refine Or.inr (Or.inr ⟨j, ?_⟩)
            have : j ≠ i := by intro e; subst e; rw [hi] at hj; cases hj
            simp only; rw [List.getElem?_set_ne (Ne.symm this)]; exact hj
        · have h2' : i' < s.next + 1 := h2
          have : i' = s.next := by omega
          subst this
          exact Or.inr (Or.inr ⟨i, by simp only; exact List.getElem?_set_self (lt_of_get hi)⟩)
      · intro j r hj
        rcases get_set_cases hi hj with ⟨_, e⟩ | ⟨_, hj'⟩
        · cases e
        · exact done j r hj'
      · simp only [hlen]; simp only [credit] at ht; omega
      · intro j i' hj
        rcases get_set_cases hi hj with ⟨_, e⟩ | ⟨_, hj'⟩
        · injection e with e; subst e; exact ⟨mono, Nat.lt_succ_self _⟩
        · obtain ⟨a, b⟩ := held j i' hj'; exact ⟨a, Nat.lt_succ_of_lt b⟩
    | dialled id =>
      obtain ⟨hid0, hid1⟩ := held i id hi
      have nodone : (∀ c, s.pool.find k = some c → c.shut = true) → ∀ (j : Nat) (r : GetRes), s.ts[j]? ≠ some (TState.done r) := by
        intro hno j r hj
        obtain ⟨c, hc, hl, _⟩ := done j r hj
        have := hno c hc; rw [hl] at this; cases this
      -- the two outcomes of `Set`
      have store : (∀ c, s.pool.find k = some c → c.shut = true) →
          J p0 next0 k { pool := s.pool.put k { id := id }, next := s.next, closed := s.closed,
                         ts := s.ts.set i (.done (.dialled id)) } := by
        intro hno
        have ht := total_set s.ts i (.dialled id) (.done (.dialled id)) hi
        refine ⟨?_, ?_, ?_, mono, ?_, ?_, ?_⟩
        · intro i' h1 h2
          rcases acct i' h1 h2 with ⟨c, hc, _, hl⟩ | a | ⟨j, hj⟩
          · have := hno c hc; rw [hl] at this; cases this
          · exact Or.inr (Or.inl a)
          · by_cases hji : j = i
            · subst hji; rw [hi] at hj; injection hj with hj; injection hj with hj; subst hj
              exact Or.inl ⟨{ id := id }, find_put_same _ _ _, rfl, rfl⟩
            · exact Or.inr (Or.inr ⟨j, by simp only; rw [List.getElem?_set_ne (Ne.symm hji)]; exact hj⟩)
        · intro j r hj
          rcases get_set_cases hi hj with ⟨_, e⟩ | ⟨_, hj'⟩
          · injection e with e; subst e; exact ⟨{ id := id }, find_put_same _ _ _, rfl, rfl⟩
          · exact absurd hj' (nodone hno j r)
        · simp only [hlen]; simp only [credit] at ht; omega
        · intro j i' hj
          rcases get_set_cases hi hj with ⟨_, e⟩ | ⟨_, hj'⟩
          · cases e
          · exact held j i' hj'
        · intro k' hk'; simp only; rw [find_put_other _ _ _ _ hk']; exact others k' hk'
        · intro c hc; simp only at hc; rw [find_put_same] at hc; injection hc with hc; subst hc; exact hid1
      simp only [tstep]
      cases hf : s.pool.find k with
      | none =>
        simp only
        exact store (by intro c hc; rw [hf] at hc; cases hc)
      | some c =>
        simp only [Bool.true_and]
        cases hs : c.shut with
        | true =>
          simp only [Bool.not_true, Bool.false_eq_true, if_false]
          exact store (by intro c' hc'; rw [hf] at hc'; injection hc' with hc'; subst hc'; exact hs)
        | false =>
          simp only [Bool.not_false, if_true]
          have ht := total_set s.ts i (.dialled id) (.done (.reused c.id)) hi
          refine ⟨?_, ?_, ?_, mono, ?_, others, pooled⟩
          · intro i' h1 h2
            rcases acct i' h1 h2 with a | a | ⟨j, hj⟩
            · exact Or.inl a
            · exact Or.inr (Or.inl (by simp [a]))
            · by_cases hji : j = i
              · subst hji; rw [hi] at hj; injection hj with hj; injection hj with hj; subst hj
                exact Or.inr (Or.inl (by simp))
              · exact Or.inr (Or.inr ⟨j, by simp only; rw [List.getElem?_set_ne (Ne.symm hji)]; exact hj⟩)
          · intro j r hj
            rcases get_set_cases hi hj with ⟨_, e⟩ | ⟨_, hj'⟩
            · injection e with e; subst e; exact ⟨c, hf, hs, rfl⟩
            · exact done j r hj'
          · simp only [hlen]; simp only [credit] at ht; omega
          · intro j i' hj
            rcases get_set_cases hi hj with ⟨_, e⟩ | ⟨_, hj'⟩
            · cases e
            · exact held j i' hj'
    | done r =>
      simp only [tstep]
      rw [set_same s.ts i _ hi]
      exact ⟨acct, done, budget, mono, held, others, pooled⟩

theorem j_run (p0 : Pool) (next0 : Nat) (k : Str) (s : NState) (sched : List Nat) (h : J p0 next0 k s) :
    J p0 next0 k (run true k s sched) := by
  induction sched generalizing s with
  | nil => exact h
  | cons i is ih => exact ih (step true k s i) (j_step p0 next0 k s i h)

theorem step_length (fixed : Bool) (k : Str) (s : NState) (i : Nat) : (step fixed k s i).ts.length = s.ts.length := by
  unfold step
  cases s.ts[i]? with
  | none => rfl
  | some t => simp

theorem run_length (fixed : Bool) (k : Str) (s : NState) (sched : List Nat) :
    (run fixed k s sched).ts.length = s.ts.length := by
  induction sched generalizing s with
  | nil => rfl
  | cons i is ih => exact (ih (step fixed k s i)).trans (step_length fixed k s i)

end Fabio.Lemmas.C16Race
