import Fabio.Props.C20
import Fabio.Model.C20Serve
/-! C20 helper lemmas about the `ServeHTTP` model, the formatter-backed header values and the injectivity of
`uuid.ToString`. Core Lean only. -/
namespace Fabio.Lemmas.C20Serve
open Fabio Fabio.Model.C20Url Fabio.Model.C20Serve Fabio.Model.C20Capture

theorem capture_spec (ops : List RWOp) :
    (captureRun true ops).forwarded = visible true ops ∧ (captureRun true ops).size = accepted ops ∧
    (captureRun true ops).code = ((statuses ops).getLast?).getD 0 := Props.C20.capture_transparent true ops

@[simp] theorem withRequestID_remoteAddr (cfg : Cfg) (r : Req) (id : Bytes) :
    (withRequestID cfg r id).remoteAddr = r.remoteAddr := rfl
@[simp] theorem withRequestID_host (cfg : Cfg) (r : Req) (id : Bytes) : (withRequestID cfg r id).host = r.host := rfl
@[simp] theorem withRequestID_url (cfg : Cfg) (r : Req) (id : Bytes) : (withRequestID cfg r id).url = r.url := rfl

/-- the event `serveOps` builds when it builds one -/
def theEvent (cfg : Cfg) (r : Req) (t : Target) (id : Bytes) (ops : List RWOp) : LogEvent :=
  let r1 := withRequestID cfg r id
  let turl := targetURL r1 t
  { remoteAddr := r1.remoteAddr, method := r1.method, requestURI := r1.requestURI, proto := r1.proto,
    host := if t.hostOpt = b "dst" then turl.host else if t.hostOpt ≠ [] then t.hostOpt else r1.host,
    header := r1.header, requestURL := requestURL r1, upstreamURL := turl, upstreamAddr := turl.host,
    upstreamService := t.service, status := (captureRun true ops).code, size := (captureRun true ops).size }

theorem serveOps_cases (cfg : Cfg) (r : Req) (t : Target) (id : Bytes) (ops : List RWOp) :
    serveOps cfg r (some t) id ops =
      if t.denied then .denied else if !t.authorized then .unauthorized else if t.redirect then .redirect
      else if !splitHostPortOk r.remoteAddr then .badRemote
      else if (captureRun true ops).code = 0 then .noStatus else .logged (theEvent cfg r t id ops) := by
  simp only [serveOps, theEvent, withRequestID_remoteAddr]
  rfl

theorem logged_iff (cfg : Cfg) (r : Req) (t : Target) (id : Bytes) (ops : List RWOp) :
    (∃ e, serveOps cfg r (some t) id ops = .logged e) ↔
      (t.denied = false ∧ t.authorized = true ∧ t.redirect = false ∧ splitHostPortOk r.remoteAddr = true ∧
        ((statuses ops).getLast?).getD 0 ≠ 0) := by
  rw [serveOps_cases, ← (capture_spec ops).2.2]
  cases t.denied <;> cases t.authorized <;> cases t.redirect <;> cases splitHostPortOk r.remoteAddr <;>
    by_cases hc : (captureRun true ops).code = 0 <;> simp [hc]

theorem logged_eq (cfg : Cfg) (r : Req) (t : Target) (id : Bytes) (ops : List RWOp) (e : LogEvent)
    (h : serveOps cfg r (some t) id ops = .logged e) : e = theEvent cfg r t id ops := by
  rw [serveOps_cases] at h
  revert h
  cases t.denied <;> cases t.authorized <;> cases t.redirect <;> cases splitHostPortOk r.remoteAddr <;>
    by_cases hc : (captureRun true ops).code = 0 <;> simp [hc] <;> intro h <;> exact h.symm

theorem logged_status_size (cfg : Cfg) (r : Req) (t : Target) (id : Bytes) (ops : List RWOp) (e : LogEvent)
    (h : serveOps cfg r (some t) id ops = .logged e) :
    e.status = ((statuses ops).getLast?).getD 0 ∧ e.size = accepted ops ∧
    (captureRun true ops).forwarded = visible true ops := by
  rw [logged_eq cfg r t id ops e h]
  have := capture_spec ops
  exact ⟨this.2.2, this.2.1, this.1⟩

theorem statuses_append (a b : List RWOp) : statuses (a ++ b) = statuses a ++ statuses b := by
  simp [statuses, List.filterMap_append]

theorem statuses_headers (info : List Nat) : statuses (info.map RWOp.header) = info := by
  induction info with
  | nil => rfl
  | cons x xs ih => simp_all [statuses]

theorem statuses_writes (chunks : List Nat) : statuses (chunks.map fun n => RWOp.write n n) = [] := by
  induction chunks with
  | nil => rfl
  | cons x xs ih => simp_all [statuses]

theorem accepted_append (a b : List RWOp) : accepted (a ++ b) = accepted a + accepted b := by
  simp [accepted, List.sum_append]

theorem accepted_headers (info : List Nat) : accepted (info.map RWOp.header) = 0 := by
  induction info with
  | nil => rfl
  | cons x xs ih => simp_all [accepted]

theorem accepted_writes (chunks : List Nat) : accepted (chunks.map fun n => RWOp.write n n) = chunks.sum := by
  induction chunks with
  | nil => rfl
  | cons x xs ih => simp_all [accepted]

theorem statuses_upstream (info : List Nat) (st : Nat) (chunks : List Nat) :
    ((statuses (upstreamOps (.response info st chunks))).getLast?).getD 0 = st := by
  simp only [upstreamOps, statuses_append, statuses_headers, statuses_writes]
  simp [statuses]

theorem accepted_upstream (info : List Nat) (st : Nat) (chunks : List Nat) :
    accepted (upstreamOps (.response info st chunks)) = chunks.sum := by
  simp only [upstreamOps, accepted_append, accepted_headers, accepted_writes]
  simp [accepted]

theorem logged_response (cfg : Cfg) (r : Req) (t : Target) (id : Bytes) (info : List Nat) (st : Nat)
    (chunks : List Nat) (e : LogEvent) (h : serve cfg r (some t) id (.response info st chunks) = .logged e) :
    e.status = st ∧ e.size = chunks.sum := by
  have := logged_status_size cfg r t id _ e h
  rw [statuses_upstream, accepted_upstream] at this
  exact ⟨this.1, this.2.1⟩

theorem logged_error (cfg : Cfg) (r : Req) (t : Target) (id : Bytes) (err : UpErr) (e : LogEvent)
    (h : serve cfg r (some t) id (.error err) = .logged e) : e.status = errStatus err ∧ e.size = 0 := by
  have := logged_status_size cfg r t id _ e h
  simpa [upstreamOps, statuses, accepted] using And.intro this.1 this.2.1

theorem logged_urls (cfg : Cfg) (r : Req) (t : Target) (id : Bytes) (ops : List RWOp) (e : LogEvent)
    (h : serveOps cfg r (some t) id ops = .logged e) :
    e.requestURL.host = r.host ∧ e.requestURL.path = r.url.path ∧ e.requestURL.rawPath = r.url.rawPath ∧
    e.requestURL.forceQuery = r.url.forceQuery ∧ e.requestURL.rawQuery = r.url.rawQuery ∧
    e.upstreamAddr = e.upstreamURL.host ∧ e.upstreamURL.host = t.host ∧ e.upstreamURL.scheme = t.scheme ∧
    e.upstreamService = t.service := by
  rw [logged_eq cfg r t id ops e h]
  simp [theEvent, requestURL, targetURL]

theorem hget_hset (h : Header) (k v : Bytes) : hget (hset h k v) k = v := by
  simp [hget, hset]

theorem logged_request_id (cfg : Cfg) (r : Req) (t : Target) (id : Bytes) (ops : List RWOp) (e : LogEvent)
    (hid : cfg.requestID ≠ []) (h : serveOps cfg r (some t) id ops = .logged e) :
    hget e.header (canonKey true cfg.requestID) = id := by
  rw [logged_eq cfg r t id ops e h]
  simp [theEvent, withRequestID, hid, hget_hset]

/-! ### header values that go through `i32toa` / `uint16base16` -/

section headers
open Fabio.Model.C20

theorem sts_value (cfg : Cfg) (h : 0 < cfg.stsMaxAge) :
    stsHeader true cfg = some (.ok ("max-age=".toList ++ (Nat.repr (min cfg.stsMaxAge 2147483647).toNat).toList ++
      (if cfg.stsSubdomains then "; includeSubdomains".toList else []) ++ (if cfg.stsPreload then "; preload".toList else []))) := by
  unfold stsHeader
  have hc : (true = true ∧ cfg.stsMaxAge > 0) := ⟨rfl, h⟩
  rw [if_pos hc]
  have hn : (if cfg.stsMaxAge > 2147483647 then (2147483647 : Int) else cfg.stsMaxAge) = min cfg.stsMaxAge 2147483647 := by
    split <;> omega
  have hlo : -2^31 ≤ min cfg.stsMaxAge 2147483647 := by omega
  have hhi : min cfg.stsMaxAge 2147483647 < 2^31 := by omega
  have hpos : ¬ (min cfg.stsMaxAge 2147483647 < 0) := by omega
  simp only [hn]
  rw [Props.C20.i32toa_eq_decimal _ hlo hhi]
  simp only [Outcome.map, Spec.itoa, Spec.decimal, hpos, if_false, List.nil_append, Spec.zpad]
  have hab : (min cfg.stsMaxAge 2147483647).natAbs = (min cfg.stsMaxAge 2147483647).toNat := by omega
  rw [hab, Nat.zero_sub, Nat.toList_repr]
  rfl

theorem forwarded_tls_value (t : TLSState) (hv : t.version < 65536) (hc : t.cipher < 65536) :
    forwardedTLS t = .ok (
      (if t.version > 0 then "; tlsver=".toList ++ (match tlsverName t.version with
          | some n => n | none => Model.C20.Spec.hex4 t.version) else []) ++
      (if t.cipher ≠ 0 then "; tlscipher=".toList ++ Model.C20.Spec.hex4 t.cipher else [])) := by
  unfold forwardedTLS
  rw [Props.C20.uint16base16_eq_hex4 _ hv, Props.C20.uint16base16_eq_hex4 _ hc]
  cases hn : tlsverName t.version <;> by_cases h1 : t.version > 0 <;> by_cases h2 : t.cipher ≠ 0 <;>
    simp [h1, h2, Outcome.bind, Outcome.map]

end headers

/-! ### injectivity of `uuid.ToString` on the bytes it prints -/

open Fabio.Model.C20

def unhexC (c : Char) : Nat :=
  if '0' ≤ c ∧ c ≤ '9' then c.toNat - 48 else if 'a' ≤ c ∧ c ≤ 'f' then c.toNat - 87 else 0

/-- reads a text of hex digit pairs back into numbers -/
def decodePairs : List Char → List Nat
  | a :: b :: rest => (unhexC a * 16 + unhexC b) :: decodePairs rest
  | _ => []

set_option maxRecDepth 100000 in
theorem hexByte_nat : ∀ n, n < 256 →
    Spec.zpad 2 (Nat.toDigits 16 n) = [Nat.digitChar (n / 16), Nat.digitChar (n % 16)] ∧
    Nat.digitChar (n / 16) ≠ '-' ∧ Nat.digitChar (n % 16) ≠ '-' ∧
    unhexC (Nat.digitChar (n / 16)) * 16 + unhexC (Nat.digitChar (n % 16)) = n := by
  decide

theorem decode_hexBytes (bs : List UInt8) : decodePairs (Spec.hexBytes bs) = bs.map UInt8.toNat := by
  induction bs with
  | nil => rfl
  | cons x xs ih =>
    have h := hexByte_nat x.toNat (UInt8.toNat_lt x)
    simp only [Spec.hexBytes, List.flatMap_cons, Spec.hexByte] at ih ⊢
    rw [h.1]
    simp only [List.cons_append, List.nil_append, decodePairs, List.map_cons]
    rw [h.2.2.2, ih]

theorem strip_hexBytes (bs : List UInt8) : (Spec.hexBytes bs).filter (· != '-') = Spec.hexBytes bs := by
  induction bs with
  | nil => rfl
  | cons x xs ih =>
    have h := hexByte_nat x.toNat (UInt8.toNat_lt x)
    simp only [Spec.hexBytes, List.flatMap_cons, Spec.hexByte] at ih ⊢
    rw [h.1]
    simp [h.2.1, h.2.2.1, ih]

theorem hexBytes_append (a c : List UInt8) : Spec.hexBytes (a ++ c) = Spec.hexBytes a ++ Spec.hexBytes c := by
  simp [Spec.hexBytes]

theorem take16 (u : List UInt8) :
    u.take 4 ++ ((u.drop 4).take 2 ++ ((u.drop 6).take 2 ++ ((u.drop 8).take 2 ++ (u.drop 10).take 6))) = u.take 16 := by
  have e1 : u.take 16 = u.take 4 ++ (u.drop 4).take 12 := List.take_add (i := 4) (j := 12)
  have e2 : (u.drop 4).take 12 = (u.drop 4).take 2 ++ ((u.drop 4).drop 2).take 10 := List.take_add (i := 2) (j := 10)
  have e3 : (u.drop 6).take 10 = (u.drop 6).take 2 ++ ((u.drop 6).drop 2).take 8 := List.take_add (i := 2) (j := 8)
  have e4 : (u.drop 8).take 8 = (u.drop 8).take 2 ++ ((u.drop 8).drop 2).take 6 := List.take_add (i := 2) (j := 6)
  simp only [List.drop_drop] at e2 e3 e4
  rw [e1, e2, e3, e4]

theorem strip_uuidText (u : List UInt8) :
    (Spec.uuidText u).filter (· != '-') = Spec.hexBytes (u.take 16) := by
  rw [← take16 u]
  simp only [Spec.uuidText, List.filter_append, strip_hexBytes, hexBytes_append]
  simp

theorem map_toNat_inj : ∀ (a c : List UInt8), a.map UInt8.toNat = c.map UInt8.toNat → a = c
  | [], [], _ => rfl
  | [], _ :: _, h => by simp at h
  | _ :: _, [], h => by simp at h
  | x :: xs, y :: ys, h => by
    simp only [List.map_cons, List.cons.injEq] at h
    rw [UInt8.toNat_inj.mp h.1, map_toNat_inj xs ys h.2]

theorem uuid_injective (u v : List UInt8) (hu : u.length = 24) (hv : v.length = 24)
    (h : uuidToString u = uuidToString v) : u.take 16 = v.take 16 := by
  rw [Props.C20.uuid_format u hu, Props.C20.uuid_format v hv] at h
  have ht : Spec.uuidText u = Spec.uuidText v := by injection h
  have hs := congrArg (fun s => decodePairs (s.filter (· != '-'))) ht
  simp only [strip_uuidText, decode_hexBytes] at hs
  exact map_toNat_inj _ _ hs

/-! ### request ids of different counter values differ -/

theorem ofNat_inj (a c : Nat) (ha : a < 256) (hc : c < 256) (h : UInt8.ofNat a = UInt8.ofNat c) : a = c := by
  have := congrArg UInt8.toNat h
  simp [UInt8.toNat_ofNat'] at this
  omega

theorem le64_inj (x y : Nat) (hx : x < 18446744073709551616) (hy : y < 18446744073709551616) (h : le64 x = le64 y) : x = y := by
  simp only [le64, List.cons.injEq, and_true] at h
  obtain ⟨h0, h1, h2, h3, h4, h5, h6, h7⟩ := h
  have e0 := ofNat_inj _ _ (by omega) (by omega) h0
  have e1 := ofNat_inj _ _ (by omega) (by omega) h1
  have e2 := ofNat_inj _ _ (by omega) (by omega) h2
  have e3 := ofNat_inj _ _ (by omega) (by omega) h3
  have e4 := ofNat_inj _ _ (by omega) (by omega) h4
  have e5 := ofNat_inj _ _ (by omega) (by omega) h5
  have e6 := ofNat_inj _ _ (by omega) (by omega) h6
  have e7 := ofNat_inj _ _ (by omega) (by omega) h7
  omega

theorem newUUID_distinct (seed : List UInt8) (hs : seed.length = 24) (x y : Nat)
    (hx : x < 18446744073709551616) (hy : y < 18446744073709551616) (hne : x ≠ y) : newUUID seed x ≠ newUUID seed y := by
  intro h
  unfold newUUID at h
  rw [Nat.mod_eq_of_lt hx, Nat.mod_eq_of_lt hy] at h
  have hl : ∀ z, (le64 z ++ seed.drop 8).length = 24 := by intro z; simp [le64, hs]
  have := uuid_injective _ _ (hl x) (hl y) h
  have h8 := congrArg (List.take 8) this
  simp [List.take_take, le64] at h8
  apply hne
  apply le64_inj x y hx hy
  simp [le64, h8]

end Fabio.Lemmas.C20Serve
