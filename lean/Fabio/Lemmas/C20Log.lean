import Fabio.Model.C20Log
/-! C20: the buffer-ownership invariant of `Log` and the theorem that no schedule can mix lines. -/
namespace Fabio.Lemmas.C20Log
open Fabio.Model.C20Log

variable {Ev : Type}

/-- between `get` and `put` -/
def holding (th : Thread Ev) : Prop := 1 ≤ th.pc ∧ th.pc ≤ 5

structure Inv (render : Ev → List Char) (s : St Ev) : Prop where
  sink : SinkIntact render s
  /-- a holder's buffer exists and is not in the pool -/
  own : ∀ (i : Nat) (th : Thread Ev), s.threads[i]? = some th → holding th → ∃ b, th.buf = some b ∧ b < s.bufs.length ∧ b ∉ s.free
  /-- after `render` and until `put` the buffer holds the rendering of the thread's current event -/
  content : ∀ (i : Nat) (th : Thread Ev), s.threads[i]? = some th → 2 ≤ th.pc → th.pc ≤ 5 →
    ∃ b e rest, th.buf = some b ∧ th.todo = e :: rest ∧ s.bufs[b]? = some (render e)
  /-- exclusive ownership -/
  excl : ∀ (i j : Nat) (thi thj : Thread Ev), i ≠ j → s.threads[i]? = some thi → s.threads[j]? = some thj →
    holding thi → holding thj → thi.buf ≠ thj.buf
  freeLt : ∀ b ∈ s.free, b < s.bufs.length
  nodup : s.free.Nodup

theorem getElem?_set_self' {α} (l : List α) (t : Nat) (a b : α) (h : l[t]? = some b) : (l.set t a)[t]? = some a := by
  have : t < l.length := by
    rcases Nat.lt_or_ge t l.length with h' | h'
    · exact h'
    · rw [List.getElem?_eq_none h'] at h; cases h
  simp [this]

/-- Frame lemma: thread `t` moves from `th` to `th'`, the shared state changes to `bufs' free' sink'`;
buffers that exist, are not pooled and are not `th`'s own keep their identity. -/
theorem inv_set (render : Ev → List Char) (s : St Ev) (hinv : Inv render s) (t : Nat) (th th' : Thread Ev)
    (ht : s.threads[t]? = some th) (bufs' : List (List Char)) (free' : List Nat) (lock' : Option Nat)
    (sink' : List (List Char × Ev))
    (hsink : ∀ x ∈ sink', x.1 = render x.2)
    (hfreeLt : ∀ b ∈ free', b < bufs'.length) (hnodup : free'.Nodup)
    (hframe : ∀ b, b < s.bufs.length → b ∉ s.free → (holding th → th.buf ≠ some b) →
      b < bufs'.length ∧ b ∉ free' ∧ bufs'[b]? = s.bufs[b]?)
    (hown : holding th' → ∃ b, th'.buf = some b ∧ b < bufs'.length ∧ b ∉ free' ∧
      ∀ b0, b0 < s.bufs.length → b0 ∉ s.free → (holding th → th.buf ≠ some b0) → b ≠ b0)
    (hcontent : 2 ≤ th'.pc → th'.pc ≤ 5 → ∃ b e rest, th'.buf = some b ∧ th'.todo = e :: rest ∧ bufs'[b]? = some (render e)) :
    Inv render { bufs := bufs', free := free', lock := lock', sink := sink', threads := s.threads.set t th' } := by
  have hget : ∀ i thi, (s.threads.set t th')[i]? = some thi → (i = t ∧ thi = th') ∨ (i ≠ t ∧ s.threads[i]? = some thi) := by
    intro i thi h
    by_cases hit : i = t
    · subst hit
      rw [getElem?_set_self' _ _ _ _ ht] at h
      exact Or.inl ⟨rfl, (Option.some.inj h).symm⟩
    · rw [List.getElem?_set_ne (Ne.symm hit)] at h
      exact Or.inr ⟨hit, h⟩
  -- an other holder's buffer is framed
  have hother : ∀ i thi, i ≠ t → s.threads[i]? = some thi → holding thi →
      ∃ b, thi.buf = some b ∧ b < s.bufs.length ∧ b ∉ s.free ∧ (holding th → th.buf ≠ some b) := by
    intro i thi hit hi hh
    obtain ⟨b, hb, hlt, hnf⟩ := hinv.own i thi hi hh
    refine ⟨b, hb, hlt, hnf, ?_⟩
    intro hth h
    exact hinv.excl t i th thi (Ne.symm hit) ht hi hth hh (by rw [h, hb])
  constructor
  · exact hsink
  · intro i thi hi hh
    rcases hget i thi hi with ⟨_, rfl⟩ | ⟨hit, hi'⟩
    · obtain ⟨b, hb, hlt, hnf, _⟩ := hown hh
      exact ⟨b, hb, hlt, hnf⟩
    · obtain ⟨b, hb, hlt, hnf, hne⟩ := hother i thi hit hi' hh
      obtain ⟨h1, h2, _⟩ := hframe b hlt hnf hne
      exact ⟨b, hb, h1, h2⟩
  · intro i thi hi h2 h5
    rcases hget i thi hi with ⟨_, rfl⟩ | ⟨hit, hi'⟩
    · exact hcontent h2 h5
    · obtain ⟨b, e, rest, hb, htodo, hc⟩ := hinv.content i thi hi' h2 h5
      obtain ⟨b', hb', hlt, hnf, hne⟩ := hother i thi hit hi' ⟨by omega, h5⟩
      have : b' = b := by rw [hb] at hb'; exact (Option.some.inj hb').symm
      subst this
      obtain ⟨_, _, h3⟩ := hframe b' hlt hnf hne
      exact ⟨b', e, rest, hb, htodo, by rw [h3]; exact hc⟩
  · intro i j thi thj hij hi hj hhi hhj
    rcases hget i thi hi with ⟨rfl, rfl⟩ | ⟨hit, hi'⟩
    · rcases hget j thj hj with ⟨rfl, _⟩ | ⟨hjt, hj'⟩
      · exact absurd rfl hij
      · obtain ⟨b, hb, _, _, hdist⟩ := hown hhi
        obtain ⟨b0, hb0, hlt, hnf, hne⟩ := hother j thj hjt hj' hhj
        intro h
        rw [hb, hb0] at h
        exact hdist b0 hlt hnf hne (Option.some.inj h)
    · rcases hget j thj hj with ⟨rfl, rfl⟩ | ⟨hjt, hj'⟩
      · obtain ⟨b, hb, _, _, hdist⟩ := hown hhj
        obtain ⟨b0, hb0, hlt, hnf, hne⟩ := hother i thi hit hi' hhi
        intro h
        rw [hb, hb0] at h
        exact hdist b0 hlt hnf hne (Option.some.inj h).symm
      · exact hinv.excl i j thi thj hij hi' hj' hhi hhj
  · exact hfreeLt
  · exact hnodup

theorem not_mem_eraseIdx_of_nodup {l : List Nat} (h : l.Nodup) {k b : Nat} (hk : l[k]? = some b) : b ∉ l.eraseIdx k := by
  induction l generalizing k with
  | nil => simp
  | cons a as ih =>
    cases k with
    | zero =>
      simp at hk; subst hk
      simpa using (List.nodup_cons.mp h).1
    | succ k =>
      simp at hk
      have hn := List.nodup_cons.mp h
      simp only [List.eraseIdx_cons_succ, List.mem_cons, not_or]
      refine ⟨?_, ih hn.2 hk⟩
      intro hba; subst hba
      exact hn.1 (List.mem_of_getElem? hk)

theorem inv_init (render : Ev → List Char) (evs : List (List Ev)) : Inv render (init evs) := by
  have hpc : ∀ (i : Nat) (th : Thread Ev), (init evs).threads[i]? = some th → th.pc = 0 := by
    intro i th h
    simp [init, List.getElem?_map] at h
    obtain ⟨es, _, rfl⟩ := h
    rfl
  constructor
  · intro x hx; simp [init] at hx
  · intro i th h hh; have := hpc i th h; unfold holding at hh; omega
  · intro i th h h2; have := hpc i th h; omega
  · intro i j thi thj _ hi _ hh; have := hpc i thi hi; unfold holding at hh; omega
  · intro b hb; simp [init] at hb
  · simp [init]

/-- a step that leaves buffers and pool alone and only advances a thread that already rendered -/
theorem inv_advance (render : Ev → List Char) (s : St Ev) (hinv : Inv render s) (t : Nat) (th : Thread Ev)
    (ht : s.threads[t]? = some th) (h2 : 2 ≤ th.pc) (h4 : th.pc ≤ 4) (lock' : Option Nat)
    (sink' : List (List Char × Ev)) (hsink : ∀ x ∈ sink', x.1 = render x.2) :
    Inv render { bufs := s.bufs, free := s.free, lock := lock', sink := sink',
                 threads := s.threads.set t { th with pc := th.pc + 1 } } := by
  have hh : holding th := ⟨by omega, by omega⟩
  obtain ⟨b, hb, hlt, hnf⟩ := hinv.own t th ht hh
  refine inv_set render s hinv t th _ ht s.bufs s.free lock' sink' hsink hinv.freeLt hinv.nodup
    (fun b h1 h2 _ => ⟨h1, h2, rfl⟩) ?_ ?_
  · intro _
    refine ⟨b, hb, hlt, hnf, ?_⟩
    intro b0 _ _ hne hbb
    subst hbb
    exact hne hh hb
  · intro _ _
    exact hinv.content t th ht h2 (by omega)

theorem inv_step (render : Ev → List Char) (t c : Nat) (s : St Ev) (hinv : Inv render s) :
    Inv render (step goodProg render t c s) := by
  unfold step
  cases ht : s.threads[t]? with
  | none => exact hinv
  | some th =>
    obtain ⟨todo, pc, buf⟩ := th
    cases todo with
    | nil => exact hinv
    | cons e rest =>
      simp only
      have hcases : pc = 0 ∨ pc = 1 ∨ pc = 2 ∨ pc = 3 ∨ pc = 4 ∨ pc = 5 ∨ 6 ≤ pc := by omega
      rcases hcases with h | h | h | h | h | h | h
      · -- get
        subst h
        have hp : goodProg[0]? = some .get := rfl
        simp only [hp]
        cases hk : s.free[c % (s.free.length + 1)]? with
        | some b =>
          simp only
          have hbf : b ∈ s.free := List.mem_of_getElem? hk
          have hblt := hinv.freeLt b hbf
          refine inv_set render s hinv t _ _ ht _ _ s.lock s.sink hinv.sink ?_ ?_ ?_ ?_ ?_
          · intro b' hb'
            rw [List.length_set]
            exact hinv.freeLt b' ((List.eraseIdx_sublist _ _).subset hb')
          · exact hinv.nodup.sublist (List.eraseIdx_sublist _ _)
          · intro b' hlt hnf _
            refine ⟨by rw [List.length_set]; exact hlt, fun hm => hnf ((List.eraseIdx_sublist _ _).subset hm), ?_⟩
            have : b ≠ b' := fun hbb => hnf (hbb ▸ hbf)
            rw [List.getElem?_set_ne this]
          · intro _
            refine ⟨b, rfl, by rw [List.length_set]; exact hblt, not_mem_eraseIdx_of_nodup hinv.nodup hk, ?_⟩
            intro b0 _ hnf0 _ hbb
            exact hnf0 (hbb ▸ hbf)
          · intro h2 _
            simp at h2
        | none =>
          simp only
          refine inv_set render s hinv t _ _ ht _ _ s.lock s.sink hinv.sink ?_ hinv.nodup ?_ ?_ ?_
          · intro b' hb'
            have := hinv.freeLt b' hb'
            simp; omega
          · intro b' hlt hnf _
            refine ⟨by simp; omega, hnf, ?_⟩
            rw [List.getElem?_append_left hlt]
          · intro _
            refine ⟨s.bufs.length, rfl, by simp, fun hm => ?_, ?_⟩
            · have := hinv.freeLt _ hm; omega
            · intro b0 hlt _ _ hbb; omega
          · intro h2 _
            simp at h2
      · -- render
        subst h
        have hp : goodProg[1]? = some .render := rfl
        simp only [hp]
        have hh : holding (⟨e :: rest, 1, buf⟩ : Thread Ev) := ⟨by simp, by simp⟩
        obtain ⟨b, hb, hlt, hnf⟩ := hinv.own t _ ht hh
        simp only at hb
        subst hb
        simp only
        refine inv_set render s hinv t _ _ ht _ s.free s.lock s.sink hinv.sink ?_ hinv.nodup ?_ ?_ ?_
        · intro b' hb'; rw [List.length_set]; exact hinv.freeLt b' hb'
        · intro b' hlt' hnf' hne
          refine ⟨by rw [List.length_set]; exact hlt', hnf', ?_⟩
          have : b ≠ b' := fun hbb => hne hh (hbb ▸ rfl)
          rw [List.getElem?_set_ne this]
        · intro _
          refine ⟨b, rfl, by rw [List.length_set]; exact hlt, hnf, ?_⟩
          intro b0 _ _ hne hbb
          exact hne hh (hbb ▸ rfl)
        · intro _ _
          exact ⟨b, e, rest, rfl, rfl, by simp [hlt]⟩
      · -- lock
        subst h
        have hp : goodProg[2]? = some .lock := rfl
        simp only [hp]
        split
        · exact inv_advance render s hinv t _ ht (by simp) (by simp) _ s.sink hinv.sink
        · exact hinv
      · -- write
        subst h
        have hp : goodProg[3]? = some .write := rfl
        simp only [hp]
        obtain ⟨b, e', rest', hb, htodo', hc⟩ := hinv.content t _ ht (by simp) (by simp)
        simp only at hb htodo'
        subst hb
        have he : e' = e := (List.cons.inj htodo').1.symm
        subst he
        simp only
        refine inv_advance render s hinv t _ ht (by simp) (by simp) s.lock _ ?_
        intro x hx
        rcases List.mem_append.mp hx with hx | hx
        · exact hinv.sink x hx
        · simp at hx; subst hx
          simp [hc]
      · -- unlock
        subst h
        have hp : goodProg[4]? = some .unlock := rfl
        simp only [hp]
        exact inv_advance render s hinv t _ ht (by simp) (by simp) none s.sink hinv.sink
      · -- put
        subst h
        have hp : goodProg[5]? = some .put := rfl
        simp only [hp]
        have hh : holding (⟨e :: rest, 5, buf⟩ : Thread Ev) := ⟨by simp, by simp⟩
        obtain ⟨b, hb, hlt, hnf⟩ := hinv.own t _ ht hh
        simp only at hb
        subst hb
        simp only
        refine inv_set render s hinv t _ _ ht s.bufs _ s.lock s.sink hinv.sink ?_ ?_ ?_ ?_ ?_
        · intro b' hb'
          rcases List.mem_cons.mp hb' with rfl | hb'
          · exact hlt
          · exact hinv.freeLt b' hb'
        · exact List.nodup_cons.mpr ⟨hnf, hinv.nodup⟩
        · intro b' hlt' hnf' hne
          refine ⟨hlt', ?_, rfl⟩
          intro hm
          rcases List.mem_cons.mp hm with rfl | hm
          · exact hne hh rfl
          · exact hnf' hm
        · intro hh'; unfold holding at hh'; simp at hh'
        · intro _ h5; simp at h5
      · -- return
        have hp : goodProg[pc]? = none := List.getElem?_eq_none (by simpa [goodProg] using h)
        simp only [hp]
        refine inv_set render s hinv t _ _ ht s.bufs s.free s.lock s.sink hinv.sink hinv.freeLt hinv.nodup
          (fun b h1 h2 _ => ⟨h1, h2, rfl⟩) ?_ ?_
        · intro hh'; unfold holding at hh'; simp at hh'
        · intro h2 _; simp at h2

theorem inv_run (render : Ev → List Char) (sched : List (Nat × Nat)) (s : St Ev) (hinv : Inv render s) :
    Inv render (run goodProg render sched s) := by
  unfold run
  induction sched generalizing s with
  | nil => exact hinv
  | cons tc rest ih => exact ih _ (inv_step render tc.1 tc.2 s hinv)

/-- For every schedule, every assignment of events to threads and every renderer, each line that reaches the
sink is the rendering of the event whose `Log` call wrote it: a buffer is exclusively owned from `get` to
`put`, and `put` comes after the write. -/
theorem log_lines_intact_any_schedule (render : Ev → List Char) (evs : List (List Ev))
    (sched : List (Nat × Nat)) : SinkIntact render (run goodProg render sched (init evs)) :=
  (inv_run render sched _ (inv_init render evs)).sink

def r1 (c : Char) : List Char := [c]

/-- The early-put order loses a line: thread 0 renders and puts, thread 1 gets the same buffer and renders,
thread 0 writes thread 1's bytes. -/
theorem early_put_loses_a_line :
    ¬ SinkIntact r1 (run earlyPutProg r1 [(0,0),(0,0),(0,0),(1,0),(1,0),(0,0),(0,0)] (init [['A'],['B']])) := by
  decide

end Fabio.Lemmas.C20Log
