import Fabio.Model.C12Auth
import Fabio.Model.C12Htpasswd
/-! Helper lemmas for `Props/C12Auth.lean`: base64 quanta, `strings.Cut`, characters as bytes. Core Lean only. -/
namespace Fabio.Lemmas.C12
open Fabio Fabio.Model.C12

set_option maxRecDepth 20000 in
theorem b64Val_b64Char_fin : ∀ v : Fin 64, b64Val (b64Char v.val) = some v.val := by decide

theorem b64Val_b64Char (v : Nat) (h : v < 64) : b64Val (b64Char v) = some v := b64Val_b64Char_fin ⟨v, h⟩

set_option maxRecDepth 20000 in
theorem b64Char_not_newline_fin : ∀ v : Fin 64, isNewline (b64Char v.val) = false := by decide

theorem b64Char_not_newline (v : Nat) (h : v < 64) : isNewline (b64Char v) = false := b64Char_not_newline_fin ⟨v, h⟩

theorem b64Val_pad : b64Val '=' = none := by decide

theorem pad_not_newline : isNewline '=' = false := by decide

/-- decoding undoes encoding, for every byte string -/
theorem b64Dec_b64Enc (bs : List Nat) (h : ∀ b ∈ bs, b < 256) : b64Dec (b64Enc bs) = some bs := by
  induction bs using b64Enc.induct with
  | case1 => simp [b64Enc, b64Dec]
  | case2 x =>
    have hx : x < 256 := h x (by simp)
    simp only [b64Enc, b64Dec, b64Val_b64Char (x / 4) (by omega), b64Val_b64Char (x % 4 * 16) (by omega), b64Val_pad]
    simp
    omega
  | case3 x y =>
    have hx : x < 256 := h x (by simp)
    have hy : y < 256 := h y (by simp)
    simp only [b64Enc, b64Dec, b64Val_b64Char (x / 4) (by omega), b64Val_b64Char (x % 4 * 16 + y / 16) (by omega),
      b64Val_b64Char (y % 16 * 4) (by omega), b64Val_pad]
    simp
    omega
  | case4 x y z rest ih =>
    have hx : x < 256 := h x (by simp)
    have hy : y < 256 := h y (by simp)
    have hz : z < 256 := h z (by simp)
    have ih' := ih (fun b hb => h b (by simp [hb]))
    simp only [b64Enc, b64Dec, b64Val_b64Char (x / 4) (by omega), b64Val_b64Char (x % 4 * 16 + y / 16) (by omega),
      b64Val_b64Char (y % 16 * 4 + z / 64) (by omega), b64Val_b64Char (z % 64) (by omega), ih']
    simp
    omega

/-- the encoder writes no CR/LF, so `DecodeString` sees its output unchanged -/
theorem b64Enc_no_newline (bs : List Nat) (h : ∀ b ∈ bs, b < 256) :
    (b64Enc bs).filter (fun c => !isNewline c) = b64Enc bs := by
  induction bs using b64Enc.induct with
  | case1 => simp [b64Enc]
  | case2 x =>
    have hx : x < 256 := h x (by simp)
    simp [b64Enc, b64Char_not_newline (x / 4) (by omega), b64Char_not_newline (x % 4 * 16) (by omega), pad_not_newline]
  | case3 x y =>
    have hx : x < 256 := h x (by simp)
    have hy : y < 256 := h y (by simp)
    simp [b64Enc, b64Char_not_newline (x / 4) (by omega), b64Char_not_newline (x % 4 * 16 + y / 16) (by omega),
      b64Char_not_newline (y % 16 * 4) (by omega), pad_not_newline]
  | case4 x y z rest ih =>
    have hx : x < 256 := h x (by simp)
    have hy : y < 256 := h y (by simp)
    have hz : z < 256 := h z (by simp)
    have ih' := ih (fun b hb => h b (by simp [hb]))
    simp [b64Enc, b64Char_not_newline (x / 4) (by omega), b64Char_not_newline (x % 4 * 16 + y / 16) (by omega),
      b64Char_not_newline (y % 16 * 4 + z / 64) (by omega), b64Char_not_newline (z % 64) (by omega), ih']

theorem b64DecodeString_b64Enc (bs : List Nat) (h : ∀ b ∈ bs, b < 256) : b64DecodeString (b64Enc bs) = some bs := by
  simp only [b64DecodeString, b64Enc_no_newline bs h, b64Dec_b64Enc bs h]

/-! ### `strings.Cut` -/

theorem indexOf_go_append (c : Char) (u p : List Char) (i : Nat) (hu : ∀ x ∈ u, x ≠ c) :
    indexOf.go c i (u ++ c :: p) = some (i + u.length) := by
  induction u generalizing i with
  | nil => simp [indexOf.go]
  | cons x xs ih =>
    have hx : x ≠ c := hu x (by simp)
    have := ih (i + 1) (fun y hy => hu y (by simp [hy]))
    simp [indexOf.go, hx, this]
    omega

theorem cut_append (c : Char) (u p : List Char) (hu : ∀ x ∈ u, x ≠ c) : cut c (u ++ c :: p) = some (u, p) := by
  simp [cut, indexOf, indexOf_go_append c u p 0 hu]

theorem indexOf_go_some (c : Char) (s : List Char) (i k : Nat) (h : indexOf.go c i s = some k) :
    i ≤ k ∧ (∀ x ∈ s.take (k - i), x ≠ c) ∧ s = s.take (k - i) ++ c :: s.drop (k - i + 1) := by
  induction s generalizing i with
  | nil => simp [indexOf.go] at h
  | cons x xs ih =>
    simp only [indexOf.go] at h
    by_cases hx : x = c
    · subst hx
      simp at h
      subst h
      simp
    · have hx' : (x == c) = false := by simpa using hx
      simp only [hx'] at h
      obtain ⟨h1, h2, h3⟩ := ih (i + 1) h
      have hk : k - i = (k - (i + 1)) + 1 := by omega
      refine ⟨by omega, ?_, ?_⟩
      · rw [hk]
        intro y hy
        simp only [List.take_succ_cons, List.mem_cons] at hy
        rcases hy with rfl | hy
        · exact hx
        · exact h2 y hy
      · rw [hk]
        simp only [List.take_succ_cons, List.drop_succ_cons, List.cons_append, List.cons.injEq, true_and]
        exact h3

/-- `strings.Cut` at the first occurrence: the text is `before ++ sep :: after` and `before` holds no separator -/
theorem cut_some (c : Char) (s u p : List Char) (h : cut c s = some (u, p)) :
    s = u ++ c :: p ∧ ∀ x ∈ u, x ≠ c := by
  unfold cut indexOf at h
  cases hi : indexOf.go c 0 s with
  | none => simp [hi] at h
  | some k =>
    simp only [hi, Option.some.injEq, Prod.mk.injEq] at h
    obtain ⟨_, h2, h3⟩ := indexOf_go_some c s 0 k hi
    simp only [Nat.sub_zero] at h2 h3
    obtain ⟨hu, hp⟩ := h
    subst hu hp
    exact ⟨h3, h2⟩

theorem bytesToChars_charsToBytes (cs : List Char) : bytesToChars (charsToBytes cs) = cs := by
  simp [bytesToChars, charsToBytes, Function.comp_def, Char.ofNat_toNat]

/-! ### `strings.Join` then `strings.Split` -/

theorem splitOn_ne_nil (s : List Char) : splitOn ',' s ≠ [] := by
  cases s with
  | nil => simp [splitOn]
  | cons c cs =>
    simp only [splitOn]
    split
    · simp
    · split <;> simp

theorem splitOn_append_sep (a b : List Char) :
    splitOn ',' (a ++ ',' :: b) = splitOn ',' a ++ splitOn ',' b := by
  induction a with
  | nil => simp [splitOn]
  | cons c cs ih =>
    by_cases hc : c = ','
    · subst hc; simp [splitOn, ih]
    · have hc' : (c == ',') = false := by simpa using hc
      simp only [List.cons_append, splitOn, hc', Bool.false_eq_true, ↓reduceIte, ih]
      cases hs : splitOn ',' cs with
      | nil => exact absurd hs (splitOn_ne_nil cs)
      | cons x xs => simp

theorem splitOn_joinComma (l : List Char) (ls : List (List Char)) :
    splitOn ',' (joinComma (l :: ls)) = (l :: ls).flatMap (splitOn ',') := by
  induction ls generalizing l with
  | nil => simp [joinComma]
  | cons m ms ih =>
    have : joinComma (l :: m :: ms) = l ++ ',' :: joinComma (m :: ms) := rfl
    rw [this, splitOn_append_sep, ih]
    simp

/-- header lines that are all empty contribute nothing: an empty element is no address -/
theorem joinComma_nil_iff (ls : List (List Char)) (h : joinComma ls = []) : ∀ l ∈ ls, l = [] := by
  induction ls with
  | nil => simp
  | cons l ls ih =>
    cases ls with
    | nil => simpa [joinComma] using h
    | cons m ms => simp [joinComma] at h

theorem xffDenied_all_empty (P : Parsers) (r : Rules) (host : List Char) (xs : List (List Char))
    (hP : P.parseIP [] = none) (h : ∀ x ∈ xs, x = []) : xffDenied P r host xs = false := by
  induction xs with
  | nil => rfl
  | cons x xs ih =>
    have hx : x = [] := h x (by simp)
    subst hx
    have ih' := ih (fun y hy => h y (by simp [hy]))
    have ht : trimSpace ([] : List Char) = [] := by decide
    have hz : stripZone ([] : List Char) = [] := by decide
    simp only [xffDenied, ht, hz, hP]
    split
    · exact ih'
    · exact ih'


theorem runAuthF_append_attempt (H : List Char → Option (List Char → Bool)) (text : List Char) (h : List AuthOpF)
    (c : Option (List Char × List Char)) :
    runAuthF H text (h ++ [.attempt c]) = runAuthF H text h ++ [fileVerdict H (fileAfterF text h) c] := by
  induction h generalizing text with
  | nil => simp [runAuthF, fileAfterF]
  | cons op h ih =>
    cases op with
    | attempt c' => simp [runAuthF, fileAfterF, ih]
    | reload s => simp [runAuthF, fileAfterF, ih]

end Fabio.Lemmas.C12
