import Fabio.Lemmas.C17
import Fabio.Model.C17Proxy
/-!
Helper lemmas for the glue of C17 (core Lean only): pool content is invisible to the client, header-only
prefixes of a script, what `Header.Add` line by line leaves in the map.
-/
namespace Fabio.Lemmas.C17
open Fabio.Model.C17

variable {Z : Type}

/-! ### the pool content cannot be told from a response -/

theorem serve_view_pool (C : Cfg Z) (hrt : C.comp.RoundTrip) (head dfl : Bool) (req h0 : Hdr) (p q : List Z)
    (ops : List Op) :
    (serve C head dfl req h0 p ops).view C = (serve C head dfl req h0 q ops).view C := by
  unfold Served.view serve
  by_cases hacc : (acceptsGzip req && !head) = true
  · simp only [hacc, if_true]
    have hp := close_run C ops (hadd h0 hVary hAcceptEncoding) p
    have hq := close_run C ops (hadd h0 hVary hAcceptEncoding) q
    cases hd : decision C false (hadd h0 hVary hAcceptEncoding) ops with
    | none => simp [hp.1 hd, hq.1 hd, Dec.isGzip, Down.obs]
    | some hc =>
      obtain ⟨h, c⟩ := hc
      by_cases hcond : (bodyAllowedForStatus c && isCompressable C h) = true
      · have a := (hp.2 h c hd).1 hcond
        have b := (hq.2 h c hd).1 hcond
        simp only [a.1, b.1, a.2.1, b.2.1, gzipDown, Down.obs, if_true]
        rw [hrt, hrt]
      · have hcond' : (bodyAllowedForStatus c && isCompressable C h) = false := by simpa using hcond
        have a := (hp.2 h c hd).2 hcond'
        have b := (hq.2 h c hd).2 hcond'
        simp [a.1, b.1, a.2.1, b.2.1, Down.obs]
  · simp only [hacc]
    simp

/-! ### header-only prefixes -/

/-- an operation that neither decides nor writes: a header call or an informational `WriteHeader`. -/
def quiet : Op → Bool
  | .set _ _ => true
  | .add _ _ => true
  | .del _ => true
  | .unset _ => true
  | .wh c => informational c
  | _ => false

theorem decision_quiet (C : Cfg Z) (cf : Bool) (pre rest : List Op) (h : Hdr) (hq : pre.all quiet = true) :
    decision C cf h (pre ++ rest) = decision C cf (hops pre h) rest := by
  induction pre generalizing h with
  | nil => rfl
  | cons o r ih =>
    simp only [List.all_cons, Bool.and_eq_true] at hq
    cases o with
    | set k v => simpa [decision, hops, hop] using ih (hset h k v) hq.2
    | add k v => simpa [decision, hops, hop] using ih (hadd h k v) hq.2
    | del k => simpa [decision, hops, hop] using ih (hdel h k) hq.2
    | unset k => simpa [decision, hops, hop] using ih (hnil h k) hq.2
    | wh c =>
      have hi : informational c = true := by simpa [quiet] using hq.1
      simpa [decision, hi, hops, hop] using ih h hq.2
    | w b => simp [quiet] at hq
    | fl => simp [quiet] at hq

theorem addAll_quiet (l : List (String × String)) : (addAll l).all quiet = true := by
  induction l with
  | nil => rfl
  | cons p r ih => simp [addAll, quiet] at ih ⊢

theorem delAll_quiet (l : List String) : (delAll l).all quiet = true := by
  induction l with
  | nil => rfl
  | cons p r ih => simp [delAll, quiet] at ih ⊢

theorem relayInfo_quiet (before : List String) (i : Nat × List (String × String)) (hi : informational i.1 = true) :
    (relayInfo before i).all quiet = true := by
  unfold relayInfo
  rw [List.all_append, List.all_append, addAll_quiet, delAll_quiet]
  simp [quiet, hi]

theorem relayPrefix_quiet (before : List String) (is : List (Nat × List (String × String)))
    (hi : ∀ i ∈ is, informational i.1 = true) :
    ((is.map (relayInfo before)).flatten).all quiet = true := by
  induction is with
  | nil => rfl
  | cons i r ih =>
    simp only [List.map_cons, List.flatten_cons, List.all_append, Bool.and_eq_true]
    exact ⟨relayInfo_quiet before i (hi i List.mem_cons_self), ih (fun j hj => hi j (List.mem_cons_of_mem _ hj))⟩

/-- the header map when the reverse proxy calls `WriteHeader(code)` for the final response. -/
def liveAtStatus (before : List String) (u : UpResp) (h : Hdr) : Hdr :=
  hops (addAll u.hdr) (hops ((u.info.map (relayInfo before)).flatten) h)

theorem relay_decision (C : Cfg Z) (cf : Bool) (before : List String) (u : UpResp) (h : Hdr)
    (hinfo : ∀ i ∈ u.info, informational i.1 = true) (hfin : informational u.code = false) :
    decision C cf h (relay before u) = some (liveAtStatus before u h, u.code) := by
  unfold relay relayFinal
  rw [decision_quiet C cf _ _ h (relayPrefix_quiet before u.info hinfo),
      decision_quiet C cf _ _ _ (addAll_quiet u.hdr)]
  simp [decision, hfin, liveAtStatus]

theorem writesOf_quiet (pre rest : List Op) (hq : pre.all quiet = true) : writesOf (pre ++ rest) = writesOf rest := by
  induction pre with
  | nil => rfl
  | cons o r ih =>
    simp only [List.all_cons, Bool.and_eq_true] at hq
    cases o with
    | w b => simp [quiet] at hq
    | fl => simp [quiet] at hq
    | set k v => simpa [writesOf] using ih hq.2
    | add k v => simpa [writesOf] using ih hq.2
    | del k => simpa [writesOf] using ih hq.2
    | unset k => simpa [writesOf] using ih hq.2
    | wh c => simpa [writesOf] using ih hq.2

theorem writesOf_copyBody (f : Bool) (cs : List Bytes) : writesOf (copyBody f cs) = cs := by
  induction cs with
  | nil => rfl
  | cons b r ih => cases f <;> simp [copyBody, writesOf, ih]

/-- whatever the chunking and flushing of the copy loop: the bytes written are the upstream's. -/
theorem relay_writes (before : List String) (u : UpResp) (hinfo : ∀ i ∈ u.info, informational i.1 = true) :
    writesOf (relay before u) = u.chunks := by
  unfold relay relayFinal
  rw [writesOf_quiet _ _ (relayPrefix_quiet before u.info hinfo), writesOf_quiet _ _ (addAll_quiet u.hdr)]
  simp [writesOf, writesOf_copyBody]

/-! ### `Header.Add` line by line -/

theorem lookup_map_upd (h : Hdr) (ck k' v : String) :
    (h.map (fun p => if p.1 == ck then (p.1, p.2 ++ [v]) else p)).lookup k' =
      if k' = ck then (h.lookup k').map (· ++ [v]) else h.lookup k' := by
  induction h with
  | nil => simp
  | cons p r ih =>
    obtain ⟨pk, pv⟩ := p
    simp only [List.map_cons]
    by_cases h1 : pk = ck
    · subst h1
      by_cases h2 : k' = pk
      · subst h2; simp
      · have : (k' == pk) = false := by simp [beq_eq_false_iff_ne, h2]
        simp only [beq_self_eq_true, if_true, List.lookup_cons, this, ih, h2, if_false]
    · have hb : (pk == ck) = false := by simp [beq_eq_false_iff_ne, h1]
      simp only [hb, Bool.false_eq_true, if_false, List.lookup_cons, ih]
      by_cases h2 : k' = pk
      · subst h2; simp [h1]
      · have : (k' == pk) = false := by simp [beq_eq_false_iff_ne, h2]
        simp [this]

/-- `h.Add(k, v)`: the value is appended to the line of the canonical key, every other line is untouched. -/
theorem hraw_hadd (h : Hdr) (k v k' : String) :
    hraw (hadd h k v) k' = if k' = canonKey k then some ((hraw h k').getD [] ++ [v]) else hraw h k' := by
  unfold hadd
  simp only
  cases hk : hraw h (canonKey k) with
  | some vs =>
    simp only [hraw] at hk ⊢
    rw [lookup_map_upd]
    by_cases h1 : k' = canonKey k
    · subst h1; simp [hk]
    · simp [h1]
  | none =>
    simp only [hraw] at hk ⊢
    rw [lookup_append_single]
    by_cases h1 : k' = canonKey k
    · subst h1; simp [hk]
    · have : (k' == canonKey k) = false := by simp [beq_eq_false_iff_ne, h1]
      simp [this, h1]

/-- the values of the lines whose name canonicalises to `ck`, in order. -/
def lineVals (l : List (String × String)) (ck : String) : List String :=
  (l.filter (fun p => canonKey p.1 == ck)).map (·.2)

theorem hraw_addAll (l : List (String × String)) (h : Hdr) (ck : String) :
    hraw (hops (addAll l) h) ck =
      if lineVals l ck = [] then hraw h ck else some ((hraw h ck).getD [] ++ lineVals l ck) := by
  induction l generalizing h with
  | nil => simp [addAll, hops, lineVals]
  | cons p r ih =>
    obtain ⟨k, v⟩ := p
    have hstep : hops (addAll ((k, v) :: r)) h = hops (addAll r) (hadd h k v) := rfl
    rw [hstep, ih, hraw_hadd]
    by_cases h1 : ck = canonKey k
    · have hb : (canonKey k == ck) = true := by simp [h1]
      simp only [h1, if_true, lineVals, List.filter_cons, beq_self_eq_true, List.map_cons, Option.getD_some]
      by_cases h2 : List.map (fun x => x.2) (List.filter (fun p => canonKey p.1 == canonKey k) r) = []
      · simp [h2]
      · simp [h2, List.append_assoc]
    · have hb : (canonKey k == ck) = false := by simp [beq_eq_false_iff_ne, Ne.symm h1]
      simp only [h1, if_false, lineVals, List.filter_cons, hb, Bool.false_eq_true]

/-- a response that arrives with a non-empty first `Content-Encoding` line on a map that has none is seen as
encoded. -/
theorem encoded_line_seen (l : List (String × String)) (h : Hdr) (v : String) (rest : List String)
    (hnone : hraw h hContentEncoding = none) (hl : lineVals l hContentEncoding = v :: rest) :
    hget (hops (addAll l) h) hContentEncoding = v := by
  unfold hget
  rw [canon_ContentEncoding, hraw_addAll, hnone, hl]
  simp [firstOr]

end Fabio.Lemmas.C17
