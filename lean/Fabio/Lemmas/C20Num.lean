import Fabio.Lemmas.C20Host
/-! C20 helper lemmas: the number formatters against `Nat.toDigits`, the field renderers against the
reference rendering, absence of panics in `write`. -/
namespace Fabio.Lemmas.C20
open Fabio Fabio.Model.C20

/-- All numeric inputs of an event are int64 values and the month is one `time.Month` can take. -/
structure EventInRange (e : Event) : Prop where
  status : -2^63 ≤ e.status ∧ e.status < 2^63
  contentLength : -2^63 ≤ e.contentLength ∧ e.contentLength < 2^63
  durNs : -2^63 ≤ e.durNs ∧ e.durNs < 2^63
  unixNano : -2^63 ≤ e.unixNano ∧ e.unixNano < 2^63
  year : -2^63 ≤ e.year ∧ e.year < 2^63
  month : 0 ≤ e.month ∧ e.month ≤ 12
  day : -2^63 ≤ e.day ∧ e.day < 2^63
  hour : -2^63 ≤ e.hour ∧ e.hour < 2^63
  minute : -2^63 ≤ e.minute ∧ e.minute < 2^63
  second : -2^63 ≤ e.second ∧ e.second < 2^63
  nanos : -2^63 ≤ e.nanos ∧ e.nanos < 2^63

/-- A wall-clock reading as Go's `time` produces it, and a non-negative duration. -/
structure EventCalendar (e : Event) : Prop where
  year : 0 ≤ e.year ∧ e.year ≤ 9999
  month : 1 ≤ e.month ∧ e.month ≤ 12
  day : 1 ≤ e.day ∧ e.day ≤ 31
  hour : 0 ≤ e.hour ∧ e.hour ≤ 23
  minute : 0 ≤ e.minute ∧ e.minute ≤ 59
  second : 0 ≤ e.second ∧ e.second ≤ 59
  nanos : 0 ≤ e.nanos ∧ e.nanos ≤ 999999999


theorem digitByte_eq (i : Nat) : digitByte i = Nat.digitChar (i % 10) := by
  have h : ∀ d < 10, Char.ofNat (48 + d) = Nat.digitChar d := by decide
  exact h _ (Nat.mod_lt _ (by decide))

theorem digitsLoop_ok (cap : Nat) : ∀ (fuel i : Nat) (acc : List Char), i < 10 ^ (fuel + 1) →
    acc.length + (Nat.toDigits 10 i).length ≤ cap →
    digitsLoop cap (fuel + 1) i acc = .ok (Nat.toDigits 10 i ++ acc) := by
  intro fuel
  induction fuel with
  | zero =>
    intro i acc hi hlen
    have hlt : i < 10 := by simpa using hi
    rw [Nat.toDigits_of_lt_base hlt] at hlen ⊢
    have hd : i / 10 = 0 := by omega
    have : acc.length < cap := by simp at hlen; omega
    simp [digitsLoop, pushFront, this, hd, digitByte_eq, Nat.mod_eq_of_lt hlt]
  | succ f ih =>
    intro i acc hi hlen
    rw [Nat.toDigits_eq_if (by decide)] at hlen ⊢
    unfold digitsLoop
    by_cases hlt : i < 10
    · have hd : i / 10 = 0 := by omega
      simp only [hlt, if_true, List.length_singleton] at hlen ⊢
      have : acc.length < cap := by omega
      simp [pushFront, this, hd, digitByte_eq, Nat.mod_eq_of_lt hlt]
    · have hd : i / 10 ≠ 0 := by omega
      simp only [hlt, if_false, List.length_append, List.length_singleton] at hlen ⊢
      have : acc.length < cap := by omega
      simp only [pushFront, this, if_true, hd, if_false]
      rw [ih]
      · simp [digitByte_eq]
      · rw [Nat.pow_succ] at hi; omega
      · simp; omega

theorem padLoop_ok (cap : Nat) : ∀ (k : Nat) (acc : List Char), acc.length + k ≤ cap →
    padLoop cap k acc = .ok (List.replicate k '0' ++ acc) := by
  intro k
  induction k with
  | zero => intro acc _; simp [padLoop]
  | succ k ih =>
    intro acc h
    have : acc.length < cap := by omega
    simp only [padLoop, pushFront, this, if_true]
    rw [ih _ (by simp; omega)]
    simp [List.replicate_succ']

theorem wrap64_of_range (x : Int) (h0 : -2^63 ≤ x) (h1 : x < 2^63) : wrap64 x = x := by
  unfold wrap64
  have e63 : (2:Int)^63 = 9223372036854775808 := by decide
  have e64 : (2:Int)^64 = 18446744073709551616 := by decide
  rw [e63, e64] at *
  omega

theorem wrap64_neg_min : wrap64 (-minInt64) = minInt64 := by decide

theorem digits_len19 (m : Nat) (h : m < 2^63) : (Nat.toDigits 10 m).length ≤ 19 := by
  rw [Nat.length_toDigits_le_iff (by decide) (by decide)]
  have : (2:Nat)^63 < 10^19 := by decide
  omega

theorem digits_pad_ok (m pad : Nat) (h : m < 2^63) (hpad : pad ≤ 127) {β} (g : List Char → Outcome β) :
    ((digitsLoop 128 20 m []).bind fun ds => (padLoop 128 (pad - ds.length) ds).bind g)
      = g (Spec.zpad pad (Nat.toDigits 10 m)) := by
  have hl := digits_len19 m h
  rw [digitsLoop_ok 128 19 m [] (by have : (2:Nat)^63 < 10^(19+1) := by decide
                                    omega) (by simp; omega)]
  simp only [bind_ok, List.append_nil]
  rw [padLoop_ok 128 _ _ (by omega)]
  simp [Spec.zpad]

theorem atoi_eq_decimal (i : Int) (pad : Nat) (hlo : -2^63 < i) (hhi : i < 2^63) (hpad : pad ≤ 127) :
    atoi i pad = .ok (Spec.decimal i pad) := by
  have e63 : (2:Int)^63 = 9223372036854775808 := by decide
  have n63 : (2:Nat)^63 = 9223372036854775808 := by decide
  unfold atoi Spec.decimal
  by_cases hneg : i < 0
  · have hw : wrap64 (-i) = -i := wrap64_of_range _ (by omega) (by omega)
    have ha : ¬ (-i < 0) := by omega
    have hn : (-i).toNat = i.natAbs := by omega
    have hm : i.natAbs < 2^63 := by omega
    simp only [hneg, decide_true, if_true, hw, ha, if_false, hn]
    rw [digits_pad_ok _ _ hm hpad]
    have hl := digits_len19 _ hm
    have : (Spec.zpad pad (Nat.toDigits 10 i.natAbs)).length < 128 := by
      simp [Spec.zpad]; omega
    simp [pushFront, this]
  · have ha : ¬ (i < 0) := hneg
    have hn : i.toNat = i.natAbs := by omega
    have hm : i.natAbs < 2^63 := by omega
    simp only [hneg, decide_false, if_false, hn, Bool.false_eq_true]
    rw [digits_pad_ok _ _ hm hpad]
    simp

theorem atoi_minInt64 (pad : Nat) (hpad : pad ≤ 127) :
    atoi minInt64 pad = .ok ('-' :: List.replicate pad '0') := by
  unfold atoi
  have h1 : minInt64 < 0 := by decide
  simp only [h1, decide_true, if_true, wrap64_neg_min, bind_ok, List.length_nil, Nat.sub_zero]
  rw [padLoop_ok 128 _ _ (by simp; omega)]
  have : pad < 128 := by omega
  simp [pushFront, this]

theorem atoi_total (i : Int) (pad : Nat) (hlo : -2^63 ≤ i) (hhi : i < 2^63) (hpad : pad ≤ 127) :
    (atoi i pad).isPanic = false := by
  by_cases h : i = minInt64
  · subst h; rw [atoi_minInt64 pad hpad]; rfl
  · have : -2^63 < i := by
      have e63 : (2:Int)^63 = 9223372036854775808 := by decide
      have : minInt64 = -9223372036854775808 := by decide
      omega
    rw [atoi_eq_decimal i pad this hhi hpad]; rfl

theorem i32toa_eq_decimal (n : Int) (hlo : -2^31 ≤ n) (hhi : n < 2^31) :
    i32toa n = .ok (Spec.itoa n) := by
  have e31 : (2:Int)^31 = 2147483648 := by decide
  unfold i32toa Spec.itoa Spec.decimal
  have key : ∀ m : Nat, m ≤ 2147483648 → (Nat.toDigits 10 m).length ≤ 10 := by
    intro m hm
    rw [Nat.length_toDigits_le_iff (by decide) (by decide)]
    omega
  by_cases hneg : n < 0
  · have hn : (-n).toNat = n.natAbs := by omega
    have hl := key n.natAbs (by omega)
    simp only [hneg, decide_true, if_true, hn]
    rw [digitsLoop_ok 11 10 _ [] (by omega) (by simp; omega)]
    have : (Nat.toDigits 10 n.natAbs).length < 11 := by omega
    simp [pushFront, this, Spec.zpad]
  · have hn : n.toNat = n.natAbs := by omega
    have hl := key n.natAbs (by omega)
    simp only [hneg, decide_false, if_false, hn, Bool.false_eq_true]
    rw [digitsLoop_ok 11 10 _ [] (by omega) (by simp; omega)]
    simp [Spec.zpad]

theorem zpad_one (b n : Nat) (h : n < b) : Spec.zpad 1 (Nat.toDigits b n) = [Nat.digitChar n] := by
  rw [Nat.toDigits_of_lt_base h]; rfl

theorem zpad_succ (b k n : Nat) (hb : 1 < b) (hk : 0 < k) :
    Spec.zpad (k + 1) (Nat.toDigits b n) = Spec.zpad k (Nat.toDigits b (n / b)) ++ [Nat.digitChar (n % b)] := by
  rw [Nat.toDigits_eq_if hb (n := n)]
  by_cases hlt : n < b
  · have hd : n / b = 0 := Nat.div_eq_of_lt hlt
    simp only [hlt, if_true, hd, Nat.toDigits_zero, Nat.mod_eq_of_lt hlt]
    obtain ⟨j, rfl⟩ : ∃ j, k = j + 1 := ⟨k - 1, by omega⟩
    simp [Spec.zpad, ← List.replicate_succ']
  · simp only [hlt, if_false]
    simp [Spec.zpad]

theorem getIdx_digit16 (k : Nat) (h : k < 16) : getIdx digit16 k = .ok (Nat.digitChar k) := by
  have : ∀ k < 16, digit16[k]? = some (Nat.digitChar k) := by decide
  simp [getIdx, this k h]

theorem uint16base16_eq_hex4 (n : Nat) (h : n < 65536) :
    uint16base16 n = .ok (Spec.hex4 n) := by
  have h5 : n &&& 0x000f = n % 16 := Nat.and_two_pow_sub_one_eq_mod n 4
  have h4 : (n &&& 0x00f0) >>> 4 = n / 16 % 16 := by
    rw [Nat.shiftRight_and_distrib, Nat.shiftRight_eq_div_pow]
    exact Nat.and_two_pow_sub_one_eq_mod _ 4
  have h3 : (n &&& 0x0f00) >>> 8 = n / 16 / 16 % 16 := by
    rw [Nat.shiftRight_and_distrib, Nat.shiftRight_eq_div_pow]
    have := Nat.and_two_pow_sub_one_eq_mod (n / 2^8) 4
    rw [show n / 16 / 16 = n / 2^8 by omega]
    exact this
  have h2 : (n &&& 0xf000) >>> 12 = n / 16 / 16 / 16 := by
    rw [Nat.shiftRight_and_distrib, Nat.shiftRight_eq_div_pow]
    have := Nat.and_two_pow_sub_one_eq_mod (n / 2^12) 4
    rw [show n / 16 / 16 / 16 = n / 2^12 by omega]
    refine Eq.trans this ?_
    omega
  unfold uint16base16 Spec.hex4
  rw [h5, h4, h3, h2]
  rw [getIdx_digit16 _ (by omega), getIdx_digit16 _ (by omega), getIdx_digit16 _ (by omega),
    getIdx_digit16 _ (by omega)]
  simp only [bind_ok]
  rw [zpad_succ 16 3 n (by decide) (by decide), zpad_succ 16 2 _ (by decide) (by decide),
    zpad_succ 16 1 _ (by decide) (by decide), zpad_one 16 _ (by omega)]
  rfl

theorem tdiv_cases (a b : Int) :
    (0 ≤ a ∧ a.tdiv b = a / b) ∨ (a < 0 ∧ a.tdiv b = -((-a) / b)) := by
  by_cases h : 0 ≤ a
  · exact .inl ⟨h, Int.tdiv_eq_ediv_of_nonneg h⟩
  · refine .inr ⟨by omega, ?_⟩
    have : a = -(-a) := by omega
    rw (occs := [1]) [this]
    rw [Int.neg_tdiv, Int.tdiv_eq_ediv_of_nonneg (by omega)]

theorem tmod_cases (a b : Int) :
    (0 ≤ a ∧ a.tmod b = a % b) ∨ (a < 0 ∧ a.tmod b = -((-a) % b)) := by
  by_cases h : 0 ≤ a
  · exact .inl ⟨h, Int.tmod_eq_emod_of_nonneg h⟩
  · refine .inr ⟨by omega, ?_⟩
    have : a = -(-a) := by omega
    rw (occs := [1]) [this]
    rw [Int.neg_tmod, Int.tmod_eq_emod_of_nonneg (by omega)]

theorem zpad_zero (l : List Char) : Spec.zpad 0 l = l := by simp [Spec.zpad]

theorem decimal_nonneg (i : Int) (pad : Nat) (h : 0 ≤ i) :
    Spec.decimal i pad = Spec.zpad pad (Nat.toDigits 10 i.toNat) := by
  have : ¬ i < 0 := by omega
  have e : i.natAbs = i.toNat := by omega
  simp [Spec.decimal, this, e]

theorem toString_toList (n : Nat) : (toString n).toList = Nat.toDigits 10 n := by
  rw [Nat.toString_eq_repr, Nat.toList_repr]

theorem seqOut_nil : seqOut [] = .ok [] := rfl
theorem seqOut_cons_ok (a : List Char) (xs) :
    seqOut (.ok a :: xs) = (seqOut xs).bind fun b => .ok (a ++ b) := rfl

/-- `$response_time_{ms,us,ns}` for End ≥ Start -/
theorem durations (e : Event) (h0 : 0 ≤ e.durNs) (h1 : e.durNs < 2^63) :
    responseTime e 1000000 3 = .ok (Spec.refSeconds e.durNs 3) ∧
    responseTime e 1000 6 = .ok (Spec.refSeconds e.durNs 6) ∧
    responseTime e 1 9 = .ok (Spec.refSeconds e.durNs 9) := by
  have e63 : (2:Int)^63 = 9223372036854775808 := by decide
  rw [e63] at h1
  have hq : e.durNs.tdiv secondNs = e.durNs / 1000000000 := Int.tdiv_eq_ediv_of_nonneg h0
  have hr : e.durNs.tmod secondNs = e.durNs % 1000000000 := Int.tmod_eq_emod_of_nonneg h0
  have hu : ∀ u : Int, (e.durNs % 1000000000).tdiv u = e.durNs % 1000000000 / u :=
    fun u => Int.tdiv_eq_ediv_of_nonneg (by omega)
  have hqn : (e.durNs / 1000000000).toNat = e.durNs.toNat / 1000000000 := by omega
  have p3 : (10:Nat)^(9-3) = 1000000 := by decide
  have p6 : (10:Nat)^(9-6) = 1000 := by decide
  have p9 : (10:Nat)^(9-9) = 1 := by decide
  have a0 := atoi_eq_decimal (e.durNs / 1000000000) 0 (by omega) (by omega) (by omega)
  have a3 := atoi_eq_decimal (e.durNs % 1000000000 / 1000000) 3 (by omega) (by omega) (by omega)
  have a6 := atoi_eq_decimal (e.durNs % 1000000000 / 1000) 6 (by omega) (by omega) (by omega)
  have a9 := atoi_eq_decimal (e.durNs % 1000000000 / 1) 9 (by omega) (by omega) (by omega)
  rw [decimal_nonneg _ _ (by omega), zpad_zero, hqn] at a0
  rw [decimal_nonneg _ _ (by omega),
    show (e.durNs % 1000000000 / 1000000).toNat = e.durNs.toNat % 1000000000 / 1000000 by omega] at a3
  rw [decimal_nonneg _ _ (by omega),
    show (e.durNs % 1000000000 / 1000).toNat = e.durNs.toNat % 1000000000 / 1000 by omega] at a6
  rw [decimal_nonneg _ _ (by omega),
    show (e.durNs % 1000000000 / 1).toNat = e.durNs.toNat % 1000000000 / 1 by omega] at a9
  unfold responseTime Spec.refSeconds
  simp only [hq, hr, hu, a0, a3, a6, a9, lit, seqOut_cons_ok, seqOut_nil, bind_ok, toString_toList,
    p3, p6, p9]
  simp

theorem mem_of_lookup {β} (l : List (String × β)) (k : String) (b : β) (h : l.lookup k = some b) :
    (k, b) ∈ l := by
  induction l with
  | nil => simp at h
  | cons p l ih =>
    obtain ⟨k', v⟩ := p
    rw [List.lookup_cons] at h
    by_cases hk : k == k'
    · simp only [hk] at h
      have : k = k' := by simpa using hk
      cases h; subst this; simp
    · simp only [hk] at h
      exact List.mem_cons_of_mem _ (ih h)

theorem isPanic_map {α β} (x : Outcome α) (f : α → β) : (x.map f).isPanic = x.isPanic := by
  cases x <;> rfl

theorem seqOut_total (l : List (Outcome (List Char))) (h : ∀ x ∈ l, x.isPanic = false) :
    (seqOut l).isPanic = false := by
  induction l with
  | nil => rfl
  | cons x xs ih =>
    obtain ⟨a, ha⟩ := (isPanic_false_iff x).1 (h x (by simp))
    obtain ⟨b, hb⟩ := (isPanic_false_iff _).1 (ih (fun y hy => h y (List.mem_cons_of_mem _ hy)))
    simp [seqOut, ha, hb]

theorem atoi_total' (i : Int) (pad : Nat) (hlo : -9223372036854775808 ≤ i) (hhi : i < 9223372036854775808)
    (hpad : pad ≤ 127) : (atoi i pad).isPanic = false :=
  atoi_total i pad (by rw [show (2:Int)^63 = 9223372036854775808 by decide]; exact hlo)
    (by rw [show (2:Int)^63 = 9223372036854775808 by decide]; exact hhi) hpad

theorem tdiv_range (a b N : Int) (hb : 0 < b) (hl : -N ≤ a) (hh : a < N) :
    -N ≤ a.tdiv b ∧ a.tdiv b < N := by
  have hle := Int.natAbs_tdiv_le_natAbs a b
  rcases tdiv_cases a b with ⟨h, e⟩ | ⟨h, e⟩
  · have : 0 ≤ a / b := Int.ediv_nonneg h (by omega)
    rw [← e] at this; omega
  · have : 0 ≤ (-a) / b := Int.ediv_nonneg (by omega) (by omega)
    omega

theorem monthName_total (m : Int) (h0 : 0 ≤ m) (h1 : m ≤ 12) : (monthName m).isPanic = false := by
  have : ∀ k < 13, (getIdx shortMonthNames k).isPanic = false := by decide
  have hm : ¬ m < 0 := by omega
  simp only [monthName, hm, if_false]
  exact this _ (by omega)

theorem responseTime_total (e : Event) (h0 : -9223372036854775808 ≤ e.durNs) (h1 : e.durNs < 9223372036854775808)
    (unit : Int) (pad : Nat) (hu : 0 < unit) (hp : pad ≤ 127) : (responseTime e unit pad).isPanic = false := by
  unfold responseTime
  apply seqOut_total
  have hs : (0:Int) < secondNs := by decide
  have r1 := tdiv_range e.durNs secondNs _ hs h0 h1
  have m1 := Int.tmod_lt_of_pos e.durNs hs
  have m2 := Int.lt_tmod_of_pos e.durNs hs
  have r2 := tdiv_range (e.durNs.tmod secondNs) unit secondNs hu (by omega) m1
  have : secondNs = 1000000000 := rfl
  simp only [List.forall_mem_cons]
  refine ⟨atoi_total' _ _ r1.1 r1.2 (by omega), rfl, atoi_total' _ _ (by omega) (by omega) hp, ?_⟩
  simp

theorem atoi_tdiv_total (a b : Int) (pad : Nat)
    (ha : -9223372036854775808 ≤ a ∧ a < 9223372036854775808) (hb : 0 < b) (hp : pad ≤ 127) :
    (atoi (a.tdiv b) pad).isPanic = false :=
  atoi_total' _ _ (tdiv_range _ _ _ hb ha.1 ha.2).1 (tdiv_range _ _ _ hb ha.1 ha.2).2 hp

theorem forall_mem_nil' {α} (p : α → Prop) : ∀ x ∈ ([] : List α), p x := by
  intro x hx; cases hx

/-- no field function panics -/
theorem field_total (e : Event) (hr : EventInRange e)
    (name : String) (f : Event → Outcome (List Char)) (hf : fieldTable.lookup name = some f) :
    (f e).isPanic = false := by
  have e63 : (2:Int)^63 = 9223372036854775808 := by decide
  obtain ⟨h1, h2, h3, h4, h5, h6, h7, h8, h9, h10, h11⟩ := hr
  rw [e63] at h1 h2 h3 h4 h5 h7 h8 h9 h10 h11
  have key : ∀ x ∈ fieldTable, (x.2 e).isPanic = false := by
    simp only [fieldTable, List.forall_mem_cons]
    repeat' apply And.intro
    all_goals first
      | rfl
      | exact forall_mem_nil' _
      | (show (ite _ _ _ : Outcome (List Char)).isPanic = false; split
         · rw [isPanic_map]; exact hostport_total _
         · rfl)
      | (show (Outcome.map _ _).isPanic = false; rw [isPanic_map]; exact hostport_total _)
      | exact atoi_total' _ _ (by omega) (by omega) (by omega)
      | exact atoi_tdiv_total _ _ _ (by assumption) (by decide) (by omega)
      | exact responseTime_total e h3.1 h3.2 _ _ (by decide) (by omega)
      | (apply seqOut_total
         simp only [rfc3339Head, List.cons_append, List.nil_append, List.forall_mem_cons]
         repeat' apply And.intro
         all_goals first
           | rfl
           | exact forall_mem_nil' _
           | exact atoi_total' _ _ (by omega) (by omega) (by omega)
           | exact atoi_tdiv_total _ _ _ (by assumption) (by decide) (by omega)
           | exact monthName_total _ h6.1 h6.2)
  exact key _ (mem_of_lookup _ _ _ hf)

theorem lookup_of_contains {β} (l : List (String × β)) (k : String)
    (h : (l.map (·.1)).contains k = true) : ∃ b, l.lookup k = some b := by
  induction l with
  | nil => simp at h
  | cons p l ih =>
    obtain ⟨k', v⟩ := p
    rw [List.lookup_cons]
    by_cases hk : k == k'
    · exact ⟨v, by simp [hk]⟩
    · simp only [hk]
      apply ih
      simp only [List.map_cons, List.contains_cons, hk, Bool.false_or] at h
      exact h

theorem renderItem_total (e : Event) (he : EventInRange e) (it : Item)
    (h : ∀ n, it = Item.field n → knownField n = true) : (renderItem e it).isPanic = false := by
  cases it with
  | text s => rfl
  | header name =>
    simp only [renderItem]
    split <;> rfl
  | field name =>
    obtain ⟨f, hf⟩ := lookup_of_contains fieldTable (String.ofList name) (h name rfl)
    simp only [renderItem, hf]
    exact field_total e he _ f hf

theorem write_total (p : List Item) (e : Event) (hp : ∀ n, Item.field n ∈ p → knownField n = true)
    (he : EventInRange e) : (write p e).isPanic = false := by
  have hr : (render p e).isPanic = false := by
    apply seqOut_total
    intro x hx
    obtain ⟨it, hit, rfl⟩ := List.mem_map.1 hx
    exact renderItem_total e he it (fun n hn => hp n (hn ▸ hit))
  obtain ⟨b, hb⟩ := (isPanic_false_iff _).1 hr
  unfold write
  rw [hb, bind_ok]
  split <;> rfl

theorem atoi_eq_decimal' (i : Int) (pad : Nat) (hlo : -9223372036854775808 < i) (hhi : i < 9223372036854775808)
    (hpad : pad ≤ 127) : atoi i pad = .ok (Spec.decimal i pad) :=
  atoi_eq_decimal i pad (by rw [show (2:Int)^63 = 9223372036854775808 by decide]; exact hlo)
    (by rw [show (2:Int)^63 = 9223372036854775808 by decide]; exact hhi) hpad

theorem monthName_eq (m : Int) (h0 : 1 ≤ m) (h1 : m ≤ 12) :
    monthName m = .ok ((Spec.monthNames.getD (m.toNat - 1) "???").toList) := by
  have : ∀ k < 13, 1 ≤ k →
      getIdx shortMonthNames k = .ok ((Spec.monthNames.getD (k - 1) "???").toList) := by decide
  have hm : ¬ m < 0 := by omega
  simp only [monthName, hm, if_false]
  exact this _ (by omega) (by omega)

/- FALSE AS ORIGINALLY STATED (see `fields_eq_reference_counterexample` below): `EventInRange` allows
`e.status`, `e.contentLength` and `e.unixNano` to be `MinInt64 = -2^63`, for which `atoi` renders just "-"
(`atoi_minInt64`) while the reference renders "-9223372036854775808". Original statement:

/-- every field of the table except the three that go through `hostport` equals the reference rendering -/
theorem fields_eq_reference (e : Event) (hr : EventInRange e) (hc : EventCalendar e) (hd : 0 ≤ e.durNs)
    (name : String) (f : Event → Outcome (List Char)) (hf : fieldTable.lookup name = some f)
    (hn : name ∉ ["$remote_host", "$remote_port", "$upstream_host", "$upstream_port"]) :
    ∃ r, Spec.refField e name = some r ∧ f e = .ok r

The closest true version adds `hmin`: the three integers rendered without division are not `MinInt64`. -/
/-- every field of the table except the ones that go through `hostport` equals the reference rendering,
provided status, content length and `UnixNano` are not `MinInt64` -/
theorem fields_eq_reference_partial (e : Event) (hr : EventInRange e) (hc : EventCalendar e) (hd : 0 ≤ e.durNs)
    (hmin : -2^63 < e.status ∧ -2^63 < e.contentLength ∧ -2^63 < e.unixNano)
    (name : String) (f : Event → Outcome (List Char)) (hf : fieldTable.lookup name = some f)
    (hn : name ∉ ["$remote_host", "$remote_port", "$upstream_host", "$upstream_port"]) :
    ∃ r, Spec.refField e name = some r ∧ f e = .ok r := by
  have e63 : (2:Int)^63 = 9223372036854775808 := by decide
  obtain ⟨h1, h2, h3, h4, -, -, -, -, -, -, -⟩ := hr
  obtain ⟨cy, cmo, cd, ch, cmi, cs, cn⟩ := hc
  obtain ⟨m1, m2, m4⟩ := hmin
  obtain ⟨d1, d2, d3⟩ := durations e hd h3.2
  rw [e63] at h1 h2 h3 h4 m1 m2 m4
  have aY := atoi_eq_decimal' e.year 4 (by omega) (by omega) (by omega)
  have aMo : atoi e.month 2 = .ok (Spec.d2 e.month) := atoi_eq_decimal' e.month 2 (by omega) (by omega) (by omega)
  have aD : atoi e.day 2 = .ok (Spec.d2 e.day) := atoi_eq_decimal' e.day 2 (by omega) (by omega) (by omega)
  have aH : atoi e.hour 2 = .ok (Spec.d2 e.hour) := atoi_eq_decimal' e.hour 2 (by omega) (by omega) (by omega)
  have aMi : atoi e.minute 2 = .ok (Spec.d2 e.minute) := atoi_eq_decimal' e.minute 2 (by omega) (by omega) (by omega)
  have aS : atoi e.second 2 = .ok (Spec.d2 e.second) := atoi_eq_decimal' e.second 2 (by omega) (by omega) (by omega)
  have aN9 := atoi_eq_decimal' e.nanos 9 (by omega) (by omega) (by omega)
  have t3 : e.nanos.tdiv 1000000 = e.nanos / 1000000 := Int.tdiv_eq_ediv_of_nonneg cn.1
  have t6 : e.nanos.tdiv 1000 = e.nanos / 1000 := Int.tdiv_eq_ediv_of_nonneg cn.1
  have aN3 := atoi_eq_decimal' (e.nanos / 1000000) 3 (by omega) (by omega) (by omega)
  have aN6 := atoi_eq_decimal' (e.nanos / 1000) 6 (by omega) (by omega) (by omega)
  have mN := monthName_eq e.month cmo.1 cmo.2
  have aSt : atoi e.status 0 = .ok (Spec.itoa e.status) := atoi_eq_decimal' _ 0 m1 h1.2 (by omega)
  have aCl : atoi e.contentLength 0 = .ok (Spec.itoa e.contentLength) := atoi_eq_decimal' _ 0 m2 h2.2 (by omega)
  have aUn : atoi e.unixNano 0 = .ok (Spec.itoa e.unixNano) := atoi_eq_decimal' _ 0 m4 h4.2 (by omega)
  have aUm : atoi (e.unixNano.tdiv 1000000) 0 = .ok (Spec.itoa (e.unixNano.tdiv 1000000)) := by
    apply atoi_eq_decimal' _ 0 _ _ (by omega) <;>
      rcases tdiv_cases e.unixNano 1000000 with ⟨h, e⟩ | ⟨h, e⟩ <;> rw [e] <;> omega
  have aUu : atoi (e.unixNano.tdiv 1000) 0 = .ok (Spec.itoa (e.unixNano.tdiv 1000)) := by
    apply atoi_eq_decimal' _ 0 _ _ (by omega) <;>
      rcases tdiv_cases e.unixNano 1000 with ⟨h, e⟩ | ⟨h, e⟩ <;> rw [e] <;> omega
  have key : ∀ x ∈ fieldTable,
      x.1 ∉ ["$remote_host", "$remote_port", "$upstream_host", "$upstream_port"] →
      ∃ r, Spec.refField e x.1 = some r ∧ x.2 e = .ok r := by
    simp only [fieldTable, List.forall_mem_cons]
    repeat' apply And.intro
    all_goals first
      | exact forall_mem_nil' _
      | (intro h; exact absurd (by decide) h)
      | (intro _; exact ⟨_, rfl, rfl⟩)
      | (intro _; refine ⟨_, rfl, ?_⟩
         first
           | assumption
           | (simp only [aY, aMo, aD, aH, aMi, aS, aN9, t3, t6, aN3, aN6, mN, rfc3339Head, lit, seqOut_cons_ok,
                seqOut_nil, bind_ok, List.cons_append, List.nil_append]
              simp [Spec.refRfc3339]))
  exact key _ (mem_of_lookup _ _ _ hf) hn

/-- The statement of `fields_eq_reference` without the extra hypothesis is false. -/
theorem fields_eq_reference_counterexample :
    ¬ ∀ (e : Event) (_ : EventInRange e) (_ : EventCalendar e) (_ : 0 ≤ e.durNs)
      (name : String) (f : Event → Outcome (List Char)) (_ : fieldTable.lookup name = some f)
      (_ : name ∉ ["$remote_host", "$remote_port", "$upstream_host", "$upstream_port"]),
      ∃ r, Spec.refField e name = some r ∧ f e = .ok r := by
  intro h
  let e : Event := { status := minInt64 }
  have hr : EventInRange e := by constructor <;> decide
  have hc : EventCalendar e := by constructor <;> decide
  obtain ⟨r, h1, h2⟩ := h e hr hc (by decide) "$response_status" (fun e => atoi e.status 0) rfl (by decide)
  have h3 : Spec.refField e "$response_status" = some (Spec.itoa minInt64) := rfl
  have h4 : atoi e.status 0 = .ok ['-'] := atoi_minInt64 0 (by omega)
  rw [h3] at h1
  simp only [h4] at h2
  cases h1
  cases h2

end Fabio.Lemmas.C20
