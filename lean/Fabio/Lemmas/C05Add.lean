import Fabio.Model.C05Spec
/-!
C05 — `route add`: the concrete `addRoute` preserves the table invariant, refines the spec machine's
`specAdd` under the abstraction `abs`, is idempotent, and depends on `src` only through `key src` (so the
case of the host part does not matter).

The three branches of `addRoute` (new host / new route on a known host / known route) are kept apart:
`addAt` mirrors them one to one, and every branch has its own lemmas (`inv_branchHost`, `inv_branchPath`,
`inv_branchRoute`, `abs_branch…`), so that a further check in one branch is a local edit.
-/
namespace Fabio.Lemmas.C05Add
open Fabio Fabio.Model.Route Fabio.Model.C05Spec

/-! ### `weigh` (as in `Lemmas/C05Del.lean`) -/

/-- the per-target function `weigh` maps over the list (parameters: length, number of fixed, sum of fixed) -/
def wfun (n nf : Nat) (sf : Rat) (t : Target) : Target :=
  if nf = 0 then { t with weight := 1 / (n : Rat) }
  else
    if 0 < t.fixedWeight then
      { t with weight := t.fixedWeight * (if 1 < sf ∨ (nf = n ∧ sf < 1) then 1 / sf else 1) }
    else
      { t with weight := if (1 - sf) / ((n - nf : Nat) : Rat) < 0 then 0 else (1 - sf) / ((n - nf : Nat) : Rat) }

theorem weigh_eq (ts : List Target) :
    weigh ts = ts.map (wfun ts.length (nFixed ts) (sumFixed ts)) := by
  unfold weigh wfun
  split <;> simp [*]

theorem wfun_fixed (n nf : Nat) (sf : Rat) (t : Target) : (wfun n nf sf t).fixedWeight = t.fixedWeight := by
  unfold wfun
  split
  · rfl
  · split <;> rfl

theorem wfun_service (n nf : Nat) (sf : Rat) (t : Target) : (wfun n nf sf t).service = t.service := by
  unfold wfun
  split
  · rfl
  · split <;> rfl

theorem wfun_url (n nf : Nat) (sf : Rat) (t : Target) : (wfun n nf sf t).url = t.url := by
  unfold wfun
  split
  · rfl
  · split <;> rfl

theorem wfun_tags (n nf : Nat) (sf : Rat) (t : Target) : (wfun n nf sf t).tags = t.tags := by
  unfold wfun
  split
  · rfl
  · split <;> rfl

theorem wfun_wfun (n nf : Nat) (sf : Rat) (n' nf' : Nat) (sf' : Rat) (t : Target) :
    wfun n nf sf (wfun n' nf' sf' t) = wfun n nf sf t := by
  have hf := wfun_fixed n' nf' sf' t
  generalize hu : wfun n' nf' sf' t = u at hf
  have : ({ u with weight := t.weight } : Target) = t := by
    subst hu; unfold wfun; split
    · rfl
    · split <;> rfl
  unfold wfun
  rw [hf]
  split
  · rw [← this]
  · split <;> rw [← this]

theorem weigh_nil : weigh [] = [] := by
  rw [weigh_eq]; rfl

theorem weigh_length (ts : List Target) : (weigh ts).length = ts.length := by
  rw [weigh_eq]; simp

theorem weigh_ne_nil {ts : List Target} (h : ts ≠ []) : weigh ts ≠ [] := by
  intro he
  have := weigh_length ts
  rw [he] at this
  cases ts with
  | nil => exact h rfl
  | cons a l => simp at this

theorem nFixed_map (g : Target → Target) (hg : ∀ t, (g t).fixedWeight = t.fixedWeight) (ts : List Target) :
    nFixed (ts.map g) = nFixed ts := by
  unfold nFixed
  induction ts with
  | nil => rfl
  | cons a l ih => simp only [List.map_cons, List.filter_cons, hg]; split <;> simp_all

theorem sumFixed_map (g : Target → Target) (hg : ∀ t, (g t).fixedWeight = t.fixedWeight) (ts : List Target) :
    sumFixed (ts.map g) = sumFixed ts := by
  unfold sumFixed
  have key : ∀ z : Rat,
      ((ts.map g).filter (fun t => decide (0 < t.fixedWeight))).foldl (fun a t => a + t.fixedWeight) z
        = (ts.filter (fun t => decide (0 < t.fixedWeight))).foldl (fun a t => a + t.fixedWeight) z := by
    induction ts with
    | nil => intro z; rfl
    | cons a l ih => intro z; simp only [List.map_cons, List.filter_cons, hg]; split <;> simp_all
  exact key 0

theorem weigh_weigh (ts : List Target) : weigh (weigh ts) = weigh ts := by
  rw [weigh_eq (weigh ts)]
  rw [weigh_eq ts]
  simp only [List.map_map, List.length_map]
  apply List.map_congr_left
  intro a _
  simp only [Function.comp]
  rw [wfun_wfun]
  rw [nFixed_map _ (wfun_fixed _ _ _), sumFixed_map _ (wfun_fixed _ _ _)]

/-! ### the duplicate test and `addTarget` on target lists -/

/-- `weigh` changes only the `weight` field, which the duplicate test does not look at -/
theorem isDup_weigh (ts : List Target) (x : Target) : isDup (weigh ts) x = isDup ts x := by
  unfold isDup
  rw [weigh_eq, List.any_map]
  congr 1
  funext t
  simp only [Function.comp, wfun_service, wfun_url, wfun_fixed, wfun_tags]

theorem isDup_nil (x : Target) : isDup [] x = false := rfl

theorem isDup_append_self (ts : List Target) (x : Target) : isDup (ts ++ [x]) x = true := by
  unfold isDup
  rw [List.any_append]
  simp

/-- what `addTarget` does to the target list -/
def addTs (ts : List Target) (x : Target) : List Target :=
  if isDup ts x then ts else weigh (ts ++ [x])

theorem isDup_addTs (ts : List Target) (x : Target) : isDup (addTs ts x) x = true := by
  unfold addTs
  split
  · assumption
  · rw [isDup_weigh, isDup_append_self]

theorem addTs_ne_nil (ts : List Target) (x : Target) : addTs ts x ≠ [] := by
  intro he
  have := isDup_addTs ts x
  rw [he, isDup_nil] at this
  cases this

theorem addTs_weighed {ts : List Target} (x : Target) (h : weigh ts = ts) : weigh (addTs ts x) = addTs ts x := by
  unfold addTs
  split
  · exact h
  · exact weigh_weigh _

section addTarget
variable (r : Route) (d : RouteDef) (url : Str)

theorem addTarget_targets :
    (r.addTarget d.service url d.weight d.tags d.opts).targets = addTs r.targets (newTarget d url) := by
  unfold Route.addTarget addTs isDup newTarget
  dsimp only
  split <;> split <;> rfl

theorem addTarget_path : (r.addTarget d.service url d.weight d.tags d.opts).path = r.path := by
  unfold Route.addTarget
  dsimp only
  split <;> split <;> rfl

theorem addTarget_host : (r.addTarget d.service url d.weight d.tags d.opts).host = r.host := by
  unfold Route.addTarget
  dsimp only
  split <;> split <;> rfl

theorem addTarget_dup (h : isDup r.targets (newTarget d url) = true) :
    r.addTarget d.service url d.weight d.tags d.opts = r := by
  unfold isDup newTarget at h
  unfold Route.addTarget
  dsimp only at h ⊢
  rw [if_pos h]

end addTarget

/-! ### association lists, `Table.get` / `Table.set` -/

theorem eq_of_map_eq {α β : Type} {f : α → β} {l : List α} (hn : (l.map f).Nodup) {a b : α}
    (ha : a ∈ l) (hb : b ∈ l) (he : f a = f b) : a = b := by
  induction l with
  | nil => cases ha
  | cons x l ih =>
    simp only [List.map_cons, List.nodup_cons] at hn
    cases ha with
    | head =>
      cases hb with
      | head => rfl
      | tail _ hb => exact absurd (he ▸ List.mem_map_of_mem hb) hn.1
    | tail _ ha =>
      cases hb with
      | head => exact absurd (he ▸ List.mem_map_of_mem ha) hn.1
      | tail _ hb => exact ih hn.2 ha hb

theorem mem_of_lookup {t : Table} {k : Str} {rs : List Route} (h : t.lookup k = some rs) : (k, rs) ∈ t := by
  obtain ⟨l1, l2, he, _⟩ := List.lookup_eq_some_iff.mp h
  subst he; simp

theorem any_key (t : Table) (host : Str) : t.any (fun kv => kv.1 == host) = t.has host := by
  unfold Table.has
  induction t with
  | nil => rfl
  | cons a l ih =>
    obtain ⟨k', v⟩ := a
    simp only [List.any_cons, List.lookup_cons, ih]
    by_cases h : k' = host
    · subst h; simp
    · have h1 : (k' == host) = false := by simpa using h
      have h2 : (host == k') = false := by simpa using fun e => h e.symm
      simp [h1, h2]

theorem lookup_of_has_false {t : Table} {host : Str} (h : t.has host = false) : t.lookup host = none := by
  unfold Table.has at h
  simpa using h

theorem get_of_has_false {t : Table} {host : Str} (h : t.has host = false) : t.get host = [] := by
  unfold Table.get
  rw [lookup_of_has_false h]
  rfl

theorem lookup_of_has_true {t : Table} {host : Str} (h : t.has host = true) : t.lookup host = some (t.get host) := by
  unfold Table.has at h
  obtain ⟨rs0, h0⟩ := Option.isSome_iff_exists.mp h
  unfold Table.get
  rw [h0]; rfl

theorem not_mem_keys_of_has_false {t : Table} {host : Str} (h : t.has host = false) : host ∉ t.map (·.1) := by
  rw [← any_key, List.any_eq_false] at h
  intro hm
  obtain ⟨kv, hkv, he⟩ := List.mem_map.mp hm
  exact h kv hkv (by simpa using he)

theorem get_mem_or_nil (t : Table) (k : Str) : t.get k = [] ∨ (k, t.get k) ∈ t := by
  cases h : t.has k
  · left; exact get_of_has_false h
  · right; exact mem_of_lookup (lookup_of_has_true h)

theorem lookup_setmap (t : Table) (host : Str) (rs' : List Route) (k : Str) :
    (t.map (fun kv => if kv.1 == host then (host, rs') else kv)).lookup k
      = if k = host then (t.lookup host).map (fun _ => rs') else t.lookup k := by
  induction t with
  | nil => simp
  | cons a l ih =>
    obtain ⟨k', v⟩ := a
    simp only [List.map_cons]
    by_cases h1 : k' = host
    · subst h1
      simp only [beq_self_eq_true, if_true, List.lookup_cons, ih]
      by_cases h2 : k = k'
      · subst h2; simp
      · have : (k == k') = false := by simpa using h2
        simp [this, h2]
    · have h1' : (k' == host) = false := by simpa using h1
      simp only [h1', Bool.false_eq_true, if_false, List.lookup_cons, ih]
      by_cases h2 : k = k'
      · subst h2; simp [h1]
      · have : (k == k') = false := by simpa using h2
        have h3 : (host == k') = false := by simpa using fun e => h1 e.symm
        simp [this, h3]

theorem keys_setmap (t : Table) (host : Str) (rs' : List Route) :
    (t.map (fun kv => if kv.1 == host then (host, rs') else kv)).map (·.1) = t.map (·.1) := by
  rw [List.map_map]
  apply List.map_congr_left
  intro kv _
  simp only [Function.comp]
  by_cases h : kv.1 = host
  · simp [h]
  · have : (kv.1 == host) = false := by simpa using h
    simp [this]

theorem set_of_has_true {t : Table} {host : Str} (rs' : List Route) (h : t.has host = true) :
    t.set host rs' = t.map (fun kv => if kv.1 == host then (host, rs') else kv) := by
  unfold Table.set
  rw [any_key, if_pos h]

theorem set_of_has_false {t : Table} {host : Str} (rs' : List Route) (h : t.has host = false) :
    t.set host rs' = t ++ [(host, rs')] := by
  unfold Table.set
  rw [any_key, h]
  rfl

/-- `Table.set` is a map update: the key is rebound (or bound at the end when it was absent) -/
theorem lookup_set (t : Table) (host : Str) (rs' : List Route) (k : Str) :
    (t.set host rs').lookup k = if k = host then some rs' else t.lookup k := by
  cases hh : t.has host
  · rw [set_of_has_false _ hh, List.lookup_append]
    by_cases hk : k = host
    · subst hk; simp [lookup_of_has_false hh]
    · have : (k == host) = false := by simpa using hk
      simp [List.lookup_cons, this, hk]
  · rw [set_of_has_true _ hh, lookup_setmap, lookup_of_has_true hh]
    rfl

theorem get_set (t : Table) (host : Str) (rs' : List Route) (k : Str) :
    (t.set host rs').get k = if k = host then rs' else t.get k := by
  unfold Table.get
  rw [lookup_set]
  split <;> rfl

theorem mem_set {t : Table} {host : Str} {rs' : List Route} {kv : Str × List Route}
    (h : kv ∈ t.set host rs') : kv = (host, rs') ∨ kv ∈ t := by
  cases hh : t.has host
  · rw [set_of_has_false _ hh] at h
    rcases List.mem_append.mp h with h | h
    · right; exact h
    · left; simpa using h
  · rw [set_of_has_true _ hh] at h
    obtain ⟨kv0, h0, he⟩ := List.mem_map.mp h
    split at he
    · left; exact he.symm
    · right; rw [← he]; exact h0

theorem keys_set_nodup {t : Table} (host : Str) (rs' : List Route) (hn : (t.map (·.1)).Nodup) :
    ((t.set host rs').map (·.1)).Nodup := by
  cases hh : t.has host
  · rw [set_of_has_false _ hh, List.map_append, List.nodup_append]
    refine ⟨hn, by simp, ?_⟩
    intro a ha b hb
    have hb' : b = host := by simpa using hb
    subst hb'
    intro he; subst he
    exact not_mem_keys_of_has_false hh ha
  · rw [set_of_has_true _ hh, keys_setmap]; exact hn

/-- rebinding a key to the value it has already is the identity (keys are unique) -/
theorem set_get_self {t : Table} {host : Str} (hn : (t.map (·.1)).Nodup) (hh : t.has host = true) :
    t.set host (t.get host) = t := by
  rw [set_of_has_true _ hh]
  have : t.map (fun kv => if kv.1 == host then (host, t.get host) else kv) = t.map id := by
    apply List.map_congr_left
    intro kv hkv
    by_cases h : kv.1 = host
    · have hkv' : kv = (host, t.get host) :=
        eq_of_map_eq (f := (·.1)) hn hkv (mem_of_lookup (lookup_of_has_true hh)) h
      simp [hkv']
    · have : (kv.1 == host) = false := by simpa using h
      simp [this]
  rw [this, List.map_id]

/-! ### route lists -/

/-- targets of the route for `p` in a route list -/
def tgs (rs : List Route) (p : Str) : List Target :=
  match findRoute rs p with
  | some r => r.targets
  | none => []

theorem targetsAt_eq (t : Table) (h p : Str) : targetsAt t h p = tgs (t.get h) p := rfl

theorem tgs_nil (p : Str) : tgs [] p = [] := rfl

theorem tgs_cons (r : Route) (rs : List Route) (p : Str) :
    tgs (r :: rs) p = if r.path == p then r.targets else tgs rs p := by
  unfold tgs findRoute
  rw [List.find?_cons]
  cases (r.path == p) <;> rfl

theorem tgs_of_find_none {rs : List Route} {p : Str} (h : findRoute rs p = none) : tgs rs p = [] := by
  unfold tgs; rw [h]

theorem tgs_of_find_some {rs : List Route} {p : Str} {r : Route} (h : findRoute rs p = some r) :
    tgs rs p = r.targets := by
  unfold tgs; rw [h]

theorem find_some {rs : List Route} {p : Str} {r : Route} (h : findRoute rs p = some r) : r ∈ rs ∧ r.path = p := by
  unfold findRoute at h
  exact ⟨List.mem_of_find?_eq_some h, by simpa using List.find?_some h⟩

theorem find_none {rs : List Route} {p : Str} (h : findRoute rs p = none) : p ∉ rs.map (·.path) := by
  unfold findRoute at h
  rw [List.find?_eq_none] at h
  intro hm
  obtain ⟨x, hx, he⟩ := List.mem_map.mp hm
  exact h x hx (by simpa using he)

/-- appending a route with a fresh path changes exactly that path -/
theorem tgs_append (rs : List Route) (R : Route) (p : Str) (hn : findRoute rs R.path = none) :
    tgs (rs ++ [R]) p = if p = R.path then R.targets else tgs rs p := by
  induction rs with
  | nil =>
    simp only [List.nil_append, tgs_cons, tgs_nil]
    by_cases h : p = R.path
    · subst h; simp
    · have : (R.path == p) = false := by simpa using fun e => h e.symm
      simp [this, h]
  | cons x rs ih =>
    have hx : x.path ≠ R.path := by
      intro he
      exact find_none hn (by simp [he])
    have hn' : findRoute rs R.path = none := by
      unfold findRoute at hn ⊢
      rw [List.find?_cons] at hn
      have : (x.path == R.path) = false := by simpa using hx
      simpa [this] using hn
    simp only [List.cons_append, tgs_cons, ih hn']
    by_cases h : p = R.path
    · subst h
      have : (x.path == R.path) = false := by simpa using hx
      simp [this]
    · simp [h]

theorem tgs_replace_ne (rs : List Route) (r' : Route) (p : Str) (h : p ≠ r'.path) :
    tgs (replaceRoute rs r') p = tgs rs p := by
  induction rs with
  | nil => rfl
  | cons x rs ih =>
    unfold replaceRoute at ih ⊢
    simp only [List.map_cons, tgs_cons, ih]
    cases hx : (x.path == r'.path)
    · rfl
    · have hxp : x.path = r'.path := by simpa using hx
      have h1 : (r'.path == p) = false := by simpa using fun e => h e.symm
      simp [hxp, h1]

theorem tgs_replace_eq (rs : List Route) (r' : Route) (h : ∃ x ∈ rs, x.path = r'.path) :
    tgs (replaceRoute rs r') r'.path = r'.targets := by
  induction rs with
  | nil => obtain ⟨x, hx, _⟩ := h; cases hx
  | cons x rs ih =>
    unfold replaceRoute at ih ⊢
    simp only [List.map_cons, tgs_cons]
    cases hx : (x.path == r'.path)
    · have hxp : x.path ≠ r'.path := by simpa using hx
      simp only [Bool.false_eq_true, if_false, hx]
      apply ih
      obtain ⟨y, hy, hyp⟩ := h
      cases hy with
      | head => exact absurd hyp hxp
      | tail _ hy => exact ⟨y, hy, hyp⟩
    · simp

/-- replacing the route with a given path changes exactly that path -/
theorem tgs_replace (rs : List Route) (r' : Route) (p : Str) (h : ∃ x ∈ rs, x.path = r'.path) :
    tgs (replaceRoute rs r') p = if p = r'.path then r'.targets else tgs rs p := by
  by_cases hp : p = r'.path
  · subst hp; rw [if_pos rfl]; exact tgs_replace_eq rs r' h
  · rw [if_neg hp]; exact tgs_replace_ne rs r' p hp

theorem replace_paths (rs : List Route) (r' : Route) : (replaceRoute rs r').map (·.path) = rs.map (·.path) := by
  unfold replaceRoute
  rw [List.map_map]
  apply List.map_congr_left
  intro x _
  simp only [Function.comp]
  cases hx : (x.path == r'.path)
  · rfl
  · have : x.path = r'.path := by simpa using hx
    simp [this]

theorem mem_replace {rs : List Route} {r' x : Route} (h : x ∈ replaceRoute rs r') : x = r' ∨ x ∈ rs := by
  unfold replaceRoute at h
  obtain ⟨y, hy, hyx⟩ := List.mem_map.mp h
  split at hyx
  · left; exact hyx.symm
  · right; rw [← hyx]; exact hy

/-- replacing a route by itself is the identity (paths are unique) -/
theorem replace_self {rs : List Route} {r : Route} (hn : (rs.map (·.path)).Nodup) (hr : r ∈ rs) :
    replaceRoute rs r = rs := by
  unfold replaceRoute
  have : rs.map (fun x => if x.path == r.path then r else x) = rs.map id := by
    apply List.map_congr_left
    intro x hx
    by_cases h : x.path = r.path
    · have : x = r := eq_of_map_eq (f := (·.path)) hn hx hr h
      simp [this]
    · have : (x.path == r.path) = false := by simpa using h
      simp [this]
  rw [this, List.map_id]

/-! ### the invariant, per route list -/

/-- what `Inv` says about the route list stored under `host` -/
structure Good (host : Str) (rs : List Route) : Prop where
  paths : (rs.map (·.path)).Nodup
  each : ∀ r ∈ rs, r.host = host ∧ r.targets ≠ [] ∧ weigh r.targets = r.targets

theorem good_nil (host : Str) : Good host [] := ⟨by simp, by simp⟩

theorem good_get {t : Table} (hi : Inv t) (host : Str) : Good host (t.get host) := by
  rcases get_mem_or_nil t host with he | hm
  · rw [he]; exact good_nil host
  · exact ⟨hi.wf.paths _ hm,
      fun r hr => ⟨hi.wf.hostOf _ hm r hr, (hi.noEmpty _ hm).2 r hr, hi.weighed _ hm r hr⟩⟩

theorem inv_set {t : Table} (hi : Inv t) {host : Str} {rs' : List Route} (hne : rs' ≠ [])
    (hg : Good host rs') : Inv (t.set host rs') := by
  refine ⟨⟨keys_set_nodup host rs' hi.wf.hosts, ?_, ?_⟩, ?_, ?_⟩
  · intro kv hkv
    rcases mem_set hkv with he | hm
    · subst he; exact hg.paths
    · exact hi.wf.paths kv hm
  · intro kv hkv
    rcases mem_set hkv with he | hm
    · subst he; exact fun r hr => (hg.each r hr).1
    · exact hi.wf.hostOf kv hm
  · intro kv hkv
    rcases mem_set hkv with he | hm
    · subst he; exact ⟨hne, fun r hr => (hg.each r hr).2.1⟩
    · exact hi.noEmpty kv hm
  · intro kv hkv
    rcases mem_set hkv with he | hm
    · subst he; exact fun r hr => (hg.each r hr).2.2
    · exact hi.weighed kv hm

/-- the route `addRoute` creates for a new (host, path) -/
def newRoute (host path : Str) (d : RouteDef) (url : Str) : Route :=
  ({ host, path, targets := [] } : Route).addTarget d.service url d.weight d.tags d.opts

theorem newRoute_path (host path : Str) (d : RouteDef) (url : Str) : (newRoute host path d url).path = path :=
  addTarget_path _ d url
theorem newRoute_host (host path : Str) (d : RouteDef) (url : Str) : (newRoute host path d url).host = host :=
  addTarget_host _ d url
theorem newRoute_targets (host path : Str) (d : RouteDef) (url : Str) :
    (newRoute host path d url).targets = addTs [] (newTarget d url) :=
  addTarget_targets _ d url

theorem good_append {host path : Str} {rs : List Route} (d : RouteDef) (url : Str) (hg : Good host rs)
    (hf : findRoute rs path = none) : Good host (rs ++ [newRoute host path d url]) := by
  refine ⟨?_, ?_⟩
  · rw [List.map_append, List.nodup_append]
    refine ⟨hg.paths, by simp, ?_⟩
    intro a ha b hb
    have hb' : b = path := by simpa [newRoute_path] using hb
    subst hb'
    intro he; subst he
    exact find_none hf ha
  · intro r hr
    rcases List.mem_append.mp hr with hr | hr
    · exact hg.each r hr
    · have : r = newRoute host path d url := by simpa using hr
      subst this
      refine ⟨newRoute_host .., ?_, ?_⟩
      · rw [newRoute_targets]; exact addTs_ne_nil _ _
      · rw [newRoute_targets]; exact addTs_weighed _ weigh_nil

theorem good_replace {host : Str} {rs : List Route} {r : Route} (d : RouteDef) (url : Str) (hg : Good host rs)
    (hr : r ∈ rs) : Good host (replaceRoute rs (r.addTarget d.service url d.weight d.tags d.opts)) := by
  refine ⟨by rw [replace_paths]; exact hg.paths, ?_⟩
  intro x hx
  rcases mem_replace hx with he | hx
  · subst he
    refine ⟨?_, ?_, ?_⟩
    · rw [addTarget_host]; exact (hg.each r hr).1
    · rw [addTarget_targets]; exact addTs_ne_nil _ _
    · rw [addTarget_targets]; exact addTs_weighed _ (hg.each r hr).2.2
  · exact hg.each x hx

/-! ### the abstraction of `Table.set` -/

theorem upd_self (S : Spec) (h p : Str) : upd S h p (S h p) = S := by
  funext h' p'
  unfold upd
  split
  · rename_i he; rw [he.1, he.2]
  · rfl

/-- rebinding `host` to a route list that differs from the old one at `path` only is `upd` -/
theorem abs_set_upd (t : Table) (host path : Str) (rs' : List Route) (ts : List Target)
    (h : ∀ p', tgs rs' p' = if p' = path then ts else tgs (t.get host) p') :
    abs (t.set host rs') = upd (abs t) host path ts := by
  funext h' p'
  unfold abs upd
  rw [targetsAt_eq, targetsAt_eq, get_set]
  by_cases hh : h' = host
  · subst hh
    rw [if_pos rfl, h]
    by_cases hp : p' = path
    · rw [if_pos hp, if_pos ⟨rfl, hp⟩]
    · rw [if_neg hp, if_neg (fun h => hp h.2)]
  · rw [if_neg hh, if_neg (fun h => hh h.1)]

/-! ### the three branches of `addRoute` -/

/-- branch 1: the host is new -/
def branchHost (t : Table) (host path : Str) (d : RouteDef) (url : Str) : Table :=
  t.set host [newRoute host path d url]
/-- branch 2: the host is known, the path is new -/
def branchPath (t : Table) (host path : Str) (d : RouteDef) (url : Str) : Table :=
  t.set host (t.get host ++ [newRoute host path d url])
/-- branch 3: the route exists -/
def branchRoute (t : Table) (host : Str) (r : Route) (d : RouteDef) (url : Str) : Table :=
  t.set host (replaceRoute (t.get host) (r.addTarget d.service url d.weight d.tags d.opts))

/-- `addRoute` after the argument checks, at the (host, path) its `src` names -/
def addAt (env : Env) (t : Table) (host path : Str) (d : RouteDef) (url : Str) : Except Err Table :=
  if !t.has host then
    if !env.globOK host then .error .badGlob else
    if !env.globOK path then .error .badGlob else .ok (branchHost t host path d url)
  else
    match findRoute (t.get host) path with
    | none => if !env.globOK path then .error .badGlob else .ok (branchPath t host path d url)
    | some r => .ok (branchRoute t host r d url)

theorem addRoute_eq (env : Env) (t : Table) (d : RouteDef) : addRoute env t d =
    if d.src.isEmpty then .error .invalidPrefix else
    if d.dst.isEmpty then .error .invalidTarget else
    match env.normURL d.dst with
    | none => .error .badURL
    | some url => addAt env t (key d.src).1 (key d.src).2 d url := by
  unfold addRoute addAt branchHost branchPath branchRoute newRoute key
  generalize hostpath d.src = hp
  obtain ⟨a, b⟩ := hp
  rfl

section branches
variable {t : Table} {host path : Str} (d : RouteDef) (url : Str)

theorem branchHost_eq (hh : t.has host = false) : branchHost t host path d url = branchPath t host path d url := by
  unfold branchHost branchPath
  rw [get_of_has_false hh]; rfl

theorem find_of_has_false (hh : t.has host = false) : findRoute (t.get host) path = none := by
  rw [get_of_has_false hh]; rfl

theorem inv_branchPath (hi : Inv t) (hf : findRoute (t.get host) path = none) :
    Inv (branchPath t host path d url) :=
  inv_set hi (by simp) (good_append d url (good_get hi host) hf)

theorem inv_branchHost (hi : Inv t) (hh : t.has host = false) : Inv (branchHost t host path d url) := by
  rw [branchHost_eq d url hh]; exact inv_branchPath d url hi (find_of_has_false hh)

theorem inv_branchRoute {r : Route} (hi : Inv t) (hf : findRoute (t.get host) path = some r) :
    Inv (branchRoute t host r d url) := by
  have hr := (find_some hf).1
  refine inv_set hi ?_ (good_replace d url (good_get hi host) hr)
  unfold replaceRoute
  intro he
  rw [List.map_eq_nil_iff] at he
  rw [he] at hr; cases hr

theorem abs_none (hf : findRoute (t.get host) path = none) : abs t host path = [] :=
  tgs_of_find_none hf

theorem abs_some {r : Route} (hf : findRoute (t.get host) path = some r) : abs t host path = r.targets :=
  tgs_of_find_some hf

theorem abs_branchPath (hf : findRoute (t.get host) path = none) :
    abs (branchPath t host path d url) = upd (abs t) host path (addTs (abs t host path) (newTarget d url)) := by
  rw [abs_none hf]
  apply abs_set_upd
  intro p'
  have hf' : findRoute (t.get host) (newRoute host path d url).path = none := by rw [newRoute_path]; exact hf
  rw [tgs_append _ _ _ hf', newRoute_path, newRoute_targets]

theorem abs_branchHost (hh : t.has host = false) :
    abs (branchHost t host path d url) = upd (abs t) host path (addTs (abs t host path) (newTarget d url)) := by
  rw [branchHost_eq d url hh]; exact abs_branchPath d url (find_of_has_false hh)

theorem abs_branchRoute {r : Route} (hf : findRoute (t.get host) path = some r) :
    abs (branchRoute t host r d url) = upd (abs t) host path (addTs (abs t host path) (newTarget d url)) := by
  rw [abs_some hf]
  obtain ⟨hr, hp⟩ := find_some hf
  apply abs_set_upd
  intro p'
  rw [tgs_replace _ _ _ ⟨r, hr, (addTarget_path r d url).symm⟩, addTarget_path, addTarget_targets, hp]

end branches

/-! ### `addAt`: which branch produced the result -/

section addAt
variable {env : Env} {t t1 : Table} {host path : Str} {d : RouteDef} {url : Str}

theorem addAt_cases (h : addAt env t host path d url = .ok t1) :
    (t.has host = false ∧ env.globOK host = true ∧ env.globOK path = true ∧ t1 = branchHost t host path d url) ∨
    (t.has host = true ∧ findRoute (t.get host) path = none ∧ env.globOK path = true ∧
      t1 = branchPath t host path d url) ∨
    (t.has host = true ∧ ∃ r, findRoute (t.get host) path = some r ∧ t1 = branchRoute t host r d url) := by
  unfold addAt at h
  cases hh : t.has host
  · left
    cases hg : env.globOK host
    · simp [hh, hg] at h
    · cases hp : env.globOK path
      · simp [hh, hg, hp] at h
      · simp only [hh, hg, hp, Bool.not_false, Bool.not_true, Bool.false_eq_true, if_true, if_false,
          Except.ok.injEq] at h
        exact ⟨rfl, rfl, rfl, h.symm⟩
  · right
    simp only [hh, Bool.not_true, Bool.false_eq_true, if_false] at h
    cases hf : findRoute (t.get host) path with
    | none =>
      left
      rw [hf] at h
      cases hp : env.globOK path
      · simp [hp] at h
      · simp only [hp, Bool.not_true, Bool.false_eq_true, if_false, Except.ok.injEq] at h
        exact ⟨rfl, rfl, rfl, h.symm⟩
    | some r =>
      right
      rw [hf] at h
      simp only [Except.ok.injEq] at h
      exact ⟨rfl, r, rfl, h.symm⟩

theorem inv_addAt (hi : Inv t) (h : addAt env t host path d url = .ok t1) : Inv t1 := by
  rcases addAt_cases h with ⟨hh, _, _, he⟩ | ⟨_, hf, _, he⟩ | ⟨_, r, hf, he⟩
  · subst he; exact inv_branchHost d url hi hh
  · subst he; exact inv_branchPath d url hi hf
  · subst he; exact inv_branchRoute d url hi hf

theorem abs_addAt (h : addAt env t host path d url = .ok t1) :
    abs t1 = upd (abs t) host path (addTs (abs t host path) (newTarget d url)) := by
  rcases addAt_cases h with ⟨hh, _, _, he⟩ | ⟨_, hf, _, he⟩ | ⟨_, r, hf, he⟩
  · subst he; exact abs_branchHost d url hh
  · subst he; exact abs_branchPath d url hf
  · subst he; exact abs_branchRoute d url hf

theorem globOK_of_has (hh : HostsOK env t) (h : t.has host = true) : env.globOK host = true :=
  hh _ (mem_of_lookup (lookup_of_has_true h))

theorem hostsOK_addAt (hh : HostsOK env t) (h : addAt env t host path d url = .ok t1) : HostsOK env t1 := by
  have key : ∀ rs', env.globOK host = true → HostsOK env (t.set host rs') := by
    intro rs' hg kv hkv
    rcases mem_set hkv with he | hm
    · subst he; exact hg
    · exact hh kv hm
  rcases addAt_cases h with ⟨_, hg, _, he⟩ | ⟨hs, _, _, he⟩ | ⟨hs, r, _, he⟩
  · subst he; exact key _ hg
  · subst he; exact key _ (globOK_of_has hh hs)
  · subst he; exact key _ (globOK_of_has hh hs)

/-- the spec machine's `add` after the argument checks -/
def specAt (env : Env) (S : Spec) (h p : Str) (d : RouteDef) (url : Str) : Except Err Spec :=
  if !env.globOK h then .error .badGlob else
  if (S h p).isEmpty && !env.globOK p then .error .badGlob else
  if isDup (S h p) (newTarget d url) then .ok S else
  .ok (upd S h p (weigh (S h p ++ [newTarget d url])))

theorem specAt_eq (S : Spec) (h p : Str) : specAt env S h p d url =
    if !env.globOK h then .error .badGlob else
    if (S h p).isEmpty && !env.globOK p then .error .badGlob else
    .ok (upd S h p (addTs (S h p) (newTarget d url))) := by
  unfold specAt addTs
  split
  · rfl
  · split
    · rfl
    · split
      · rw [upd_self]
      · rfl

theorem addAt_refines (hi : Inv t) (hh : HostsOK env t) :
    (addAt env t host path d url).map abs = specAt env (abs t) host path d url := by
  rw [specAt_eq]
  unfold addAt
  cases hs : t.has host
  · have ha : abs t host path = [] := abs_none (find_of_has_false hs)
    rw [ha]
    cases hg : env.globOK host
    · rfl
    · cases hp : env.globOK path
      · rfl
      · show Except.ok (abs (branchHost t host path d url)) = _
        rw [abs_branchHost d url hs, ha]
        rfl
  · rw [globOK_of_has hh hs]
    cases hf : findRoute (t.get host) path with
    | none =>
      have ha : abs t host path = [] := abs_none hf
      rw [ha]
      cases hp : env.globOK path
      · rfl
      · show Except.ok (abs (branchPath t host path d url)) = _
        rw [abs_branchPath d url hf, ha]
        rfl
    | some r =>
      have ha : abs t host path = r.targets := abs_some hf
      have hne : r.targets ≠ [] := ((good_get hi host).each r (find_some hf).1).2.1
      show Except.ok (abs (branchRoute t host r d url)) = _
      rw [abs_branchRoute d url hf, ha]
      cases hr : r.targets with
      | nil => exact absurd hr hne
      | cons a l => rfl

/-- an add whose target is a duplicate already rebuilds the same table -/
theorem addAt_dup (hw : WF t) (hd : isDup (abs t host path) (newTarget d url) = true) :
    addAt env t host path d url = .ok t := by
  cases hf : findRoute (t.get host) path with
  | none => rw [abs_none hf, isDup_nil] at hd; cases hd
  | some r =>
    rw [abs_some hf] at hd
    have hr := (find_some hf).1
    have hs : t.has host = true := by
      cases hs : t.has host
      · rw [get_of_has_false hs] at hr; cases hr
      · rfl
    have hm : (host, t.get host) ∈ t := mem_of_lookup (lookup_of_has_true hs)
    unfold addAt
    simp only [hs, hf, Bool.not_true, Bool.false_eq_true, if_false]
    unfold branchRoute
    rw [addTarget_dup r d url hd, replace_self (hw.paths _ hm) hr, set_get_self hw.hosts hs]

theorem addAt_idem (hi : Inv t) (h : addAt env t host path d url = .ok t1) :
    addAt env t1 host path d url = .ok t1 := by
  have hi1 := inv_addAt hi h
  apply addAt_dup hi1.wf
  rw [abs_addAt h]
  unfold upd
  rw [if_pos ⟨rfl, rfl⟩]
  exact isDup_addTs _ _

end addAt

/-! ### main theorems -/

section main
variable {env : Env} {t t1 : Table} {d : RouteDef}

theorem addRoute_ok (h : addRoute env t d = .ok t1) :
    ∃ url, d.src.isEmpty = false ∧ d.dst.isEmpty = false ∧ env.normURL d.dst = some url ∧
      addAt env t (key d.src).1 (key d.src).2 d url = .ok t1 := by
  rw [addRoute_eq] at h
  cases h1 : d.src.isEmpty
  · cases h2 : d.dst.isEmpty
    · cases hu : env.normURL d.dst with
      | none => simp [h1, h2, hu] at h
      | some url =>
        simp only [h1, h2, hu, Bool.false_eq_true, if_false] at h
        exact ⟨url, rfl, rfl, rfl, h⟩
    · simp [h1, h2] at h
  · simp [h1] at h

theorem addRoute_of_checks {url : Str} (t' : Table) (h1 : d.src.isEmpty = false) (h2 : d.dst.isEmpty = false)
    (hu : env.normURL d.dst = some url) :
    addRoute env t' d = addAt env t' (key d.src).1 (key d.src).2 d url := by
  rw [addRoute_eq]
  simp only [h1, h2, hu, Bool.false_eq_true, if_false]

theorem inv_nil : Inv ([] : Table) :=
  ⟨⟨List.nodup_nil, fun _ h => (nomatch h), fun _ h => (nomatch h)⟩, fun _ h => (nomatch h), fun _ h => (nomatch h)⟩

theorem inv_add (hi : Inv t) (h : addRoute env t d = .ok t1) : Inv t1 := by
  obtain ⟨url, _, _, _, ha⟩ := addRoute_ok h
  exact inv_addAt hi ha

theorem hostsOK_add (hh : HostsOK env t) (h : addRoute env t d = .ok t1) : HostsOK env t1 := by
  obtain ⟨url, _, _, _, ha⟩ := addRoute_ok h
  exact hostsOK_addAt hh ha

theorem add_refines (hi : Inv t) (hh : HostsOK env t) :
    (addRoute env t d).map abs = specAdd env (abs t) d := by
  rw [addRoute_eq]
  unfold specAdd
  dsimp only
  split
  · rfl
  · split
    · rfl
    · cases env.normURL d.dst with
      | none => rfl
      | some url => exact addAt_refines hi hh

theorem add_idempotent (hi : Inv t) (h : addRoute env t d = .ok t1) : addRoute env t1 d = .ok t1 := by
  obtain ⟨url, h1, h2, hu, ha⟩ := addRoute_ok h
  rw [addRoute_of_checks t1 h1 h2 hu]
  exact addAt_idem hi ha

theorem host_case_add (s' : Str) (hk : key d.src = key s') (he : d.src.isEmpty = s'.isEmpty) :
    addRoute env t d = addRoute env t { d with src := s' } := by
  rw [addRoute_eq, addRoute_eq]
  simp only [hk, he]
  rfl

end main

/-! ### `key`: the case of the host part of `src` does not matter -/

theorem indexOf_go_append (c : Char) (h rest : Str) (i : Nat) (hn : c ∉ h) :
    indexOf.go c i (h ++ rest) = indexOf.go c (i + h.length) rest := by
  induction h generalizing i with
  | nil => simp
  | cons x xs ih =>
    simp only [List.mem_cons, not_or] at hn
    have : (x == c) = false := by simpa using fun e => hn.1 e.symm
    simp only [List.cons_append, indexOf.go, this, Bool.false_eq_true, if_false, List.length_cons]
    rw [ih _ hn.2]; congr 1; omega

theorem hostpath_eq (h rest : Str) (hs : '/' ∉ h) (hr : rest = [] ∨ ∃ r, rest = '/' :: r) :
    hostpath (h ++ rest) =
      if hasPrefix (h ++ rest) [':'] then (h ++ rest, []) else (h, if rest = [] then ['/'] else rest) := by
  unfold hostpath
  split
  · rfl
  · have hi : indexOf '/' (h ++ rest) = indexOf.go '/' (0 + h.length) rest := indexOf_go_append '/' h rest 0 hs
    rw [hi]
    rcases hr with hr | ⟨r, hr⟩
    · subst hr; simp [indexOf.go]
    · subst hr; simp [indexOf.go]

theorem upper_not_colon : ∀ n, n < 91 → 65 ≤ n → Char.ofNat (n + 32) ≠ ':' := by decide

theorem lowerChar_colon (c : Char) : lowerChar c = ':' ↔ c = ':' := by
  unfold lowerChar
  split
  · rename_i h
    have h1 : 65 ≤ c.toNat := h.1
    have h2 : c.toNat ≤ 90 := h.2
    constructor
    · intro he; exact absurd he (upper_not_colon c.toNat (by omega) h1)
    · intro he; subst he; revert h1; decide
  · exact Iff.rfl

theorem hasPrefix_colon (h h' rest : Str) (hl : lowerL h = lowerL h') :
    hasPrefix (h ++ rest) [':'] = hasPrefix (h' ++ rest) [':'] := by
  unfold lowerL at hl
  cases h with
  | nil =>
    cases h' with
    | nil => rfl
    | cons c' hs' => simp at hl
  | cons c hs =>
    cases h' with
    | nil => simp at hl
    | cons c' hs' =>
      simp only [List.map_cons, List.cons.injEq] at hl
      have h1 := lowerChar_colon c
      have h2 := lowerChar_colon c'
      rw [hl.1] at h1
      have : (c = ':') ↔ (c' = ':') := h1.symm.trans h2
      unfold hasPrefix
      simp only [List.cons_append, List.isPrefixOf]
      by_cases hc : c = ':'
      · have hc' := this.mp hc
        subst hc; subst hc'; rfl
      · have hc' : ¬ c' = ':' := fun e => hc (this.mpr e)
        have e1 : (':' == c) = false := by simpa using fun e => hc e.symm
        have e2 : (':' == c') = false := by simpa using fun e => hc' e.symm
        simp [e1, e2]

theorem key_case (h h' rest : Str) (hl : lowerL h = lowerL h') (hs : '/' ∉ h) (hs' : '/' ∉ h')
    (hr : rest = [] ∨ ∃ r, rest = '/' :: r) : key (h ++ rest) = key (h' ++ rest) := by
  unfold key
  rw [hostpath_eq h rest hs hr, hostpath_eq h' rest hs' hr, hasPrefix_colon h h' rest hl]
  split
  · simp only [lowerL, List.map_append] at hl ⊢
    rw [hl]
  · simp only [hl]

/-! ### non-vacuity: concrete tables on which the hypotheses hold and the conclusions say something -/

section examples

def env0 : Env := { normURL := fun s => some s, globOK := fun _ => true }

def tA (w : Rat) : Target :=
  { service := ['a'], tags := [['x']], opts := [], url := ['u', 'a'], fixedWeight := 0, weight := w }
def tB (w : Rat) : Target :=
  { service := ['b'], tags := [], opts := [], url := ['u', 'b'], fixedWeight := 0, weight := w }

/-- host `h`: `/` ↦ a (1) -/
def tab0 : Table := [(['h'], [⟨['h'], ['/'], [tA 1]⟩])]
/-- after `route add b H/ ub`: `/` ↦ a (1/2), b (1/2) -/
def tab1 : Table := [(['h'], [⟨['h'], ['/'], [tA (1/2), tB (1/2)]⟩])]
/-- after `route add b h/p ub` on `tab0`: a second route on the known host -/
def tab2 : Table := [(['h'], [⟨['h'], ['/'], [tA 1]⟩, ⟨['h'], ['/', 'p'], [tB 1]⟩])]
/-- after `route add b G/ ub` on `tab0`: a new host -/
def tab3 : Table := [(['h'], [⟨['h'], ['/'], [tA 1]⟩]), (['g'], [⟨['g'], ['/'], [tB 1]⟩])]

/-- appends a second target to the existing route `h/` (host given in upper case) -/
def dB : RouteDef := { cmd := .add, service := ['b'], src := ['H', '/'], dst := ['u', 'b'] }
/-- the target of `tab0` again, with different options: de-duplicated (options are not compared) -/
def dA : RouteDef :=
  { cmd := .add, service := ['a'], src := ['h', '/'], dst := ['u', 'a'], tags := [['x']], opts := [(['k'], ['v'])] }
def dP : RouteDef := { cmd := .add, service := ['b'], src := ['h', '/', 'p'], dst := ['u', 'b'] }
def dG : RouteDef := { cmd := .add, service := ['b'], src := ['G'], dst := ['u', 'b'] }

theorem inv_tab0 : Inv tab0 :=
  ⟨⟨by decide, by decide, by decide⟩, by unfold NoEmpty; decide, by unfold Weighed; decide +kernel⟩

theorem hostsOK_tab0 : HostsOK env0 tab0 := fun _ _ => rfl

/-- `Except Err Table` has no `DecidableEq` instance in core: decide through a Boolean test -/
def okIs (x : Except Err Table) (t : Table) : Bool :=
  match x with
  | .ok y => decide (y = t)
  | .error _ => false

theorem eq_of_okIs {x : Except Err Table} {t : Table} (h : okIs x t = true) : x = .ok t := by
  cases x with
  | error e => simp [okIs] at h
  | ok y => simp only [okIs, decide_eq_true_eq] at h; rw [h]

theorem add_B : addRoute env0 tab0 dB = .ok tab1 := eq_of_okIs (by decide +kernel)
theorem add_A : addRoute env0 tab0 dA = .ok tab0 := eq_of_okIs (by decide +kernel)
theorem add_P : addRoute env0 tab0 dP = .ok tab2 := eq_of_okIs (by decide +kernel)
theorem add_G : addRoute env0 tab0 dG = .ok tab3 := eq_of_okIs (by decide +kernel)
theorem add_first : addRoute env0 [] dG = .ok [(['g'], [⟨['g'], ['/'], [tB 1]⟩])] := eq_of_okIs (by decide +kernel)

-- `inv_nil` / `inv_add`: the hypotheses hold and the result is a different table
example : Inv [(['g'], [(⟨['g'], ['/'], [tB 1]⟩ : Route)])] := inv_add inv_nil add_first
example : Inv tab1 ∧ tab1 ≠ tab0 := ⟨inv_add inv_tab0 add_B, by decide +kernel⟩
example : Inv tab2 ∧ tab2 ≠ tab0 := ⟨inv_add inv_tab0 add_P, by decide +kernel⟩
example : Inv tab3 ∧ tab3 ≠ tab0 := ⟨inv_add inv_tab0 add_G, by decide +kernel⟩
-- the invariant is not trivially true
example : ¬ NoEmpty [(['g'], [⟨['g'], ['/'], ([] : List Target)⟩])] := by unfold NoEmpty; decide
example : ¬ Weighed [(['h'], [⟨['h'], ['/'], [tA (1/3)]⟩])] := by unfold Weighed; decide +kernel

-- `add_refines`: both sides are `.ok`, and the common value differs from `abs tab0`
example : specAdd env0 (abs tab0) dB = .ok (abs tab1) := by
  rw [← add_refines inv_tab0 hostsOK_tab0, add_B]; rfl
example : specAdd env0 (abs tab0) dP = .ok (abs tab2) := by
  rw [← add_refines inv_tab0 hostsOK_tab0, add_P]; rfl
example : specAdd env0 (abs tab0) dG = .ok (abs tab3) := by
  rw [← add_refines inv_tab0 hostsOK_tab0, add_G]; rfl
-- the de-duplicated add leaves the spec state alone
example : specAdd env0 (abs tab0) dA = .ok (abs tab0) := by
  rw [← add_refines inv_tab0 hostsOK_tab0, add_A]; rfl
example : abs tab0 ['h'] ['/'] = [tA 1] ∧ abs tab1 ['h'] ['/'] = [tA (1/2), tB (1/2)] ∧
    abs tab0 ['h'] ['/', 'p'] = [] ∧ abs tab2 ['h'] ['/', 'p'] = [tB 1] ∧
    abs tab0 ['g'] ['/'] = [] ∧ abs tab3 ['g'] ['/'] = [tB 1] := by decide +kernel
-- the error branches are refined too: a path / a new host that does not compile
example : (addRoute { env0 with globOK := fun s => s != ['/', 'p'] } tab0 dP).map abs = .error .badGlob := by
  rw [add_refines inv_tab0 (by unfold HostsOK; decide)]; rfl
example : (addRoute { env0 with globOK := fun s => s != ['g'] } tab0 dG).map abs = .error .badGlob := by
  rw [add_refines inv_tab0 (by unfold HostsOK; decide)]; rfl

-- `add_idempotent`: the second add of `dB` is de-duplicated although the first one changed the table
example : addRoute env0 tab1 dB = .ok tab1 := add_idempotent inv_tab0 add_B
example : addRoute env0 tab2 dP = .ok tab2 := add_idempotent inv_tab0 add_P
example : addRoute env0 tab3 dG = .ok tab3 := add_idempotent inv_tab0 add_G
example : addRoute env0 tab0 dA = .ok tab0 := add_idempotent inv_tab0 add_A

-- `hostsOK_add`: the new host `g` passed the check
example : HostsOK { env0 with globOK := fun s => s == ['h'] || s == ['g'] || s == ['/'] } tab3 :=
  hostsOK_add (t := tab0) (d := dG) (by unfold HostsOK; decide) (eq_of_okIs (by decide +kernel))

-- `host_case_add`: `H/` and `h/` add to the same route
example : addRoute env0 tab0 dB = addRoute env0 tab0 { dB with src := ['h', '/'] } :=
  host_case_add ['h', '/'] (by decide) (by decide)
example : dB.src ≠ ['h', '/'] := by decide

-- `key_case`: `FOO.com/x` and `foo.COM/x` name the same (host, path)
example : key ['F', 'O', 'O', '.', 'c', 'o', 'm', '/', 'x'] = key ['f', 'o', 'o', '.', 'C', 'O', 'M', '/', 'x'] :=
  key_case ['F', 'O', 'O', '.', 'c', 'o', 'm'] ['f', 'o', 'o', '.', 'C', 'O', 'M'] ['/', 'x']
    (by decide) (by decide) (by decide) (Or.inr ⟨_, rfl⟩)
example : key ['F', 'O', 'O', '.', 'c', 'o', 'm', '/', 'x'] = (['f', 'o', 'o', '.', 'c', 'o', 'm'], ['/', 'x']) := by
  decide
-- without a path, and for a `:port` source (no path split)
example : key ['F', 'O', 'O'] = key ['f', 'o', 'O'] :=
  key_case ['F', 'O', 'O'] ['f', 'o', 'O'] [] (by decide) (by decide) (by decide) (Or.inl rfl)
example : key [':', '8', '0', '/', 'X'] = ([':', '8', '0', '/', 'x'], []) := by decide

end examples

end Fabio.Lemmas.C05Add
