import Fabio.Lemmas.C20Num
import Fabio.Lemmas.C20Lex
/-!
C20 helper lemmas for the end-to-end statement "the line that is written is the reference rendering of the event":
`hostport` against the reference's own way of splitting at the last colon (`Spec.splitLastColon`, written with
`reverse`/`takeWhile`, not with an index), and the rendering of a whole pattern.
-/
namespace Fabio.Lemmas.C20
open Fabio Fabio.Model.C20

/-- a text has at most one decomposition `host ++ ":" ++ port` with a colon-free port -/
theorem split_unique (h1 h2 p1 p2 : List Char) (c1 : ':' ∉ p1) (c2 : ':' ∉ p2)
    (h : h1 ++ ':' :: p1 = h2 ++ ':' :: p2) : h1 = h2 ∧ p1 = p2 := by
  induction h1 generalizing h2 with
  | nil =>
    cases h2 with
    | nil => simp at h; exact ⟨rfl, h⟩
    | cons y h2' =>
      simp at h
      exact absurd (by rw [h.2]; simp) c1
  | cons x h1' ih =>
    cases h2 with
    | nil =>
      simp at h
      exact absurd (by rw [← h.2]; simp) c2
    | cons y h2' =>
      simp at h
      obtain ⟨rfl, h'⟩ := h
      obtain ⟨e1, e2⟩ := ih h2' h'
      exact ⟨by rw [e1], e2⟩

theorem takeWhile_split (p : Char → Bool) (l : List Char) (h : ∃ x ∈ l, p x = false) :
    ∃ a r, l = l.takeWhile p ++ a :: r ∧ p a = false := by
  induction l with
  | nil => simp at h
  | cons x xs ih =>
    by_cases hx : p x = true
    · obtain ⟨y, hy, hpy⟩ := h
      have : ∃ x ∈ xs, p x = false := by
        rcases List.mem_cons.mp hy with rfl | hy
        · rw [hx] at hpy; cases hpy
        · exact ⟨y, hy, hpy⟩
      obtain ⟨a, r, e, ha⟩ := ih this
      refine ⟨a, r, ?_, ha⟩
      simp only [List.takeWhile_cons, hx, if_true, List.cons_append]
      rw [← e]
    · have hx' : p x = false := by simpa using hx
      exact ⟨x, xs, by simp [hx'], hx'⟩

/-- the reference's split (by `reverse.takeWhile`) is a decomposition at a colon with a colon-free port -/
theorem splitLastColon_spec (s : List Char) (hc : ':' ∈ s) :
    (Spec.splitLastColon s).1 ++ ':' :: (Spec.splitLastColon s).2 = s ∧ ':' ∉ (Spec.splitLastColon s).2 := by
  have hcr : ∃ x ∈ s.reverse, (x != ':') = false := ⟨':', by simpa using hc, by simp⟩
  obtain ⟨a, r, e, ha⟩ := takeWhile_split (· != ':') s.reverse hcr
  have ha' : a = ':' := by simpa using ha
  subst ha'
  have hs : s = r.reverse ++ ':' :: (s.reverse.takeWhile (· != ':')).reverse := by
    have := congrArg List.reverse e
    simpa using this
  have hlen : s.length = r.length + 1 + (s.reverse.takeWhile (· != ':')).length := by
    have := congrArg List.length hs
    simp at this; omega
  have hcontains : s.contains ':' = true := by simpa using hc
  simp only [Spec.splitLastColon, hcontains, if_true]
  constructor
  · have ht : s.take (s.length - (s.reverse.takeWhile (· != ':')).length - 1) = r.reverse := by
      have e1 : s.length - (s.reverse.takeWhile (· != ':')).length - 1 = r.reverse.length := by simp; omega
      rw [e1]
      conv => lhs; rw [hs]
      simp
    rw [ht]
    exact hs.symm
  · intro hm
    have hm' : ':' ∈ s.reverse.takeWhile (· != ':') := by simpa using hm
    have key : ∀ (l : List Char), ':' ∉ l.takeWhile (· != ':') := by
      intro l
      induction l with
      | nil => simp
      | cons x xs ih =>
        by_cases hx : x = ':'
        · simp [hx]
        · simp [hx, ih, Ne.symm hx]
    exact key _ hm'

/-- **`hostport` computes the reference's split**, for every address (empty, without colon, IPv6, several colons) -/
theorem hostport_eq_split (s : List Char) : hostport s = .ok (Spec.splitLastColon s) := by
  obtain ⟨h, p, hm, hok⟩ := hostport_spec s
  rw [hm]
  by_cases hc : ':' ∈ s
  · have hcontains : s.contains ':' = true := by simpa using hc
    simp only [Spec.hostportOk, hcontains, if_true, Bool.and_eq_true, beq_iff_eq, Bool.not_eq_true', List.append_assoc,
      List.singleton_append] at hok
    obtain ⟨e1, e2⟩ := hok
    have c1 : ':' ∉ p := by simpa using e2
    obtain ⟨f1, f2⟩ := splitLastColon_spec s hc
    obtain ⟨g1, g2⟩ := split_unique h _ p _ c1 f2 (by rw [e1, f1])
    congr 1
    exact Prod.ext g1 g2
  · have hcontains : s.contains ':' = false := by simpa using hc
    simp only [Spec.hostportOk, hcontains, Bool.false_eq_true, if_false, Bool.and_eq_true, beq_iff_eq] at hok
    simp only [Spec.splitLastColon, hcontains, Bool.false_eq_true, if_false, hok.1, hok.2]

/-- All 31 fields of the table equal the reference rendering — the four that go through `hostport` included
(`hostport_eq_split`). Same forced hypothesis as `fields_eq_reference_partial` (no MinInt64 in status, size,
UnixNano). -/
theorem fields_eq_reference_all (e : Event) (hr : EventInRange e) (hc : EventCalendar e) (hd : 0 ≤ e.durNs)
    (hmin : -2^63 < e.status ∧ -2^63 < e.contentLength ∧ -2^63 < e.unixNano)
    (name : String) (f : Event → Outcome (List Char)) (hf : fieldTable.lookup name = some f) :
    ∃ r, Spec.refField e name = some r ∧ f e = .ok r := by
  by_cases hn : name ∈ ["$remote_host", "$remote_port", "$upstream_host", "$upstream_port"]
  · simp only [List.mem_cons, List.not_mem_nil, or_false] at hn
    rcases hn with rfl | rfl | rfl | rfl
    all_goals
      have hmem := mem_of_lookup _ _ _ hf
      simp only [fieldTable, List.mem_cons, Prod.mk.injEq, List.not_mem_nil, or_false, String.reduceEq, false_and, true_and, false_or, or_false] at hmem
      subst hmem
      cases hq : e.hasRequest <;> simp [Spec.refField, hostport_eq_split, Outcome.map, hq]
  · exact fields_eq_reference_partial e hr hc hd hmin name f hf hn

/-- one item of an accepted pattern renders what the reference says -/
theorem renderItem_eq_reference (e : Event) (hr : EventInRange e) (hc : EventCalendar e) (hd : 0 ≤ e.durNs)
    (hmin : -2^63 < e.status ∧ -2^63 < e.contentLength ∧ -2^63 < e.unixNano) (it : Item)
    (h : ∀ n, it = Item.field n → knownField n = true) : renderItem e it = .ok (Spec.refItemText e it) := by
  cases it with
  | text s => rfl
  | header name =>
    simp only [renderItem, Spec.refItemText]
    cases e.hasRequest <;> cases e.header <;> rfl
  | field name =>
    obtain ⟨f, hf⟩ := lookup_of_contains fieldTable (String.ofList name) (h name rfl)
    obtain ⟨r, h1, h2⟩ := fields_eq_reference_all e hr hc hd hmin _ f hf
    simp only [renderItem, hf, h2, Spec.refItemText, h1, Option.getD_some]

theorem seqOut_ok (xs : List (Outcome (List Char))) (ys : List (List Char))
    (h : xs = ys.map Outcome.ok) : seqOut xs = .ok ys.flatten := by
  subst h
  induction ys with
  | nil => rfl
  | cons y ys ih => simp [seqOut, ih]

/-- **the rendering of an accepted pattern is the reference line** -/
theorem render_eq_reference (p : List Item) (e : Event) (hp : ∀ n, Item.field n ∈ p → knownField n = true)
    (hr : EventInRange e) (hc : EventCalendar e) (hd : 0 ≤ e.durNs)
    (hmin : -2^63 < e.status ∧ -2^63 < e.contentLength ∧ -2^63 < e.unixNano) :
    render p e = .ok (Spec.refLine p e) := by
  unfold render Spec.refLine
  rw [seqOut_ok (p.map (renderItem e)) (p.map (Spec.refItemText e))]
  · simp [List.flatMap]
  · rw [List.map_map]
    apply List.map_congr_left
    intro it hit
    exact renderItem_eq_reference e hr hc hd hmin it (fun n hn => hp n (hn ▸ hit))

end Fabio.Lemmas.C20
