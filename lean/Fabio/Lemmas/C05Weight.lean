import Fabio.Model.C05Spec
/-!
C05 — `route weight`, the final per-host sort, and independence of the Go map iteration order.
-/
namespace Fabio.Lemmas.C05Weight
open Fabio Fabio.Model.Route Fabio.Model.Parse Fabio.Model.C05Spec

/-! ### `strLt` / `pathLt` are strict total orders -/

theorem strLt_irrefl (a : Str) : strLt a a = false := by
  induction a with
  | nil => rfl
  | cons x xs ih => simp [strLt, ih]

theorem strLt_trans : ∀ (a b c : Str), strLt a b = true → strLt b c = true → strLt a c = true
  | [], [], _, h, _ => by simp [strLt] at h
  | [], _ :: _, [], _, h => by simp [strLt] at h
  | [], _ :: _, _ :: _, _, _ => by simp [strLt]
  | _ :: _, [], _, h, _ => by simp [strLt] at h
  | _ :: _, _ :: _, [], _, h => by simp [strLt] at h
  | x :: xs, y :: ys, z :: zs, h1, h2 => by
    have ih := strLt_trans xs ys zs
    simp only [strLt] at h1 h2 ⊢
    split at h1
    · split at h2
      · rw [if_pos (by omega)]
      · split at h2
        · cases h2
        · rw [if_pos (by omega)]
    · split at h1
      · cases h1
      · split at h2
        · rw [if_pos (by omega)]
        · split at h2
          · cases h2
          · rw [if_neg (by omega), if_neg (by omega)]
            exact ih h1 h2

theorem strLt_tri : ∀ (a b : Str), strLt a b = true ∨ a = b ∨ strLt b a = true
  | [], [] => .inr (.inl rfl)
  | [], _ :: _ => .inl (by simp [strLt])
  | _ :: _, [] => .inr (.inr (by simp [strLt]))
  | x :: xs, y :: ys => by
    simp only [strLt]
    by_cases h1 : x.toNat < y.toNat
    · left; rw [if_pos h1]
    · by_cases h2 : y.toNat < x.toNat
      · right; right; rw [if_pos h2]
      · have hxy : x = y := Char.toNat_inj.mp (by omega)
        subst hxy
        simp only [if_neg h1]
        rcases strLt_tri xs ys with h | h | h
        · left; exact h
        · right; left; rw [h]
        · right; right; exact h

theorem strLt_asymm (a b : Str) (h1 : strLt a b = true) (h2 : strLt b a = true) : False := by
  have := strLt_trans a b a h1 h2
  rw [strLt_irrefl] at this
  cases this

theorem pathLt_irrefl (a : Str) : pathLt a a = false := by
  simp [pathLt, strLt_irrefl]

theorem pathLt_trans (a b c : Str) (h1 : pathLt a b = true) (h2 : pathLt b c = true) : pathLt a c = true := by
  unfold pathLt at h1 h2 ⊢
  by_cases hab : lowerL a = lowerL b
  · simp only [hab, bne_self_eq_false, Bool.false_eq_true, if_false] at h1
    by_cases hbc : lowerL b = lowerL c
    · simp only [hbc, bne_self_eq_false, Bool.false_eq_true, if_false] at h2
      simp only [hab, hbc, bne_self_eq_false, Bool.false_eq_true, if_false]
      exact strLt_trans _ _ _ h1 h2
    · have : (lowerL b != lowerL c) = true := by simpa using hbc
      rw [if_pos this] at h2
      rw [hab, if_pos this]; exact h2
  · have hab' : (lowerL a != lowerL b) = true := by simpa using hab
    rw [if_pos hab'] at h1
    by_cases hbc : lowerL b = lowerL c
    · rw [← hbc, if_pos hab']; exact h1
    · have : (lowerL b != lowerL c) = true := by simpa using hbc
      rw [if_pos this] at h2
      have h3 := strLt_trans _ _ _ h1 h2
      have hac : lowerL a ≠ lowerL c := by
        intro e; rw [e, strLt_irrefl] at h3; cases h3
      have : (lowerL a != lowerL c) = true := by simpa using hac
      rw [if_pos this]; exact h3

theorem pathLt_tri (a b : Str) : pathLt a b = true ∨ a = b ∨ pathLt b a = true := by
  unfold pathLt
  by_cases hab : lowerL a = lowerL b
  · simp only [hab, bne_self_eq_false, Bool.false_eq_true, if_false]
    exact strLt_tri a b
  · have h1 : (lowerL a != lowerL b) = true := by simpa using hab
    have h2 : (lowerL b != lowerL a) = true := by simpa using fun e => hab e.symm
    rw [if_pos h1, if_pos h2]
    rcases strLt_tri (lowerL a) (lowerL b) with h | h | h
    · left; exact h
    · exact absurd h hab
    · right; right; exact h

theorem pathLt_asymm (a b : Str) (h1 : pathLt a b = true) (h2 : pathLt b a = true) : False := by
  have := pathLt_trans a b a h1 h2
  rw [pathLt_irrefl] at this
  cases this

/-! ### generic insertion sort (descending) -/

def ins {α : Type} (lt : α → α → Bool) (x : α) : List α → List α
  | [] => [x]
  | y :: ys => if lt y x then x :: y :: ys else y :: ins lt x ys

def isort {α : Type} (lt : α → α → Bool) (l : List α) : List α := l.foldr (ins lt) []

/-- descending: every element is above all later ones -/
def Desc {α : Type} (lt : α → α → Bool) (l : List α) : Prop := l.Pairwise (fun a b => lt b a = true)

theorem ins_perm {α : Type} (lt : α → α → Bool) (x : α) (l : List α) : (ins lt x l).Perm (x :: l) := by
  induction l with
  | nil => exact List.Perm.refl _
  | cons y ys ih =>
    unfold ins
    split
    · exact List.Perm.refl _
    · exact (List.Perm.cons y ih).trans (List.Perm.swap x y ys)

theorem isort_perm {α : Type} (lt : α → α → Bool) (l : List α) : (isort lt l).Perm l := by
  induction l with
  | nil => exact List.Perm.refl _
  | cons x xs ih =>
    show (ins lt x (isort lt xs)).Perm (x :: xs)
    exact (ins_perm lt x _).trans (List.Perm.cons x ih)

theorem ins_desc {α : Type} (lt : α → α → Bool) (htr : ∀ a b c, lt a b = true → lt b c = true → lt a c = true)
    (x : α) (l : List α) (hs : Desc lt l) (hc : ∀ y ∈ l, lt y x = true ∨ lt x y = true) : Desc lt (ins lt x l) := by
  induction l with
  | nil => simp [ins, Desc]
  | cons y ys ih =>
    unfold Desc at hs ih ⊢
    rw [List.pairwise_cons] at hs
    unfold ins
    split
    · rename_i hyx
      rw [List.pairwise_cons]
      refine ⟨?_, List.pairwise_cons.mpr hs⟩
      intro z hz
      rcases List.mem_cons.mp hz with he | hz
      · rw [he]; exact hyx
      · exact htr _ _ _ (hs.1 z hz) hyx
    · rename_i hyx
      have hxy : lt x y = true := by
        rcases hc y List.mem_cons_self with h | h
        · exact absurd h hyx
        · exact h
      rw [List.pairwise_cons]
      refine ⟨?_, ih hs.2 (fun z hz => hc z (List.mem_cons_of_mem _ hz))⟩
      intro z hz
      have := (ins_perm lt x ys).mem_iff.mp hz
      rcases List.mem_cons.mp this with he | hz
      · rw [he]; exact hxy
      · exact hs.1 z hz

theorem isort_desc {α : Type} (lt : α → α → Bool) (htr : ∀ a b c, lt a b = true → lt b c = true → lt a c = true)
    (l : List α) (hc : l.Pairwise (fun a b => lt a b = true ∨ lt b a = true)) : Desc lt (isort lt l) := by
  induction l with
  | nil => simp [isort, Desc]
  | cons x xs ih =>
    rw [List.pairwise_cons] at hc
    show Desc lt (ins lt x (isort lt xs))
    apply ins_desc lt htr x _ (ih hc.2)
    intro y hy
    have := (isort_perm lt xs).mem_iff.mp hy
    rcases hc.1 y this with h | h
    · right; exact h
    · left; exact h

theorem desc_unique {α : Type} (lt : α → α → Bool) (has : ∀ a b, lt a b = true → lt b a = true → False)
    (l1 l2 : List α) (hp : l1.Perm l2) (h1 : Desc lt l1) (h2 : Desc lt l2) : l1 = l2 :=
  List.Perm.eq_of_pairwise (le := fun a b => lt b a = true)
    (fun _ _ _ _ hab hba => (has _ _ hab hba).elim) h1 h2 hp

/-! ## helper lemmas copied from `Lemmas/C05Del.lean` -/

/-! ### `weigh` -/

/-- the per-target function `weigh` maps over the list (parameters: length, number of fixed, sum of fixed) -/
def wfun (n nf : Nat) (sf : Rat) (t : Target) : Target :=
  if nf = 0 then { t with weight := 1 / (n : Rat) }
  else
    if 0 < t.fixedWeight then
      { t with weight := t.fixedWeight * (if 1 < sf ∨ (nf = n ∧ sf < 1) then 1 / sf else 1) }
    else
      { t with weight := if (1 - sf) / ((n - nf : Nat) : Rat) < 0 then 0 else (1 - sf) / ((n - nf : Nat) : Rat) }

theorem weigh_eq (ts : List Target) :
    weigh ts = ts.map (wfun ts.length (nFixed ts) (sumFixed ts)) := by
  unfold weigh wfun
  split <;> simp [*]

theorem wfun_fixed (n nf : Nat) (sf : Rat) (t : Target) : (wfun n nf sf t).fixedWeight = t.fixedWeight := by
  unfold wfun
  split
  · rfl
  · split <;> rfl

theorem wfun_wfun (n nf : Nat) (sf : Rat) (n' nf' : Nat) (sf' : Rat) (t : Target) :
    wfun n nf sf (wfun n' nf' sf' t) = wfun n nf sf t := by
  have hf := wfun_fixed n' nf' sf' t
  generalize hu : wfun n' nf' sf' t = u at hf
  have : ({ u with weight := t.weight } : Target) = t := by
    subst hu; unfold wfun; split
    · rfl
    · split <;> rfl
  unfold wfun
  rw [hf]
  split
  · rw [← this]
  · split <;> rw [← this]

theorem weigh_nil : weigh [] = [] := by
  rw [weigh_eq]; rfl

theorem weigh_length (ts : List Target) : (weigh ts).length = ts.length := by
  rw [weigh_eq]; simp

theorem nFixed_map (g : Target → Target) (hg : ∀ t, (g t).fixedWeight = t.fixedWeight) (ts : List Target) :
    nFixed (ts.map g) = nFixed ts := by
  unfold nFixed
  induction ts with
  | nil => rfl
  | cons a l ih => simp only [List.map_cons, List.filter_cons, hg]; split <;> simp_all

theorem sumFixed_map (g : Target → Target) (hg : ∀ t, (g t).fixedWeight = t.fixedWeight) (ts : List Target) :
    sumFixed (ts.map g) = sumFixed ts := by
  unfold sumFixed
  have key : ∀ z : Rat,
      ((ts.map g).filter (fun t => decide (0 < t.fixedWeight))).foldl (fun a t => a + t.fixedWeight) z
        = (ts.filter (fun t => decide (0 < t.fixedWeight))).foldl (fun a t => a + t.fixedWeight) z := by
    induction ts with
    | nil => intro z; rfl
    | cons a l ih => intro z; simp only [List.map_cons, List.filter_cons, hg]; split <;> simp_all
  exact key 0

theorem weigh_weigh (ts : List Target) : weigh (weigh ts) = weigh ts := by
  rw [weigh_eq (weigh ts)]
  rw [weigh_eq ts]
  simp only [List.map_map, List.length_map]
  apply List.map_congr_left
  intro a _
  simp only [Function.comp]
  rw [wfun_wfun]
  rw [nFixed_map _ (wfun_fixed _ _ _), sumFixed_map _ (wfun_fixed _ _ _)]

/-! ### association lists -/

theorem lookup_map_snd (f : List Route → List Route) (t : Table) (k : Str) :
    (t.map (fun kv => (kv.1, f kv.2))).lookup k = (t.lookup k).map f := by
  induction t with
  | nil => rfl
  | cons a l ih =>
    obtain ⟨k', v⟩ := a
    simp only [List.map_cons, List.lookup_cons]
    cases hk : (k == k') <;> simp [ih]

theorem keys_map_snd (f : List Route → List Route) (t : Table) :
    (t.map (fun kv => (kv.1, f kv.2))).map (·.1) = t.map (·.1) := by
  simp [List.map_map, Function.comp_def]

theorem mem_of_lookup {t : Table} {k : Str} {rs : List Route} (h : t.lookup k = some rs) : (k, rs) ∈ t := by
  obtain ⟨l1, l2, he, _⟩ := List.lookup_eq_some_iff.mp h
  subst he; simp

theorem get_mem_or_nil (t : Table) (k : Str) : t.get k = [] ∨ (k, t.get k) ∈ t := by
  unfold Table.get
  cases h : t.lookup k with
  | none => left; rfl
  | some rs => right; exact mem_of_lookup h

/-! ### route lists -/

/-- targets of the route for `p` in a route list -/
def tgs (rs : List Route) (p : Str) : List Target :=
  match findRoute rs p with
  | some r => r.targets
  | none => []

theorem targetsAt_eq (t : Table) (h p : Str) : targetsAt t h p = tgs (t.get h) p := rfl

theorem tgs_nil (p : Str) : tgs [] p = [] := rfl

theorem tgs_cons (r : Route) (rs : List Route) (p : Str) :
    tgs (r :: rs) p = if r.path == p then r.targets else tgs rs p := by
  unfold tgs findRoute
  rw [List.find?_cons]
  cases (r.path == p) <;> rfl

theorem tgs_of_not_mem (rs : List Route) (p : Str) (h : p ∉ rs.map (·.path)) : tgs rs p = [] := by
  induction rs with
  | nil => rfl
  | cons r rs ih =>
    simp only [List.map_cons, List.mem_cons, not_or] at h
    rw [tgs_cons, ih h.2]
    have : (r.path == p) = false := by simpa using fun e => h.1 e.symm
    simp [this]

theorem tgs_replace_ne (rs : List Route) (r' : Route) (p : Str) (h : p ≠ r'.path) :
    tgs (replaceRoute rs r') p = tgs rs p := by
  induction rs with
  | nil => rfl
  | cons x rs ih =>
    unfold replaceRoute at ih ⊢
    simp only [List.map_cons, tgs_cons, ih]
    cases hx : (x.path == r'.path)
    · rfl
    · have hxp : x.path = r'.path := by simpa using hx
      have h1 : (r'.path == p) = false := by simpa using fun e => h e.symm
      simp [hxp, h1]

theorem tgs_replace_eq (rs : List Route) (r' : Route) (h : ∃ x ∈ rs, x.path = r'.path) :
    tgs (replaceRoute rs r') r'.path = r'.targets := by
  induction rs with
  | nil => obtain ⟨x, hx, _⟩ := h; cases hx
  | cons x rs ih =>
    unfold replaceRoute at ih ⊢
    simp only [List.map_cons, tgs_cons]
    cases hx : (x.path == r'.path)
    · have hxp : x.path ≠ r'.path := by simpa using hx
      simp only [Bool.false_eq_true, if_false, hx]
      apply ih
      obtain ⟨y, hy, hyp⟩ := h
      cases hy with
      | head => exact absurd hyp hxp
      | tail _ hy => exact ⟨y, hy, hyp⟩
    · simp

theorem replace_paths (rs : List Route) (r' : Route) : (replaceRoute rs r').map (·.path) = rs.map (·.path) := by
  unfold replaceRoute
  rw [List.map_map]
  apply List.map_congr_left
  intro x _
  simp only [Function.comp]
  cases hx : (x.path == r'.path)
  · rfl
  · have : x.path = r'.path := by simpa using hx
    simp [this]

theorem mem_replace {rs : List Route} {r' x : Route} (h : x ∈ replaceRoute rs r') : x = r' ∨ x ∈ rs := by
  unfold replaceRoute at h
  obtain ⟨y, hy, hyx⟩ := List.mem_map.mp h
  split at hyx
  · left; exact hyx.symm
  · right; rw [← hyx]; exact hy

/-! ### `Table.set` on a present host -/

theorem set_eq_map {t : Table} {host : Str} {rs0 : List Route} (rs' : List Route)
    (hh : t.lookup host = some rs0) :
    t.set host rs' = t.map (fun kv => if kv.1 == host then (host, rs') else kv) := by
  unfold Table.set
  have : t.any (fun kv => kv.1 == host) = true := by
    rw [List.any_eq_true]
    exact ⟨(host, rs0), mem_of_lookup hh, by simp⟩
  rw [if_pos this]

theorem lookup_setmap (t : Table) (host : Str) (rs' : List Route) (k : Str) :
    (t.map (fun kv => if kv.1 == host then (host, rs') else kv)).lookup k
      = if k = host then (t.lookup host).map (fun _ => rs') else t.lookup k := by
  induction t with
  | nil => simp
  | cons a l ih =>
    obtain ⟨k', v⟩ := a
    simp only [List.map_cons]
    by_cases h1 : k' = host
    · subst h1
      simp only [beq_self_eq_true, if_true, List.lookup_cons, ih]
      by_cases h2 : k = k'
      · subst h2; simp
      · have : (k == k') = false := by simpa using h2
        simp [this, h2]
    · have h1' : (k' == host) = false := by simpa using h1
      simp only [h1', Bool.false_eq_true, if_false, List.lookup_cons, ih]
      by_cases h2 : k = k'
      · subst h2; simp [h1]
      · have : (k == k') = false := by simpa using h2
        have h3 : (host == k') = false := by simpa using fun e => h1 e.symm
        simp [this, h3]

theorem get_set {t : Table} {host : Str} {rs0 : List Route} (rs' : List Route)
    (hh : t.lookup host = some rs0) (k : Str) :
    (t.set host rs').get k = if k = host then rs' else t.get k := by
  rw [set_eq_map rs' hh]
  unfold Table.get
  rw [lookup_setmap, hh]
  split <;> rfl

theorem keys_setmap (t : Table) (host : Str) (rs' : List Route) :
    (t.map (fun kv => if kv.1 == host then (host, rs') else kv)).map (·.1) = t.map (·.1) := by
  rw [List.map_map]
  apply List.map_congr_left
  intro kv _
  simp only [Function.comp]
  by_cases h : kv.1 = host
  · simp [h]
  · have : (kv.1 == host) = false := by simpa using h
    simp [this]

theorem mem_set {t : Table} {host : Str} {rs0 rs' : List Route} (hh : t.lookup host = some rs0)
    {kv : Str × List Route} (h : kv ∈ t.set host rs') : kv = (host, rs') ∨ kv ∈ t := by
  rw [set_eq_map rs' hh] at h
  obtain ⟨kv0, h0, he⟩ := List.mem_map.mp h
  split at he
  · left; exact he.symm
  · right; rw [← he]; exact h0

theorem wf_set {t : Table} {host : Str} {rs0 rs' : List Route} (hw : WF t) (hh : t.lookup host = some rs0)
    (hp : (rs'.map (·.path)).Nodup) (hho : ∀ r ∈ rs', r.host = host) : WF (t.set host rs') := by
  refine ⟨?_, ?_, ?_⟩
  · rw [set_eq_map rs' hh, keys_setmap]; exact hw.hosts
  · intro kv hkv
    rcases mem_set hh hkv with he | hm
    · subst he; exact hp
    · exact hw.paths kv hm
  · intro kv hkv
    rcases mem_set hh hkv with he | hm
    · subst he; exact hho
    · exact hw.hostOf kv hm

/-- facts about a found route -/
theorem route_some {t : Table} {host path : Str} {r : Route} (h : t.route host path = some r) :
    ∃ rs0, t.lookup host = some rs0 ∧ t.get host = rs0 ∧ r ∈ rs0 ∧ r.path = path := by
  unfold Table.route Table.get at h
  cases hl : t.lookup host with
  | none => rw [hl] at h; cases h
  | some rs0 =>
    rw [hl] at h
    unfold findRoute at h
    refine ⟨rs0, rfl, by simp [Table.get, hl], List.mem_of_find?_eq_some h, ?_⟩
    simpa using List.find?_some h


/-! ## (1) `route weight` -/

/-- the target list `setWeight` installs (count of matches `n` inlined) -/
def newTargets (ts : List Target) (d : RouteDef) : List Target :=
  weigh (ts.map (fun t => if matchesWeight d.service d.tags t then
    { t with fixedWeight := d.weight / (((ts.filter (matchesWeight d.service d.tags)).length : Nat) : Rat) } else t))

theorem newTargets_length (ts : List Target) (d : RouteDef) : (newTargets ts d).length = ts.length := by
  unfold newTargets; rw [weigh_length, List.length_map]

theorem weighRoute_eq (t : Table) (d : RouteDef) : weighRoute t d =
    if d.src.isEmpty then .error .invalidPrefix else
    match t.route (key d.src).1 (key d.src).2 with
    | none => .error .noMatch
    | some r =>
      if (r.targets.filter (matchesWeight d.service d.tags)).length = 0 then .error .noMatch
      else .ok (t.set (key d.src).1 (replaceRoute (t.get (key d.src).1) { r with targets := newTargets r.targets d })) := by
  unfold weighRoute key
  generalize hostpath d.src = hp
  obtain ⟨a, b⟩ := hp
  dsimp only
  split
  · rfl
  · cases t.route (lowerL a) b with
    | none => rfl
    | some r =>
      dsimp only
      unfold Route.setWeight newTargets
      dsimp only
      split <;> simp [*]

theorem wf_setReplace {t : Table} {host path : Str} {r : Route} (r' : Route) (hw : WF t)
    (h : t.route host path = some r) (hho : r'.host = r.host) :
    WF (t.set host (replaceRoute (t.get host) r')) := by
  obtain ⟨rs0, hl, hg, hr, hp⟩ := route_some h
  have hm := mem_of_lookup hl
  rw [hg]
  apply wf_set hw hl
  · rw [replace_paths]; exact hw.paths _ hm
  · intro x hx
    rcases mem_replace hx with he | hx
    · subst he; rw [hho]; exact hw.hostOf _ hm r hr
    · exact hw.hostOf _ hm x hx

theorem abs_setReplace {t : Table} {host path : Str} {r : Route} (r' : Route)
    (h : t.route host path = some r) (hpr : r'.path = r.path) :
    abs (t.set host (replaceRoute (t.get host) r')) = upd (abs t) host path r'.targets := by
  obtain ⟨rs0, hl, hg, hr, hp⟩ := route_some h
  funext h' p'
  unfold abs
  rw [targetsAt_eq, get_set _ hl]
  unfold upd
  by_cases hh : h' = host
  · subst hh
    rw [if_pos rfl]
    by_cases hpp : p' = path
    · subst hpp
      rw [if_pos ⟨rfl, rfl⟩]
      have : r'.path = p' := by rw [hpr]; exact hp
      rw [← this, tgs_replace_eq]
      exact ⟨r, by rw [hg]; exact hr, hpr.symm⟩
    · rw [if_neg (fun h => hpp h.2)]
      rw [tgs_replace_ne]
      · rfl
      · intro he; apply hpp; rw [he, hpr]; exact hp
  · rw [if_neg hh, if_neg (fun h => hh h.1)]
    rfl

section main
variable {env : Env} {t t1 t' : Table} {d : RouteDef}

theorem inv_weigh (hi : Inv t) (h : weighRoute t d = .ok t1) : Inv t1 := by
  rw [weighRoute_eq] at h
  split at h
  · cases h
  · split at h
    · cases h
    · rename_i r hr
      split at h
      · cases h
      · cases h
        obtain ⟨rs0, hl, hg, hrm, hp⟩ := route_some hr
        have hm := mem_of_lookup hl
        refine ⟨wf_setReplace _ hi.wf hr rfl, ?_, ?_⟩
        · intro kv hkv
          rcases mem_set hl hkv with he | hkv
          · subst he
            refine ⟨?_, ?_⟩
            · have h0 : rs0 ≠ [] := (hi.noEmpty _ hm).1
              rw [hg]
              intro hnil
              apply h0
              have := congrArg List.length hnil
              unfold replaceRoute at this
              rw [List.length_map] at this
              exact List.eq_nil_of_length_eq_zero this
            · intro x hx
              rcases mem_replace hx with he | hx
              · subst he
                have h0 : r.targets ≠ [] := (hi.noEmpty _ hm).2 r hrm
                intro hnil
                apply h0
                have := congrArg List.length hnil
                dsimp only at this
                rw [newTargets_length] at this
                exact List.eq_nil_of_length_eq_zero this
              · rw [hg] at hx; exact (hi.noEmpty _ hm).2 x hx
          · exact hi.noEmpty kv hkv
        · intro kv hkv x hx
          rcases mem_set hl hkv with he | hkv
          · subst he
            rcases mem_replace hx with he | hx
            · subst he; exact weigh_weigh _
            · rw [hg] at hx; exact hi.weighed _ hm x hx
          · exact hi.weighed kv hkv x hx

-- (`hi` is not needed: the refinement holds for every table)
set_option linter.unusedVariables false in
theorem weigh_refines (hi : Inv t) : (weighRoute t d).map abs = specWeigh (abs t) d := by
  rw [weighRoute_eq]
  unfold specWeigh
  dsimp only
  by_cases he : d.src.isEmpty = true
  · rw [if_pos he, if_pos he]; rfl
  · rw [if_neg he, if_neg he]
    cases hr : t.route (key d.src).1 (key d.src).2 with
    | none =>
      have habs : abs t (key d.src).1 (key d.src).2 = [] := by simp only [abs, targetsAt, hr]
      rw [habs]
      rfl
    | some r =>
      have habs : abs t (key d.src).1 (key d.src).2 = r.targets := by simp only [abs, targetsAt, hr]
      rw [habs]
      dsimp only
      split
      · rfl
      · simp only [Except.map]
        rw [abs_setReplace { r with targets := newTargets r.targets d } hr rfl]
        rfl

theorem host_case_weight (s' : Str) (hk : key d.src = key s') (he : d.src.isEmpty = s'.isEmpty) :
    weighRoute t d = weighRoute t { d with src := s' } := by
  rw [weighRoute_eq, weighRoute_eq]
  simp only [hk, he]
  rfl

theorem hosts_weigh (h : weighRoute t d = .ok t1) : t1.map (·.1) = t.map (·.1) := by
  rw [weighRoute_eq] at h
  split at h
  · cases h
  · split at h
    · cases h
    · rename_i r hr
      split at h
      · cases h
      · cases h
        obtain ⟨rs0, hl, _, _, _⟩ := route_some hr
        rw [set_eq_map _ hl, keys_setmap]

end main

/-! ## (2) the final sort -/

/-- `Routes.Less` (arguments swapped): compare two routes by path -/
def rlt (a b : Route) : Bool := pathLt a.path b.path

theorem insertDesc_eq (r : Route) (l : List Route) : insertDesc r l = ins rlt r l := by
  induction l with
  | nil => rfl
  | cons x xs ih =>
    unfold insertDesc ins
    rw [ih]
    rfl

theorem sortRoutes_eq (rs : List Route) : sortRoutes rs = isort rlt rs := by
  unfold sortRoutes isort
  congr 1
  funext r l
  exact insertDesc_eq r l

def SortedDesc (rs : List Route) : Prop := rs.Pairwise (fun a b => pathLt b.path a.path = true)

theorem sortedDesc_iff (rs : List Route) : SortedDesc rs ↔ Desc rlt rs := Iff.rfl

theorem rlt_trans (a b c : Route) (h1 : rlt a b = true) (h2 : rlt b c = true) : rlt a c = true :=
  pathLt_trans _ _ _ h1 h2

theorem comparable_of_nodup (rs : List Route) (hu : (rs.map (·.path)).Nodup) :
    rs.Pairwise (fun a b => rlt a b = true ∨ rlt b a = true) := by
  unfold List.Nodup at hu
  rw [List.pairwise_map] at hu
  apply hu.imp
  intro a b hne
  rcases pathLt_tri a.path b.path with h | h | h
  · left; exact h
  · exact absurd h hne
  · right; exact h

theorem sortRoutes_perm (rs : List Route) : (sortRoutes rs).Perm rs := by
  rw [sortRoutes_eq]; exact isort_perm rlt rs

theorem sortRoutes_sorted (rs : List Route) (hu : (rs.map (·.path)).Nodup) : SortedDesc (sortRoutes rs) := by
  rw [sortRoutes_eq]
  exact isort_desc rlt rlt_trans rs (comparable_of_nodup rs hu)

theorem sort_unique (rs l : List Route) (hu : (rs.map (·.path)).Nodup) (hp : l.Perm rs) (hs : SortedDesc l) :
    l = sortRoutes rs :=
  desc_unique rlt (fun _ _ h1 h2 => pathLt_asymm _ _ h1 h2) l (sortRoutes rs)
    (hp.trans (sortRoutes_perm rs).symm) hs (sortRoutes_sorted rs hu)

def sortTable (t : Table) : Table := t.map (fun kv => (kv.1, sortRoutes kv.2))

theorem tgs_perm {l1 l2 : List Route} (hp : l1.Perm l2) (hn : (l1.map (·.path)).Nodup) (p : Str) :
    tgs l1 p = tgs l2 p := by
  induction hp with
  | nil => rfl
  | cons x _ ih =>
    simp only [List.map_cons, List.nodup_cons] at hn
    simp only [tgs_cons, ih hn.2]
  | swap x y l =>
    simp only [List.map_cons, List.nodup_cons, List.mem_cons, not_or] at hn
    simp only [tgs_cons]
    cases hx : (x.path == p)
    · rfl
    · cases hy : (y.path == p)
      · rfl
      · have h1 : x.path = p := by simpa using hx
        have h2 : y.path = p := by simpa using hy
        exact absurd (h2.trans h1.symm) hn.1.1
  | trans h1 _ ih1 ih2 =>
    rw [ih1 hn]
    exact ih2 ((h1.map _).nodup hn)

theorem get_sortTable (t : Table) (h : Str) : (sortTable t).get h = sortRoutes (t.get h) := by
  unfold sortTable Table.get
  rw [lookup_map_snd sortRoutes]
  cases t.lookup h <;> rfl

section main2
variable {t t' : Table}

theorem inv_sort (hi : Inv t) : Inv (sortTable t) := by
  refine ⟨⟨?_, ?_, ?_⟩, ?_, ?_⟩
  · unfold sortTable; rw [keys_map_snd sortRoutes]; exact hi.wf.hosts
  · intro kv hkv
    obtain ⟨kv0, h0, he⟩ := List.mem_map.mp hkv
    subst he
    exact ((sortRoutes_perm kv0.2).map _).symm.nodup (hi.wf.paths kv0 h0)
  · intro kv hkv r hr
    obtain ⟨kv0, h0, he⟩ := List.mem_map.mp hkv
    subst he
    exact hi.wf.hostOf kv0 h0 r ((sortRoutes_perm kv0.2).mem_iff.mp hr)
  · intro kv hkv
    obtain ⟨kv0, h0, he⟩ := List.mem_map.mp hkv
    subst he
    refine ⟨?_, ?_⟩
    · intro hnil
      apply (hi.noEmpty kv0 h0).1
      have := (sortRoutes_perm kv0.2).length_eq
      dsimp only at hnil
      rw [hnil] at this
      exact List.eq_nil_of_length_eq_zero this.symm
    · intro r hr
      exact (hi.noEmpty kv0 h0).2 r ((sortRoutes_perm kv0.2).mem_iff.mp hr)
  · intro kv hkv r hr
    obtain ⟨kv0, h0, he⟩ := List.mem_map.mp hkv
    subst he
    exact hi.weighed kv0 h0 r ((sortRoutes_perm kv0.2).mem_iff.mp hr)

theorem abs_sort (hw : WF t) : abs (sortTable t) = abs t := by
  funext h p
  unfold abs
  rw [targetsAt_eq, targetsAt_eq, get_sortTable]
  rcases get_mem_or_nil t h with he | hm
  · rw [he]; rfl
  · exact (tgs_perm (sortRoutes_perm _).symm (hw.paths _ hm) p).symm

/-! ## (3) the order of the association list (Go map iteration order) is irrelevant -/

theorem lookup_perm {t t' : Table} (hp : t.Perm t') (hn : (t.map (·.1)).Nodup) (k : Str) :
    t'.lookup k = t.lookup k := by
  induction hp with
  | nil => rfl
  | cons x _ ih =>
    simp only [List.map_cons, List.nodup_cons] at hn
    obtain ⟨k', v⟩ := x
    simp only [List.lookup_cons, ih hn.2]
  | swap x y l =>
    simp only [List.map_cons, List.nodup_cons, List.mem_cons, not_or] at hn
    obtain ⟨kx, vx⟩ := x
    obtain ⟨ky, vy⟩ := y
    simp only [List.lookup_cons]
    cases hx : (k == kx)
    · rfl
    · cases hy : (k == ky)
      · rfl
      · have h1 : k = kx := by simpa using hx
        have h2 : k = ky := by simpa using hy
        exact absurd (h2.symm.trans h1) hn.1.1
  | trans h1 _ ih1 ih2 =>
    rw [ih2 ((h1.map _).nodup hn)]
    exact ih1 hn

theorem get_perm (hw : WF t) (hp : t.Perm t') : t'.get = t.get := by
  funext h
  unfold Table.get
  rw [lookup_perm hp hw.hosts]

theorem inv_perm (hi : Inv t) (hp : t.Perm t') : Inv t' := by
  refine ⟨⟨?_, ?_, ?_⟩, ?_, ?_⟩
  · exact (hp.map _).nodup hi.wf.hosts
  · intro kv hkv; exact hi.wf.paths kv (hp.mem_iff.mpr hkv)
  · intro kv hkv; exact hi.wf.hostOf kv (hp.mem_iff.mpr hkv)
  · intro kv hkv; exact hi.noEmpty kv (hp.mem_iff.mpr hkv)
  · intro kv hkv; exact hi.weighed kv (hp.mem_iff.mpr hkv)

theorem abs_perm (hw : WF t) (hp : t.Perm t') : abs t' = abs t := by
  funext h p
  unfold abs
  rw [targetsAt_eq, targetsAt_eq, get_perm hw hp]

theorem insertHostDesc_eq (h : Str) (l : List Str) : insertHostDesc h l = ins strLt h l := by
  induction l with
  | nil => rfl
  | cons x xs ih => simp only [insertHostDesc, ins, ih]

theorem hostOrder_eq (t : Table) :
    hostOrder t = isort strLt ((t.map (·.1)).filter (fun h => !h.isEmpty)) ++ [[]] := by
  unfold hostOrder isort
  congr 2
  funext h l
  exact insertHostDesc_eq h l

theorem comparable_strs (l : List Str) (hu : l.Nodup) :
    l.Pairwise (fun a b => strLt a b = true ∨ strLt b a = true) := by
  unfold List.Nodup at hu
  apply hu.imp
  intro a b hne
  rcases strLt_tri a b with h | h | h
  · left; exact h
  · exact absurd h hne
  · right; exact h

theorem hostOrder_perm (hw : WF t) (hp : t.Perm t') : hostOrder t' = hostOrder t := by
  rw [hostOrder_eq, hostOrder_eq]
  congr 1
  have hp' : ((t'.map (·.1)).filter (fun h => !h.isEmpty)).Perm ((t.map (·.1)).filter (fun h => !h.isEmpty)) :=
    ((hp.map _).filter _).symm
  have hn : ((t.map (·.1)).filter (fun h => !h.isEmpty)).Nodup :=
    List.Nodup.sublist List.filter_sublist hw.hosts
  have hn' := hp'.symm.nodup hn
  apply desc_unique strLt strLt_asymm
  · exact ((isort_perm strLt _).trans hp').trans (isort_perm strLt _).symm
  · exact isort_desc strLt strLt_trans _ (comparable_strs _ hn')
  · exact isort_desc strLt strLt_trans _ (comparable_strs _ hn)

theorem render_perm (hw : WF t) (hp : t.Perm t') : render t' = render t := by
  unfold render config
  rw [hostOrder_perm hw hp, get_perm hw hp]

end main2

/-! ## non-vacuity: concrete instances on which the hypotheses hold and the conclusions say something -/

section examples

def tA (fw w : Rat) : Target :=
  { service := ['a'], tags := [['x']], opts := [], url := ['u', 'a'], fixedWeight := fw, weight := w }
def tB (fw w : Rat) : Target :=
  { service := ['b'], tags := [['y']], opts := [], url := ['u', 'b'], fixedWeight := fw, weight := w }

/-- host `h`: `/` ↦ a (1/2), b (1/2), both dynamic; host `g`: `/` ↦ b -/
def tab0 : Table :=
  [(['h'], [⟨['h'], ['/'], [tA 0 (1/2), tB 0 (1/2)]⟩]), (['g'], [⟨['g'], ['/'], [tB 0 1]⟩])]

/-- after `route weight a H/ weight 0.25`: exactly target a gets the fixed share 1/4, b takes the rest -/
def tabW : Table :=
  [(['h'], [⟨['h'], ['/'], [tA (1/4) (1/4), tB 0 (3/4)]⟩]), (['g'], [⟨['g'], ['/'], [tB 0 1]⟩])]

def dW : RouteDef := { cmd := .weight, service := ['a'], src := ['H', '/'], weight := 1/4 }
/-- no target of `h/` has service `c` -/
def dNone : RouteDef := { cmd := .weight, service := ['c'], src := ['h', '/'], weight := 1/4 }

theorem inv_tab0 : Inv tab0 :=
  ⟨⟨by decide, by decide, by decide⟩, by unfold NoEmpty; decide, by unfold Weighed; decide +kernel⟩

/-- `Except Err Table` has no `DecidableEq` instance in core: decide through a Boolean test -/
def okIs (x : Except Err Table) (t : Table) : Bool :=
  match x with
  | .ok y => decide (y = t)
  | .error _ => false

theorem eq_of_okIs {x : Except Err Table} {t : Table} (h : okIs x t = true) : x = .ok t := by
  cases x with
  | error e => simp [okIs] at h
  | ok y => simp only [okIs, decide_eq_true_eq] at h; rw [h]

def errIs (x : Except Err Table) (e : Err) : Bool :=
  match x with
  | .ok _ => false
  | .error e' => decide (e' = e)

theorem eq_of_errIs {x : Except Err Table} {e : Err} (h : errIs x e = true) : x = .error e := by
  cases x with
  | error e' => simp only [errIs, decide_eq_true_eq] at h; rw [h]
  | ok y => simp [errIs] at h

theorem weigh_tab0 : weighRoute tab0 dW = .ok tabW := eq_of_okIs (by decide +kernel)

-- `inv_weigh`: hypotheses hold, the result is a different table, and exactly one target's fixed weight changed
example : Inv tabW ∧ tabW ≠ tab0 := ⟨inv_weigh inv_tab0 weigh_tab0, by decide +kernel⟩
example : (abs tab0 ['h'] ['/']).map (·.fixedWeight) = [0, 0] ∧
    (abs tabW ['h'] ['/']).map (·.fixedWeight) = [1/4, 0] ∧
    (abs tabW ['h'] ['/']).map (·.weight) = [1/4, 3/4] ∧
    abs tabW ['g'] ['/'] = abs tab0 ['g'] ['/'] := by decide +kernel
-- `weigh_refines`: both sides `.ok`, common value differs from `abs tab0`
example : specWeigh (abs tab0) dW = .ok (abs tabW) := by
  rw [← weigh_refines inv_tab0, weigh_tab0]; rfl
-- the error branch (no target matches) is refined too
theorem weigh_none : weighRoute tab0 dNone = .error .noMatch := eq_of_errIs (by decide +kernel)
example : specWeigh (abs tab0) dNone = .error .noMatch := by
  rw [← weigh_refines inv_tab0, weigh_none]; rfl
-- `host_case_weight`: `H/` and `h/` address the same route
example : weighRoute tab0 dW = weighRoute tab0 { dW with src := ['h', '/'] } :=
  host_case_weight ['h', '/'] (by decide) (by decide)
example : dW.src ≠ ['h', '/'] := by decide
-- `hosts_weigh`
example : tabW.map (·.1) = [['h'], ['g']] := by rw [hosts_weigh weigh_tab0]; decide

/-- three routes; `/B` and `/b` differ only in letter case -/
def rs0 : List Route := [⟨['h'], ['/', 'a'], []⟩, ⟨['h'], ['/', 'B'], []⟩, ⟨['h'], ['/', 'b'], []⟩]
def rs1 : List Route := [⟨['h'], ['/', 'b'], []⟩, ⟨['h'], ['/', 'B'], []⟩, ⟨['h'], ['/', 'a'], []⟩]

example : sortRoutes rs0 = rs1 ∧ rs1 ≠ rs0 := by decide
instance (rs : List Route) : Decidable (SortedDesc rs) := by unfold SortedDesc; infer_instance
example : ¬ SortedDesc rs0 ∧ SortedDesc rs1 ∧ (rs0.map (·.path)).Nodup := by decide
-- `sort_unique`: another permutation that is sorted must be the result of `sortRoutes`
example : rs1 = sortRoutes [rs0[2], rs0[0], rs0[1]] :=
  sort_unique _ rs1 (by decide) (by decide) (by decide)
-- with a duplicate path the descending order does not exist (the hypothesis `Nodup` is needed)
example : ¬ SortedDesc (sortRoutes [⟨['h'], ['/'], []⟩, ⟨['h'], ['/'], []⟩]) := by decide

-- `sortTable` / `abs_sort` / the permutation theorems on a table that really changes
def tab2 : Table := [(['h'], rs0), (['g'], [⟨['g'], ['/'], [tB 0 1]⟩])]
example : sortTable tab2 = [(['h'], rs1), (['g'], [⟨['g'], ['/'], [tB 0 1]⟩])] ∧ sortTable tab2 ≠ tab2 := by
  decide +kernel
theorem wf_tab2 : WF tab2 := ⟨by decide, by decide, by decide⟩
example : abs (sortTable tab2) = abs tab2 := abs_sort wf_tab2
example : Inv (sortTable tab0) := inv_sort inv_tab0
example : tab0.reverse ≠ tab0 ∧ Inv tab0.reverse ∧ abs tab0.reverse = abs tab0 ∧ render tab0.reverse = render tab0 :=
  ⟨by decide +kernel, inv_perm inv_tab0 (List.reverse_perm _).symm, abs_perm inv_tab0.wf (List.reverse_perm _).symm,
   render_perm inv_tab0.wf (List.reverse_perm _).symm⟩
-- hosts come out in descending order whatever the order of the association list
example : hostOrder tab0 = [['h'], ['g'], []] ∧ hostOrder tab0.reverse = [['h'], ['g'], []] := by decide

end examples

end Fabio.Lemmas.C05Weight
