import Fabio.Model.C14Watch
import Fabio.Lemmas.C14
import Fabio.Lemmas.C05Glue
/-!
C14, round 4 — helper lemmas for the composition of `makeConfig`'s text with the `watchBackend` iteration
(`Model/C14Watch.lean`): the trailing `"\n"` the loop appends (empty manual text) changes nothing for either
reader, `ParseAliases` accepts what `Parse` accepts, and the loop invariant "the remembered text is the text the
active table was built from".
-/
namespace Fabio.Lemmas.C14Watch
open Fabio Fabio.Model.Route Fabio.Model.C14 Fabio.Model.C14Watch Fabio.Lemmas.C14
open Fabio.Model.Parse hiding render config
open Fabio.Model.C05Glue (parseAliases registerNames aliasDefs)

theorem splitOn_nil (c : Char) : splitOn c [] = [[]] := by simp [splitOn]

/-- a final newline adds one blank line, which `route.Parse` skips -/
theorem parse_snoc_nl (pf : ParseFloat) (a : Str) : parse pf (a ++ ['\n']) = parse pf a := by
  unfold Fabio.Model.Parse.parse
  rw [parseLines_rawLines, parseLines_rawLines, splitOn_append_sep, splitOn_nil, parseLines_snoc_blank]

theorem loadTable_snoc_nl (env : Env) (pf : ParseFloat) (a : Str) :
    loadTable env pf (a ++ ['\n']) = loadTable env pf a := by
  unfold loadTable
  rw [parse_snoc_nl]

/-- every text `route.Parse` accepts is accepted by `route.ParseAliases`, which returns the `register` options of
the parsed definitions in order (as `Props.C05.aliases_agree_with_parse`; restated here so that C14 depends on
the C05 lemma files only) -/
theorem aliases_of_parse {pf : ParseFloat} {text : Str} {defs : List RouteDef} (h : parse pf text = .ok defs) :
    parseAliases pf text = .ok (registerNames defs) := by
  unfold parseAliases
  rw [Fabio.Lemmas.C05Glue.aliasDefs_rawLines,
    (Fabio.Lemmas.C05Glue.alias_transfer pf 1 (rawLines text)).1 defs
      (by rw [← Fabio.Lemmas.C05Glue.parse_eq_scan]; exact h)]

/-! ### the loop invariant -/

/-- the remembered text is the initial `""` or the text the active table was built from -/
def Inv (env : Env) (pf : ParseFloat) (s : WState) : Prop :=
  s.lastTable = [] ∨ loadTable env pf s.lastTable = .ok s.table

theorem inv_init (env : Env) (pf : ParseFloat) : Inv env pf init := .inl rfl

theorem nextText_ne_nil (s : WState) : nextText s ≠ [] := by
  unfold nextText
  intro h
  have := congrArg List.length h
  simp at this

theorem inv_step {env : Env} {pf : ParseFloat} {s : WState} (h : Inv env pf s) (e : WEv) :
    Inv env pf (step env pf s e) := by
  have hr : Inv env pf (receive s e) := by
    cases e <;> exact h
  unfold step
  simp only
  split
  · exact hr
  · split
    · next herr => exact hr
    · next t ht => exact .inr ht

/-- once a text has been remembered, `first` has been closed -/
def Started (s : WState) : Prop := s.lastTable ≠ [] → s.started = true

theorem started_init : Started init := fun h => absurd rfl h

theorem started_step {env : Env} {pf : ParseFloat} {s : WState} (h : Started s) (e : WEv) :
    Started (step env pf s e) := by
  have hr : Started (receive s e) := by
    cases e <;> exact h
  unfold step
  simp only
  split
  · exact hr
  · split
    · exact hr
    · intro _; rfl

/-- a `svc` event leaves the manual text alone -/
theorem step_svc_mancfg (env : Env) (pf : ParseFloat) (s : WState) (t : Str) :
    (step env pf s (.svc t)).mancfg = s.mancfg := by
  unfold step
  simp only
  split
  · rfl
  · split <;> rfl

/-- **one iteration installs the text it receives**: with no manual overrides, an iteration that receives a text
`NewTable` accepts ends with the table of that text active — whether it went through `route.SetTable` in this
iteration or found the text unchanged (then the active table already is the table of that text). -/
theorem step_installs {env : Env} {pf : ParseFloat} {s : WState} (hs : Inv env pf s) (hm : s.mancfg = [])
    {text : Str} {t : Table} (ht : loadTable env pf text = .ok t) :
    (step env pf s (.svc text)).table = t := by
  have hnext : nextText (receive s (.svc text)) = text ++ ['\n'] := by
    simp [nextText, receive, hm]
  have hload : loadTable env pf (nextText (receive s (.svc text))) = .ok t := by
    rw [hnext, loadTable_snoc_nl]; exact ht
  unfold step
  simp only
  split
  · next heq =>
    have heq : nextText (receive s (.svc text)) = s.lastTable := by simpa [receive] using heq
    rcases hs with h0 | h1
    · exact absurd (heq.trans h0) (nextText_ne_nil _)
    · rw [← heq, hload] at h1
      injection h1 with h1
      exact h1.symm
  · rw [hload]

/-- … and fabio is serving afterwards -/
theorem step_started {env : Env} {pf : ParseFloat} {s : WState} (hs : Started s)
    {e : WEv} {t : Table} (ht : loadTable env pf (nextText (receive s e)) = .ok t) :
    (step env pf s e).started = true := by
  have hr : Started (receive s e) := by
    cases e <;> exact hs
  unfold step
  simp only
  split
  · next heq =>
    have heq : nextText (receive s e) = (receive s e).lastTable := by simpa using heq
    exact hr (by rw [← heq]; exact nextText_ne_nil _)
  · rw [ht]

end Fabio.Lemmas.C14Watch
