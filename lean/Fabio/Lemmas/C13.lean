import Fabio.Model.C13
/-! Helper lemmas for `Props/C13.lean` (core Lean only). -/
namespace Fabio.Lemmas.C13
open Fabio Fabio.Model.C13

/-- bytes that pass through `net/url` path escaping untouched in both directions -/
def plain (a : Str) : Bool := a.all (fun c => c != 37 && !shouldEscape c .path)

theorem unescape_cons_ne (c : UInt8) (rest : Str) (h : c ≠ 37) :
    unescape (c :: rest) = (unescape rest).map (fun r => c :: r) := by
  rw [unescape.eq_def]
  split
  all_goals first | (simp_all; done) | (rename_i heq; cases heq; rfl) | (rename_i heq; cases heq; simp_all)

theorem unescape_plain_append (a b : Str) (h : plain a = true) :
    unescape (a ++ b) = (unescape b).map (fun r => a ++ r) := by
  induction a with
  | nil => simp
  | cons c cs ih =>
    simp only [plain, List.all_cons, Bool.and_eq_true, bne_iff_ne, ne_eq] at h
    have hc : c ≠ 37 := h.1.1
    have := ih (by simpa [plain] using h.2)
    simp only [List.cons_append]
    rw [unescape_cons_ne _ _ hc, this]
    cases unescape b <;> simp

theorem validEncoded_append (a b : Str) : validEncoded (a ++ b) = (validEncoded a && validEncoded b) := by
  simp [validEncoded, List.all_append]

theorem validEncoded_plain (a : Str) (h : plain a = true) : validEncoded a = true := by
  simp only [plain, List.all_eq_true, Bool.and_eq_true] at h
  simp only [validEncoded, List.all_eq_true, Bool.or_eq_true]
  intro c hc; exact Or.inr (h c hc).2

theorem validEncoded_drop (a : Str) (n : Nat) (h : validEncoded a = true) : validEncoded (a.drop n) = true := by
  simp only [validEncoded, List.all_eq_true] at *
  intro c hc; exact h c (List.mem_of_mem_drop hc)

theorem escape_plain (a : Str) (h : plain a = true) : escape .path a = a := by
  induction a with
  | nil => rfl
  | cons c cs ih =>
    simp only [plain, List.all_cons, Bool.and_eq_true, Bool.not_eq_true'] at h
    have := ih (by simpa [plain] using h.2)
    simp [escape, h.1.2, this]

/-- a plain path without a raw-path hint is its own escaped form -/
theorem escapedPath_plain (u : URL) (hr : u.rawPath = []) (h : plain u.path = true) : escapedPath u = u.path := by
  unfold escapedPath
  simp only [hr, ne_eq, not_true_eq_false, decide_false, Bool.false_and, Bool.false_eq_true, if_false]
  split
  · rename_i h42; simp only [beq_iff_eq] at h42; exact h42.symm
  · exact escape_plain _ h

theorem plain_append (a b : Str) : plain (a ++ b) = (plain a && plain b) := by
  simp [plain, List.all_append]

/-! ### `replace1` / `contains` on templates -/

theorem isPrefixOf_self_append (a b : Str) : a.isPrefixOf (a ++ b) = true := by
  induction a with
  | nil => simp [List.isPrefixOf]
  | cons c cs ih => simp [List.isPrefixOf, ih]

theorem replace1_vPath (x : Str) (post : Str) : replace1 vPath x (vPath ++ post) = x ++ post := by
  simp [vPath, replace1, List.isPrefixOf]

theorem replace1_vPath_append (pfx x post : Str) (h : ∀ c ∈ pfx, c ≠ 36) :
    replace1 vPath x (pfx ++ (vPath ++ post)) = pfx ++ (x ++ post) := by
  induction pfx with
  | nil => simpa using replace1_vPath x post
  | cons c cs ih =>
    have hc : c ≠ 36 := h c (by simp)
    have hc' : ¬ (36 : UInt8) = c := fun e => hc e.symm
    have := ih (fun d hd => h d (by simp [hd]))
    simp [replace1, vPath, List.isPrefixOf, hc'] at this ⊢
    exact this

theorem contains_vPath_append (pfx post : Str) : contains vPath (pfx ++ (vPath ++ post)) = true := by
  induction pfx with
  | nil => simp [vPath, contains, List.isPrefixOf]
  | cons c cs ih => simp only [List.cons_append, contains, ih, Bool.or_true]

theorem contains_cons_of (sub : Str) (c : UInt8) (cs : Str) (h : contains sub cs = true) : contains sub (c :: cs) = true := by
  simp [contains, h]

theorem replace1_vSlashPath_append (pfx post : Str) (h : ∀ c ∈ pfx, c ≠ 36) :
    replace1 vSlashPath vPath (pfx ++ (vSlashPath ++ post)) = pfx ++ (vPath ++ post) := by
  induction pfx with
  | nil => simp [vSlashPath, vPath, replace1, List.isPrefixOf]
  | cons c cs ih =>
    have ih := ih (fun d hd => h d (by simp [hd]))
    -- "/$path" cannot start at `c`: its second byte is `$`, and the byte after `c` is in `cs` or is `/`
    have hnp : vSlashPath.isPrefixOf (c :: (cs ++ (vSlashPath ++ post))) = false := by
      cases cs with
      | nil => simp [vSlashPath, vPath, List.isPrefixOf]
      | cons d ds =>
        have hd : d ≠ 36 := h d (by simp)
        have hd' : ¬ (36 : UInt8) = d := fun e => hd e.symm
        simp [vSlashPath, vPath, List.isPrefixOf, hd']
    simp only [List.cons_append, replace1, hnp, ih]
    simp

theorem contains_vSlashPath_append (pfx post : Str) : contains vSlashPath (pfx ++ (vSlashPath ++ post)) = true := by
  induction pfx with
  | nil => simp [vSlashPath, vPath, contains, List.isPrefixOf]
  | cons c cs ih => simp only [List.cons_append, contains, ih, Bool.or_true]

theorem contains_cons (sub : Str) (c : UInt8) (cs : Str) :
    contains sub (c :: cs) = (sub.isPrefixOf (c :: cs) || contains sub cs) := rfl

/-- `prefix$path` with a prefix that holds no `$` and does not end in `/` contains no `/$path`. -/
theorem not_contains_vSlashPath (pfx : Str) (h : ∀ c ∈ pfx, c ≠ 36) (hl : pfx.getLast? ≠ some 47) :
    contains vSlashPath (pfx ++ vPath) = false := by
  induction pfx with
  | nil => decide
  | cons c cs ih =>
    have ih' := ih (fun d hd => h d (by simp [hd]))
    cases cs with
    | nil =>
      have hc : c ≠ 47 := by intro e; apply hl; simp [e]
      have hc' : ¬ (47 : UInt8) = c := fun e => hc e.symm
      have e : contains vSlashPath vPath = false := by decide
      simp only [List.cons_append, List.nil_append]
      rw [contains_cons, e, Bool.or_false]
      simp [vSlashPath, List.isPrefixOf, hc']
    | cons d ds =>
      have hd : d ≠ 36 := h d (by simp)
      have hd' : ¬ (36 : UInt8) = d := fun e => hd e.symm
      have := ih' (by simpa using hl)
      simp only [List.cons_append] at this ⊢
      rw [contains_cons, this, Bool.or_false]
      simp [vSlashPath, vPath, List.isPrefixOf, hd']

/-! ### `strconv.Atoi` against the plain decimal reading of the option -/

theorem core_eq (ds : Str) :
    (if ds.isEmpty || !ds.all isDigit then (0 : Int) else
      let v := digitsVal ds
      if 300 ≤ v && v ≤ 399 then (v : Int) else 0) =
    (let r : Int × Bool := if ds.isEmpty || !ds.all isDigit then (0, true) else
        let v : Int := digitsVal ds
        (if v > maxInt then (maxInt, true) else (v, false))
     if r.2 then 0 else if r.1 < 300 || r.1 > 399 then 0 else r.1) := by
  by_cases h : (ds.isEmpty || !ds.all isDigit) = true
  · simp [h]
  · simp only [h, Bool.false_eq_true, if_false]
    generalize digitsVal ds = n
    simp only [maxInt]
    by_cases h1 : (n : Int) > 9223372036854775807
    · have : ¬ (300 ≤ n ∧ n ≤ 399) := by omega
      simp [h1, this]
    · simp only [h1, if_false, Bool.false_eq_true]
      by_cases h2 : 300 ≤ n ∧ n ≤ 399
      · have : ¬ ((n : Int) < 300 ∨ (n : Int) > 399) := by omega
        simp [h2, this]
      · have : ((n : Int) < 300 ∨ (n : Int) > 399) := by omega
        simp [h2, this]

theorem signOf_unsigned (c : UInt8) (r : Str) (c43 : c ≠ 43) (c45 : c ≠ 45) : signOf (c :: r) = (false, c :: r) := by
  unfold signOf
  split
  · rename_i heq; simp only [List.cons.injEq] at heq; exact absurd heq.1 c43
  · rename_i heq; simp only [List.cons.injEq] at heq; exact absurd heq.1 c45
  · rfl

theorem atoi_unsigned (c : UInt8) (r : Str) (c43 : c ≠ 43) (c45 : c ≠ 45) :
    atoi (c :: r) = (if (c :: r).isEmpty || !(c :: r).all isDigit then (0, true) else
        let v : Int := digitsVal (c :: r)
        (if v > maxInt then (maxInt, true) else (v, false))) := by
  simp [atoi, signOf_unsigned c r c43 c45]

theorem atoi_plus (r : Str) :
    atoi (43 :: r) = (if r.isEmpty || !r.all isDigit then (0, true) else
        let v : Int := digitsVal r
        (if v > maxInt then (maxInt, true) else (v, false))) := by
  simp [atoi, signOf]

theorem atoi_minus (r : Str) : (atoi (45 :: r)).2 = true ∨ (atoi (45 :: r)).1 ≤ 0 := by
  simp only [atoi, signOf]
  by_cases h : (r.isEmpty || !r.all isDigit) = true
  · simp [h]
  · simp only [h, Bool.false_eq_true, if_false, if_true]
    generalize digitsVal r = n
    split
    · left; rfl
    · right; simp only []; omega

end Fabio.Lemmas.C13
