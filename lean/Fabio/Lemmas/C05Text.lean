import Fabio.Model.C05Spec
/-!
C05 (text): the rendering of a table (`Table.String()`) is parsed back (`route.Parse`) to the definitions it
denotes. Core Lean only.
-/
namespace Fabio.Lemmas.C05Text
open Fabio Fabio.Model.Route Fabio.Model.Parse Fabio.Model.C05Spec

/-! ### white space -/

theorem reSpace_uniSpace (c : Char) (h : isReSpace c = true) : isUniSpace c = true := by
  simp only [isReSpace, Bool.or_eq_true, beq_iff_eq] at h
  rcases h with (((h | h) | h) | h) | h <;> subst h <;> decide

theorem not_reSpace_of_not_uniSpace (c : Char) (h : isUniSpace c = false) : isReSpace c = false := by
  cases h' : isReSpace c with
  | false => rfl
  | true => rw [reSpace_uniSpace c h'] at h; cases h

/-- the last character exists and is not trimmed -/
def LastOK (s : Str) : Prop := ∃ d, s.getLast? = some d ∧ isUniSpace d = false

theorem LastOK.append_right {b : Str} (a : Str) (h : LastOK b) : LastOK (a ++ b) := by
  obtain ⟨d, h1, h2⟩ := h
  exact ⟨d, by simp [List.getLast?_append, h1], h2⟩

theorem LastOK.of_all {a : Str} (hne : a ≠ []) (h : ∀ c ∈ a, isUniSpace c = false) : LastOK a := by
  cases hl : a.getLast? with
  | none => simp at hl; exact absurd hl hne
  | some d => exact ⟨d, hl, h d (List.mem_of_getLast? hl)⟩

theorem trimRight_lastOK {s : Str} (h : LastOK s) : trimRight s = s := by
  obtain ⟨d, h1, h2⟩ := h
  have : s.reverse.head? = some d := by simpa using h1
  unfold trimRight
  cases hr : s.reverse with
  | nil => rw [hr] at this; cases this
  | cons x xs =>
    rw [hr] at this
    simp at this
    subst this
    rw [List.dropWhile_cons, h2]
    simp only [Bool.false_eq_true, if_false]
    rw [← hr, List.reverse_reverse]

theorem trimSpace_eq {c : Char} {s : Str} (hc : isUniSpace c = false) (h : LastOK (c :: s)) :
    trimSpace (c :: s) = c :: s := by
  unfold trimSpace trimLeft
  rw [List.dropWhile_cons, hc]
  simp only [Bool.false_eq_true, if_false]
  exact trimRight_lastOK h

theorem dropCR_lastOK {s : Str} (h : LastOK s) : dropCR s = s := by
  obtain ⟨d, h1, h2⟩ := h
  have : s.reverse.head? = some d := by simpa using h1
  unfold dropCR
  cases hr : s.reverse with
  | nil => rfl
  | cons x xs =>
    rw [hr] at this
    simp at this
    subst this
    split
    · next heq =>
      simp at heq
      obtain ⟨rfl, _⟩ := heq
      exact absurd h2 (by decide)
    · rfl

/-! ### tokenizer combinators -/

theorem lit_append (p s : Str) : lit p (p ++ s) = some s := by
  simp [lit]

/-- the rest of the input after a token: nothing, or a space -/
def SpOrNil (s : Str) : Prop := s = [] ∨ ∃ t, s = ' ' :: t

theorem spOrNil_nil : SpOrNil [] := .inl rfl
theorem spOrNil_cons (t : Str) : SpOrNil (' ' :: t) := .inr ⟨t, rfl⟩

theorem takeWhile_tok (a s : Str) (ha : ∀ c ∈ a, isReSpace c = false) (hs : SpOrNil s) :
    (a ++ s).takeWhile (fun c => !isReSpace c) = a := by
  induction a with
  | nil =>
    rcases hs with rfl | ⟨t, rfl⟩
    · rfl
    · simp [isReSpace]
  | cons x xs ih =>
    have hx := ha x (by simp)
    simp only [List.cons_append, List.takeWhile_cons, hx, Bool.not_false, if_true]
    rw [ih (fun c hc => ha c (by simp [hc]))]

theorem dropWhile_tok (a s : Str) (ha : ∀ c ∈ a, isReSpace c = false) (hs : SpOrNil s) :
    (a ++ s).dropWhile (fun c => !isReSpace c) = s := by
  induction a with
  | nil =>
    rcases hs with rfl | ⟨t, rfl⟩
    · rfl
    · simp [isReSpace]
  | cons x xs ih =>
    have hx := ha x (by simp)
    simp only [List.cons_append, List.dropWhile_cons, hx, Bool.not_false, if_true]
    rw [ih (fun c hc => ha c (by simp [hc]))]

theorem tok_append (a s : Str) (hne : a ≠ []) (ha : ∀ c ∈ a, isReSpace c = false) (hs : SpOrNil s) :
    tok (a ++ s) = some (a, s) := by
  unfold tok
  simp only [takeWhile_tok a s ha hs, dropWhile_tok a s ha hs]
  cases a with
  | nil => exact absurd rfl hne
  | cons x xs => simp

/-- `\s+` in front of a token -/
theorem ws1_tok (a s : Str) (hne : a ≠ []) (ha : ∀ c ∈ a, isReSpace c = false) :
    ws1 (' ' :: (a ++ s)) = some (a ++ s) := by
  cases a with
  | nil => exact absurd rfl hne
  | cons x xs =>
    have hx := ha x (by simp)
    simp [ws1, isReSpace] at hx ⊢
    simp [isReSpace, hx]

theorem ws1_cons (x : Char) (s : Str) (hx : isReSpace x = false) :
    ws1 (' ' :: x :: s) = some (x :: s) := by
  simp [ws1, hx]
  simp [isReSpace]

theorem dropWhile_ne (d : Char) (q s : Str) (hq : d ∉ q) :
    (q ++ d :: s).dropWhile (fun c => c != d) = d :: s := by
  induction q with
  | nil => simp
  | cons x xs ih =>
    have hx : x ≠ d := fun e => hq (by simp [e])
    simp only [List.cons_append, List.dropWhile_cons]
    simp only [bne_iff_ne, ne_eq, hx, not_false_eq_true, if_true]
    exact ih (fun h => hq (by simp [h]))

theorem takeWhile_ne (d : Char) (q s : Str) (hq : d ∉ q) :
    (q ++ d :: s).takeWhile (fun c => c != d) = q := by
  induction q with
  | nil => simp
  | cons x xs ih =>
    have hx : x ≠ d := fun e => hq (by simp [e])
    simp only [List.cons_append, List.takeWhile_cons]
    simp only [bne_iff_ne, ne_eq, hx, not_false_eq_true, if_true]
    rw [ih (fun h => hq (by simp [h]))]

theorem quoted_append (q s : Str) (hq : '"' ∉ q) : quoted ('"' :: (q ++ '"' :: s)) = some (q, s) := by
  unfold quoted
  simp only [dropWhile_ne '"' q s hq, takeWhile_ne '"' q s hq]

theorem kwTok_ok (kw a s : Str) (hkne : kw ≠ []) (hkw : ∀ c ∈ kw, isReSpace c = false)
    (hne : a ≠ []) (ha : ∀ c ∈ a, isReSpace c = false) (hs : SpOrNil s) :
    kwTok kw (' ' :: (kw ++ ' ' :: (a ++ s))) = some (a, s) := by
  unfold kwTok
  rw [ws1_tok kw _ hkne hkw]
  simp only [Option.bind_eq_bind, Option.bind_some, lit_append]
  rw [ws1_tok a s hne ha]
  simp only [Option.bind_some]
  exact tok_append a s hne ha hs

theorem ws1_quote (s : Str) : ws1 (' ' :: '"' :: s) = some ('"' :: s) :=
  ws1_cons '"' s (by decide)

theorem kwQuoted_ok (kw q s : Str) (hkne : kw ≠ []) (hkw : ∀ c ∈ kw, isReSpace c = false)
    (hq : '"' ∉ q) :
    kwQuoted kw (' ' :: (kw ++ ' ' :: '"' :: (q ++ '"' :: s))) = some (q, s) := by
  unfold kwQuoted
  rw [ws1_tok kw _ hkne hkw]
  simp only [Option.bind_eq_bind, Option.bind_some, lit_append]
  rw [ws1_quote]
  simp only [Option.bind_some]
  exact quoted_append q s hq

theorem kwTok_nil (kw : Str) : kwTok kw [] = none := by simp [kwTok, ws1]
theorem kwQuoted_nil (kw : Str) : kwQuoted kw [] = none := by simp [kwQuoted, ws1]
theorem kwTok_weight_t (s : Str) : kwTok kWeight (' ' :: 't' :: s) = none := by
  simp [kwTok, ws1, lit, kWeight, isReSpace]
theorem kwTok_weight_o (s : Str) : kwTok kWeight (' ' :: 'o' :: s) = none := by
  simp [kwTok, ws1, lit, kWeight, isReSpace]
theorem kwQuoted_tags_o (s : Str) : kwQuoted kTags (' ' :: 'o' :: s) = none := by
  simp [kwQuoted, ws1, lit, kTags, isReSpace]

theorem kw_noSp : (∀ c ∈ kWeight, isReSpace c = false) ∧ (∀ c ∈ kTags, isReSpace c = false) ∧
    (∀ c ∈ kOpts, isReSpace c = false) := by decide

/-! ### `%.4f` -/

theorem digitChar_noSp (d : Nat) : isUniSpace (digitChar d) = false := by
  have h : ∀ k, k < 10 → isUniSpace (Char.ofNat (48 + k)) = false := by decide
  exact h (d % 10) (Nat.mod_lt _ (by decide))

theorem natDigitsAux_noSp (fuel n : Nat) (acc : Str) (h : ∀ c ∈ acc, isUniSpace c = false) :
    ∀ c ∈ natDigitsAux fuel n acc, isUniSpace c = false := by
  induction fuel generalizing n acc with
  | zero => simpa [natDigitsAux] using h
  | succ f ih =>
    unfold natDigitsAux
    split
    · intro c hc
      rcases List.mem_cons.1 hc with rfl | hc
      · exact digitChar_noSp _
      · exact h c hc
    · apply ih
      intro c hc
      rcases List.mem_cons.1 hc with rfl | hc
      · exact digitChar_noSp _
      · exact h c hc

theorem fmt4_noSp (w : Rat) : ∀ c ∈ fmt4 w, isUniSpace c = false := by
  intro c hc
  unfold fmt4 at hc
  simp only [List.mem_append, List.mem_cons, List.not_mem_nil, or_false] at hc
  rcases hc with hc | rfl | rfl | rfl | rfl | rfl
  · exact natDigitsAux_noSp _ _ [] (by simp) c hc
  · decide
  all_goals exact digitChar_noSp _

theorem fmt4_ne (w : Rat) : fmt4 w ≠ [] := by simp [fmt4]

theorem fmt4_lastOK (w : Rat) : LastOK (fmt4 w) := LastOK.of_all (fmt4_ne w) (fmt4_noSp w)

/-! ### `join`, `splitOn`, `fields` -/

theorem join_cons_ne (sep x : Str) (l : List Str) (h : l ≠ []) :
    join sep (x :: l) = x ++ sep ++ join sep l := by
  cases l with
  | nil => exact absurd rfl h
  | cons y r => rfl

theorem mem_join (sep : Str) (l : List Str) (c : Char) (h : c ∈ join sep l) :
    c ∈ sep ∨ ∃ x ∈ l, c ∈ x := by
  induction l with
  | nil => simp [join] at h
  | cons x l ih =>
    cases l with
    | nil => exact .inr ⟨x, by simp, by simpa [join] using h⟩
    | cons y r =>
      rw [join_cons_ne sep x (y :: r) (by simp)] at h
      simp only [List.mem_append] at h
      rcases h with (h | h) | h
      · exact .inr ⟨x, by simp, h⟩
      · exact .inl h
      · rcases ih h with h | ⟨z, hz, hc⟩
        · exact .inl h
        · exact .inr ⟨z, List.mem_cons_of_mem _ hz, hc⟩

theorem splitOn_nomem (c : Char) (a : Str) (h : c ∉ a) : splitOn c a = [a] := by
  induction a with
  | nil => rfl
  | cons x xs ih =>
    have hx : x ≠ c := fun e => h (by simp [e])
    unfold splitOn
    simp only [beq_iff_eq, hx, if_false]
    rw [ih (fun h' => h (by simp [h']))]

theorem splitOn_append (c : Char) (a s : Str) (h : c ∉ a) :
    splitOn c (a ++ c :: s) = a :: splitOn c s := by
  induction a with
  | nil => simp [splitOn]
  | cons x xs ih =>
    have hx : x ≠ c := fun e => h (by simp [e])
    rw [List.cons_append]
    simp only [splitOn, beq_iff_eq, hx, if_false]
    rw [ih (fun h' => h (by simp [h']))]

theorem splitOn_join (c : Char) (l : List Str) (hne : l ≠ []) (h : ∀ x ∈ l, c ∉ x) :
    splitOn c (join [c] l) = l := by
  induction l with
  | nil => exact absurd rfl hne
  | cons x l ih =>
    cases l with
    | nil => exact splitOn_nomem c x (h x (by simp))
    | cons y r =>
      rw [join_cons_ne [c] x (y :: r) (by simp), List.append_assoc, List.singleton_append,
        splitOn_append c x _ (h x (by simp)), ih (by simp) (fun z hz => h z (List.mem_cons_of_mem _ hz))]

theorem fieldsAux_word (w s cur : Str) (hw : ∀ c ∈ w, isUniSpace c = false) :
    fieldsAux (w ++ s) cur = fieldsAux s (w.reverse ++ cur) := by
  induction w generalizing cur with
  | nil => rfl
  | cons x xs ih =>
    have hx := hw x (by simp)
    rw [List.cons_append]
    simp only [fieldsAux, hx, Bool.false_eq_true, if_false]
    rw [ih _ (fun c hc => hw c (by simp [hc]))]
    simp

theorem fields_join (ws : List Str) (hne : ∀ w ∈ ws, w ≠ [])
    (hw : ∀ w ∈ ws, ∀ c ∈ w, isUniSpace c = false) : fields (join [' '] ws) = ws := by
  unfold fields
  induction ws with
  | nil => rfl
  | cons w l ih =>
    have hwne : w.reverse ≠ [] := by simpa using hne w (by simp)
    cases l with
    | nil =>
      show fieldsAux w [] = [w]
      have := fieldsAux_word w [] [] (hw w (by simp))
      rw [List.append_nil] at this
      rw [this]
      have hwne' : w ≠ [] := hne w (by simp)
      simp [fieldsAux, hwne']
    | cons y r =>
      rw [join_cons_ne [' '] w (y :: r) (by simp), List.append_assoc, fieldsAux_word w _ [] (hw w (by simp))]
      rw [List.singleton_append, List.append_nil]
      have hsp : isUniSpace ' ' = true := by decide
      simp only [fieldsAux, hsp, if_true, List.isEmpty_iff, hwne, if_false, List.reverse_reverse]
      rw [ih (fun z hz => hne z (List.mem_cons_of_mem _ hz)) (fun z hz => hw z (List.mem_cons_of_mem _ hz))]

theorem splitKV_renderOpt (kv : Str × Str) (h : '=' ∉ kv.1) : splitKV (renderOpt kv) = kv := by
  unfold splitKV renderOpt
  rw [List.append_assoc, List.singleton_append, takeWhile_ne '=' _ _ h, dropWhile_ne '=' _ _ h]
  rfl

theorem parseTags_join (tags : List Str) (hne : tags ≠ []) (hj : join [','] tags ≠ [])
    (h : ∀ t ∈ tags, ',' ∉ t ∧ trimSpace t = t) : parseTags (join [','] tags) = tags := by
  unfold parseTags
  simp only [List.isEmpty_iff, hj, if_false]
  rw [splitOn_join ',' tags hne (fun t ht => (h t ht).1)]
  conv => rhs; rw [← List.map_id tags]
  exact List.map_congr_left (fun t ht => (h t ht).2)

/-! ### `strLt` is a strict total order (copied from `Lemmas/C05Weight.lean`) -/

theorem strLt_irrefl (a : Str) : strLt a a = false := by
  induction a with
  | nil => rfl
  | cons x xs ih => simp [strLt, ih]

theorem strLt_trans : ∀ (a b c : Str), strLt a b = true → strLt b c = true → strLt a c = true
  | [], [], _, h, _ => by simp [strLt] at h
  | [], _ :: _, [], _, h => by simp [strLt] at h
  | [], _ :: _, _ :: _, _, _ => by simp [strLt]
  | _ :: _, [], _, h, _ => by simp [strLt] at h
  | _ :: _, _ :: _, [], _, h => by simp [strLt] at h
  | x :: xs, y :: ys, z :: zs, h1, h2 => by
    have ih := strLt_trans xs ys zs
    simp only [strLt] at h1 h2 ⊢
    split at h1
    · split at h2
      · rw [if_pos (by omega)]
      · split at h2
        · cases h2
        · rw [if_pos (by omega)]
    · split at h1
      · cases h1
      · split at h2
        · rw [if_pos (by omega)]
        · split at h2
          · cases h2
          · rw [if_neg (by omega), if_neg (by omega)]
            exact ih h1 h2

theorem strLt_tri : ∀ (a b : Str), strLt a b = true ∨ a = b ∨ strLt b a = true
  | [], [] => .inr (.inl rfl)
  | [], _ :: _ => .inl (by simp [strLt])
  | _ :: _, [] => .inr (.inr (by simp [strLt]))
  | x :: xs, y :: ys => by
    simp only [strLt]
    by_cases h1 : x.toNat < y.toNat
    · left; rw [if_pos h1]
    · by_cases h2 : y.toNat < x.toNat
      · right; right; rw [if_pos h2]
      · have hxy : x = y := Char.toNat_inj.mp (by omega)
        subst hxy
        simp only [if_neg h1]
        rcases strLt_tri xs ys with h | h | h
        · left; exact h
        · right; left; rw [h]
        · right; right; exact h

theorem strLt_asymm (a b : Str) (h1 : strLt a b = true) (h2 : strLt b a = true) : False := by
  have := strLt_trans a b a h1 h2
  rw [strLt_irrefl] at this
  cases this

/-! ### the option map: `optsOfPairs` is idempotent -/

def KSorted (l : List (Str × Str)) : Prop := l.Pairwise (fun a b => strLt a.1 b.1 = true)

theorem mem_optInsert (kv : Str × Str) (m : List (Str × Str)) :
    ∀ x ∈ optInsert kv m, x = kv ∨ x ∈ m := by
  induction m with
  | nil => intro x hx; simpa [optInsert] using hx
  | cons y ys ih =>
    intro x hx
    simp only [optInsert] at hx
    split at hx
    · rcases List.mem_cons.1 hx with h | h
      · exact .inl h
      · exact .inr (List.mem_cons_of_mem _ h)
    · split at hx
      · rcases List.mem_cons.1 hx with h | h
        · exact .inl h
        · exact .inr h
      · rcases List.mem_cons.1 hx with h | h
        · exact .inr (by simp [h])
        · rcases ih x h with h | h
          · exact .inl h
          · exact .inr (List.mem_cons_of_mem _ h)

theorem mem_foldl_optInsert (ps acc : List (Str × Str)) :
    ∀ x ∈ ps.foldl (fun m kv => optInsert kv m) acc, x ∈ ps ∨ x ∈ acc := by
  induction ps generalizing acc with
  | nil => intro x hx; exact .inr hx
  | cons p ps ih =>
    intro x hx
    rw [List.foldl_cons] at hx
    rcases ih _ x hx with h | h
    · exact .inl (List.mem_cons_of_mem _ h)
    · rcases mem_optInsert p acc x h with h | h
      · exact .inl (by simp [h])
      · exact .inr h

theorem mem_optsOfPairs (ps : List (Str × Str)) : ∀ x ∈ optsOfPairs ps, x ∈ ps := by
  intro x hx
  rcases mem_foldl_optInsert ps [] x hx with h | h
  · exact h
  · cases h

theorem mem_sortOpts (o : List (Str × Str)) : ∀ x ∈ sortOpts o, x ∈ o := mem_optsOfPairs o

theorem optInsert_sorted (kv : Str × Str) (m : List (Str × Str)) (h : KSorted m) :
    KSorted (optInsert kv m) := by
  induction m with
  | nil => simp [optInsert, KSorted]
  | cons y ys ih =>
    unfold KSorted at h ih ⊢
    rw [List.pairwise_cons] at h
    simp only [optInsert]
    split
    · next he =>
      have he : kv.1 = y.1 := by simpa using he
      rw [List.pairwise_cons]
      exact ⟨fun z hz => by rw [he]; exact h.1 z hz, h.2⟩
    · next hne =>
      split
      · next hlt =>
        rw [List.pairwise_cons, List.pairwise_cons]
        refine ⟨?_, h⟩
        intro z hz
        rcases List.mem_cons.1 hz with rfl | hz
        · exact hlt
        · exact strLt_trans _ _ _ hlt (h.1 z hz)
      · next hnlt =>
        have hyk : strLt y.1 kv.1 = true := by
          rcases strLt_tri kv.1 y.1 with h' | h' | h'
          · exact absurd h' hnlt
          · exact absurd (by simpa using h') hne
          · exact h'
        rw [List.pairwise_cons]
        refine ⟨?_, ih h.2⟩
        intro z hz
        rcases mem_optInsert kv ys z hz with rfl | hz
        · exact hyk
        · exact h.1 z hz

theorem foldl_optInsert_sorted (ps acc : List (Str × Str)) (h : KSorted acc) :
    KSorted (ps.foldl (fun m kv => optInsert kv m) acc) := by
  induction ps generalizing acc with
  | nil => exact h
  | cons p ps ih => exact ih _ (optInsert_sorted p acc h)

theorem optsOfPairs_sorted (ps : List (Str × Str)) : KSorted (optsOfPairs ps) :=
  foldl_optInsert_sorted ps [] List.Pairwise.nil

theorem optInsert_last (kv : Str × Str) (acc : List (Str × Str))
    (h : ∀ a ∈ acc, strLt a.1 kv.1 = true) : optInsert kv acc = acc ++ [kv] := by
  induction acc with
  | nil => rfl
  | cons a as ih =>
    have ha := h a (by simp)
    have h1 : (kv.1 == a.1) = false := by
      apply Bool.eq_false_iff.2
      intro he
      have he : kv.1 = a.1 := by simpa using he
      rw [he, strLt_irrefl] at ha
      cases ha
    have h2 : strLt kv.1 a.1 = false := by
      apply Bool.eq_false_iff.2
      intro hlt
      exact strLt_asymm _ _ hlt ha
    simp only [optInsert, h1, h2, Bool.false_eq_true, if_false, List.cons_append]
    rw [ih (fun b hb => h b (List.mem_cons_of_mem _ hb))]

theorem foldl_optInsert_of_sorted (l acc : List (Str × Str)) (h : KSorted (acc ++ l)) :
    l.foldl (fun m kv => optInsert kv m) acc = acc ++ l := by
  induction l generalizing acc with
  | nil => simp
  | cons x l ih =>
    rw [List.foldl_cons]
    have hx : ∀ a ∈ acc, strLt a.1 x.1 = true := by
      intro a ha
      unfold KSorted at h
      rw [List.pairwise_append] at h
      exact h.2.2 a ha x (by simp)
    rw [optInsert_last x acc hx]
    have : acc ++ [x] ++ l = acc ++ x :: l := by simp
    rw [ih (acc ++ [x]) (by rw [this]; exact h), this]

theorem optsOfPairs_of_sorted (l : List (Str × Str)) (h : KSorted l) : optsOfPairs l = l := by
  have := foldl_optInsert_of_sorted l [] (by simpa using h)
  simpa [optsOfPairs] using this

theorem optsOfPairs_idem (o : List (Str × Str)) : optsOfPairs (optsOfPairs o) = optsOfPairs o :=
  optsOfPairs_of_sorted _ (optsOfPairs_sorted o)

theorem parseOpts_render (o : List (Str × Str))
    (h : ∀ kv ∈ o, '=' ∉ kv.1 ∧ (∀ c ∈ kv.1, isUniSpace c = false) ∧ (∀ c ∈ kv.2, isUniSpace c = false)) :
    parseOpts (join [' '] ((sortOpts o).map renderOpt)) = sortOpts o := by
  have hm := mem_sortOpts o
  unfold parseOpts
  rw [fields_join]
  · rw [List.map_map]
    have : (sortOpts o).map (splitKV ∘ renderOpt) = (sortOpts o).map id :=
      List.map_congr_left (fun kv hkv => splitKV_renderOpt kv (h kv (hm kv hkv)).1)
    rw [this, List.map_id]
    exact optsOfPairs_idem o
  · intro w hw
    obtain ⟨kv, _, rfl⟩ := List.mem_map.1 hw
    simp [renderOpt]
  · intro w hw c hc
    obtain ⟨kv, hkv, rfl⟩ := List.mem_map.1 hw
    have := h kv (hm kv hkv)
    simp only [renderOpt, List.mem_append, List.mem_singleton] at hc
    rcases hc with (hc | rfl) | hc
    · exact this.2.1 c hc
    · decide
    · exact this.2.2 c hc

/-! ### `reAdd` on a rendered line -/

theorem head_add (s : Str) : head kAdd ("route add ".toList ++ s) = some (' ' :: s) := by
  simp [head, lit, kRoute, kAdd, ws1, isReSpace]

theorem matchAdd_line (svc src url W T O w t o : Str)
    (hsvc : svc ≠ [] ∧ ∀ c ∈ svc, isReSpace c = false)
    (hsrc : src ≠ [] ∧ ∀ c ∈ src, isReSpace c = false)
    (hurl : url ≠ [] ∧ ∀ c ∈ url, isReSpace c = false)
    (hsp : SpOrNil (W ++ (T ++ O)))
    (hW : optGroup (kwTok kWeight) (W ++ (T ++ O)) = (w, T ++ O))
    (hT : optGroup (kwQuoted kTags) (T ++ O) = (t, O))
    (hO : optGroup (kwQuoted kOpts) O = (o, [])) :
    matchAdd ("route add ".toList ++ (svc ++ ' ' :: (src ++ ' ' :: (url ++ (W ++ (T ++ O)))))) =
      some { service := svc, src := src, dst := url, weight := w, tags := t, opts := o } := by
  unfold matchAdd
  rw [head_add]
  simp only [Option.bind_eq_bind, Option.bind_some]
  rw [ws1_tok svc _ hsvc.1 hsvc.2]
  simp only [Option.bind_some]
  rw [tok_append svc _ hsvc.1 hsvc.2 (spOrNil_cons _)]
  simp only [Option.bind_some]
  rw [ws1_tok src _ hsrc.1 hsrc.2]
  simp only [Option.bind_some]
  rw [tok_append src _ hsrc.1 hsrc.2 (spOrNil_cons _)]
  simp only [Option.bind_some]
  rw [ws1_tok url _ hurl.1 hurl.2]
  simp only [Option.bind_some]
  rw [tok_append url _ hurl.1 hurl.2 hsp]
  simp only [Option.bind_some, hW, hT, hO]
  simp

/-! ### the optional groups of a rendered line -/

def wPart (tg : Target) : Str :=
  if 0 < tg.fixedWeight then " weight ".toList ++ fmt4 tg.fixedWeight else []
def tPart (tg : Target) : Str :=
  if tg.tags.isEmpty then [] else " tags \"".toList ++ join [','] tg.tags ++ ['"']
def oPart (tg : Target) : Str :=
  if tg.opts.isEmpty then [] else " opts \"".toList ++ join [' '] ((sortOpts tg.opts).map renderOpt) ++ ['"']

theorem renderTarget_eq (r : Route) (tg : Target) :
    renderTarget r tg = "route add ".toList ++ (tg.service ++ ' ' :: ((r.host ++ r.path) ++ ' ' ::
      (tg.url ++ (wPart tg ++ (tPart tg ++ oPart tg))))) := by
  unfold renderTarget wPart tPart oPart
  simp only [List.append_assoc, List.cons_append, List.nil_append]

/-- what may follow the destination when there is no weight -/
def StartsTO (s : Str) : Prop := s = [] ∨ (∃ t, s = ' ' :: 't' :: t) ∨ (∃ t, s = ' ' :: 'o' :: t)

theorem oPart_cases (tg : Target) : oPart tg = [] ∨ ∃ t, oPart tg = ' ' :: 'o' :: t := by
  unfold oPart
  split
  · exact .inl rfl
  · exact .inr ⟨_, by simp; rfl⟩

theorem tPart_cases (tg : Target) : tPart tg = [] ∨ ∃ t, tPart tg = ' ' :: 't' :: t := by
  unfold tPart
  split
  · exact .inl rfl
  · exact .inr ⟨_, by simp; rfl⟩

theorem startsTO_TO (tg : Target) : StartsTO (tPart tg ++ oPart tg) := by
  rcases tPart_cases tg with h | ⟨t, h⟩
  · rw [h, List.nil_append]
    rcases oPart_cases tg with h | ⟨t, h⟩
    · exact .inl h
    · exact .inr (.inr ⟨t, h⟩)
  · rw [h]; exact .inr (.inl ⟨_, rfl⟩)

theorem StartsTO.sp {s : Str} (h : StartsTO s) : SpOrNil s := by
  rcases h with h | ⟨t, h⟩ | ⟨t, h⟩
  · exact .inl h
  · exact .inr ⟨_, h⟩
  · exact .inr ⟨_, h⟩

theorem optGroup_weight_none (s : Str) (h : StartsTO s) : optGroup (kwTok kWeight) s = ([], s) := by
  rcases h with rfl | ⟨t, rfl⟩ | ⟨t, rfl⟩
  · simp [optGroup, kwTok_nil]
  · simp [optGroup, kwTok_weight_t]
  · simp [optGroup, kwTok_weight_o]

theorem optGroup_weight_some (a s : Str) (hne : a ≠ []) (ha : ∀ c ∈ a, isReSpace c = false)
    (hs : SpOrNil s) : optGroup (kwTok kWeight) (" weight ".toList ++ a ++ s) = (a, s) := by
  have : " weight ".toList ++ a ++ s = ' ' :: (kWeight ++ ' ' :: (a ++ s)) := by simp [kWeight]
  rw [this, optGroup, kwTok_ok kWeight a s (by decide) kw_noSp.1 hne ha hs]

theorem optGroup_tags_none (s : Str) (h : s = [] ∨ ∃ t, s = ' ' :: 'o' :: t) :
    optGroup (kwQuoted kTags) s = ([], s) := by
  rcases h with rfl | ⟨t, rfl⟩
  · simp [optGroup, kwQuoted_nil]
  · simp [optGroup, kwQuoted_tags_o]

theorem optGroup_tags_some (q s : Str) (hq : '"' ∉ q) :
    optGroup (kwQuoted kTags) (" tags \"".toList ++ q ++ ['"'] ++ s) = (q, s) := by
  have : " tags \"".toList ++ q ++ ['"'] ++ s = ' ' :: (kTags ++ ' ' :: '"' :: (q ++ '"' :: s)) := by
    simp [kTags]
  rw [this, optGroup, kwQuoted_ok kTags q s (by decide) kw_noSp.2.1 hq]

theorem optGroup_opts_none : optGroup (kwQuoted kOpts) [] = ([], []) := by
  simp [optGroup, kwQuoted_nil]

theorem optGroup_opts_some (q : Str) (hq : '"' ∉ q) :
    optGroup (kwQuoted kOpts) (" opts \"".toList ++ q ++ ['"']) = (q, []) := by
  have : " opts \"".toList ++ q ++ ['"'] = ' ' :: (kOpts ++ ' ' :: '"' :: (q ++ '"' :: [])) := by
    simp [kOpts]
  rw [this, optGroup, kwQuoted_ok kOpts q [] (by decide) kw_noSp.2.2 hq]

/-! ### one rendered line -/

/-- what a target must look like for its rendering to be read back -/
structure TextOK (r : Route) (tg : Target) : Prop where
  svc_ne : tg.service ≠ []
  svc_tok : ∀ c ∈ tg.service, isReSpace c = false
  src_ne : r.host ++ r.path ≠ []
  src_tok : ∀ c ∈ r.host ++ r.path, isReSpace c = false
  url_ne : tg.url ≠ []
  /-- the URL may end the line: `TrimSpace` / `dropCR` must not eat it -/
  url_tok : ∀ c ∈ tg.url, isUniSpace c = false
  tags_q : ∀ tag ∈ tg.tags, '"' ∉ tag ∧ ',' ∉ tag ∧ '\n' ∉ tag ∧ trimSpace tag = tag
  /-- a single empty tag renders as `tags ""` = no tags -/
  tags_ne : tg.tags ≠ [] → join [','] tg.tags ≠ []
  opts_k : ∀ kv ∈ tg.opts, '=' ∉ kv.1 ∧ (∀ c ∈ kv.1, isUniSpace c = false ∧ c ≠ '"') ∧
    (∀ c ∈ kv.2, isUniSpace c = false ∧ c ≠ '"')
  short : byteLen (renderTarget r tg) < maxToken

def NilOrLast (s : Str) : Prop := s = [] ∨ LastOK s

theorem NilOrLast.append {a b : Str} (ha : NilOrLast a) (hb : NilOrLast b) : NilOrLast (a ++ b) := by
  rcases hb with rfl | hb
  · rw [List.append_nil]; exact ha
  · exact .inr (hb.append_right a)

theorem LastOK.append_nilOrLast {a b : Str} (ha : LastOK a) (hb : NilOrLast b) : LastOK (a ++ b) := by
  rcases hb with rfl | hb
  · rw [List.append_nil]; exact ha
  · exact hb.append_right a

theorem lastOK_quote (s : Str) : LastOK (s ++ ['"']) :=
  LastOK.append_right s ⟨'"', rfl, by decide⟩

theorem wPart_nilOrLast (tg : Target) : NilOrLast (wPart tg) := by
  unfold wPart
  split
  · exact .inr ((fmt4_lastOK _).append_right _)
  · exact .inl rfl

theorem tPart_nilOrLast (tg : Target) : NilOrLast (tPart tg) := by
  unfold tPart
  split
  · exact .inl rfl
  · exact .inr (lastOK_quote _)

theorem oPart_nilOrLast (tg : Target) : NilOrLast (oPart tg) := by
  unfold oPart
  split
  · exact .inl rfl
  · exact .inr (lastOK_quote _)

variable {r : Route} {tg : Target}

theorem TextOK.lastOK (h : TextOK r tg) : LastOK (renderTarget r tg) := by
  rw [renderTarget_eq]
  apply LastOK.append_right
  apply LastOK.append_right
  rw [← List.singleton_append]
  apply LastOK.append_right
  apply LastOK.append_right
  rw [← List.singleton_append]
  apply LastOK.append_right
  exact (LastOK.of_all h.url_ne h.url_tok).append_nilOrLast
    ((wPart_nilOrLast tg).append ((tPart_nilOrLast tg).append (oPart_nilOrLast tg)))

theorem TextOK.tags_noQuote (h : TextOK r tg) : '"' ∉ join [','] tg.tags := by
  intro hc
  rcases mem_join _ _ _ hc with hc | ⟨x, hx, hc⟩
  · revert hc; decide
  · exact (h.tags_q x hx).1 hc

theorem TextOK.opts_noQuote (h : TextOK r tg) :
    '"' ∉ join [' '] ((sortOpts tg.opts).map renderOpt) := by
  intro hc
  rcases mem_join _ _ _ hc with hc | ⟨x, hx, hc⟩
  · revert hc; decide
  · obtain ⟨kv, hkv, rfl⟩ := List.mem_map.1 hx
    have := h.opts_k kv (mem_sortOpts _ kv hkv)
    simp only [renderOpt, List.mem_append, List.mem_singleton] at hc
    rcases hc with (hc | hc) | hc
    · exact (this.2.1 _ hc).2 rfl
    · revert hc; decide
    · exact (this.2.2 _ hc).2 rfl

/-- the three optional captures -/
def wVal (tg : Target) : Str := if 0 < tg.fixedWeight then fmt4 tg.fixedWeight else []
def tVal (tg : Target) : Str := if tg.tags.isEmpty then [] else join [','] tg.tags
def oVal (tg : Target) : Str :=
  if tg.opts.isEmpty then [] else join [' '] ((sortOpts tg.opts).map renderOpt)

theorem TextOK.hO (h : TextOK r tg) : optGroup (kwQuoted kOpts) (oPart tg) = (oVal tg, []) := by
  unfold oPart oVal
  split
  · exact optGroup_opts_none
  · exact optGroup_opts_some _ h.opts_noQuote

theorem TextOK.hT (h : TextOK r tg) :
    optGroup (kwQuoted kTags) (tPart tg ++ oPart tg) = (tVal tg, oPart tg) := by
  unfold tPart tVal
  split
  · rw [List.nil_append]; exact optGroup_tags_none _ (oPart_cases tg)
  · exact optGroup_tags_some _ _ h.tags_noQuote

theorem TextOK.hW (_h : TextOK r tg) :
    optGroup (kwTok kWeight) (wPart tg ++ (tPart tg ++ oPart tg)) = (wVal tg, tPart tg ++ oPart tg) := by
  unfold wPart wVal
  split
  · exact optGroup_weight_some (fmt4 tg.fixedWeight) (tPart tg ++ oPart tg) (fmt4_ne _)
      (fun c hc => not_reSpace_of_not_uniSpace c (fmt4_noSp _ c hc)) (StartsTO.sp (startsTO_TO tg))
  · rw [List.nil_append]; exact optGroup_weight_none _ (startsTO_TO tg)

theorem wPart_sp (tg : Target) : SpOrNil (wPart tg ++ (tPart tg ++ oPart tg)) := by
  unfold wPart
  split
  · exact .inr ⟨_, by simp; rfl⟩
  · rw [List.nil_append]; exact (startsTO_TO tg).sp

theorem TextOK.matchAdd (h : TextOK r tg) :
    matchAdd (renderTarget r tg) = some
      ({ service := tg.service, src := r.host ++ r.path, dst := tg.url,
         weight := wVal tg, tags := tVal tg, opts := oVal tg } : AddM) := by
  rw [renderTarget_eq]
  exact matchAdd_line _ _ _ _ _ _ _ _ _ ⟨h.svc_ne, h.svc_tok⟩ ⟨h.src_ne, h.src_tok⟩
    ⟨h.url_ne, fun c hc => not_reSpace_of_not_uniSpace c (h.url_tok c hc)⟩ (wPart_sp tg) h.hW h.hT h.hO

theorem TextOK.parseTags (h : TextOK r tg) : parseTags (tVal tg) = tg.tags := by
  unfold tVal
  split
  · next he => rw [List.isEmpty_iff.1 he]; rfl
  · next hne =>
    have hne : tg.tags ≠ [] := by simpa using hne
    exact parseTags_join _ hne (h.tags_ne hne) (fun t ht => ⟨(h.tags_q t ht).2.1, (h.tags_q t ht).2.2.2⟩)

theorem TextOK.parseOpts (h : TextOK r tg) : parseOpts (oVal tg) = sortOpts tg.opts := by
  unfold oVal
  split
  · next he => rw [List.isEmpty_iff.1 he]; rfl
  · exact parseOpts_render _ (fun kv hkv =>
      ⟨(h.opts_k kv hkv).1, fun c hc => ((h.opts_k kv hkv).2.1 c hc).1, fun c hc => ((h.opts_k kv hkv).2.2 c hc).1⟩)

theorem parseWeight_wVal (pf : ParseFloat)
    (hpf : ∀ w : Rat, 0 < w → pf (fmt4 w) = some (.fin (round4Rat w))) (tg : Target) :
    parseWeight pf (wVal tg) = .ok (if 0 < tg.fixedWeight then round4Rat tg.fixedWeight else 0) := by
  unfold wVal
  split
  · next hw =>
    unfold parseWeight
    simp only [List.isEmpty_iff, fmt4_ne, if_false, hpf _ hw]
  · rfl

theorem parseLine_renderTarget (pf : ParseFloat)
    (hpf : ∀ w : Rat, 0 < w → pf (fmt4 w) = some (.fin (round4Rat w))) (h : TextOK r tg) :
    parseLine pf (renderTarget r tg) = .ok (some (defOfTarget r tg)) := by
  obtain ⟨s, hs⟩ : ∃ s, renderTarget r tg = 'r' :: s := ⟨_, by rw [renderTarget_eq]; rfl⟩
  have hlast := h.lastOK
  have htrim : trimSpace (renderTarget r tg) = renderTarget r tg := by
    rw [hs] at hlast ⊢; exact trimSpace_eq (by decide) hlast
  have hc : isComment (renderTarget r tg) = false := by rw [hs]; simp [isComment]
  have hb : isBlank (renderTarget r tg) = false := by rw [hs]; simp [isBlank, isReSpace]
  have hh : (head kAdd (renderTarget r tg)).isSome = true := by rw [renderTarget_eq, head_add]; rfl
  unfold parseLine
  simp only [htrim, hc, hb, hh, Bool.or_false, Bool.false_eq_true, if_false, if_true]
  unfold parseRouteAdd
  rw [h.matchAdd]
  simp only [parseWeight_wVal pf hpf tg, h.parseTags, h.parseOpts]
  rfl

/-! ### lines -/

theorem rawLines_join (ls : List Str) (h : ∀ l ∈ ls, l ≠ [] ∧ '\n' ∉ l) :
    rawLines (join ['\n'] ls) = ls := by
  cases ls with
  | nil => simp [rawLines, join, splitOn]
  | cons x l =>
    unfold rawLines
    simp only [splitOn_join '\n' (x :: l) (by simp) (fun z hz => (h z hz).2)]
    have : ((x :: l).getLast? == some []) = false := by
      apply Bool.eq_false_iff.2
      intro he
      have he : (x :: l).getLast? = some [] := by simpa using he
      exact (h [] (List.mem_of_getLast? he)).1 rfl
    rw [this]
    rfl

theorem nl_not_uniSpace_free {s : Str} (h : ∀ c ∈ s, isUniSpace c = false) : '\n' ∉ s := by
  intro hc
  have := h _ hc
  revert this; decide

theorem nl_not_reSpace_free {s : Str} (h : ∀ c ∈ s, isReSpace c = false) : '\n' ∉ s := by
  intro hc
  have := h _ hc
  revert this; decide

theorem wPart_noNL (tg : Target) : '\n' ∉ wPart tg := by
  unfold wPart
  split
  · intro hc
    rcases List.mem_append.1 hc with hc | hc
    · revert hc; decide
    · exact nl_not_uniSpace_free (fmt4_noSp _) hc
  · simp

theorem TextOK.tPart_noNL (h : TextOK r tg) : '\n' ∉ tPart tg := by
  unfold tPart
  split
  · simp
  · intro hc
    rcases List.mem_append.1 hc with hc | hc
    · rcases List.mem_append.1 hc with hc | hc
      · revert hc; decide
      · rcases mem_join _ _ _ hc with hc | ⟨x, hx, hc⟩
        · revert hc; decide
        · exact (h.tags_q x hx).2.2.1 hc
    · revert hc; decide

theorem TextOK.oPart_noNL (h : TextOK r tg) : '\n' ∉ oPart tg := by
  unfold oPart
  split
  · simp
  · intro hc
    rcases List.mem_append.1 hc with hc | hc
    · rcases List.mem_append.1 hc with hc | hc
      · revert hc; decide
      · rcases mem_join _ _ _ hc with hc | ⟨x, hx, hc⟩
        · revert hc; decide
        · obtain ⟨kv, hkv, rfl⟩ := List.mem_map.1 hx
          have := h.opts_k kv (mem_sortOpts _ kv hkv)
          simp only [renderOpt, List.mem_append, List.mem_singleton] at hc
          rcases hc with (hc | hc) | hc
          · exact nl_not_uniSpace_free (fun c hc => (this.2.1 c hc).1) hc
          · revert hc; decide
          · exact nl_not_uniSpace_free (fun c hc => (this.2.2 c hc).1) hc
    · revert hc; decide

theorem TextOK.noNL (h : TextOK r tg) : '\n' ∉ renderTarget r tg := by
  rw [renderTarget_eq]
  intro hc
  simp only [List.mem_append, List.mem_cons] at hc
  rcases hc with hc | hc | hc | hc | hc | hc | hc | hc | hc
  · revert hc; decide
  · exact nl_not_reSpace_free h.svc_tok hc
  · revert hc; decide
  · exact nl_not_reSpace_free h.src_tok (List.mem_append.2 hc)
  · revert hc; decide
  · exact nl_not_uniSpace_free h.url_tok hc
  · exact wPart_noNL tg hc
  · exact h.tPart_noNL hc
  · exact h.oPart_noNL hc

theorem renderTarget_ne (r : Route) (tg : Target) : renderTarget r tg ≠ [] := by
  rw [renderTarget_eq]
  intro h
  have := congrArg List.length h
  simp at this

theorem parseLines_render (pf : ParseFloat)
    (hpf : ∀ w : Rat, 0 < w → pf (fmt4 w) = some (.fin (round4Rat w)))
    (ls : List (Route × Target)) (h : ∀ x ∈ ls, TextOK x.1 x.2) (i : Nat) :
    parseLines pf i (ls.map (fun x => renderTarget x.1 x.2)) =
      .ok (ls.map (fun x => defOfTarget x.1 x.2)) := by
  induction ls generalizing i with
  | nil => rfl
  | cons x l ih =>
    have hx := h x (by simp)
    simp only [List.map_cons, parseLines]
    rw [if_neg (Nat.not_le.2 hx.short), dropCR_lastOK hx.lastOK, parseLine_renderTarget pf hpf hx]
    simp only [ih (fun y hy => h y (List.mem_cons_of_mem _ hy))]

theorem parse_lines_render (pf : ParseFloat)
    (hpf : ∀ w : Rat, 0 < w → pf (fmt4 w) = some (.fin (round4Rat w)))
    (ls : List (Route × Target)) (h : ∀ x ∈ ls, TextOK x.1 x.2) :
    parse pf (join ['\n'] (ls.map (fun x => renderTarget x.1 x.2))) =
      .ok (ls.map (fun x => defOfTarget x.1 x.2)) := by
  unfold parse
  rw [rawLines_join]
  · exact parseLines_render pf hpf ls h 1
  · intro l hl
    obtain ⟨x, hx, rfl⟩ := List.mem_map.1 hl
    exact ⟨renderTarget_ne _ _, (h x hx).noNL⟩

/-! ### the whole table -/

/-- the (route, target) pairs `Table.String()` writes, in its order -/
def pairs (t : Table) : List (Route × Target) :=
  (hostOrder t).flatMap (fun h => (t.get h).flatMap (fun r =>
    r.targets.map (fun tg => (r, tg))))

theorem config_eq_pairs (t : Table) : config t = (pairs t).map (fun x => renderTarget x.1 x.2) := by
  simp only [config, pairs, List.map_flatMap, List.map_map]
  rfl

theorem defsOfTable_eq_pairs (t : Table) :
    defsOfTable t = (pairs t).map (fun x => defOfTarget x.1 x.2) := by
  simp only [defsOfTable, pairs, List.map_flatMap, List.map_map]
  rfl

theorem mem_pairs (t : Table) (x : Route × Target) (hx : x ∈ pairs t) :
    ∃ hst, x.1 ∈ t.get hst ∧ x.2 ∈ x.1.targets := by
  simp only [pairs, List.mem_flatMap, List.mem_map] at hx
  obtain ⟨hst, _, r, hr, tg, htg, rfl⟩ := hx
  exact ⟨hst, hr, htg⟩

theorem parse_render (pf : ParseFloat)
    (hpf : ∀ w : Rat, 0 < w → pf (fmt4 w) = some (.fin (round4Rat w))) (t : Table)
    (h : ∀ hst, ∀ r ∈ t.get hst, ∀ tg ∈ r.targets, TextOK r tg) :
    parse pf (render t) = .ok (defsOfTable t) := by
  rw [render, config_eq_pairs, defsOfTable_eq_pairs]
  apply parse_lines_render pf hpf
  intro x hx
  obtain ⟨hst, hr, htg⟩ := mem_pairs t x hx
  exact h hst _ hr _ htg

/-! ### D07: the former `%q` rendering of tags did not round-trip -/

def d07Target : Target :=
  { service := "s".toList, tags := ["a\\b".toList], opts := [], url := "http://h/".toList, fixedWeight := 0 }

/-- what the `%q` line is read back as: the tag has gained a backslash -/
def d07Read : RouteDef :=
  { cmd := .add, service := "s".toList, src := "/".toList, dst := "http://h/".toList,
    tags := ["a\\\\b".toList] }

example :
    (match parseLine (fun _ => none) (renderTargetQ ⟨[], "/".toList, []⟩ d07Target) with
      | .ok (some d) => decide (d = d07Read)
      | _ => false) = true := by decide +kernel

theorem d07_not_roundtrip :
    parseLine (fun _ => none) (renderTargetQ ⟨[], "/".toList, []⟩ d07Target) = .ok (some d07Read) := by
  have h : (match parseLine (fun _ => none) (renderTargetQ ⟨[], "/".toList, []⟩ d07Target) with
      | .ok (some d) => decide (d = d07Read)
      | _ => false) = true := by decide +kernel
  generalize parseLine (fun _ => none) (renderTargetQ ⟨[], "/".toList, []⟩ d07Target) = x at h
  match x, h with
  | .ok (some d), h => rw [of_decide_eq_true h]

example : d07Read ≠ defOfTarget ⟨[], "/".toList, []⟩ d07Target := by decide +kernel

/-! ### non-vacuity -/

def exRoute : Route := ⟨"example.com".toList, "/api".toList, []⟩
def exTarget : Target :=
  { service := "svc-a".toList, tags := ["blue".toList, "v2".toList],
    opts := [("strip".toList, "/api".toList), ("proto".toList, "https".toList)],
    url := "http://10.0.0.1:8080/".toList, fixedWeight := 1/4 }

theorem exTextOK : TextOK exRoute exTarget where
  svc_ne := by decide
  svc_tok := by decide
  src_ne := by decide
  src_tok := by decide
  url_ne := by decide
  url_tok := by decide
  tags_q := by decide
  tags_ne := by decide
  opts_k := by decide
  short := by decide +kernel

/-- the main theorem is not vacuous: it applies to the example (weight 1/4, two tags, two options) -/
example (pf : ParseFloat) (hpf : ∀ w : Rat, 0 < w → pf (fmt4 w) = some (.fin (round4Rat w))) :
    parseLine pf (renderTarget exRoute exTarget) = .ok (some (defOfTarget exRoute exTarget)) :=
  parseLine_renderTarget pf hpf exTextOK

end Fabio.Lemmas.C05Text
