import Fabio.Lemmas.C02Lines
/-!
An accepted text is read to its end: when the parser model accepts a text, the scanner model has taken every byte out of
the buffer (`leftAfterParse = 0`); when it stops at a syntax error in line `i`, that is the line `stopLine` names
(core Lean only).
-/
namespace Fabio.Lemmas.C02Drain
open Fabio Fabio.Model.C02Buf Fabio.Model.Parse Fabio.Model.Route
open Fabio.Lemmas.C02Scan Fabio.Lemmas.C02ScanAll Fabio.Lemmas.C02Lines

/-- without a stopping line the loop of `Parse` visits the states of `scanAll` -/
theorem scanLoop_eq_scanAll (cfg : ScanCfg) (data : Array Bool) : ∀ (fuel i : Nat) (s : Scan),
    (scanLoop cfg data (fun _ => false) fuel i s).1 = (scanAll cfg data fuel s).2 := by
  intro fuel
  induction fuel with
  | zero => intro i s; rfl
  | succ fuel ih =>
    intro i s
    unfold scanLoop scanAll
    cases h : Scan.next cfg data (data.size + 40) s with
    | mk o s' =>
      cases o with
      | none => rfl
      | some t => simp only [Bool.false_eq_true, if_false]; exact ih (i + 1) s'

theorem shift_off (s : Scan) : s.shift.off = s.off := by unfold Scan.shift; split <;> rfl
theorem grow_off (cfg : ScanCfg) (s : Scan) : (s.grow cfg).off = s.off := by unfold Scan.grow; split <;> rfl
theorem read_off (data : Array Bool) (s : Scan) (h : s.off ≤ data.size) :
    s.off ≤ (s.read data).off ∧ (s.read data).off ≤ data.size := by
  unfold Scan.read
  split
  · exact ⟨Nat.le_refl _, h⟩
  · have := Nat.min_le_right (s.cap - s.end_) (data.size - s.off)
    constructor
    · show s.off ≤ s.off + min (s.cap - s.end_) (data.size - s.off); omega
    · show s.off + min (s.cap - s.end_) (data.size - s.off) ≤ data.size; omega

/-- a call of `Scan()` only ever reads forward, and never beyond the source -/
theorem next_off (cfg : ScanCfg) (data : Array Bool) : ∀ (fuel : Nat) (s : Scan), s.off ≤ data.size →
    s.off ≤ (Scan.next cfg data fuel s).2.off ∧ (Scan.next cfg data fuel s).2.off ≤ data.size := by
  intro fuel
  induction fuel with
  | zero => intro s h; exact ⟨Nat.le_refl _, h⟩
  | succ fuel ih =>
    intro s h
    unfold Scan.next
    split
    · exact ⟨Nat.le_refl _, h⟩
    · split
      · exact ⟨Nat.le_refl _, h⟩
      · split
        · show s.off ≤ s.shift.off ∧ s.shift.off ≤ data.size
          rw [shift_off]; exact ⟨Nat.le_refl _, h⟩
        · have hr := read_off data (s.shift.grow cfg) (by rw [grow_off, shift_off]; exact h)
          rw [grow_off, shift_off] at hr
          have := ih _ hr.2
          exact ⟨Nat.le_trans hr.1 this.1, this.2⟩

/-- when the scanner ends without `ErrTooLong` it has read the whole source -/
theorem scanAll_drains (cfg : ScanCfg) (data : Array Bool) (hsb : 0 < cfg.startBuf) (hsm : cfg.startBuf ≤ cfg.maxTok) :
    ∀ (n : Nat) (s : Scan), Ok cfg data s → data.size - s.base < n →
      (scanAll cfg data n s).2.tooLong = false → (scanAll cfg data n s).2.off = data.size := by
  intro n
  induction n with
  | zero => intro s _ h; omega
  | succ n ih =>
    intro s hok hn
    have hfuel : data.size - s.off + (if s.eof then 0 else 1) < data.size + 40 := by split <;> omega
    have hspec := next_spec cfg data hsb hsm (data.size + 40) s hok hfuel
    have hmono := next_off cfg data (data.size + 40) s hok.ol
    unfold scanAll
    cases hnext : Scan.next cfg data (data.size + 40) s with
    | mk o s' =>
      rw [hnext] at hspec
      cases o with
      | none =>
        simp only at hspec ⊢
        intro htl
        rcases hspec with ⟨hl, _, _⟩ | ⟨_, hb⟩
        · rw [hl] at htl; cases htl
        · -- the line start is the end of the source: everything before it has been read
          rw [hnext] at hmono
          have := hok.ol; have := hok.ho
          simp only [Scan.base, Scan.held] at hb
          simp only at hmono
          omega
      | some t =>
        obtain ⟨p, l⟩ := t
        simp only at hspec ⊢
        obtain ⟨hok', hpb, _, _, hcase⟩ := hspec
        intro htl
        rcases hcase with ⟨hnl, hb'⟩ | ⟨hl0, hend, hb', heof⟩
        · have hin := getElem?_true_lt hnl
          exact ih s' hok' (by rw [hb']; omega) htl
        · obtain ⟨m, rfl⟩ : ∃ m, n = m + 1 := ⟨n - 1, by omega⟩
          exact ih s' hok' (by rw [hb']; omega) htl

/-- a text the parser model accepts has no over-long raw line and no line the line parser rejects -/
theorem parseLines_ok_facts (pf : ParseFloat) : ∀ (ls : List Str) (i : Nat) (ds : List RouteDef),
    parseLines pf i ls = .ok ds →
    stopLineAux pf i ls = none ∧ (cutLens maxToken (ls.map byteLen)).2 = false := by
  intro ls
  induction ls with
  | nil => intro i ds _; exact ⟨rfl, rfl⟩
  | cons raw rest ih =>
    intro i ds h
    unfold parseLines at h
    unfold stopLineAux
    by_cases hlong : maxToken ≤ byteLen raw
    · simp [hlong] at h
    · simp only [hlong, if_false] at h ⊢
      simp only [List.map_cons, cutLens, hlong, if_false]
      cases hp : parseLine pf (dropCR raw) with
      | error e =>
        cases e with
        | syn e' => simp [hp] at h
        | nonFinite v => simp [hp] at h
      | ok o =>
        cases o with
        | none =>
          simp only [hp] at h
          exact ih (i + 1) ds h
        | some d =>
          simp only [hp] at h
          cases hr : parseLines pf (i + 1) rest with
          | error e => simp [hr] at h
          | ok ds' => exact ih (i + 1) ds' hr

theorem flagsL_length (text : Str) : (flagsL text).length = byteLen text := by
  induction text with
  | nil => simp [flagsL, byteLen]
  | cons c cs ih =>
    by_cases hc : c = '\n'
    · subst hc
      rw [flagsL_cons_nl, byteLen_cons, List.length_cons, ih]; rfl
    · rw [flagsL_cons_other c cs hc, byteLen_cons, List.length_append, List.length_replicate, ih]; omega

/-- **An accepted text is read to its end.** When the parser model accepts a text, the model of `bufio.Scanner` has taken
every byte out of the buffer: nothing of an accepted configuration is left behind (what stream `c02.buffer` demands of
the real `NewTable` per case). -/
theorem accepted_text_is_read_to_end (pf : ParseFloat) (text : Str) (ds : List RouteDef) (h : parse pf text = .ok ds) :
    leftAfterParse pf text = 0 := by
  obtain ⟨hstop, hcut⟩ := parseLines_ok_facts pf (rawLines text) 1 ds h
  have hstop' : stopLine pf text = none := hstop
  unfold leftAfterParse consumed
  rw [hstop']
  have hstopf : (fun i => (none : Option Nat) == some i) = (fun _ => false) := by
    funext i; rfl
  simp only [hstopf]
  rw [scanLoop_eq_scanAll]
  have hsize : (nlFlags text).size = byteLen text := by
    rw [nlFlags_eq]; exact flagsL_length text
  have hn : (nlFlags text).size - ({} : Scan).base < (nlFlags text).size + 2 := by
    show (nlFlags text).size - 0 < _; omega
  have heq := scanAll_eq_segs goCfg (nlFlags text) (by decide) (by decide) ((nlFlags text).size + 2) {} (Ok.init _ _) hn
  have hseg := segs_are_rawLines text 65536 ((nlFlags text).size + 2) (by
    show (flagsL text).length < _
    rw [nlFlags_eq]; simp)
  have hb : ({} : Scan).base = 0 := rfl
  rw [hb] at heq
  have htl : (scanAll goCfg (nlFlags text) ((nlFlags text).size + 2) {}).2.tooLong = false := by
    rw [heq.2]
    have := congrArg Prod.snd hseg
    simp only at this
    show (segs (nlFlags text) 65536 ((nlFlags text).size + 2) 0).2 = false
    rw [this]
    exact hcut
  have hd := scanAll_drains goCfg (nlFlags text) (by decide) (by decide) ((nlFlags text).size + 2) {} (Ok.init _ _) hn htl
  rw [hd, hsize]
  omega

end Fabio.Lemmas.C02Drain
