import Fabio.Lemmas.C02ScanAll
/-!
The last link: the segments of the scanner specification (`segs` on the newline flags of a text, byte positions) are
the raw lines of the parser model (`Parse.rawLines`, character lists) — same number, same byte lengths, cut at the same
over-long line (core Lean only).
-/
namespace Fabio.Lemmas.C02Lines
open Fabio Fabio.Model.C02Buf Fabio.Model.Parse Fabio.Model.Route Fabio.Lemmas.C02Scan Fabio.Lemmas.C02ScanAll

/-- the newline flags as a list -/
def flagsL (text : Str) : List Bool :=
  text.flatMap (fun c => if c == '\n' then [true] else List.replicate c.utf8Size false)

/-- number of flags = number of bytes -/
def byteLenFlags (text : Str) : Nat := (flagsL text).length

/-- lengths of the pieces between `true`s (as `splitOn`: always at least one piece) -/
def lens : List Bool → List Nat
  | [] => [0]
  | true :: r => 0 :: lens r
  | false :: r => match lens r with
    | h :: t => (h + 1) :: t
    | [] => [1]

/-- a final empty piece is no line (as `rawLines`) -/
def rawLens (L : List Bool) : List Nat :=
  if (lens L).getLast? == some 0 then (lens L).dropLast else lens L

/-- cut at the first line of `maxTok` bytes or more -/
def cutLens (maxTok : Nat) : List Nat → List Nat × Bool
  | [] => ([], false)
  | l :: r => if maxTok ≤ l then ([], true) else ((l :: (cutLens maxTok r).1), (cutLens maxTok r).2)

theorem lens_ne_nil : ∀ L : List Bool, lens L ≠ []
  | [] => by simp [lens]
  | true :: r => by simp [lens]
  | false :: r => by
    unfold lens
    split <;> simp

theorem lens_false_cons (r : List Bool) : lens (false :: r) = ((lens r).headD 0 + 1) :: (lens r).tail := by
  have hne := lens_ne_nil r
  show (match lens r with | h :: t => (h + 1) :: t | [] => [1]) = _
  cases h : lens r with
  | nil => exact absurd h hne
  | cons a t => simp

theorem lens_replicate_append (k : Nat) (R : List Bool) :
    lens (List.replicate k false ++ R) = ((lens R).headD 0 + k) :: (lens R).tail := by
  induction k with
  | zero =>
    have := lens_ne_nil R
    cases h : lens R with
    | nil => exact absurd h this
    | cons a t => simp [h]
  | succ k ih =>
    rw [List.replicate_succ, List.cons_append, lens_false_cons, ih]
    simp; omega

theorem lens_replicate_true (k : Nat) (R : List Bool) :
    lens (List.replicate k false ++ true :: R) = k :: lens R := by
  rw [lens_replicate_append]
  simp [lens]

theorem lens_replicate (k : Nat) : lens (List.replicate k false) = [k] := by
  have := lens_replicate_append k []
  simpa [lens] using this

theorem rawLens_replicate_true (k : Nat) (R : List Bool) :
    rawLens (List.replicate k false ++ true :: R) = k :: rawLens R := by
  unfold rawLens
  rw [lens_replicate_true]
  have hne := lens_ne_nil R
  cases h : lens R with
  | nil => exact absurd h hne
  | cons a t =>
    rw [List.getLast?_cons_cons]
    split
    · simp [List.dropLast]
    · rfl

theorem rawLens_replicate (k : Nat) (hk : 0 < k) : rawLens (List.replicate k false) = [k] := by
  unfold rawLens
  rw [lens_replicate]
  have : k ≠ 0 := by omega
  simp [this]

theorem rawLens_nil : rawLens [] = [] := by simp [rawLens, lens]

theorem drop_of_noNL (L : List Bool) : ∀ (d p : Nat), p + d ≤ L.length →
    (∀ i, p ≤ i → i < p + d → L[i]? ≠ some true) → L.drop p = List.replicate d false ++ L.drop (p + d) := by
  intro d
  induction d with
  | zero => intro p _ _; simp
  | succ d ih =>
    intro p hle hno
    have hp : p < L.length := by omega
    rw [List.drop_eq_getElem_cons hp]
    have hfalse : L[p] = false := by
      have := hno p (Nat.le_refl _) (by omega)
      rw [List.getElem?_eq_getElem hp] at this
      cases hb : L[p] with
      | false => rfl
      | true => rw [hb] at this; exact absurd rfl this
    rw [hfalse, List.replicate_succ, List.cons_append]
    have := ih (p + 1) (by omega) (fun i h1 h2 => hno i (by omega) (by omega))
    rw [this]
    have he : p + 1 + d = p + (d + 1) := by omega
    rw [he]

theorem drop_of_true (L : List Bool) (j : Nat) (h : L[j]? = some true) : L.drop j = true :: L.drop (j + 1) := by
  have hj : j < L.length := by
    cases hlt : decide (j < L.length) with
    | true => simpa using hlt
    | false =>
      have : ¬ j < L.length := by simpa using hlt
      rw [List.getElem?_eq_none (by omega)] at h
      cases h
  rw [List.drop_eq_getElem_cons hj]
  rw [List.getElem?_eq_getElem hj] at h
  simp only [Option.some.injEq] at h
  rw [h]

/-- the specification on byte positions = the cut list of raw line lengths -/
theorem segs_eq_cut (L : List Bool) (maxTok : Nat) : ∀ (n p : Nat), p ≤ L.length → L.length - p < n →
    ((segs L.toArray maxTok n p).1.map (·.2), (segs L.toArray maxTok n p).2) = cutLens maxTok (rawLens (L.drop p)) := by
  intro n
  induction n with
  | zero => intro p _ h; omega
  | succ n ih =>
    intro p hp hn
    unfold segs
    simp only [List.size_toArray]
    by_cases hend : L.length ≤ p
    · have : L.drop p = [] := List.drop_eq_nil_of_le hend
      simp [hend, this, rawLens_nil, cutLens]
    · simp only [hend, if_false]
      have hf := findNL_spec L.toArray L.length (L.length - p) p (by omega)
      split at hf
      · rename_i j hj
        obtain ⟨f1, f2, f3, f4⟩ := hf
        simp only [hj]
        have hdrop : L.drop p = List.replicate (j - p) false ++ true :: L.drop (j + 1) := by
          have h1 := drop_of_noNL L (j - p) p (by omega) (fun i h1 h2 => by
            have := f4 i h1 (by omega)
            simpa using this)
          have h2 := drop_of_true L j (by simpa using f3)
          have hpj : p + (j - p) = j := by omega
          rw [hpj, h2] at h1
          exact h1
        rw [hdrop, rawLens_replicate_true]
        unfold cutLens
        by_cases hlong : maxTok ≤ j - p
        · simp [hlong]
        · simp only [hlong, if_false]
          have := ih (j + 1) (by omega) (by omega)
          rw [← this]
          simp
      · rename_i hj
        simp only [hj]
        have hdrop : L.drop p = List.replicate (L.length - p) false := by
          have h1 := drop_of_noNL L (L.length - p) p (by omega) (fun i h1 h2 => by
            have := hf i h1 (by omega)
            simpa using this)
          have hpl : p + (L.length - p) = L.length := by omega
          rw [hpl, List.drop_length, List.append_nil] at h1
          exact h1
        rw [hdrop, rawLens_replicate _ (by omega)]
        by_cases hlong : maxTok ≤ L.length - p
        · simp [hlong, cutLens]
        · simp [hlong, cutLens]

/-! ### the flags of a text -/

theorem foldl_push_eq (l : List Bool) (a : Array Bool) : l.foldl Array.push a = a ++ l.toArray := by
  induction l generalizing a with
  | nil => simp
  | cons x xs ih => rw [List.foldl_cons, ih]; simp

theorem flagsL_cons_nl (cs : Str) : flagsL ('\n' :: cs) = true :: flagsL cs := by
  simp [flagsL]

theorem flagsL_cons_other (c : Char) (cs : Str) (h : c ≠ '\n') :
    flagsL (c :: cs) = List.replicate c.utf8Size false ++ flagsL cs := by
  simp [flagsL, h]

theorem nlFlags_aux (text : Str) : ∀ a : Array Bool,
    text.foldl (fun a c => if c == '\n' then a.push true else (List.replicate c.utf8Size false).foldl Array.push a) a
      = a ++ (flagsL text).toArray := by
  induction text with
  | nil => intro a; simp [flagsL]
  | cons c cs ih =>
    intro a
    rw [List.foldl_cons, ih]
    by_cases hc : c = '\n'
    · subst hc
      rw [flagsL_cons_nl]
      simp
    · rw [flagsL_cons_other c cs hc]
      have hb : (c == '\n') = false := by simpa using hc
      simp only [hb, Bool.false_eq_true, if_false]
      rw [foldl_push_eq]
      apply Array.ext'
      simp

theorem nlFlags_eq (text : Str) : nlFlags text = (flagsL text).toArray := by
  unfold nlFlags
  rw [nlFlags_aux]
  simp

theorem byteLen_aux (s : Str) : ∀ k : Nat, s.foldl (fun a c => a + c.utf8Size) k = k + byteLen s := by
  induction s with
  | nil => intro k; simp [byteLen]
  | cons c cs ih =>
    intro k
    simp only [byteLen, List.foldl_cons]
    rw [ih (k + c.utf8Size), ih (0 + c.utf8Size)]
    omega

theorem byteLen_cons (c : Char) (s : Str) : byteLen (c :: s) = byteLen s + c.utf8Size := by
  simp only [byteLen, List.foldl_cons]
  rw [byteLen_aux]
  simp only [byteLen]
  omega

theorem byteLen_eq_zero (s : Str) : byteLen s = 0 ↔ s = [] := by
  cases s with
  | nil => simp [byteLen]
  | cons c cs =>
    rw [byteLen_cons]
    have : 0 < c.utf8Size := Char.utf8Size_pos c
    constructor
    · intro h; omega
    · intro h; cases h

theorem splitOn_ne_nil (c : Char) : ∀ s : Str, splitOn c s ≠ []
  | [] => by simp [splitOn]
  | x :: xs => by
    unfold splitOn
    split
    · simp
    · split <;> simp

theorem splitOn_cons_nl (cs : Str) : splitOn '\n' ('\n' :: cs) = [] :: splitOn '\n' cs := by
  simp [splitOn]

theorem splitOn_cons_other (c : Char) (cs : Str) (h : c ≠ '\n') :
    splitOn '\n' (c :: cs) = (c :: (splitOn '\n' cs).headD []) :: (splitOn '\n' cs).tail := by
  have hne := splitOn_ne_nil '\n' cs
  have hb : (c == '\n') = false := by simpa using h
  show (if (c == '\n') = true then [] :: splitOn '\n' cs else
      match splitOn '\n' cs with
      | [] => [[c]]
      | h :: t => (c :: h) :: t) = _
  rw [hb]
  cases hs : splitOn '\n' cs with
  | nil => exact absurd hs hne
  | cons h t => simp

theorem lens_flagsL (text : Str) : lens (flagsL text) = (splitOn '\n' text).map byteLen := by
  induction text with
  | nil => simp [flagsL, lens, splitOn, byteLen]
  | cons c cs ih =>
    have hne := splitOn_ne_nil '\n' cs
    by_cases hc : c = '\n'
    · subst hc
      rw [flagsL_cons_nl, splitOn_cons_nl]
      show 0 :: lens (flagsL cs) = _
      rw [ih]
      simp [byteLen]
    · rw [flagsL_cons_other c cs hc, lens_replicate_append, ih, splitOn_cons_other c cs hc]
      cases hs : splitOn '\n' cs with
      | nil => exact absurd hs hne
      | cons h t =>
        simp only [List.map_cons, List.headD_cons, List.tail_cons]
        rw [byteLen_cons]

theorem rawLens_flagsL (text : Str) : rawLens (flagsL text) = (rawLines text).map byteLen := by
  unfold rawLens rawLines
  rw [lens_flagsL]
  have hne := splitOn_ne_nil '\n' text
  generalize splitOn '\n' text = ps at *
  have hlast : ((ps.map byteLen).getLast? == some 0) = (ps.getLast? == some []) := by
    rw [List.getLast?_map]
    cases hl : ps.getLast? with
    | none => simp
    | some r =>
      simp only [Option.map_some]
      by_cases hr : r = []
      · subst hr; simp [byteLen]
      · have : byteLen r ≠ 0 := fun h => hr ((byteLen_eq_zero r).1 h)
        cases r with
        | nil => exact absurd rfl hr
        | cons x xs =>
          have hb : (byteLen (x :: xs) == 0) = false := by simpa using this
          simp [hb]
  simp only [hlast]
  split
  · simp [List.map_dropLast]
  · rfl

/-- **The scanner specification on a text = the raw lines of the parser model.** For every text: the byte lengths of the
segments `segs` finds in the newline flags of the text are the byte lengths of `Parse.rawLines text`, cut at the first
raw line of `maxTok` bytes or more, and `segs` reports an over-long segment exactly when there is such a raw line. -/
theorem segs_are_rawLines (text : Str) (maxTok n : Nat) (hn : byteLenFlags text < n) :
    ((segs (nlFlags text) maxTok n 0).1.map (·.2), (segs (nlFlags text) maxTok n 0).2) =
      cutLens maxTok ((rawLines text).map byteLen) := by
  rw [nlFlags_eq, ← rawLens_flagsL]
  have := segs_eq_cut (flagsL text) maxTok n 0 (Nat.zero_le _) (by simpa [byteLenFlags] using hn)
  simpa using this

end Fabio.Lemmas.C02Lines
