import Fabio.Model.C20Capture
namespace Fabio.Lemmas.C20Capture
open Fabio.Model.C20Capture

theorem foldl_spec (flusher : Bool) (ops : List RWOp) (c : Capture) :
    (ops.foldl (captureStep flusher) c).forwarded = c.forwarded ++ visible flusher ops ∧
    (ops.foldl (captureStep flusher) c).size = c.size + accepted ops ∧
    (ops.foldl (captureStep flusher) c).code = ((statuses ops).getLast?).getD c.code := by
  induction ops generalizing c with
  | nil => simp [visible, accepted, statuses]
  | cons op rest ih =>
    simp only [List.foldl_cons]
    obtain ⟨h1, h2, h3⟩ := ih (captureStep flusher c op)
    rw [h1, h2, h3]
    cases op with
    | header code =>
      refine ⟨by simp [captureStep, visible], by simp [captureStep, accepted], ?_⟩
      simp [captureStep, statuses, List.getLast?_cons]
    | write o a =>
      refine ⟨by simp [captureStep, visible], ?_, by simp [captureStep, statuses]⟩
      simp [captureStep, accepted]; omega
    | flush =>
      cases flusher <;> simp [captureStep, visible, accepted, statuses]
    | set k v =>
      exact ⟨by simp [captureStep, visible], by simp [captureStep, accepted], by simp [captureStep, statuses]⟩

end Fabio.Lemmas.C20Capture
