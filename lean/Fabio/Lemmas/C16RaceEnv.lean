import Fabio.Model.C16RaceEnv
import Fabio.Lemmas.C16Race
/-! Helper lemmas for the race of C16 with cleanup iterations in the schedule: the accounting invariant. -/
namespace Fabio.Lemmas.C16RaceEnv
open Fabio.Model.Route (Str)
open Fabio.Model.C16 Fabio.Model.C16.RaceEnv Fabio.Lemmas.C16 Fabio.Lemmas.C16Race
open Fabio.Model.C16.Race (TState tstep isDone)

/-- where a connection dialled in the race can be -/
def Accounted (k : Str) (s : EState) (i : Nat) : Prop :=
  (∃ c, s.pool.find k = some c ∧ c.id = i ∧ c.shut = false) ∨ i ∈ s.closed ∨ i ∈ s.handed ∨
    (∃ j : Nat, s.ts[j]? = some (TState.dialled i))

structure J2 (next0 : Nat) (k : Str) (s : EState) : Prop where
  acct : ∀ i : Nat, next0 ≤ i → i < s.next → Accounted k s i
  budget : s.next + total s.ts ≤ next0 + s.ts.length
  mono : next0 ≤ s.next

theorem j2_start (p : Pool) (next n : Nat) (k : Str) : J2 next k (start p next n) := by
  refine ⟨?_, ?_, Nat.le_refl _⟩
  · intro i h1 h2; exact absurd h2 (Nat.not_lt.mpr h1)
  · simp [start, total_replicate_start]

/-- a thread other than `i` keeps what it holds when thread `i` moves -/
theorem holder_other {ts : List TState} {i j : Nat} {t t' : TState} {x : Nat}
    (hi : ts[i]? = some t) (ht : ∀ y, t ≠ TState.dialled y) (hj : ts[j]? = some (TState.dialled x)) :
    (ts.set i t')[j]? = some (TState.dialled x) := by
  have : j ≠ i := by intro e; subst e; rw [hi] at hj; injection hj with hj; exact ht x hj
  rw [List.getElem?_set_ne (Ne.symm this)]; exact hj

theorem j2_thread (next0 : Nat) (k : Str) (s : EState) (i : Nat) (h : J2 next0 k s) :
    J2 next0 k (step k s (.thread i)) := by
  obtain ⟨acct, budget, mono⟩ := h
  simp only [step]
  cases hi : s.ts[i]? with
  | none => exact ⟨acct, budget, mono⟩
  | some t =>
    have hlen : ∀ t', (s.ts.set i t').length = s.ts.length := fun _ => List.length_set
    -- a step that changes neither pool nor counters nor lists, by a thread that holds nothing
    have quiet : ∀ t', (∀ y, t ≠ TState.dialled y) → credit t' ≤ credit t →
        J2 next0 k { s with ts := s.ts.set i t' } := by
      intro t' hnd hcr
      have ht := total_set s.ts i t t' hi
      refine ⟨?_, ?_, mono⟩
      · intro x h1 h2
        rcases acct x h1 h2 with a | a | a | ⟨j, hj⟩
        · exact Or.inl a
        · exact Or.inr (Or.inl a)
        · exact Or.inr (Or.inr (Or.inl a))
        · exact Or.inr (Or.inr (Or.inr ⟨j, holder_other hi hnd hj⟩))
      · simp only [hlen]; omega
    cases t with
    | start =>
      simp only [tstep]
      cases hf : s.pool.find k with
      | none => exact quiet .missed (by intro y h; cases h) (Nat.le_refl _)
      | some c =>
        simp only
        cases hs : c.shut with
        | true =>
          simp only [Bool.not_true, Bool.false_eq_true, if_false]
          exact quiet .missed (by intro y h; cases h) (Nat.le_refl _)
        | false =>
          simp only [Bool.not_false, if_true]
          exact quiet (.done (.reused c.id)) (by intro y h; cases h) (by simp [credit])
    | missed =>
      simp only [tstep]
      have ht := total_set s.ts i .missed (.dialled s.next) hi
      refine ⟨?_, ?_, Nat.le_succ_of_le mono⟩
      · intro x h1 h2
        have h2' : x < s.next + 1 := h2
        rcases Nat.lt_or_ge x s.next with hlt | hge
        · rcases acct x h1 hlt with a | a | a | ⟨j, hj⟩
          · exact Or.inl a
          · exact Or.inr (Or.inl a)
          · exact Or.inr (Or.inr (Or.inl a))
          · exact Or.inr (Or.inr (Or.inr ⟨j, holder_other hi (by intro y h; cases h) hj⟩))
        · have : x = s.next := by omega
          subst this
          exact Or.inr (Or.inr (Or.inr ⟨i, List.getElem?_set_self (lt_of_get hi)⟩))
      · simp only [hlen]; simp only [credit] at ht; omega
    | dialled id =>
      have store : (∀ c, s.pool.find k = some c → c.shut = true) →
          J2 next0 k { s with pool := s.pool.put k { id := id }, ts := s.ts.set i (.done (.dialled id)) } := by
        intro hno
        have ht := total_set s.ts i (.dialled id) (.done (.dialled id)) hi
        refine ⟨?_, ?_, mono⟩
        · intro x h1 h2
          rcases acct x h1 h2 with ⟨c, hc, _, hl⟩ | a | a | ⟨j, hj⟩
          · have := hno c hc; rw [hl] at this; cases this
          · exact Or.inr (Or.inl a)
          · exact Or.inr (Or.inr (Or.inl a))
          · by_cases hji : j = i
            · subst hji; rw [hi] at hj; injection hj with hj; injection hj with hj; subst hj
              exact Or.inl ⟨{ id := id }, find_put_same _ _ _, rfl, rfl⟩
            · exact Or.inr (Or.inr (Or.inr ⟨j, by simp only; rw [List.getElem?_set_ne (Ne.symm hji)]; exact hj⟩))
        · simp only [hlen]; simp only [credit] at ht; omega
      simp only [tstep]
      cases hf : s.pool.find k with
      | none =>
        simp only
        exact store (by intro c hc; rw [hf] at hc; cases hc)
      | some c =>
        simp only [Bool.true_and]
        cases hs : c.shut with
        | true =>
          simp only [Bool.not_true, Bool.false_eq_true, if_false]
          exact store (by intro c' hc'; rw [hf] at hc'; injection hc' with hc'; subst hc'; exact hs)
        | false =>
          simp only [Bool.not_false, if_true]
          have ht := total_set s.ts i (.dialled id) (.done (.reused c.id)) hi
          refine ⟨?_, ?_, mono⟩
          · intro x h1 h2
            rcases acct x h1 h2 with a | a | a | ⟨j, hj⟩
            · exact Or.inl a
            · exact Or.inr (Or.inl (by simp [a]))
            · exact Or.inr (Or.inr (Or.inl a))
            · by_cases hji : j = i
              · subst hji; rw [hi] at hj; injection hj with hj; injection hj with hj; subst hj
                exact Or.inr (Or.inl (by simp))
              · exact Or.inr (Or.inr (Or.inr ⟨j, by simp only; rw [List.getElem?_set_ne (Ne.symm hji)]; exact hj⟩))
          · simp only [hlen]; simp only [credit] at ht; omega
    | done r =>
      simp only [tstep]
      rw [set_same s.ts i _ hi]
      exact ⟨acct, budget, mono⟩

theorem j2_cleanup (next0 : Nat) (k : Str) (s : EState) (urls : List Str) (h : J2 next0 k s) :
    J2 next0 k (step k s (.cleanup urls)) := by
  obtain ⟨acct, budget, mono⟩ := h
  simp only [step]
  refine ⟨?_, budget, mono⟩
  intro x h1 h2
  rcases acct x h1 h2 with ⟨c, hc, hid, hl⟩ | a | a | a
  · by_cases hu : urls.contains k = true
    · exact Or.inl ⟨c, find_cleanup s.pool urls k c hc hl hu, hid, hl⟩
    · refine Or.inr (Or.inr (Or.inl ?_))
      have hm := find_mem hc
      have hnk : k ∉ urls := by intro hk; exact hu (by simpa using hk)
      have : c ∈ s.pool.toClose urls := by
        simp only [Pool.toClose, List.mem_map, List.mem_filter]
        exact ⟨(k, c), ⟨hm, by simp [hl, hnk]⟩, rfl⟩
      exact List.mem_append.mpr (Or.inr (List.mem_map.mpr ⟨c, this, hid⟩))
  · exact Or.inr (Or.inl a)
  · exact Or.inr (Or.inr (Or.inl (List.mem_append.mpr (Or.inl a))))
  · exact Or.inr (Or.inr (Or.inr a))

theorem j2_step (next0 : Nat) (k : Str) (s : EState) (e : Ev) (h : J2 next0 k s) : J2 next0 k (step k s e) := by
  cases e with
  | thread i => exact j2_thread next0 k s i h
  | cleanup urls => exact j2_cleanup next0 k s urls h

theorem j2_run (next0 : Nat) (k : Str) (s : EState) (es : List Ev) (h : J2 next0 k s) : J2 next0 k (run k s es) := by
  induction es generalizing s with
  | nil => exact h
  | cons e es ih => exact ih (step k s e) (j2_step next0 k s e h)

theorem step_length (k : Str) (s : EState) (e : Ev) : (step k s e).ts.length = s.ts.length := by
  cases e with
  | thread i =>
    simp only [step]
    cases s.ts[i]? with
    | none => rfl
    | some t => simp
  | cleanup urls => rfl

theorem run_length (k : Str) (s : EState) (es : List Ev) : (run k s es).ts.length = s.ts.length := by
  induction es generalizing s with
  | nil => rfl
  | cons e es ih => exact (ih (step k s e)).trans (step_length k s e)

end Fabio.Lemmas.C16RaceEnv
