import Fabio.Model.Route
import Fabio.Model.C04
import Mathlib.Algebra.Order.Field.Rat
import Mathlib.Tactic.Linarith
import Mathlib.Tactic.FieldSimp
import Mathlib.Tactic.Ring
/-!
Helper lemmas for C04, weight part: a closed form of `Model.Route.weigh` and the arithmetic of the four
cases, over ℚ.
-/
namespace Fabio.Lemmas.C04
open Fabio Fabio.Model.Route Fabio.Model.C04

def isFixed (t : Target) : Bool := decide (0 < t.fixedWeight)

theorem nFixed_def (ts : List Target) : nFixed ts = (ts.filter isFixed).length := rfl

theorem foldl_add_rat {α} (f : α → Rat) (l : List α) (a : Rat) :
    l.foldl (fun a t => a + f t) a = a + (l.map f).sum := by
  induction l generalizing a with
  | nil => simp
  | cons x xs ih => simp only [List.foldl_cons, List.map_cons, List.sum_cons, ih]; ring

theorem sumFixed_def (ts : List Target) : sumFixed ts = ((ts.filter isFixed).map (·.fixedWeight)).sum := by
  unfold sumFixed
  rw [foldl_add_rat]
  have : (fun t : Target => decide (0 < t.fixedWeight)) = isFixed := rfl
  rw [this]; simp

theorem nFixed_le (ts : List Target) : nFixed ts ≤ ts.length := List.length_filter_le _ _

theorem sum_pos_of_pos (l : List Rat) (h : ∀ x ∈ l, 0 < x) (hne : l ≠ []) : 0 < l.sum := by
  induction l with
  | nil => exact absurd rfl hne
  | cons x xs ih =>
    simp only [List.sum_cons]
    have hx : 0 < x := h x (by simp)
    by_cases hxs : xs = []
    · subst hxs; simpa using hx
    · have := ih (fun y hy => h y (by simp [hy])) hxs
      linarith

theorem sum_nonneg_of_pos (l : List Rat) (h : ∀ x ∈ l, 0 < x) : 0 ≤ l.sum := by
  by_cases hne : l = []
  · subst hne; simp
  · exact le_of_lt (sum_pos_of_pos l h hne)

theorem fixed_pos (ts : List Target) : ∀ x ∈ (ts.filter isFixed).map (·.fixedWeight), 0 < x := by
  intro x hx
  obtain ⟨t, ht, rfl⟩ := List.mem_map.mp hx
  have := (List.mem_filter.mp ht).2
  simpa [isFixed] using this

theorem sumFixed_pos (ts : List Target) (h : nFixed ts ≠ 0) : 0 < sumFixed ts := by
  rw [sumFixed_def]
  apply sum_pos_of_pos _ (fixed_pos ts)
  intro hnil
  apply h
  rw [nFixed_def]
  have : (ts.filter isFixed).map (·.fixedWeight) = [] := hnil
  simpa using this

theorem sumFixed_nonneg (ts : List Target) : 0 ≤ sumFixed ts := by
  rw [sumFixed_def]; exact sum_nonneg_of_pos _ (fixed_pos ts)

theorem sumFixed_zero (ts : List Target) (h : nFixed ts = 0) : sumFixed ts = 0 := by
  rw [sumFixed_def]
  rw [nFixed_def] at h
  have : ts.filter isFixed = [] := List.eq_nil_of_length_eq_zero h
  rw [this]; rfl

/-- a fixed target's requested weight is at most the sum of the fixed weights -/
theorem fixed_le_sum (ts : List Target) (t : Target) (ht : t ∈ ts) (hf : 0 < t.fixedWeight) :
    t.fixedWeight ≤ sumFixed ts := by
  rw [sumFixed_def]
  have hm : t ∈ ts.filter isFixed := List.mem_filter.mpr ⟨ht, by simp [isFixed, hf]⟩
  have hp := fixed_pos ts
  generalize ts.filter isFixed = l at hm hp
  induction l with
  | nil => cases hm
  | cons x xs ih =>
    simp only [List.map_cons, List.sum_cons]
    have hx : 0 < x.fixedWeight := hp _ (by simp)
    have hrest : 0 ≤ (xs.map (·.fixedWeight)).sum :=
      sum_nonneg_of_pos _ (fun y hy => hp y (by simp [hy]))
    rcases List.mem_cons.mp hm with rfl | hm
    · linarith
    · have := ih hm (fun y hy => hp y (by simp [hy]))
      linarith

/-! ### closed form of `weigh` -/

def scaleOf (ts : List Target) : Rat :=
  if 1 < sumFixed ts ∨ (nFixed ts = ts.length ∧ sumFixed ts < 1) then 1 / sumFixed ts else 1

def dynOf (ts : List Target) : Rat :=
  let d : Rat := (1 - sumFixed ts) / ((ts.length - nFixed ts : Nat) : Rat)
  if d < 0 then 0 else d

/-- effective weight of target `t` as a member of `ts` -/
def eff (ts : List Target) (t : Target) : Rat :=
  if nFixed ts = 0 then 1 / (ts.length : Rat)
  else if 0 < t.fixedWeight then t.fixedWeight * scaleOf ts else dynOf ts

theorem weigh_eq (ts : List Target) : weigh ts = ts.map (fun t => { t with weight := eff ts t }) := by
  unfold weigh eff
  by_cases h : nFixed ts = 0
  · simp [h]
  · simp only [h, if_false]
    apply List.map_congr_left
    intro t _
    by_cases hf : 0 < t.fixedWeight <;> simp [hf, scaleOf, dynOf]

theorem weigh_length (ts : List Target) : (weigh ts).length = ts.length := by
  rw [weigh_eq]; simp

theorem weigh_getElem? (ts : List Target) (i : Nat) :
    (weigh ts)[i]? = (ts[i]?).map (fun t => { t with weight := eff ts t }) := by
  rw [weigh_eq]; simp

theorem weights_map (ts : List Target) : (weigh ts).map (·.weight) = ts.map (eff ts) := by
  rw [weigh_eq]; simp

/-- `weigh` keeps every field but `weight` (in particular it does not touch the requested weights). -/
theorem weigh_nFixed (ts : List Target) : nFixed (weigh ts) = nFixed ts := by
  rw [weigh_eq]
  simp only [nFixed, List.filter_map, List.length_map]
  rfl

/-! ### the sum of a two-valued map -/

theorem sum_split (ts : List Target) (a : Target → Rat) (c : Rat) :
    (ts.map (fun t => if 0 < t.fixedWeight then a t else c)).sum =
      ((ts.filter isFixed).map a).sum + c * (((ts.length - (ts.filter isFixed).length : Nat)) : Rat) := by
  induction ts with
  | nil => simp
  | cons t rest ih =>
    have hle : (rest.filter isFixed).length ≤ rest.length := List.length_filter_le _ _
    by_cases hf : 0 < t.fixedWeight
    · have hF : isFixed t = true := by simp [isFixed, hf]
      simp only [List.map_cons, List.sum_cons, hf, if_true, List.filter_cons, hF, List.length_cons, ih]
      have : rest.length + 1 - ((rest.filter isFixed).length + 1) = rest.length - (rest.filter isFixed).length := by omega
      rw [this]; ring
    · have hF : isFixed t = false := by simp [isFixed, hf]
      simp only [List.map_cons, List.sum_cons, hf, if_false, List.filter_cons, hF, List.length_cons, ih,
        Bool.false_eq_true]
      have : rest.length + 1 - (rest.filter isFixed).length = (rest.length - (rest.filter isFixed).length) + 1 := by omega
      rw [this]; push_cast; ring

theorem div_neg_of_neg_of_pos' {a b : Rat} (ha : a < 0) (hb : 0 < b) : a / b < 0 := by
  rw [div_eq_mul_inv]
  exact mul_neg_of_neg_of_pos ha (inv_pos.mpr hb)

theorem sum_const (ts : List Target) (c : Rat) : (ts.map (fun _ => c)).sum = c * (ts.length : Rat) := by
  induction ts with
  | nil => simp
  | cons t rest ih => simp only [List.map_cons, List.sum_cons, ih, List.length_cons]; push_cast; ring

theorem sum_mul_right (l : List Target) (f : Target → Rat) (s : Rat) :
    (l.map (fun t => f t * s)).sum = (l.map f).sum * s := by
  induction l with
  | nil => simp
  | cons t rest ih => simp only [List.map_cons, List.sum_cons, ih]; ring

/-! ### the four cases -/

theorem dynOf_nonneg (ts : List Target) : 0 ≤ dynOf ts := by
  unfold dynOf
  simp only
  split
  · exact le_refl 0
  · linarith

theorem scaleOf_pos (ts : List Target) (h : nFixed ts ≠ 0) : 0 < scaleOf ts := by
  unfold scaleOf
  have hs := sumFixed_pos ts h
  split
  · exact one_div_pos.mpr hs
  · exact one_pos

theorem eff_nonneg (ts : List Target) (t : Target) : 0 ≤ eff ts t := by
  unfold eff
  split
  · apply div_nonneg <;> simp
  · rename_i h
    split
    · rename_i hf
      exact le_of_lt (mul_pos hf (scaleOf_pos ts h))
    · exact dynOf_nonneg ts

theorem eff_sum_one (ts : List Target) (hne : ts ≠ []) : (ts.map (eff ts)).sum = 1 := by
  have hlen : 0 < ts.length := List.length_pos_iff.mpr hne
  have hlenQ : (0 : Rat) < (ts.length : Rat) := by exact_mod_cast hlen
  by_cases h : nFixed ts = 0
  · have : ts.map (eff ts) = ts.map (fun _ => 1 / (ts.length : Rat)) := by
      apply List.map_congr_left; intro t _; simp [eff, h]
    rw [this, sum_const]
    field_simp
  · have hs := sumFixed_pos ts h
    have hle := nFixed_le ts
    have : ts.map (eff ts) = ts.map (fun t => if 0 < t.fixedWeight then t.fixedWeight * scaleOf ts else dynOf ts) := by
      apply List.map_congr_left; intro t _; simp [eff, h]
    rw [this, sum_split, sum_mul_right, ← sumFixed_def, ← nFixed_def]
    by_cases hA : 1 < sumFixed ts
    · -- scaled down; the dynamic share is 0 (or there is no dynamic target)
      have hsc : scaleOf ts = 1 / sumFixed ts := by simp [scaleOf, hA]
      have hd : dynOf ts * (((ts.length - nFixed ts : Nat)) : Rat) = 0 := by
        by_cases hk : ts.length - nFixed ts = 0
        · rw [hk]; simp
        · have hkQ : (0 : Rat) < ((ts.length - nFixed ts : Nat) : Rat) := by
            exact_mod_cast Nat.pos_of_ne_zero hk
          have : (1 - sumFixed ts) / ((ts.length - nFixed ts : Nat) : Rat) < 0 :=
            div_neg_of_neg_of_pos' (by linarith) hkQ
          simp [dynOf, this]
      rw [hsc, hd]
      field_simp
      ring
    · by_cases hB : nFixed ts = ts.length
      · have hk : ts.length - nFixed ts = 0 := by omega
        rw [hk]
        by_cases hlt : sumFixed ts < 1
        · have hsc : scaleOf ts = 1 / sumFixed ts := by simp [scaleOf, hB, hlt]
          rw [hsc]
          field_simp
          simp
        · have heq : sumFixed ts = 1 := le_antisymm (not_lt.mp hA) (not_lt.mp hlt)
          have hsc : scaleOf ts = 1 := by simp [scaleOf, hA, hlt]
          rw [hsc, heq]; simp
      · have hsc : scaleOf ts = 1 := by simp [scaleOf, hA, hB]
        have hk : 0 < ts.length - nFixed ts := by omega
        have hkQ : (0 : Rat) < ((ts.length - nFixed ts : Nat) : Rat) := by exact_mod_cast hk
        have hdn : ¬ (1 - sumFixed ts) / ((ts.length - nFixed ts : Nat) : Rat) < 0 := by
          apply not_lt.mpr
          apply div_nonneg
          · linarith [not_lt.mp hA]
          · exact le_of_lt hkQ
        have hd : dynOf ts = (1 - sumFixed ts) / ((ts.length - nFixed ts : Nat) : Rat) := by
          simp [dynOf, hdn]
        rw [hsc, hd]
        field_simp
        ring

end Fabio.Lemmas.C04
