import Fabio.Lemmas.C04Weights
/-!
Helper lemmas for C04: every route of every table built by the route commands carries targets that came
out of `weigh` and is non-empty — so the weight theorems speak about *every route* (shared table model
`Model/Route.lean`).
-/
namespace Fabio.Lemmas.C04
open Fabio Fabio.Model.Route

def Weighed (r : Route) : Prop := ∃ ts, r.targets = weigh ts
def RouteOK (r : Route) : Prop := r.targets ≠ [] ∧ Weighed r
/-- every route of the table is non-empty and weighed -/
def TableOK (t : Table) : Prop := ∀ kv ∈ t, ∀ r ∈ kv.2, RouteOK r
/-- every route of the table is weighed (possibly empty: the state between `filter` and `prune`) -/
def TableW (t : Table) : Prop := ∀ kv ∈ t, ∀ r ∈ kv.2, Weighed r

theorem weigh_ne_nil (ts : List Target) (h : ts ≠ []) : weigh ts ≠ [] := by
  intro h0
  have := congrArg List.length h0
  rw [weigh_length] at this
  exact h (List.eq_nil_of_length_eq_zero this)

theorem addTarget_ok (r : Route) (service url : Str) (fw : Rat) (tags : List Str) (opts : List (Str × Str))
    (h : RouteOK r ∨ r.targets = []) : RouteOK (r.addTarget service url fw tags opts) := by
  unfold Route.addTarget
  simp only
  generalize (if fw < 0 then (0 : Rat) else fw) = fw'
  by_cases hany : (r.targets.any (fun t => t.service == service && t.url == url && t.fixedWeight == fw' && t.tags == tags)) = true
  · rw [if_pos hany]
    rcases h with h | h
    · exact h
    · rw [h] at hany; simp at hany
  · rw [if_neg hany]
    exact ⟨weigh_ne_nil _ (by simp), _, rfl⟩

theorem filter_weighed (r : Route) (skip : Target → Bool) : Weighed (r.filter skip) := ⟨_, rfl⟩

theorem setWeight_ok (r : Route) (service : Str) (w : Rat) (tags : List Str) (h : RouteOK r) :
    RouteOK (r.setWeight service w tags).1 := by
  unfold Route.setWeight
  simp only
  split
  · exact h
  · refine ⟨weigh_ne_nil _ ?_, _, rfl⟩
    intro h0
    exact h.1 (List.map_eq_nil_iff.mp h0)

/-! ### table plumbing -/

theorem lookup_mem (t : Table) (host : Str) (rs : List Route) (h : t.lookup host = some rs) :
    ∃ k, (k, rs) ∈ t := by
  induction t with
  | nil => simp [List.lookup] at h
  | cons kv rest ih =>
    obtain ⟨k, v⟩ := kv
    simp only [List.lookup] at h
    split at h
    · cases h; exact ⟨k, by simp⟩
    · obtain ⟨k', hk⟩ := ih h
      exact ⟨k', by simp [hk]⟩

theorem get_mem (t : Table) (host : Str) (r : Route) (h : r ∈ t.get host) : ∃ kv ∈ t, r ∈ kv.2 := by
  unfold Table.get at h
  cases hl : t.lookup host with
  | none => rw [hl] at h; simp at h
  | some rs =>
    rw [hl] at h
    obtain ⟨k, hk⟩ := lookup_mem t host rs hl
    exact ⟨(k, rs), hk, by simpa using h⟩

theorem set_mem (t : Table) (host : Str) (rs : List Route) (kv : Str × List Route)
    (h : kv ∈ t.set host rs) : kv ∈ t ∨ kv.2 = rs := by
  unfold Table.set at h
  split at h
  · obtain ⟨x, hx, rfl⟩ := List.mem_map.mp h
    split
    · right; rfl
    · left; exact hx
  · rcases List.mem_append.mp h with h | h
    · left; exact h
    · right; simp at h; rw [h]

theorem set_pred (P : Route → Prop) (t : Table) (host : Str) (rs : List Route)
    (ht : ∀ kv ∈ t, ∀ r ∈ kv.2, P r) (hrs : ∀ r ∈ rs, P r) : ∀ kv ∈ t.set host rs, ∀ r ∈ kv.2, P r := by
  intro kv hkv r hr
  rcases set_mem t host rs kv hkv with h | h
  · exact ht kv h r hr
  · rw [h] at hr; exact hrs r hr

theorem get_pred (P : Route → Prop) (t : Table) (host : Str)
    (ht : ∀ kv ∈ t, ∀ r ∈ kv.2, P r) : ∀ r ∈ t.get host, P r := by
  intro r hr
  obtain ⟨kv, hkv, hr'⟩ := get_mem t host r hr
  exact ht kv hkv r hr'

theorem replaceRoute_pred (P : Route → Prop) (rs : List Route) (r : Route)
    (hrs : ∀ x ∈ rs, P x) (hr : P r) : ∀ x ∈ replaceRoute rs r, P x := by
  intro x hx
  obtain ⟨y, hy, rfl⟩ := List.mem_map.mp hx
  split
  · exact hr
  · exact hrs y hy

theorem findRoute_mem (rs : List Route) (path : Str) (r : Route) (h : findRoute rs path = some r) : r ∈ rs :=
  List.mem_of_find?_eq_some h

theorem route_pred (P : Route → Prop) (t : Table) (host path : Str) (r : Route)
    (ht : ∀ kv ∈ t, ∀ r ∈ kv.2, P r) (h : t.route host path = some r) : P r :=
  get_pred P t host ht r (findRoute_mem _ _ _ h)

theorem prune_ok (t : Table) (h : TableW t) : TableOK (prune t) := by
  intro kv hkv r hr
  unfold prune at hkv
  obtain ⟨hkv, _⟩ := List.mem_filter.mp hkv
  obtain ⟨kv0, hkv0, rfl⟩ := List.mem_map.mp hkv
  simp only at hr
  obtain ⟨hr, hne⟩ := List.mem_filter.mp hr
  refine ⟨?_, h kv0 hkv0 r hr⟩
  intro h0; rw [h0] at hne; simp at hne

theorem mapRoutes_weighed (t : Table) (skip : Target → Bool) : TableW (mapRoutes t (fun r => r.filter skip)) := by
  intro kv hkv r hr
  unfold mapRoutes at hkv
  obtain ⟨kv0, _, rfl⟩ := List.mem_map.mp hkv
  simp only at hr
  obtain ⟨r0, _, rfl⟩ := List.mem_map.mp hr
  exact filter_weighed r0 skip

theorem TableOK.toW {t : Table} (h : TableOK t) : TableW t := fun kv hkv r hr => (h kv hkv r hr).2

theorem del_one_ok (t : Table) (host : Str) (r : Route) (skip : Target → Bool) (h : TableOK t) :
    TableOK (prune (t.set host (replaceRoute (t.get host) (r.filter skip)))) := by
  apply prune_ok
  apply set_pred Weighed t host _ h.toW
  apply replaceRoute_pred Weighed
  · exact get_pred Weighed t host h.toW
  · exact filter_weighed r skip

/-! ### the three commands keep the invariant -/

theorem addRoute_ok (env : Env) (t t' : Table) (d : RouteDef) (h : TableOK t)
    (he : addRoute env t d = .ok t') : TableOK t' := by
  unfold addRoute at he
  simp only at he
  split at he
  · cases he
  · split at he
    · cases he
    · split at he
      · cases he
      · rename_i url _
        split at he
        · split at he
          · cases he
          · split at he
            · cases he
            · cases he
              apply set_pred RouteOK t _ _ h
              intro r hr
              simp only [List.mem_singleton] at hr
              rw [hr]; exact addTarget_ok _ _ _ _ _ _ (Or.inr rfl)
        · split at he
          · split at he
            · cases he
            · cases he
              apply set_pred RouteOK t _ _ h
              intro r hr
              rcases List.mem_append.mp hr with hr | hr
              · exact get_pred RouteOK t _ h r hr
              · simp only [List.mem_singleton] at hr
                rw [hr]; exact addTarget_ok _ _ _ _ _ _ (Or.inr rfl)
          · rename_i r0 hf
            cases he
            apply set_pred RouteOK t _ _ h
            apply replaceRoute_pred RouteOK
            · exact get_pred RouteOK t _ h
            · exact addTarget_ok _ _ _ _ _ _ (Or.inl (get_pred RouteOK t _ h r0 (findRoute_mem _ _ _ hf)))

theorem weighRoute_ok (t t' : Table) (d : RouteDef) (h : TableOK t)
    (he : weighRoute t d = .ok t') : TableOK t' := by
  unfold weighRoute at he
  simp only at he
  split at he
  · cases he
  · split at he
    · cases he
    · rename_i r0 hr0
      split at he
      · cases he
      · cases he
        apply set_pred RouteOK t _ _ h
        apply replaceRoute_pred RouteOK
        · exact get_pred RouteOK t _ h
        · exact setWeight_ok r0 _ _ _ (route_pred RouteOK t _ _ r0 h hr0)

theorem delRoute_ok (env : Env) (t t' : Table) (d : RouteDef) (h : TableOK t)
    (he : delRoute env t d = .ok t') : TableOK t' := by
  unfold delRoute at he
  split at he
  · cases he; exact prune_ok _ (mapRoutes_weighed t _)
  · split at he
    · cases he; exact prune_ok _ (mapRoutes_weighed t _)
    · split at he
      · simp only at he
        split at he
        · cases he; exact h
        · cases he; exact del_one_ok t _ _ _ h
      · split at he
        · cases he
        · simp only at he
          split at he
          · cases he; exact h
          · cases he; exact del_one_ok t _ _ _ h

theorem applyDef_ok (env : Env) (t t' : Table) (d : RouteDef) (h : TableOK t)
    (he : applyDef env t d = .ok t') : TableOK t' := by
  unfold applyDef at he
  split at he
  · exact addRoute_ok env t t' d h he
  · exact delRoute_ok env t t' d h he
  · exact weighRoute_ok t t' d h he
  · cases he

theorem foldlM_ok (env : Env) (defs : List RouteDef) : ∀ (t t' : Table), TableOK t →
    defs.foldlM (applyDef env) t = .ok t' → TableOK t' := by
  induction defs with
  | nil => intro t t' h he; simp only [List.foldlM_nil, pure, Except.pure] at he; cases he; exact h
  | cons d rest ih =>
    intro t t' h he
    simp only [List.foldlM_cons, bind, Except.bind] at he
    split at he
    · cases he
    · rename_i t1 h1
      exact ih t1 t' (applyDef_ok env t t1 d h h1) he

theorem insertDesc_mem (r x : Route) (rs : List Route) (h : x ∈ insertDesc r rs) : x = r ∨ x ∈ rs := by
  induction rs with
  | nil => simp [insertDesc] at h; exact Or.inl h
  | cons y ys ih =>
    simp only [insertDesc] at h
    split at h
    · rcases List.mem_cons.mp h with h | h
      · exact Or.inl h
      · exact Or.inr h
    · rcases List.mem_cons.mp h with h | h
      · exact Or.inr (by simp [h])
      · rcases ih h with h | h
        · exact Or.inl h
        · exact Or.inr (by simp [h])

theorem sortRoutes_mem (rs : List Route) (x : Route) (h : x ∈ sortRoutes rs) : x ∈ rs := by
  induction rs with
  | nil => simp [sortRoutes] at h
  | cons r rest ih =>
    simp only [sortRoutes, List.foldr_cons] at h
    rcases insertDesc_mem r x _ h with h | h
    · simp [h]
    · exact List.mem_cons_of_mem _ (ih h)

theorem newTable_ok (env : Env) (defs : List RouteDef) (t : Table) (he : newTable env defs = .ok t) :
    TableOK t := by
  unfold newTable buildFrom at he
  split at he
  · cases he
  · rename_i t0 h0
    cases he
    have hok := foldlM_ok env defs [] t0 (by intro kv hkv; cases hkv) h0
    intro kv hkv r hr
    obtain ⟨kv0, hkv0, rfl⟩ := List.mem_map.mp hkv
    exact hok kv0 hkv0 r (sortRoutes_mem _ _ hr)

end Fabio.Lemmas.C04
