import Fabio.Lemmas.C17Proxy
import Fabio.Model.C17Fault
/-!
Helper lemmas for `Fabio.Model.C17Fault` (core Lean only): the machine never reads the body it has sent, so cutting
the connection commutes with every step; what a decided machine does is independent of the pool.
-/
namespace Fabio.Lemmas.C17
open Fabio.Model.C17

variable {Z : Type}

/-! ### cutting the connection commutes with every step -/

def cutS (cap : Nat) (s : GW Z) : GW Z := { s with down := s.down.cut cap }

theorem cut_writeHeader (cap : Nat) (d : Down) (h : Hdr) (c : Nat) :
    (d.cut cap).writeHeader h c = (d.writeHeader h c).cut cap := by
  obtain ⟨st, sent, body⟩ := d
  cases st with
  | some v => rfl
  | none =>
    simp only [Down.writeHeader, Down.cut]
    split <;> rfl

theorem cut_implicit (C : Cfg Z) (cap : Nat) (d : Down) (h : Hdr) (b : Bytes) :
    (d.cut cap).implicit C h b = (d.implicit C h b).cut cap := by
  obtain ⟨st, sent, body⟩ := d
  cases st <;> rfl

theorem implicit_body (C : Cfg Z) (d : Down) (h : Hdr) (b : Bytes) : (d.implicit C h b).body = d.body := by
  obtain ⟨st, sent, body⟩ := d
  cases st <;> rfl

/-- offering bytes to the cut connection = cutting what a patient client gets. -/
theorem writeF_cut (C : Cfg Z) (cap : Nat) (d : Down) (h : Hdr) (b : Bytes) :
    ((d.cut cap).writeF C cap h b).1 = (d.write C h b).cut cap := by
  unfold Down.writeF Down.write
  rw [cut_implicit]
  simp only [Down.cut, implicit_body, List.take_append, List.length_take]
  congr 2
  congr 1
  omega

/-- a failed write leaves the connection full. -/
theorem writeF_err_full (C : Cfg Z) (cap : Nat) (d : Down) (h : Hdr) (b : Bytes)
    (herr : (d.writeF C cap h b).2 = true) (hle : d.body.length ≤ cap) :
    (d.writeF C cap h b).1.body.length = cap := by
  simp only [Down.writeF, decide_eq_true_eq] at herr
  simp only [Down.writeF, implicit_body, List.length_append, List.length_take]
  omega

theorem cutS_writeHeader (C : Cfg Z) (cap : Nat) (s : GW Z) (code : Nat) :
    GW.writeHeader C (cutS cap s) code = cutS cap (GW.writeHeader C s code) := by
  obtain ⟨dec, hdr, down, pool⟩ := s
  unfold GW.writeHeader cutS
  simp only
  split
  · simp [cut_writeHeader]
  · cases dec with
    | undecided => simp only; split <;> simp [cut_writeHeader]
    | gzip z => simp [cut_writeHeader]
    | plain => simp [cut_writeHeader]

theorem cutS_decideOnWrite (C : Cfg Z) (cap : Nat) (s : GW Z) (b : Bytes) :
    GW.decideOnWrite C (cutS cap s) b = cutS cap (GW.decideOnWrite C s b) := by
  obtain ⟨dec, hdr, down, pool⟩ := s
  cases dec with
  | undecided =>
    by_cases hh : hhasRaw hdr hContentType = true
    · have := cutS_writeHeader C cap { dec := Dec.undecided, hdr := hdr, down := down, pool := pool } 200
      simpa [GW.decideOnWrite, cutS, hh] using this
    · have := cutS_writeHeader C cap { dec := Dec.undecided, hdr := hset hdr hContentType (C.sniff b), down := down, pool := pool } 200
      simpa [GW.decideOnWrite, cutS, hh] using this
  | gzip z => rfl
  | plain => rfl

theorem writeF_cutS (C : Cfg Z) (cap : Nat) (s : GW Z) (b : Bytes) :
    (GW.writeF C cap (cutS cap s) b).1 = cutS cap (GW.write C s b) := by
  unfold GW.writeF GW.write
  rw [cutS_decideOnWrite]
  generalize GW.decideOnWrite C s b = s'
  obtain ⟨dec, hdr, down, pool⟩ := s'
  cases dec with
  | undecided => simp [cutS, writeF_cut]
  | gzip z => simp [cutS, writeF_cut]
  | plain => simp [cutS, writeF_cut]

theorem closeF_cutS (C : Cfg Z) (cap : Nat) (s : GW Z) :
    GW.closeF C cap (cutS cap s) = cutS cap (GW.close C s) := by
  obtain ⟨dec, hdr, down, pool⟩ := s
  cases dec with
  | undecided => rfl
  | gzip z => simp [GW.closeF, GW.close, cutS, writeF_cut]
  | plain => rfl

theorem step_cutS (C : Cfg Z) (cap : Nat) (s : GW Z) (o : Op) (hw : ∀ b, o ≠ .w b) :
    GW.step C (cutS cap s) o = cutS cap (GW.step C s o) := by
  cases o with
  | w b => exact absurd rfl (hw b)
  | wh c => exact cutS_writeHeader C cap s c
  | fl => rfl
  | set k v => rfl
  | add k v => rfl
  | del k => rfl
  | unset k => rfl

/-! ### a decided machine only appends to the body -/

theorem down_write_status (C : Cfg Z) (d : Down) (h : Hdr) (b : Bytes) : ∃ c, (d.write C h b).status = some c := by
  obtain ⟨st, sent, body⟩ := d
  cases st with
  | some v => exact ⟨v, rfl⟩
  | none => exact ⟨200, rfl⟩

theorem writeHeader_decided (C : Cfg Z) (s : GW Z) (code : Nat) (hfin : informational code = false) :
    (GW.writeHeader C s code).dec.isUndecided = false := by
  obtain ⟨dec, hdr, down, pool⟩ := s
  cases dec with
  | undecided => simp only [GW.writeHeader, hfin, Bool.false_eq_true, if_false]; split <;> rfl
  | gzip z => simp [GW.writeHeader, hfin, Dec.isUndecided]
  | plain => simp [GW.writeHeader, hfin, Dec.isUndecided]

theorem write_decided (C : Cfg Z) (s : GW Z) (b : Bytes) :
    (GW.write C s b).dec.isUndecided = false ∧ ∃ c, (GW.write C s b).down.status = some c := by
  have h1 : (GW.decideOnWrite C s b).dec.isUndecided = false := by
    obtain ⟨dec, hdr, down, pool⟩ := s
    cases dec with
    | undecided => exact writeHeader_decided C _ 200 info200
    | gzip z => rfl
    | plain => rfl
  unfold GW.write
  generalize GW.decideOnWrite C s b = s' at h1 ⊢
  obtain ⟨dec, hdr, down, pool⟩ := s'
  cases dec with
  | undecided => cases h1
  | gzip z => exact ⟨rfl, down_write_status C down hdr _⟩
  | plain => exact ⟨rfl, down_write_status C down hdr _⟩

theorem close_run_decided (C : Cfg Z) (s : GW Z) (c : Nat) (hd : s.dec.isUndecided = false)
    (hs : s.down.status = some c) (ops : List Op) :
    (∃ extra, (GW.close C (GW.run C s ops)).down = { s.down with body := s.down.body ++ extra }) ∧
    (GW.close C (GW.run C s ops)).dec.isGzip = s.dec.isGzip ∧
    (GW.close C (GW.run C s ops)).pool.length = (GW.close C s).pool.length := by
  cases hdec : s.dec with
  | undecided => rw [hdec] at hd; cases hd
  | gzip z =>
    rw [run_gzip C ops s z c hdec hs]
    obtain ⟨dec, hdr, down, pool⟩ := s
    simp only at hdec hs
    subst hdec
    have hs' : ({ down with body := down.body ++ (C.comp.feed z (writesOf ops)).2 } : Down).status = some c := hs
    refine ⟨⟨(C.comp.feed z (writesOf ops)).2 ++ (C.comp.close (C.comp.feed z (writesOf ops)).1).2, ?_⟩, rfl, ?_⟩
    · simp [GW.close, down_write_some C hs', List.append_assoc]
    · simp [GW.close]
  | plain =>
    rw [run_plain C ops s c hdec hs]
    obtain ⟨dec, hdr, down, pool⟩ := s
    simp only at hdec hs
    subst hdec
    exact ⟨⟨(writesOf ops).flatten, rfl⟩, rfl, rfl⟩

theorem take_append_of_le {α} (l extra : List α) (n : Nat) (h : n ≤ l.length) : (l ++ extra).take n = l.take n := by
  rw [List.take_append]
  have : n - l.length = 0 := by omega
  simp [this]

/-! ### the departed client gets a prefix -/

theorem runF_close (C : Cfg Z) (cap : Nat) (stop : Bool) (ops : List Op) (s : GW Z) :
    (GW.closeF C cap (GW.runF C cap stop (cutS cap s) ops)).down = (GW.close C (GW.run C s ops)).down.cut cap ∧
    (GW.closeF C cap (GW.runF C cap stop (cutS cap s) ops)).dec.isGzip = (GW.close C (GW.run C s ops)).dec.isGzip ∧
    (GW.closeF C cap (GW.runF C cap stop (cutS cap s) ops)).pool.length = (GW.close C (GW.run C s ops)).pool.length := by
  induction ops generalizing s with
  | nil => simp only [GW.runF, GW.run, List.foldl_nil]; rw [closeF_cutS]; exact ⟨rfl, rfl, rfl⟩
  | cons o r ih =>
    have hother : (∀ b, o ≠ .w b) →
        GW.runF C cap stop (cutS cap s) (o :: r) = GW.runF C cap stop (cutS cap (GW.step C s o)) r := by
      intro hw
      rw [← step_cutS C cap s o hw]
      cases o with
      | w b => exact absurd rfl (hw b)
      | wh c => rfl
      | fl => rfl
      | set k v => rfl
      | add k v => rfl
      | del k => rfl
      | unset k => rfl
    cases o with
    | w b =>
      have hrun : GW.run C s (.w b :: r) = GW.run C (GW.write C s b) r := rfl
      by_cases hstop : ((GW.writeF C cap (cutS cap s) b).2 && stop) = true
      · have hF : GW.runF C cap stop (cutS cap s) (.w b :: r) = (GW.writeF C cap (cutS cap s) b).1 := by
          simp only [GW.runF, hstop, if_true]
        rw [hF, writeF_cutS, closeF_cutS, hrun]
        obtain ⟨hdec, c, hst⟩ := write_decided C s b
        -- the connection is full
        have herr : (GW.writeF C cap (cutS cap s) b).2 = true := by
          simp only [Bool.and_eq_true] at hstop; exact hstop.1
        have hfull : cap ≤ (GW.write C s b).down.body.length := by
          have h1 : ((GW.writeF C cap (cutS cap s) b).1).down.body.length = cap := by
            unfold GW.writeF at herr ⊢
            rw [cutS_decideOnWrite] at herr ⊢
            generalize GW.decideOnWrite C s b = s' at herr ⊢
            obtain ⟨dec, hdr, down, pool⟩ := s'
            have hle : (down.cut cap).body.length ≤ cap := by simp [Down.cut, List.length_take]; omega
            cases dec with
            | undecided => exact writeF_err_full C cap _ _ _ herr hle
            | gzip z => exact writeF_err_full C cap _ _ _ herr hle
            | plain => exact writeF_err_full C cap _ _ _ herr hle
          rw [writeF_cutS] at h1
          simp only [cutS, Down.cut, List.length_take] at h1
          omega
        obtain ⟨⟨extra, hdown⟩, hgz, hpool⟩ := close_run_decided C (GW.write C s b) c hdec hst r
        obtain ⟨⟨extra0, hdown0⟩, hgz0, _⟩ := close_run_decided C (GW.write C s b) c hdec hst []
        simp only [GW.run, List.foldl_nil] at hdown0 hgz0
        refine ⟨?_, ?_, ?_⟩
        · show (GW.close C (GW.write C s b)).down.cut cap = _
          rw [hdown, hdown0]
          simp only [Down.cut, take_append_of_le _ _ _ hfull]
        · show (GW.close C (GW.write C s b)).dec.isGzip = _
          rw [hgz0, hgz]
        · show (GW.close C (GW.write C s b)).pool.length = _
          rw [hpool]
      · have hF : GW.runF C cap stop (cutS cap s) (.w b :: r) =
            GW.runF C cap stop (GW.writeF C cap (cutS cap s) b).1 r := by
          simp only [GW.runF, hstop]
          simp
        rw [hF, writeF_cutS, hrun]
        exact ih (GW.write C s b)
    | wh c => rw [hother (by intro b hb; cases hb)]; exact ih _
    | fl => rw [hother (by intro b hb; cases hb)]; exact ih _
    | set k v => rw [hother (by intro b hb; cases hb)]; exact ih _
    | add k v => rw [hother (by intro b hb; cases hb)]; exact ih _
    | del k => rw [hother (by intro b hb; cases hb)]; exact ih _
    | unset k => rw [hother (by intro b hb; cases hb)]; exact ih _

/-! ### what the others do to the pool in the meantime -/

def setPool (s : GW Z) (p : List Z) : GW Z := { s with pool := p }

theorem run_stays_decided (C : Cfg Z) (s : GW Z) (c : Nat) (hd : s.dec.isUndecided = false)
    (hs : s.down.status = some c) (ops : List Op) :
    (GW.run C s ops).dec.isUndecided = false ∧ (GW.run C s ops).down.status = some c := by
  cases hdec : s.dec with
  | undecided => rw [hdec] at hd; cases hd
  | gzip z => rw [run_gzip C ops s z c hdec hs]; exact ⟨rfl, hs⟩
  | plain => rw [run_plain C ops s c hdec hs]; exact ⟨rfl, hs⟩

/-- a decided machine does not look at the pool. -/
theorem run_pool_decided (C : Cfg Z) (s : GW Z) (c : Nat) (hd : s.dec.isUndecided = false)
    (hs : s.down.status = some c) (p : List Z) (ops : List Op) :
    GW.run C (setPool s p) ops = setPool (GW.run C s ops) p := by
  cases hdec : s.dec with
  | undecided => rw [hdec] at hd; cases hd
  | gzip z =>
    rw [run_gzip C ops s z c hdec hs, run_gzip C ops (setPool s p) z c hdec hs]; rfl
  | plain =>
    rw [run_plain C ops s c hdec hs, run_plain C ops (setPool s p) c hdec hs]; rfl

theorem run_append (C : Cfg Z) (s : GW Z) (a b : List Op) : GW.run C s (a ++ b) = GW.run C (GW.run C s a) b := by
  simp [GW.run, List.foldl_append]

theorem runP_decided (C : Cfg Z) (segs : List (List Op × (List Z → List Z))) (s : GW Z) (c : Nat)
    (hd : s.dec.isUndecided = false) (hs : s.down.status = some c) :
    ∃ p, GW.runP C s segs = setPool (GW.run C s (segOps segs)) p := by
  induction segs generalizing s with
  | nil => exact ⟨s.pool, rfl⟩
  | cons sg r ih =>
    obtain ⟨ops, f⟩ := sg
    obtain ⟨hd1, hs1⟩ := run_stays_decided C s c hd hs ops
    obtain ⟨p, hp⟩ := ih (setPool (GW.run C s ops) (f (GW.run C s ops).pool)) hd1 hs1
    refine ⟨p, ?_⟩
    show GW.runP C (setPool (GW.run C s ops) (f (GW.run C s ops).pool)) r = _
    rw [hp, run_pool_decided C _ c hd1 hs1]
    show _ = setPool (GW.run C s (ops ++ segOps r)) p
    rw [run_append]
    rfl

theorem writeHeader_status (C : Cfg Z) (hdr : Hdr) (pool : List Z) (code : Nat) (hfin : informational code = false) :
    (GW.writeHeader C { dec := .undecided, hdr := hdr, down := {}, pool := pool } code).down.status = some code := by
  simp only [GW.writeHeader, hfin, Bool.false_eq_true, if_false]
  split <;> simp [Down.writeHeader, hfin]

/-- from the initial state: either nothing has been decided and only the header map has moved, or the machine is
decided and the status line is out. -/
theorem run_initial (C : Cfg Z) (ops : List Op) (hdr : Hdr) (pool : List Z) :
    (decision C false hdr ops = none ∧
      GW.run C { dec := .undecided, hdr := hdr, down := {}, pool := pool } ops =
        { dec := .undecided, hdr := hops ops hdr, down := {}, pool := pool }) ∨
    ((decision C false hdr ops).isSome = true ∧
      (GW.run C { dec := .undecided, hdr := hdr, down := {}, pool := pool } ops).dec.isUndecided = false ∧
      ∃ c, (GW.run C { dec := .undecided, hdr := hdr, down := {}, pool := pool } ops).down.status = some c) := by
  induction ops generalizing hdr with
  | nil => exact Or.inl ⟨rfl, rfl⟩
  | cons o r ih =>
    cases o with
    | set k v => simpa [decision, GW.run, GW.step, hops, hop] using ih (hset hdr k v)
    | add k v => simpa [decision, GW.run, GW.step, hops, hop] using ih (hadd hdr k v)
    | del k => simpa [decision, GW.run, GW.step, hops, hop] using ih (hdel hdr k)
    | unset k => simpa [decision, GW.run, GW.step, hops, hop] using ih (hnil hdr k)
    | fl => simpa [decision, GW.run, GW.step, hops, hop] using ih hdr
    | wh code =>
      by_cases hinfo : informational code = true
      · have hstep : GW.writeHeader C { dec := .undecided, hdr := hdr, down := {}, pool := pool } code =
            { dec := .undecided, hdr := hdr, down := {}, pool := pool } := by
          simp [GW.writeHeader, hinfo, down_writeHeader_info]
        simpa [decision, hinfo, GW.run, GW.step, hstep, hops, hop] using ih hdr
      · have hinfo' : informational code = false := by simpa using hinfo
        refine Or.inr ⟨by simp [decision, hinfo'], ?_⟩
        have h1 := writeHeader_decided C { dec := .undecided, hdr := hdr, down := {}, pool := pool } code hinfo'
        have h2 := writeHeader_status C hdr pool code hinfo'
        have := run_stays_decided C _ code h1 h2 r
        exact ⟨this.1, code, this.2⟩
    | w b =>
      refine Or.inr ⟨by simp [decision], ?_⟩
      obtain ⟨h1, c, h2⟩ := write_decided C { dec := .undecided, hdr := hdr, down := {}, pool := pool } b
      have := run_stays_decided C _ c h1 h2 r
      exact ⟨this.1, c, this.2⟩

/-- whatever the others do to the pool between the segments: the machine ends as if it had run the whole script
alone from SOME pool (the one it found at its decision), up to what is in the pool afterwards. -/
theorem runP_initial (C : Cfg Z) (segs : List (List Op × (List Z → List Z))) (hdr : Hdr) (pool : List Z) :
    ∃ p₀ p₁, GW.runP C { dec := .undecided, hdr := hdr, down := {}, pool := pool } segs =
      setPool (GW.run C { dec := .undecided, hdr := hdr, down := {}, pool := p₀ } (segOps segs)) p₁ := by
  induction segs generalizing hdr pool with
  | nil => exact ⟨pool, pool, rfl⟩
  | cons sg r ih =>
    obtain ⟨ops, f⟩ := sg
    have hseg : segOps ((ops, f) :: r) = ops ++ segOps r := rfl
    rcases run_initial C ops hdr pool with ⟨_, hrun⟩ | ⟨_, hd, c, hs⟩
    · obtain ⟨p₀, p₁, hp⟩ := ih (hops ops hdr) (f pool)
      refine ⟨p₀, p₁, ?_⟩
      have hrun0 : GW.run C { dec := .undecided, hdr := hdr, down := {}, pool := p₀ } ops =
          { dec := .undecided, hdr := hops ops hdr, down := {}, pool := p₀ } := by
        rcases run_initial C ops hdr p₀ with ⟨_, h⟩ | ⟨hsome, _⟩
        · exact h
        · simp_all
      rw [hseg, run_append, hrun0, ← hp]
      show GW.runP C (setPool (GW.run C _ ops) (f (GW.run C _ ops).pool)) r = _
      rw [hrun]
      rfl
    · obtain ⟨p, hp⟩ := runP_decided C r (setPool (GW.run C { dec := .undecided, hdr := hdr, down := {}, pool := pool } ops)
          (f (GW.run C { dec := .undecided, hdr := hdr, down := {}, pool := pool } ops).pool)) c hd hs
      refine ⟨pool, p, ?_⟩
      show GW.runP C (setPool (GW.run C _ ops) (f (GW.run C _ ops).pool)) r = _
      rw [hp, run_pool_decided C _ c hd hs, hseg, run_append]
      rfl

theorem close_setPool_view (C : Cfg Z) (s : GW Z) (p : List Z) :
    (GW.close C (setPool s p)).view C = (GW.close C s).view C := by
  obtain ⟨dec, hdr, down, pool⟩ := s
  cases dec <;> rfl

/-- the pool the engaged branch starts from cannot be told from the response. -/
theorem engaged_view_pool (C : Cfg Z) (hrt : C.comp.RoundTrip) (hdr : Hdr) (p q : List Z) (ops : List Op) :
    (engaged C hdr p ops).view C = (engaged C hdr q ops).view C := by
  unfold GW.view engaged
  have hp := close_run C ops hdr p
  have hq := close_run C ops hdr q
  cases hd : decision C false hdr ops with
  | none => simp [hp.1 hd, hq.1 hd, Dec.isGzip, Down.obs]
  | some hc =>
    obtain ⟨h, c⟩ := hc
    by_cases hcond : (bodyAllowedForStatus c && isCompressable C h) = true
    · have a := (hp.2 h c hd).1 hcond
      have b := (hq.2 h c hd).1 hcond
      simp only [a.1, b.1, a.2.1, b.2.1, gzipDown, Down.obs, if_true]
      rw [hrt, hrt]
    · have hcond' : (bodyAllowedForStatus c && isCompressable C h) = false := by simpa using hcond
      have a := (hp.2 h c hd).2 hcond'
      have b := (hq.2 h c hd).2 hcond'
      simp [a.1, b.1, a.2.1, b.2.1, Down.obs]

/-! ### the pool events of one response -/

theorem step_decided (C : Cfg Z) (s : GW Z) (o : Op) (hd : s.dec.isUndecided = false) :
    (GW.step C s o).dec.isUndecided = false ∧ (GW.step C s o).dec.isGzip = s.dec.isGzip := by
  obtain ⟨dec, hdr, down, pool⟩ := s
  cases dec with
  | undecided => cases hd
  | gzip z =>
    cases o with
    | wh c => simp only [GW.step, GW.writeHeader]; split <;> exact ⟨rfl, rfl⟩
    | w b => exact ⟨rfl, rfl⟩
    | fl => exact ⟨rfl, rfl⟩
    | set k v => exact ⟨rfl, rfl⟩
    | add k v => exact ⟨rfl, rfl⟩
    | del k => exact ⟨rfl, rfl⟩
    | unset k => exact ⟨rfl, rfl⟩
  | plain =>
    cases o with
    | wh c => simp only [GW.step, GW.writeHeader]; split <;> exact ⟨rfl, rfl⟩
    | w b => exact ⟨rfl, rfl⟩
    | fl => exact ⟨rfl, rfl⟩
    | set k v => exact ⟨rfl, rfl⟩
    | add k v => exact ⟨rfl, rfl⟩
    | del k => exact ⟨rfl, rfl⟩
    | unset k => exact ⟨rfl, rfl⟩

theorem trace_decided (C : Cfg Z) (ops : List Op) (s : GW Z) (hd : s.dec.isUndecided = false) :
    GW.trace C s ops = [] ∧ (GW.run C s ops).dec.isGzip = s.dec.isGzip := by
  induction ops generalizing s with
  | nil => exact ⟨rfl, rfl⟩
  | cons o r ih =>
    obtain ⟨h1, h2⟩ := step_decided C s o hd
    obtain ⟨h3, h4⟩ := ih (GW.step C s o) h1
    refine ⟨?_, ?_⟩
    · simp [GW.trace, stepEv, hd, h3]
    · show (GW.run C (GW.step C s o) r).dec.isGzip = _
      rw [h4, h2]

/-- the engaged branch executes `Get` then `Put` when it compresses, and touches the pool not at all otherwise. -/
theorem served_trace_run (C : Cfg Z) (ops : List Op) (hdr : Hdr) (pool : List Z) :
    GW.trace C { dec := .undecided, hdr := hdr, down := {}, pool := pool } ops ++
        closeEv (GW.run C { dec := .undecided, hdr := hdr, down := {}, pool := pool } ops) =
      if (GW.run C { dec := .undecided, hdr := hdr, down := {}, pool := pool } ops).dec.isGzip then [.get, .put] else [] := by
  induction ops generalizing hdr with
  | nil => rfl
  | cons o r ih =>
    have hdecides : ∀ s1 : GW Z, GW.step C { dec := .undecided, hdr := hdr, down := {}, pool := pool } o = s1 →
        s1.dec.isUndecided = false →
        GW.trace C { dec := .undecided, hdr := hdr, down := {}, pool := pool } (o :: r) ++
          closeEv (GW.run C { dec := .undecided, hdr := hdr, down := {}, pool := pool } (o :: r)) =
        if (GW.run C { dec := .undecided, hdr := hdr, down := {}, pool := pool } (o :: r)).dec.isGzip then [.get, .put] else [] := by
      intro s1 hs1 hd1
      obtain ⟨ht, hg⟩ := trace_decided C r s1 hd1
      have hrun : GW.run C { dec := .undecided, hdr := hdr, down := {}, pool := pool } (o :: r) = GW.run C s1 r := by
        rw [← hs1]; rfl
      rw [hrun]
      simp only [GW.trace, hs1, ht, closeEv, hg, stepEv, Dec.isUndecided, Bool.true_and, List.append_nil]
      cases s1.dec.isGzip <;> rfl
    have hquiet : ∀ hdr' : Hdr, GW.step C { dec := .undecided, hdr := hdr, down := {}, pool := pool } o =
          { dec := .undecided, hdr := hdr', down := {}, pool := pool } →
        GW.trace C { dec := .undecided, hdr := hdr, down := {}, pool := pool } (o :: r) ++
          closeEv (GW.run C { dec := .undecided, hdr := hdr, down := {}, pool := pool } (o :: r)) =
        if (GW.run C { dec := .undecided, hdr := hdr, down := {}, pool := pool } (o :: r)).dec.isGzip then [.get, .put] else [] := by
      intro hdr' hs
      have hrun : GW.run C { dec := .undecided, hdr := hdr, down := {}, pool := pool } (o :: r) =
          GW.run C { dec := .undecided, hdr := hdr', down := {}, pool := pool } r := by
        rw [← hs]; rfl
      have htr : GW.trace C { dec := .undecided, hdr := hdr, down := {}, pool := pool } (o :: r) =
          GW.trace C { dec := .undecided, hdr := hdr', down := {}, pool := pool } r := by
        show stepEv _ (GW.step C _ o) ++ GW.trace C (GW.step C _ o) r = _
        rw [hs]
        rfl
      rw [hrun, htr]
      exact ih hdr'
    cases o with
    | set k v => exact hquiet (hset hdr k v) rfl
    | add k v => exact hquiet (hadd hdr k v) rfl
    | del k => exact hquiet (hdel hdr k) rfl
    | unset k => exact hquiet (hnil hdr k) rfl
    | fl => exact hquiet hdr rfl
    | wh code =>
      by_cases hinfo : informational code = true
      · have hstep : GW.writeHeader C { dec := .undecided, hdr := hdr, down := {}, pool := pool } code =
            { dec := .undecided, hdr := hdr, down := {}, pool := pool } := by
          simp [GW.writeHeader, hinfo, down_writeHeader_info]
        exact hquiet hdr hstep
      · have hinfo' : informational code = false := by simpa using hinfo
        exact hdecides _ rfl (writeHeader_decided C _ code hinfo')
    | w b => exact hdecides _ rfl (write_decided C _ b).1

theorem close_isGzip (C : Cfg Z) (s : GW Z) : (GW.close C s).dec.isGzip = s.dec.isGzip := by
  obtain ⟨dec, hdr, down, pool⟩ := s
  cases dec <;> rfl

/-! ### program order: the guards of the pool model never fire -/

theorem lookup_filter_key (l : List (Nat × Nat)) (t t' : Nat) :
    (l.filter (fun p => !(p.1 == t))).lookup t' = if t' = t then none else l.lookup t' := by
  induction l with
  | nil => simp
  | cons p r ih =>
    obtain ⟨a, z⟩ := p
    by_cases ha : a = t
    · subst ha
      have : (!(a == a)) = false := by simp
      rw [List.filter_cons]; simp only [this, Bool.false_eq_true, if_false]
      rw [ih]
      by_cases h2 : t' = a
      · simp [h2]
      · have : (t' == a) = false := by simp [h2]
        simp [h2, List.lookup_cons, this]
    · have h1 : (!(a == t)) = true := by simp [ha]
      rw [List.filter_cons]; simp only [h1, if_true, List.lookup_cons]
      by_cases h2 : t' = a
      · subst h2; simp [ha]
      · have : (t' == a) = false := by simp [h2]
        simp only [this]; exact ih

/-- what is still to come is compatible with what each handler holds now. -/
def Compatible (s : PState) (rest : List PEv) : Prop :=
  ∀ t, ((heldBy s t).isSome = true → eventsOf t rest = [] ∨ eventsOf t rest = [.put]) ∧
       (heldBy s t = none → eventsOf t rest = [] ∨ eventsOf t rest = [.get] ∨ eventsOf t rest = [.get, .put])

theorem heldBy_get (s : PState) (t i t' : Nat) (hn : heldBy s t = none) :
    (heldBy (pstep s (.get t i)) t').isSome = (if t' = t then true else (heldBy s t').isSome) ∧
    (t' ≠ t → heldBy (pstep s (.get t i)) t' = heldBy s t') := by
  simp only [pstep, hn]
  by_cases hlt : i < s.pool.length
  · simp only [hlt, dite_true, heldBy, List.lookup_cons]
    by_cases h : t' = t
    · subst h; simp
    · have : (t' == t) = false := by simp [h]
      simp [this, h]
  · simp only [hlt, dite_false, heldBy, List.lookup_cons]
    by_cases h : t' = t
    · subst h; simp
    · have : (t' == t) = false := by simp [h]
      simp [this, h]

theorem heldBy_put (s : PState) (t z t' : Nat) (hs : heldBy s t = some z) :
    heldBy (pstep s (.put t)) t' = if t' = t then none else heldBy s t' := by
  have hs' : List.lookup t s.held = some z := hs
  simp only [pstep, heldBy, hs']
  exact lookup_filter_key s.held t t'

theorem chk_of_compatible (rest : List PEv) (s : PState) (hc : Compatible s rest) :
    prunChk s rest = some (prun s rest) := by
  induction rest generalizing s with
  | nil => rfl
  | cons e r ih =>
    cases e with
    | drop i =>
      have hstep : pstepChk s (.drop i) = some (pstep s (.drop i)) := rfl
      simp only [prunChk, hstep]
      apply ih
      intro t
      have hh : heldBy (pstep s (.drop i)) t = heldBy s t := rfl
      rw [hh]
      have := hc t
      simpa [eventsOf] using this
    | get t i =>
      have hn : heldBy s t = none := by
        cases hh : heldBy s t with
        | none => rfl
        | some z =>
          have := (hc t).1 (by simp [hh])
          simp [eventsOf] at this
      have hstep : pstepChk s (.get t i) = some (pstep s (.get t i)) := by simp [pstepChk, hn]
      simp only [prunChk, hstep]
      apply ih
      intro t'
      obtain ⟨h1, h2⟩ := heldBy_get s t i t' hn
      by_cases ht : t' = t
      · subst ht
        have hev := (hc t').2 hn
        simp only [eventsOf, if_true] at hev
        refine ⟨fun _ => ?_, fun hnone => ?_⟩
        · rcases hev with hev | hev | hev
          · cases hev
          · left; simpa using hev
          · right; simpa using hev
        · rw [hnone] at h1; simp at h1
      · rw [h2 ht]
        have := hc t'
        simpa [eventsOf, Ne.symm ht] using this
    | put t =>
      cases hh : heldBy s t with
      | none =>
        have := (hc t).2 hh
        simp [eventsOf] at this
      | some z =>
        have hstep : pstepChk s (.put t) = some (pstep s (.put t)) := by simp [pstepChk, hh]
        simp only [prunChk, hstep]
        apply ih
        intro t'
        rw [heldBy_put s t z t' hh]
        by_cases ht : t' = t
        · subst ht
          have hev := (hc t').1 (by simp [hh])
          simp only [eventsOf, if_true] at hev
          simp only [if_true]
          refine ⟨fun h => by simp at h, fun _ => ?_⟩
          rcases hev with hev | hev
          · cases hev
          · left; simpa using hev
        · simp only [ht, if_false]
          have := hc t'
          simpa [eventsOf, Ne.symm ht] using this

end Fabio.Lemmas.C17
