import Fabio.Lemmas.C05Main
import Fabio.Lemmas.C05Del
/-!
C05 (round 4): no target comes from nowhere. Every target the spec machine (hence, by refinement, every table a
command list builds) holds under some host and path carries the service, tags, options and (normalised) destination
of one of the list's `route add` commands; `del` and `weight` never invent or rewrite any of these. Core Lean only.
-/
namespace Fabio.Lemmas.C05From
open Fabio Fabio.Model.Route Fabio.Model.Parse Fabio.Model.C05Spec Fabio.Lemmas

/-- `x` carries what one of the `route add` commands of `ds` says -/
def FromAdds (env : Env) (ds : List RouteDef) (x : Target) : Prop :=
  ∃ d ∈ ds, d.cmd = .add ∧ x.service = d.service ∧ x.tags = d.tags ∧ x.opts = d.opts ∧ env.normURL d.dst = some x.url

/-- every target of the map is `FromAdds` -/
def AllFrom (env : Env) (ds : List RouteDef) (S : Spec) : Prop := ∀ h p, ∀ x ∈ S h p, FromAdds env ds x

variable {env : Env} {ds : List RouteDef}

/-- `weigh` rewrites the share only -/
theorem mem_weigh {ts : List Target} {x : Target} (hx : x ∈ weigh ts) :
    ∃ y ∈ ts, x.service = y.service ∧ x.tags = y.tags ∧ x.opts = y.opts ∧ x.url = y.url ∧ x.fixedWeight = y.fixedWeight := by
  rw [C05Del.weigh_eq] at hx
  obtain ⟨y, hy, rfl⟩ := List.mem_map.1 hx
  refine ⟨y, hy, ?_⟩
  unfold C05Del.wfun
  split
  · exact ⟨rfl, rfl, rfl, rfl, rfl⟩
  · split <;> exact ⟨rfl, rfl, rfl, rfl, rfl⟩

theorem fromAdds_congr {x y : Target} (h : FromAdds env ds y)
    (h1 : x.service = y.service) (h2 : x.tags = y.tags) (h3 : x.opts = y.opts) (h4 : x.url = y.url) : FromAdds env ds x := by
  obtain ⟨d, hd, hc, a, b, c, e⟩ := h
  exact ⟨d, hd, hc, h1.trans a, h2.trans b, h3.trans c, by rw [h4]; exact e⟩

theorem allFrom_upd {S : Spec} {h p : Str} {ts : List Target} (hS : AllFrom env ds S)
    (hts : ∀ x ∈ ts, FromAdds env ds x) : AllFrom env ds (upd S h p ts) := by
  intro h' p' x hx
  unfold upd at hx
  split at hx
  · exact hts x hx
  · exact hS h' p' x hx

theorem from_weigh {ts : List Target} (hts : ∀ x ∈ ts, FromAdds env ds x) : ∀ x ∈ weigh ts, FromAdds env ds x := by
  intro x hx
  obtain ⟨y, hy, a, b, c, e, _⟩ := mem_weigh hx
  exact fromAdds_congr (hts y hy) a b c e

theorem from_dropSel {ts : List Target} (sel : Target → Bool) (hts : ∀ x ∈ ts, FromAdds env ds x) :
    ∀ x ∈ dropSel sel ts, FromAdds env ds x := by
  unfold dropSel
  exact from_weigh (fun x hx => hts x (List.mem_filter.1 hx).1)

/-- one command keeps the invariant -/
theorem allFrom_step {S S' : Spec} {d : RouteDef} (hd : d ∈ ds) (hS : AllFrom env ds S)
    (h : specApply env S d = .ok S') : AllFrom env ds S' := by
  unfold specApply at h
  cases hc : d.cmd with
  | other s => rw [hc] at h; cases h
  | add =>
    rw [hc] at h
    simp only at h
    unfold specAdd at h
    split at h
    · cases h
    · split at h
      · cases h
      · split at h
        · cases h
        · rename_i url hu
          dsimp only at h
          split at h
          · cases h
          · split at h
            · cases h
            · split at h
              · injection h with h; subst h; exact hS
              · injection h with h
                subst h
                apply allFrom_upd hS
                apply from_weigh
                intro x hx
                rcases List.mem_append.1 hx with hx | hx
                · exact hS _ _ x hx
                · rw [List.mem_singleton] at hx
                  subst hx
                  exact ⟨d, hd, hc, rfl, rfl, rfl, hu⟩
  | del =>
    rw [hc] at h
    simp only at h
    unfold specDel at h
    split at h
    · injection h with h; subst h
      intro h' p' x hx
      exact from_dropSel _ (hS h' p') x hx
    · split at h
      · injection h with h; subst h
        intro h' p' x hx
        exact from_dropSel _ (hS h' p') x hx
      · split at h
        · injection h with h; subst h
          exact allFrom_upd hS (from_dropSel _ (hS _ _))
        · split at h
          · cases h
          · injection h with h; subst h
            exact allFrom_upd hS (from_dropSel _ (hS _ _))
  | weight =>
    rw [hc] at h
    simp only at h
    unfold specWeigh at h
    dsimp only at h
    split at h
    · cases h
    · split at h
      · cases h
      · injection h with h; subst h
        apply allFrom_upd hS
        apply from_weigh
        intro x hx
        obtain ⟨y, hy, rfl⟩ := List.mem_map.1 hx
        split
        · exact fromAdds_congr (hS _ _ y hy) rfl rfl rfl rfl
        · exact hS _ _ y hy

theorem allFrom_fold (rest : List RouteDef) : ∀ {S S' : Spec}, (∀ d ∈ rest, d ∈ ds) → AllFrom env ds S →
    rest.foldlM (specApply env) S = .ok S' → AllFrom env ds S' := by
  induction rest with
  | nil =>
    intro S S' _ hS h
    simp only [List.foldlM_nil, pure, Except.pure] at h
    injection h with h; subst h; exact hS
  | cons d l ih =>
    intro S S' hsub hS h
    rw [List.foldlM_cons] at h
    cases h1 : specApply env S d with
    | error e => rw [h1] at h; cases h
    | ok S1 =>
      rw [h1] at h
      exact ih (fun x hx => hsub x (List.mem_cons_of_mem _ hx)) (allFrom_step (hsub d (by simp)) hS h1) h

/-- every target of the spec machine's result comes from one of the adds -/
theorem specRun_from {S : Spec} (h : specRun env ds = .ok S) : AllFrom env ds S :=
  allFrom_fold ds (fun _ hd => hd) (fun _ _ _ hx => by cases hx) h

/-- … and so does every target of the table `NewTable` / `NewTableCustom` builds -/
theorem newTable_from {t : Table} (h : newTable env ds = .ok t) : AllFrom env ds (abs t) := by
  have hr := C05Main.refines_spec (env := env) ds
  rw [h] at hr
  exact specRun_from hr.symm

end Fabio.Lemmas.C05From
