import Fabio.Lemmas.C05Main
import Fabio.Lemmas.C05Del
import Fabio.Lemmas.C05Rebuild
import Fabio.Lemmas.C05Fix
import Fabio.Lemmas.C05Lang
/-!
C05 (round 4): no target comes from nowhere. Every target the spec machine (hence, by refinement, every table a
command list builds) holds under some host and path carries the service, tags, options and (normalised) destination
of one of the list's `route add` commands; `del` and `weight` never invent or rewrite any of these. Core Lean only.
-/
namespace Fabio.Lemmas.C05From
open Fabio Fabio.Model.Route Fabio.Model.Parse Fabio.Model.C05Spec Fabio.Lemmas

/-- `x` carries what one of the `route add` commands of `ds` says -/
def FromAdds (env : Env) (ds : List RouteDef) (x : Target) : Prop :=
  ∃ d ∈ ds, d.cmd = .add ∧ x.service = d.service ∧ x.tags = d.tags ∧ x.opts = d.opts ∧ env.normURL d.dst = some x.url

/-- every target of the map is `FromAdds` -/
def AllFrom (env : Env) (ds : List RouteDef) (S : Spec) : Prop := ∀ h p, ∀ x ∈ S h p, FromAdds env ds x

variable {env : Env} {ds : List RouteDef}

/-- `weigh` rewrites the share only -/
theorem mem_weigh {ts : List Target} {x : Target} (hx : x ∈ weigh ts) :
    ∃ y ∈ ts, x.service = y.service ∧ x.tags = y.tags ∧ x.opts = y.opts ∧ x.url = y.url ∧ x.fixedWeight = y.fixedWeight := by
  rw [C05Del.weigh_eq] at hx
  obtain ⟨y, hy, rfl⟩ := List.mem_map.1 hx
  refine ⟨y, hy, ?_⟩
  unfold C05Del.wfun
  split
  · exact ⟨rfl, rfl, rfl, rfl, rfl⟩
  · split <;> exact ⟨rfl, rfl, rfl, rfl, rfl⟩

theorem fromAdds_congr {x y : Target} (h : FromAdds env ds y)
    (h1 : x.service = y.service) (h2 : x.tags = y.tags) (h3 : x.opts = y.opts) (h4 : x.url = y.url) : FromAdds env ds x := by
  obtain ⟨d, hd, hc, a, b, c, e⟩ := h
  exact ⟨d, hd, hc, h1.trans a, h2.trans b, h3.trans c, by rw [h4]; exact e⟩

theorem allFrom_upd {S : Spec} {h p : Str} {ts : List Target} (hS : AllFrom env ds S)
    (hts : ∀ x ∈ ts, FromAdds env ds x) : AllFrom env ds (upd S h p ts) := by
  intro h' p' x hx
  unfold upd at hx
  split at hx
  · exact hts x hx
  · exact hS h' p' x hx

theorem from_weigh {ts : List Target} (hts : ∀ x ∈ ts, FromAdds env ds x) : ∀ x ∈ weigh ts, FromAdds env ds x := by
  intro x hx
  obtain ⟨y, hy, a, b, c, e, _⟩ := mem_weigh hx
  exact fromAdds_congr (hts y hy) a b c e

theorem from_dropSel {ts : List Target} (sel : Target → Bool) (hts : ∀ x ∈ ts, FromAdds env ds x) :
    ∀ x ∈ dropSel sel ts, FromAdds env ds x := by
  unfold dropSel
  exact from_weigh (fun x hx => hts x (List.mem_filter.1 hx).1)

/-- one command keeps the invariant -/
theorem allFrom_step {S S' : Spec} {d : RouteDef} (hd : d ∈ ds) (hS : AllFrom env ds S)
    (h : specApply env S d = .ok S') : AllFrom env ds S' := by
  unfold specApply at h
  cases hc : d.cmd with
  | other s => rw [hc] at h; cases h
  | add =>
    rw [hc] at h
    simp only at h
    unfold specAdd at h
    split at h
    · cases h
    · split at h
      · cases h
      · split at h
        · cases h
        · rename_i url hu
          dsimp only at h
          split at h
          · cases h
          · split at h
            · cases h
            · split at h
              · injection h with h; subst h; exact hS
              · injection h with h
                subst h
                apply allFrom_upd hS
                apply from_weigh
                intro x hx
                rcases List.mem_append.1 hx with hx | hx
                · exact hS _ _ x hx
                · rw [List.mem_singleton] at hx
                  subst hx
                  exact ⟨d, hd, hc, rfl, rfl, rfl, hu⟩
  | del =>
    rw [hc] at h
    simp only at h
    unfold specDel at h
    split at h
    · injection h with h; subst h
      intro h' p' x hx
      exact from_dropSel _ (hS h' p') x hx
    · split at h
      · injection h with h; subst h
        intro h' p' x hx
        exact from_dropSel _ (hS h' p') x hx
      · split at h
        · injection h with h; subst h
          exact allFrom_upd hS (from_dropSel _ (hS _ _))
        · split at h
          · cases h
          · injection h with h; subst h
            exact allFrom_upd hS (from_dropSel _ (hS _ _))
  | weight =>
    rw [hc] at h
    simp only at h
    unfold specWeigh at h
    dsimp only at h
    split at h
    · cases h
    · split at h
      · cases h
      · injection h with h; subst h
        apply allFrom_upd hS
        apply from_weigh
        intro x hx
        obtain ⟨y, hy, rfl⟩ := List.mem_map.1 hx
        split
        · exact fromAdds_congr (hS _ _ y hy) rfl rfl rfl rfl
        · exact hS _ _ y hy

theorem allFrom_fold (rest : List RouteDef) : ∀ {S S' : Spec}, (∀ d ∈ rest, d ∈ ds) → AllFrom env ds S →
    rest.foldlM (specApply env) S = .ok S' → AllFrom env ds S' := by
  induction rest with
  | nil =>
    intro S S' _ hS h
    simp only [List.foldlM_nil, pure, Except.pure] at h
    injection h with h; subst h; exact hS
  | cons d l ih =>
    intro S S' hsub hS h
    rw [List.foldlM_cons] at h
    cases h1 : specApply env S d with
    | error e => rw [h1] at h; cases h
    | ok S1 =>
      rw [h1] at h
      exact ih (fun x hx => hsub x (List.mem_cons_of_mem _ hx)) (allFrom_step (hsub d (by simp)) hS h1) h

/-- every target of the spec machine's result comes from one of the adds -/
theorem specRun_from {S : Spec} (h : specRun env ds = .ok S) : AllFrom env ds S :=
  allFrom_fold ds (fun _ hd => hd) (fun _ _ _ hx => by cases hx) h

/-- … and so does every target of the table `NewTable` / `NewTableCustom` builds -/
theorem newTable_from {t : Table} (h : newTable env ds = .ok t) : AllFrom env ds (abs t) := by
  have hr := C05Main.refines_spec (env := env) ds
  rw [h] at hr
  exact specRun_from hr.symm

/-! ### where a route can be: every (host, path) with targets is the key of an add, accepted by `glob.Compile` -/

/-- every inhabited (host, path) is `key d.src` of one of the adds, and both parts compile as globs -/
def KeyOK (env : Env) (ds : List RouteDef) (S : Spec) : Prop :=
  ∀ h p, S h p ≠ [] → ∃ d ∈ ds, d.cmd = .add ∧ (h, p) = key d.src ∧ env.globOK h = true ∧ env.globOK p = true

theorem weigh_ne {ts : List Target} (h : weigh ts ≠ []) : ts ≠ [] := by
  intro e; rw [e] at h; exact h C05Del.weigh_nil

theorem dropSel_ne {sel : Target → Bool} {ts : List Target} (h : dropSel sel ts ≠ []) : ts ≠ [] := by
  intro e
  rw [e] at h
  exact h (by unfold dropSel; simp [C05Del.weigh_nil])

theorem keyOK_upd_shrink {S : Spec} {h p : Str} {ts : List Target} (hS : KeyOK env ds S) (hts : ts ≠ [] → S h p ≠ []) :
    KeyOK env ds (upd S h p ts) := by
  intro h' p' hne
  unfold upd at hne
  split at hne
  · rename_i heq
    obtain ⟨rfl, rfl⟩ := heq
    exact hS _ _ (hts hne)
  · exact hS h' p' hne

theorem keyOK_step {S S' : Spec} {d : RouteDef} (hd : d ∈ ds) (hS : KeyOK env ds S)
    (h : specApply env S d = .ok S') : KeyOK env ds S' := by
  unfold specApply at h
  cases hc : d.cmd with
  | other s => rw [hc] at h; cases h
  | add =>
    rw [hc] at h
    simp only at h
    unfold specAdd at h
    split at h
    · cases h
    · split at h
      · cases h
      · split at h
        · cases h
        · dsimp only at h
          split at h
          · cases h
          · rename_i hgh
            split at h
            · cases h
            · rename_i hgp
              split at h
              · injection h with h; subst h; exact hS
              · injection h with h
                subst h
                intro h' p' hne
                unfold upd at hne
                split at hne
                · rename_i heq
                  obtain ⟨rfl, rfl⟩ := heq
                  have hgh' : env.globOK (key d.src).1 = true := by simpa using hgh
                  by_cases hemp : (S (key d.src).1 (key d.src).2) = []
                  · have hgp' : env.globOK (key d.src).2 = true := by
                      rw [hemp] at hgp
                      simpa using hgp
                    exact ⟨d, hd, hc, rfl, hgh', hgp'⟩
                  · exact hS _ _ hemp
                · exact hS h' p' hne
  | del =>
    rw [hc] at h
    simp only at h
    unfold specDel at h
    split at h
    · injection h with h; subst h
      intro h' p' hne
      exact hS h' p' (dropSel_ne hne)
    · split at h
      · injection h with h; subst h
        intro h' p' hne
        exact hS h' p' (dropSel_ne hne)
      · split at h
        · injection h with h; subst h
          exact keyOK_upd_shrink hS dropSel_ne
        · split at h
          · cases h
          · injection h with h; subst h
            exact keyOK_upd_shrink hS dropSel_ne
  | weight =>
    rw [hc] at h
    simp only at h
    unfold specWeigh at h
    dsimp only at h
    split at h
    · cases h
    · split at h
      · cases h
      · injection h with h; subst h
        apply keyOK_upd_shrink hS
        intro hne
        have := weigh_ne hne
        intro e
        rw [e] at this
        exact this rfl

theorem keyOK_fold (rest : List RouteDef) : ∀ {S S' : Spec}, (∀ d ∈ rest, d ∈ ds) → KeyOK env ds S →
    rest.foldlM (specApply env) S = .ok S' → KeyOK env ds S' := by
  induction rest with
  | nil =>
    intro S S' _ hS h
    simp only [List.foldlM_nil, pure, Except.pure] at h
    injection h with h; subst h; exact hS
  | cons d l ih =>
    intro S S' hsub hS h
    rw [List.foldlM_cons] at h
    cases h1 : specApply env S d with
    | error e => rw [h1] at h; cases h
    | ok S1 =>
      rw [h1] at h
      exact ih (fun x hx => hsub x (List.mem_cons_of_mem _ hx)) (keyOK_step (hsub d (by simp)) hS h1) h

theorem newTable_keyOK {t : Table} (h : newTable env ds = .ok t) : KeyOK env ds (abs t) := by
  have hr := C05Main.refines_spec (env := env) ds
  rw [h] at hr
  exact keyOK_fold ds (fun _ hd => hd) (fun _ _ hne => absurd rfl hne) hr.symm

/-- the two structural fields of `RebuildOK` hold for every table a command list builds; what is left are the
property's own hypothesis (no two targets of a route with the same service, URL, tags and four-decimal weight) and
the assumption about `net/url` -/
theorem rebuildOK_of_built {t : Table} (h : newTable env ds = .ok t)
    (hk : ∀ kv ∈ t, ∀ r ∈ kv.2, (r.targets.map C05Rebuild.dupKey).Nodup)
    (hu : ∀ kv ∈ t, ∀ r ∈ kv.2, ∀ tg ∈ r.targets, tg.url ≠ [] ∧ env.normURL tg.url = some tg.url) :
    C05Rebuild.RebuildOK env t := by
  have hg := C05Main.good_newTable h
  have hkey := newTable_keyOK h
  have hroute : ∀ kv ∈ t, ∀ r ∈ kv.2, ∃ d ∈ ds, d.cmd = .add ∧ (r.host, r.path) = key d.src ∧
      env.globOK r.host = true ∧ env.globOK r.path = true := by
    intro kv hkv r hr
    obtain ⟨k, rs⟩ := kv
    have hget : t.get k = rs := C05Fix.get_of_mem hg.inv.wf hkv
    have hr' : r ∈ t.get k := by rw [hget]; exact hr
    obtain ⟨_, hhost, habs⟩ := C05Fix.of_mem_get hg.inv.wf hr'
    have hne : abs t r.host r.path ≠ [] := by
      rw [hhost, habs]; exact (hg.inv.noEmpty _ hkv).2 r hr
    exact hkey _ _ hne
  refine ⟨hk, hu, ?_, ?_⟩
  · intro kv hkv
    refine ⟨hg.hosts kv hkv, ?_⟩
    intro r hr
    obtain ⟨d, _, _, _, _, hp⟩ := hroute kv hkv r hr
    exact hp
  · intro kv hkv r hr
    obtain ⟨d, _, _, he, _, _⟩ := hroute kv hkv r hr
    have h1 : r.host = (key d.src).1 := congrArg Prod.fst he
    have h2 : r.path = (key d.src).2 := congrArg Prod.snd he
    rw [h1, h2]
    exact C05Rebuild.src_of_key d.src

/-! ### the text of a table built from well-formed commands is readable -/

theorem upper_noSp : ∀ n, n < 91 → 65 ≤ n → isReSpace (Char.ofNat (n + 32)) = false := by decide

theorem lowerChar_noSp (c : Char) (h : isReSpace c = false) : isReSpace (lowerChar c) = false := by
  unfold lowerChar
  split
  · rename_i hu
    have h1 : 65 ≤ c.toNat := hu.1
    have h2 : c.toNat ≤ 90 := hu.2
    exact upper_noSp c.toNat (by omega) h1
  · exact h

theorem lowerL_noSp {s : Str} (hs : ∀ c ∈ s, isReSpace c = false) : ∀ c ∈ lowerL s, isReSpace c = false := by
  intro c hc
  unfold lowerL at hc
  obtain ⟨c0, h0, rfl⟩ := List.mem_map.1 hc
  exact lowerChar_noSp c0 (hs c0 h0)

/-- host and path a command's source denotes contain no RE2 white space if the source contains none -/
theorem key_tok (s : Str) (hs : ∀ c ∈ s, isReSpace c = false) : ∀ c ∈ (key s).1 ++ (key s).2, isReSpace c = false := by
  obtain ⟨h, rest, hh, hr, rfl⟩ := C05Rebuild.split_slash s
  unfold key
  rw [C05Rebuild.hostpath_eq h rest hh hr]
  have hh' : ∀ c ∈ h, isReSpace c = false := fun c hc => hs c (List.mem_append.2 (.inl hc))
  have hrest : ∀ c ∈ rest, isReSpace c = false := fun c hc => hs c (List.mem_append.2 (.inr hc))
  split
  · intro c hc
    simp only [List.append_nil] at hc
    exact lowerL_noSp hs c hc
  · intro c hc
    rcases List.mem_append.1 hc with hc | hc
    · exact lowerL_noSp hh' c hc
    · split at hc
      · rw [List.mem_singleton] at hc; subst hc; decide
      · exact hrest c hc

/-- **every line `String()` writes for a table built from well-formed commands is readable**: of `TextOK` only the
two facts about libraries remain as hypotheses — the stored URL (`url.Parse(dst).String()`) is non-empty and free of
white space, and the line is shorter than `bufio.MaxScanTokenSize` -/
theorem textOK_of_wellformed {pf : ParseFloat} {t : Table} (cs : List (Str × RouteDef))
    (hcs : ∀ x ∈ cs, C05Lang.DefOK pf x.1 x.2) (ht : newTable env (cs.map (·.2)) = .ok t)
    (hurl : ∀ hst, ∀ r ∈ t.get hst, ∀ tg ∈ r.targets, tg.url ≠ [] ∧ ∀ c ∈ tg.url, isUniSpace c = false)
    (hshort : ∀ hst, ∀ r ∈ t.get hst, ∀ tg ∈ r.targets, byteLen (renderTarget r tg) < maxToken) :
    ∀ hst, ∀ r ∈ t.get hst, ∀ tg ∈ r.targets, C05Text.TextOK r tg := by
  intro hst r hr tg htg
  have hg := C05Main.good_newTable ht
  obtain ⟨h0, hhost, habs⟩ := C05Fix.of_mem_get hg.inv.wf hr
  have hmem : tg ∈ abs t hst r.path := by rw [habs]; exact htg
  -- the target comes from a well-formed add
  obtain ⟨d, hd, hc, e1, e2, e3, _⟩ := newTable_from ht hst r.path tg hmem
  obtain ⟨c, hcm, rfl⟩ := List.mem_map.1 hd
  have hok := hcs c hcm
  unfold C05Lang.DefOK at hok
  rw [hc] at hok
  obtain ⟨hv, _, _, _, htags, hopts⟩ := hok
  -- the route sits at the key of a well-formed add
  have hne : abs t r.host r.path ≠ [] := by
    rw [hhost, habs]; exact (hg.inv.noEmpty _ h0).2 r hr
  obtain ⟨d', hd', hc', hkey, _, _⟩ := newTable_keyOK ht _ _ hne
  obtain ⟨c', hcm', rfl⟩ := List.mem_map.1 hd'
  have hok' := hcs c' hcm'
  unfold C05Lang.DefOK at hok'
  rw [hc'] at hok'
  have hsrc : C05Lang.Tok c'.2.src := hok'.2.1
  have h1 : r.host = (key c'.2.src).1 := congrArg Prod.fst hkey
  have h2 : r.path = (key c'.2.src).2 := congrArg Prod.snd hkey
  exact {
    svc_ne := by rw [e1]; exact hv.1
    svc_tok := by rw [e1]; exact hv.re
    src_ne := by rw [h1, h2]; exact (C05Rebuild.src_of_key _).1
    src_tok := by rw [h1, h2]; exact key_tok _ hsrc.re
    url_ne := (hurl hst r hr tg htg).1
    url_tok := (hurl hst r hr tg htg).2
    tags_q := by rw [e2]; exact htags.q
    tags_ne := by rw [e2]; exact htags.ne
    opts_k := by rw [e3]; exact hopts.k
    short := hshort hst r hr tg htg }

end Fabio.Lemmas.C05From
