import Fabio.Model.C03
/-!
Helper lemmas for C03 (core Lean only): `strLt` is a strict order, lexicographic combinations of it,
a generic insertion sort (sortedness, permutation), and the shape of a successful scan.
-/
set_option linter.unusedSimpArgs false
namespace Fabio.Lemmas.C03
open Fabio Fabio.Model.Route Fabio.Model.C03

/-! ### `strLt` -/

theorem strLt_irrefl (a : Str) : strLt a a = false := by
  induction a with
  | nil => rfl
  | cons x xs ih => simp [strLt, ih]

theorem strLt_asymm {a b : Str} (h : strLt a b = true) : strLt b a = false := by
  induction a generalizing b with
  | nil => cases b <;> simp_all [strLt]
  | cons x xs ih =>
    cases b with
    | nil => simp [strLt] at h
    | cons y ys =>
      simp only [strLt] at h ⊢
      by_cases h1 : x.toNat < y.toNat
      · have h2 : ¬ y.toNat < x.toNat := by omega
        simp [h1, h2]
      · by_cases h2 : y.toNat < x.toNat
        · simp [h1, h2] at h
        · simp [h1, h2] at h ⊢
          exact ih h

theorem strLt_trans {a b c : Str} (h1 : strLt a b = true) (h2 : strLt b c = true) : strLt a c = true := by
  induction a generalizing b c with
  | nil =>
    cases b with
    | nil => simp [strLt] at h1
    | cons y ys => cases c with
      | nil => simp [strLt] at h2
      | cons z zs => simp [strLt]
  | cons x xs ih =>
    cases b with
    | nil => simp [strLt] at h1
    | cons y ys =>
      cases c with
      | nil => simp [strLt] at h2
      | cons z zs =>
        simp only [strLt] at h1 h2 ⊢
        by_cases hxy : x.toNat < y.toNat
        · by_cases hyz : y.toNat < z.toNat
          · have : x.toNat < z.toNat := by omega
            simp [this]
          · by_cases hzy : z.toNat < y.toNat
            · simp [hyz, hzy] at h2
            · have : x.toNat < z.toNat := by omega
              simp [this]
        · by_cases hyx : y.toNat < x.toNat
          · simp [hxy, hyx] at h1
          · simp [hxy, hyx] at h1
            by_cases hyz : y.toNat < z.toNat
            · have : x.toNat < z.toNat := by omega
              simp [this]
            · by_cases hzy : z.toNat < y.toNat
              · simp [hyz, hzy] at h2
              · simp [hyz, hzy] at h2
                have e1 : ¬ x.toNat < z.toNat := by omega
                have e2 : ¬ z.toNat < x.toNat := by omega
                simp [e1, e2]
                exact ih h1 h2

/-- a common prefix does not matter -/
theorem strLt_append_left (p a b : Str) : strLt (p ++ a) (p ++ b) = strLt a b := by
  induction p with
  | nil => rfl
  | cons x xs ih => simp [strLt, ih]

/-- a proper prefix is smaller -/
theorem strLt_proper_prefix (p : Str) (c : Char) (q : Str) : strLt p (p ++ c :: q) = true := by
  have := strLt_append_left p [] (c :: q)
  simp only [List.append_nil] at this
  rw [this]; rfl

theorem strLt_of_head_lt (p : Str) (a b : Char) (u v : Str) (h : a.toNat < b.toNat) :
    strLt (p ++ a :: u) (p ++ b :: v) = true := by
  rw [strLt_append_left]; simp [strLt, h]

/-! ### lexicographic by a key first, by the string itself second -/

def lt2 (f : Str → Str) (a b : Str) : Bool := if f a != f b then strLt (f a) (f b) else strLt a b

theorem lt2_asymm {f : Str → Str} {a b : Str} (h : lt2 f a b = true) : lt2 f b a = false := by
  unfold lt2 at h ⊢
  by_cases e : f a = f b
  · simp [e] at h ⊢; exact strLt_asymm h
  · have e' : ¬ f b = f a := fun x => e x.symm
    simp [e] at h; simp [e']; exact strLt_asymm h

theorem lt2_trans {f : Str → Str} {a b c : Str} (h1 : lt2 f a b = true) (h2 : lt2 f b c = true) :
    lt2 f a c = true := by
  unfold lt2 at h1 h2 ⊢
  by_cases e1 : f a = f b
  · by_cases e2 : f b = f c
    · have e3 : f a = f c := e1.trans e2
      simp [e1] at h1; simp [e2] at h2; simp [e3]; exact strLt_trans h1 h2
    · have e3 : ¬ f a = f c := by rw [e1]; exact e2
      simp [e2] at h2; simp [e3]; rw [e1]; exact h2
  · by_cases e2 : f b = f c
    · have e3 : ¬ f a = f c := by rw [← e2]; exact e1
      simp [e1] at h1; simp [e3]; rw [← e2]; exact h1
    · simp [e1] at h1; simp [e2] at h2
      by_cases e3 : f a = f c
      · rw [e3] at h1; have := strLt_asymm h1; rw [this] at h2; cases h2
      · simp [e3]; exact strLt_trans h1 h2

theorem pathLt_eq (a b : Str) : pathLt a b = lt2 lowerL a b := rfl
/-! ### `ltBy`: the lexicographic order by a rank of the characters is a strict order -/

theorem ltBy_irrefl (k : Char → Nat) (a : Str) : ltBy k a a = false := by
  induction a with
  | nil => rfl
  | cons x xs ih => simp [ltBy, ih]

theorem ltBy_asymm {k : Char → Nat} {a b : Str} (h : ltBy k a b = true) : ltBy k b a = false := by
  induction a generalizing b with
  | nil => cases b <;> simp_all [ltBy]
  | cons x xs ih =>
    cases b with
    | nil => simp [ltBy] at h
    | cons y ys =>
      simp only [ltBy] at h ⊢
      by_cases h1 : k x < k y
      · have h2 : ¬ k y < k x := by omega
        simp [h1, h2]
      · by_cases h2 : k y < k x
        · simp [h1, h2] at h
        · simp [h1, h2] at h ⊢
          exact ih h

theorem ltBy_trans {k : Char → Nat} {a b c : Str} (h1 : ltBy k a b = true) (h2 : ltBy k b c = true) :
    ltBy k a c = true := by
  induction a generalizing b c with
  | nil =>
    cases b with
    | nil => simp [ltBy] at h1
    | cons y ys => cases c with
      | nil => simp [ltBy] at h2
      | cons z zs => simp [ltBy]
  | cons x xs ih =>
    cases b with
    | nil => simp [ltBy] at h1
    | cons y ys =>
      cases c with
      | nil => simp [ltBy] at h2
      | cons z zs =>
        simp only [ltBy] at h1 h2 ⊢
        by_cases hxy : k x < k y
        · by_cases hyz : k y < k z
          · have : k x < k z := by omega
            simp [this]
          · by_cases hzy : k z < k y
            · simp [hyz, hzy] at h2
            · have : k x < k z := by omega
              simp [this]
        · by_cases hyx : k y < k x
          · simp [hxy, hyx] at h1
          · simp [hxy, hyx] at h1
            by_cases hyz : k y < k z
            · have : k x < k z := by omega
              simp [this]
            · by_cases hzy : k z < k y
              · simp [hyz, hzy] at h2
              · simp [hyz, hzy] at h2
                have e1 : ¬ k x < k z := by omega
                have e2 : ¬ k z < k x := by omega
                simp [e1, e2]
                exact ih h1 h2

/-- a common prefix does not matter -/
theorem ltBy_append_left (k : Char → Nat) (p a b : Str) : ltBy k (p ++ a) (p ++ b) = ltBy k a b := by
  induction p with
  | nil => rfl
  | cons x xs ih => simp [ltBy, ih]

/-! ### lexicographic: by a key under one strict order first, by another strict order second -/

def lexBy (ltK : Str → Str → Bool) (f : Str → Str) (ltR : Str → Str → Bool) (a b : Str) : Bool :=
  if f a != f b then ltK (f a) (f b) else ltR a b

theorem lexBy_asymm {ltK ltR : Str → Str → Bool} {f : Str → Str}
    (hK : ∀ a b, ltK a b = true → ltK b a = false) (hR : ∀ a b, ltR a b = true → ltR b a = false)
    {a b : Str} (h : lexBy ltK f ltR a b = true) : lexBy ltK f ltR b a = false := by
  unfold lexBy at h ⊢
  by_cases e : f a = f b
  · simp [e] at h ⊢; exact hR _ _ h
  · have e' : ¬ f b = f a := fun x => e x.symm
    simp [e] at h; simp [e']; exact hK _ _ h

theorem lexBy_trans {ltK ltR : Str → Str → Bool} {f : Str → Str}
    (hK : ∀ a b, ltK a b = true → ltK b a = false)
    (hKt : ∀ a b c, ltK a b = true → ltK b c = true → ltK a c = true)
    (hRt : ∀ a b c, ltR a b = true → ltR b c = true → ltR a c = true)
    {a b c : Str} (h1 : lexBy ltK f ltR a b = true) (h2 : lexBy ltK f ltR b c = true) :
    lexBy ltK f ltR a c = true := by
  unfold lexBy at h1 h2 ⊢
  by_cases e1 : f a = f b
  · by_cases e2 : f b = f c
    · have e3 : f a = f c := e1.trans e2
      simp [e1] at h1; simp [e2] at h2; simp [e3]; exact hRt _ _ _ h1 h2
    · have e3 : ¬ f a = f c := by rw [e1]; exact e2
      simp [e2] at h2; simp [e3]; rw [e1]; exact h2
  · by_cases e2 : f b = f c
    · have e3 : ¬ f a = f c := by rw [← e2]; exact e1
      simp [e1] at h1; simp [e3]; rw [← e2]; exact h1
    · simp [e1] at h1; simp [e2] at h2
      by_cases e3 : f a = f c
      · rw [e3] at h1; have := hK _ _ h1; rw [this] at h2; cases h2
      · simp [e3]; exact hKt _ _ _ h1 h2

/-- the order of the sort as a three-level lexicographic order, read from the right: `hostBefore a b` says
`b` is below `a` by (reversed host part under `lessSpecificHost`, port, key) -/
def hostLt : Str → Str → Bool :=
  lexBy lessSpecificHost (fun k => (revParts k).1) (lexBy strLt (fun k => (revParts k).2) strLt)

theorem hostBefore_eq (a b : Str) : hostBefore a b = hostLt b a := by
  unfold hostBefore hostLt lexBy
  by_cases e : (revParts a).1 = (revParts b).1
  · have e' : (revParts b).1 = (revParts a).1 := e.symm
    by_cases e2 : (revParts a).2 = (revParts b).2
    · have e2' : (revParts b).2 = (revParts a).2 := e2.symm
      simp [e, e2]
    · have e2' : ¬ (revParts b).2 = (revParts a).2 := fun x => e2 x.symm
      simp [e, e2, e2']
  · have e' : ¬ (revParts b).1 = (revParts a).1 := fun x => e x.symm
    simp [e, e']

def portLt : Str → Str → Bool := lexBy strLt (fun k => (revParts k).2) strLt

theorem portLt_asymm (a b : Str) (h : portLt a b = true) : portLt b a = false :=
  lexBy_asymm (ltK := strLt) (ltR := strLt) (fun _ _ h => strLt_asymm h) (fun _ _ h => strLt_asymm h) h

theorem portLt_trans (a b c : Str) (h1 : portLt a b = true) (h2 : portLt b c = true) : portLt a c = true :=
  lexBy_trans (ltK := strLt) (ltR := strLt) (fun _ _ h => strLt_asymm h) (fun _ _ _ h1 h2 => strLt_trans h1 h2)
    (fun _ _ _ h1 h2 => strLt_trans h1 h2) h1 h2

theorem hostLt_eq : hostLt = lexBy lessSpecificHost (fun k => (revParts k).1) portLt := rfl

theorem hostLt_asymm {a b : Str} (h : hostLt a b = true) : hostLt b a = false := by
  rw [hostLt_eq] at h ⊢
  exact lexBy_asymm (ltK := lessSpecificHost) (ltR := portLt) (fun _ _ h => ltBy_asymm h) portLt_asymm h

theorem hostLt_trans {a b c : Str} (h1 : hostLt a b = true) (h2 : hostLt b c = true) : hostLt a c = true := by
  rw [hostLt_eq] at h1 h2 ⊢
  exact lexBy_trans (ltK := lessSpecificHost) (ltR := portLt) (fun _ _ h => ltBy_asymm h)
    (fun _ _ _ h1 h2 => ltBy_trans h1 h2) portLt_trans h1 h2

theorem hostBefore_asymm {a b : Str} (h : hostBefore a b = true) : hostBefore b a = false := by
  rw [hostBefore_eq] at h ⊢; exact hostLt_asymm h
theorem hostBefore_trans {a b c : Str} (h1 : hostBefore a b = true) (h2 : hostBefore b c = true) :
    hostBefore a c = true := by
  rw [hostBefore_eq] at h1 h2 ⊢; exact hostLt_trans h2 h1

/-! ### generic insertion sort -/

section InsSort
variable {α : Type} (before : α → α → Bool)

def insBy (x : α) : List α → List α
  | [] => [x]
  | y :: ys => if before x y then x :: y :: ys else y :: insBy x ys

def sortBy (xs : List α) : List α := xs.foldr (insBy before) []

theorem insBy_perm (x : α) (ys : List α) : (insBy before x ys).Perm (x :: ys) := by
  induction ys with
  | nil => exact List.Perm.refl _
  | cons y ys ih =>
    simp only [insBy]
    split
    · exact List.Perm.refl _
    · exact ((List.perm_cons y).2 ih).trans (List.Perm.swap x y ys)

theorem sortBy_perm (xs : List α) : (sortBy before xs).Perm xs := by
  induction xs with
  | nil => exact List.Perm.refl _
  | cons x xs ih =>
    show (insBy before x (sortBy before xs)).Perm (x :: xs)
    exact (insBy_perm before x _).trans ((List.perm_cons x).2 ih)

theorem mem_sortBy {a : α} {xs : List α} : a ∈ sortBy before xs ↔ a ∈ xs := (sortBy_perm before xs).mem_iff

theorem insBy_pairwise
    (asymm : ∀ a b, before a b = true → before b a = false)
    (trans : ∀ a b c, before a b = true → before b c = true → before a c = true)
    (x : α) (ys : List α) (h : ys.Pairwise (fun a b => before b a = false)) :
    (insBy before x ys).Pairwise (fun a b => before b a = false) := by
  induction ys with
  | nil => simp [insBy]
  | cons y ys ih =>
    simp only [insBy]
    rw [List.pairwise_cons] at h
    split
    · rename_i hxy
      rw [List.pairwise_cons]
      refine ⟨?_, List.pairwise_cons.2 h⟩
      intro z hz
      rcases List.mem_cons.1 hz with rfl | hz
      · exact asymm _ _ hxy
      · -- before z x would give before z y by transitivity
        cases hzx : before z x with
        | false => rfl
        | true => have := trans _ _ _ hzx hxy; rw [h.1 z hz] at this; cases this
    · rename_i hxy
      rw [List.pairwise_cons]
      refine ⟨?_, ih h.2⟩
      intro z hz
      rcases List.mem_cons.1 ((insBy_perm before x ys).mem_iff.1 hz) with rfl | hz
      · simpa using hxy
      · exact h.1 z hz

theorem sortBy_pairwise
    (asymm : ∀ a b, before a b = true → before b a = false)
    (trans : ∀ a b c, before a b = true → before b c = true → before a c = true)
    (xs : List α) : (sortBy before xs).Pairwise (fun a b => before b a = false) := by
  induction xs with
  | nil => exact List.Pairwise.nil
  | cons x xs ih => exact insBy_pairwise before asymm trans x _ ih

end InsSort

theorem insHost_eq (x : Str) (ys : List Str) : insHost x ys = insBy hostBefore x ys := by
  induction ys with
  | nil => rfl
  | cons y ys ih => simp [insHost, insBy, ih]

theorem sortByRev_eq (xs : List Str) : sortByRev xs = sortBy hostBefore xs := by
  induction xs with
  | nil => rfl
  | cons x xs ih =>
    show insHost x (sortByRev xs) = insBy hostBefore x (sortBy hostBefore xs)
    rw [ih, insHost_eq]

theorem insertDesc_eq (r : Route) (l : List Route) :
    insertDesc r l = insBy (fun a b : Route => pathLt b.path a.path) r l := by
  induction l with
  | nil => rfl
  | cons y ys ih => simp [insertDesc, insBy, ih]

theorem sortRoutes_eq (rs : List Route) : sortRoutes rs = sortBy (fun a b : Route => pathLt b.path a.path) rs := by
  induction rs with
  | nil => rfl
  | cons x xs ih =>
    show insertDesc x (sortRoutes xs) = _
    rw [ih, insertDesc_eq]; rfl

/-- a host's routes after `newTable`: no later route sorts strictly before an earlier one -/
def RoutesSorted (rs : List Route) : Prop := rs.Pairwise (fun a b => pathLt a.path b.path = false)

theorem sortRoutes_sorted (rs : List Route) : RoutesSorted (sortRoutes rs) := by
  rw [sortRoutes_eq]
  exact sortBy_pairwise _ (fun a b h => by rw [pathLt_eq] at h ⊢; exact lt2_asymm h)
    (fun a b c h1 h2 => by rw [pathLt_eq] at h1 h2 ⊢; exact lt2_trans h2 h1) rs

theorem sortRoutes_perm (rs : List Route) : (sortRoutes rs).Perm rs := by
  rw [sortRoutes_eq]; exact sortBy_perm _ rs

/-! ### the host list -/

/-- how two entries of the sorted host list are related when the first precedes the second -/
def hostOrd (a b : Str) : Prop :=
  (isGlobPat a = false ∧ isGlobPat b = true) ∨ (isGlobPat a = isGlobPat b ∧ hostBefore b a = false)

theorem mem_sortHosts {a : Str} {hs : List Str} : a ∈ sortHosts hs ↔ a ∈ hs := by
  unfold sortHosts
  split
  · exact Iff.rfl
  · simp only [List.mem_append, List.mem_filter, sortByRev_eq, mem_sortBy]
    cases isGlobPat a <;> simp

theorem sortHosts_pairwise (hs : List Str) : (sortHosts hs).Pairwise hostOrd := by
  unfold sortHosts
  split
  · rename_i h
    match hs, h with
    | [], _ => exact List.Pairwise.nil
    | [x], _ => exact List.pairwise_singleton _ _
    | _ :: _ :: _, h => simp at h; omega
  · have hp := sortBy_pairwise hostBefore (fun a b => hostBefore_asymm) (fun a b c => hostBefore_trans) hs
    rw [← sortByRev_eq] at hp
    rw [List.pairwise_append]
    refine ⟨?_, ?_, ?_⟩
    · have := hp.filter (fun k => !isGlobPat k)
      refine (List.Pairwise.and_mem.1 this).imp ?_ |>.imp (fun h => h)
      intro a b ⟨ha, hb, hab⟩
      right
      have ha := (List.mem_filter.1 ha).2; have hb := (List.mem_filter.1 hb).2
      simp at ha hb
      exact ⟨by rw [ha, hb], hab⟩
    · have := hp.filter isGlobPat
      refine (List.Pairwise.and_mem.1 this).imp ?_
      intro a b ⟨ha, hb, hab⟩
      right
      have ha := (List.mem_filter.1 ha).2; have hb := (List.mem_filter.1 hb).2
      exact ⟨by rw [ha, hb], hab⟩
    · intro a ha b hb
      left
      have ha := (List.mem_filter.1 ha).2; have hb := (List.mem_filter.1 hb).2
      simp at ha
      exact ⟨ha, hb⟩

/-! ### scans -/

/-- shape of a successful `lookupRoutes` -/
theorem lookupRoutes_some {m : Str → Str → Bool} {pick : Route → Target} {path : Str} {rs : List Route}
    {r : Route} {tg : Target} (h : lookupRoutes m pick path rs = some (r, tg)) :
    ∃ pre post, rs = pre ++ r :: post ∧ (∀ x ∈ pre, m path x.path = false) ∧ m path r.path = true ∧
      r.targets ≠ [] ∧ (tg ∈ r.targets ∨ tg = pick r) := by
  induction rs with
  | nil => simp [lookupRoutes] at h
  | cons x xs ih =>
    simp only [lookupRoutes] at h
    by_cases hm : m path x.path = true
    · simp only [hm, if_true] at h
      match hx : x.targets, h with
      | [], h => simp [hx] at h
      | [t], h =>
        simp [hx] at h
        obtain ⟨rfl, rfl⟩ := h
        exact ⟨[], xs, rfl, by simp, hm, by simp [hx], Or.inl (by simp [hx])⟩
      | t :: t' :: ts, h =>
        simp [hx] at h
        obtain ⟨rfl, rfl⟩ := h
        exact ⟨[], xs, rfl, by simp, hm, by simp [hx], Or.inr rfl⟩
    · simp only [hm] at h
      obtain ⟨pre, post, e, hpre, hr⟩ := ih h
      refine ⟨x :: pre, post, by simp [e], ?_, hr⟩
      intro y hy
      rcases List.mem_cons.1 hy with rfl | hy
      · simpa using hm
      · exact hpre y hy

/-- when no route is empty, `lookupRoutes` fails only if no route matches -/
theorem lookupRoutes_isSome {m : Str → Str → Bool} {pick : Route → Target} {path : Str} {rs : List Route}
    (hne : ∀ r ∈ rs, r.targets ≠ []) {r : Route} (hr : r ∈ rs) (hm : m path r.path = true) :
    (lookupRoutes m pick path rs).isSome = true := by
  induction rs with
  | nil => cases hr
  | cons x xs ih =>
    simp only [lookupRoutes]
    by_cases hx : m path x.path = true
    · simp only [hx, if_true]
      have := hne x (List.mem_cons_self ..)
      match hxt : x.targets with
      | [] => exact absurd hxt this
      | [t] => rfl
      | t :: t' :: ts => rfl
    · simp only [hx]
      rcases List.mem_cons.1 hr with rfl | hr
      · exact absurd hm hx
      · exact ih (fun r hr => hne r (List.mem_cons_of_mem _ hr)) hr

/-- `lookupHosts`: whatever comes out was produced by `look` on a host of the list (or was `last`) -/
theorem lookupHosts_sound {look : Str → Option (Route × Target)} {skip : Target → Bool} {hs : List Str}
    {last : Option (Str × Route × Target)} {h : Str} {r : Route} {tg : Target}
    (hres : lookupHosts look skip hs last = some (h, r, tg)) :
    last = some (h, r, tg) ∨ (h ∈ hs ∧ look h = some (r, tg)) := by
  induction hs generalizing last with
  | nil => left; simpa [lookupHosts] using hres
  | cons x xs ih =>
    simp only [lookupHosts] at hres
    match hx : look x, hres with
    | none, hres =>
      simp [hx] at hres
      rcases ih hres with h' | ⟨h1, h2⟩
      · cases h'
      · exact Or.inr ⟨List.mem_cons_of_mem _ h1, h2⟩
    | some (r', tg'), hres =>
      simp [hx] at hres
      by_cases hs' : skip tg' = true
      · simp [hs'] at hres
        rcases ih hres with h' | ⟨h1, h2⟩
        · cases h'
        · exact Or.inr ⟨List.mem_cons_of_mem _ h1, h2⟩
      · simp [hs'] at hres
        obtain ⟨rfl, rfl, rfl⟩ := hres
        exact Or.inr ⟨List.mem_cons_self .., hx⟩

/-- without the redirect skip the first host with an answer decides -/
theorem lookupHosts_noskip_some {look : Str → Option (Route × Target)} {hs : List Str}
    {last : Option (Str × Route × Target)} {h : Str} {r : Route} {tg : Target}
    (hres : lookupHosts look (fun _ => false) hs last = some (h, r, tg)) :
    (hs.all (fun x => (look x).isNone) = true ∧ last = some (h, r, tg)) ∨
    ∃ pre post, hs = pre ++ h :: post ∧ (∀ x ∈ pre, look x = none) ∧ look h = some (r, tg) := by
  induction hs generalizing last with
  | nil => left; simpa [lookupHosts] using hres
  | cons x xs ih =>
    simp only [lookupHosts] at hres
    match hx : look x, hres with
    | none, hres =>
      simp [hx] at hres
      rcases ih hres with ⟨_, h'⟩ | ⟨pre, post, e, hpre, hl⟩
      · cases h'
      · refine Or.inr ⟨x :: pre, post, by simp [e], ?_, hl⟩
        intro y hy
        rcases List.mem_cons.1 hy with rfl | hy
        · exact hx
        · exact hpre y hy
    | some (r', tg'), hres =>
      simp [hx] at hres
      obtain ⟨rfl, rfl, rfl⟩ := hres
      exact Or.inr ⟨[], xs, rfl, by simp, hx⟩

theorem lookupHosts_noskip_isSome {look : Str → Option (Route × Target)} {hs : List Str}
    {last : Option (Str × Route × Target)} {k : Str} (hk : k ∈ hs) (hl : (look k).isSome = true) :
    (lookupHosts look (fun _ => false) hs last).isSome = true := by
  induction hs generalizing last with
  | nil => cases hk
  | cons x xs ih =>
    simp only [lookupHosts]
    match hx : look x with
    | some (r', tg') => simp
    | none =>
      simp
      rcases List.mem_cons.1 hk with rfl | hk
      · rw [hx] at hl; cases hl
      · exact ih hk

/-! ### ASCII lower-casing and the port literals -/

theorem ofNat_lower (k : Nat) (hk : k < 26) : (Char.ofNat (k + 97)).toNat = k + 97 := by
  revert k; decide

theorem lowerChar_toNat (c : Char) : (lowerChar c).toNat = c.toNat ∨ (97 ≤ (lowerChar c).toNat ∧ 65 ≤ c.toNat) := by
  unfold lowerChar
  split
  · rename_i h
    right
    have h1 : 65 ≤ c.toNat := h.1
    have h2 : c.toNat ≤ 90 := h.2
    have := ofNat_lower (c.toNat - 65) (by omega)
    have e : c.toNat - 65 + 97 = c.toNat + 32 := by omega
    rw [e] at this
    omega
  · left; rfl

theorem lowerChar_of_not_upper (c : Char) (h : c.toNat < 65 ∨ 90 < c.toNat) : lowerChar c = c := by
  unfold lowerChar; split
  · rename_i hh; have h1 : 65 ≤ c.toNat := hh.1; have h2 : c.toNat ≤ 90 := hh.2; omega
  · rfl

/-- lower-casing neither creates nor destroys a character below 'A' (digits, ':', '.', '-') -/
theorem beq_lowerChar_small (c d : Char) (hd : d.toNat < 65) : (d == lowerChar c) = (d == c) := by
  have hc := lowerChar_toNat c
  by_cases e : d = c
  · subst e; simp [lowerChar_of_not_upper d (Or.inl hd)]
  · have : d ≠ lowerChar c := by
      intro e'
      rcases hc with h | ⟨h, _⟩
      · rw [← e'] at h; exact e (Char.toNat_inj.1 h)
      · rw [← e'] at h; omega
    rw [beq_false_of_ne this, beq_false_of_ne e]

theorem lowerChar_idem (c : Char) : lowerChar (lowerChar c) = lowerChar c := by
  rcases lowerChar_toNat c with h | ⟨h, _⟩
  · have : lowerChar c = c := Char.toNat_inj.1 h
    rw [this, this]
  · exact lowerChar_of_not_upper _ (Or.inr (by omega))

theorem lowerL_idem (s : Str) : lowerL (lowerL s) = lowerL s := by
  simp [lowerL, lowerChar_idem]

theorem isPrefixOf_lowerL (p : Str) (hp : ∀ d ∈ p, d.toNat < 65) (l : Str) :
    p.isPrefixOf (lowerL l) = p.isPrefixOf l := by
  induction p generalizing l with
  | nil => simp [List.isPrefixOf]
  | cons d p ih =>
    cases l with
    | nil => simp [lowerL, List.isPrefixOf]
    | cons c l =>
      have := ih (fun x hx => hp x (List.mem_cons_of_mem _ hx)) l
      simp only [lowerL, List.map_cons, List.isPrefixOf] at this ⊢
      rw [beq_lowerChar_small c d (hp d (List.mem_cons_self ..)), this]

theorem hasSuffix_lowerL (p : Str) (hp : ∀ d ∈ p, d.toNat < 65) (s : Str) :
    hasSuffix (lowerL s) p = hasSuffix s p := by
  unfold hasSuffix List.isSuffixOf
  have : (lowerL s).reverse = lowerL s.reverse := by simp [lowerL]
  rw [this]
  exact isPrefixOf_lowerL p.reverse (fun d hd => hp d (List.mem_reverse.1 hd)) _

theorem normalizeHostNoLower_lowerL (h : Str) (tls : Bool) :
    normalizeHostNoLower (lowerL h) tls = lowerL (normalizeHostNoLower h tls) := by
  unfold normalizeHostNoLower
  rw [hasSuffix_lowerL port80 (by decide), hasSuffix_lowerL port443 (by decide)]
  have hl : (lowerL h).length = h.length := by simp [lowerL]
  rw [hl]
  split
  · simp [lowerL, List.map_take]
  · split
    · simp [lowerL, List.map_take]
    · rfl

end Fabio.Lemmas.C03
