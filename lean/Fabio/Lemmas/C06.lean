import Fabio.Model.C06
/-!
Helper lemmas for C06 (core Lean only): schedule induction, list bookkeeping for `List.set`, and the
arithmetic of residues of consecutive numbers (the "exact share" of a round-robin ring).
-/
namespace Fabio.Lemmas.C06
open Fabio.Model.C06

/-! ### schedule induction -/

section sem
variable {S L : Type}

theorem stepAt_cases (i : Nat) (ts : List (Thread S L)) (s : S) :
    stepAt i ts s = (s, ts) ∨
    ∃ t f rest, ts[i]? = some t ∧ t.steps = f :: rest ∧
      stepAt i ts s = ((f s t.loc).1, ts.set i { steps := rest, loc := (f s t.loc).2 }) := by
  unfold stepAt
  cases h : ts[i]? with
  | none => left; rfl
  | some t =>
    cases hs : t.steps with
    | nil => left; simp only [hs]
    | cons f rest => right; exact ⟨t, f, rest, rfl, hs, by simp only [hs]⟩

/-- An invariant of single scheduled steps is an invariant of every schedule. -/
theorem run_preserves (Inv : S → List (Thread S L) → Prop)
    (h : ∀ i ts s, Inv s ts → Inv (stepAt i ts s).1 (stepAt i ts s).2) :
    ∀ sch ts s, Inv s ts → Inv (run sch ts s).1 (run sch ts s).2 := by
  intro sch
  induction sch with
  | nil => intro ts s hi; simpa [run] using hi
  | cons i sch ih => intro ts s hi; simp only [run]; exact ih _ _ (h i ts s hi)

/-- State invariant `I`, thread-local invariant `J`, step class `P`: if every `P`-step preserves `I` and `J`,
then every schedule of threads made of `P`-steps does. -/
theorem run_inv (I : S → Prop) (J : L → Prop) (P : Step S L → Prop)
    (hP : ∀ f, P f → ∀ s l, I s → J l → I (f s l).1 ∧ J (f s l).2)
    (sch : List Nat) (ts : List (Thread S L)) (s : S)
    (hsteps : ∀ t ∈ ts, ∀ f ∈ t.steps, P f) (hI : I s) (hJ : ∀ t ∈ ts, J t.loc) :
    I (run sch ts s).1 ∧ (∀ t ∈ (run sch ts s).2, J t.loc) ∧ (∀ t ∈ (run sch ts s).2, ∀ f ∈ t.steps, P f) := by
  have := run_preserves (fun s ts => I s ∧ (∀ t ∈ ts, J t.loc) ∧ (∀ t ∈ ts, ∀ f ∈ t.steps, P f)) ?_ sch ts s ⟨hI, hJ, hsteps⟩
  · exact this
  · intro i ts s ⟨hI, hJ, hS⟩
    rcases stepAt_cases i ts s with h | ⟨t, f, rest, hget, hst, h⟩
    · rw [h]; exact ⟨hI, hJ, hS⟩
    · rw [h]
      have htm : t ∈ ts := List.mem_of_getElem? hget
      have hPf : P f := hS t htm f (by rw [hst]; exact List.mem_cons_self)
      have hpres := hP f hPf s t.loc hI (hJ t htm)
      refine ⟨hpres.1, ?_, ?_⟩
      · intro t' ht'
        rcases List.mem_or_eq_of_mem_set ht' with h1 | h1
        · exact hJ t' h1
        · subst h1; exact hpres.2
      · intro t' ht'
        rcases List.mem_or_eq_of_mem_set ht' with h1 | h1
        · exact hS t' h1
        · subst h1
          intro g hg
          exact hS t htm g (by rw [hst]; exact List.mem_cons_of_mem _ hg)

end sem

/-! ### `List.set` bookkeeping -/

theorem flatMap_set_perm {α β : Type} (g : α → List β) :
    ∀ (ts : List α) (i : Nat) (t t' : α) (x : β), ts[i]? = some t → g t' = g t ++ [x] →
      ((ts.set i t').flatMap g).Perm (x :: ts.flatMap g) := by
  intro ts
  induction ts with
  | nil => intro i t t' x h; simp at h
  | cons a ts ih =>
    intro i t t' x h hg
    cases i with
    | zero =>
      simp at h; subst h
      simp only [List.set_cons_zero, List.flatMap_cons, hg]
      have : (g a ++ [x] ++ List.flatMap g ts).Perm (x :: (g a ++ List.flatMap g ts)) := by
        rw [List.append_assoc]
        exact List.perm_middle
      exact this
    | succ i =>
      simp at h
      simp only [List.set_cons_succ, List.flatMap_cons]
      have := ih i t t' x h hg
      exact (List.Perm.append_left (g a) this).trans List.perm_middle

theorem flatMap_set_same {α β : Type} (g : α → List β) :
    ∀ (ts : List α) (i : Nat) (t t' : α), ts[i]? = some t → g t' = g t →
      (ts.set i t').flatMap g = ts.flatMap g := by
  intro ts
  induction ts with
  | nil => intro i t t' h; simp at h
  | cons a ts ih =>
    intro i t t' h hg
    cases i with
    | zero => simp at h; subst h; simp [hg]
    | succ i => simp at h; simp [ih i t t' h hg]

theorem sum_map_set {α : Type} (g : α → Nat) :
    ∀ (ts : List α) (i : Nat) (t t' : α), ts[i]? = some t → g t = g t' + 1 →
      (ts.map g).sum = ((ts.set i t').map g).sum + 1 := by
  intro ts
  induction ts with
  | nil => intro i t t' h; simp at h
  | cons a ts ih =>
    intro i t t' h hg
    cases i with
    | zero => simp at h; subst h; simp [hg]; omega
    | succ i => simp at h; simp [ih i t t' h hg]; omega

/-! ### residues of consecutive numbers -/

/-- The residues mod `N` of any `N` consecutive numbers are a permutation of `0 … N-1`. -/
theorem window_perm (N : Nat) (_hN : 0 < N) : ∀ c, ((List.range' c N).map (· % N)).Perm (List.range N) := by
  intro c
  induction c with
  | zero =>
    rw [← List.range_eq_range']
    have : (List.range N).map (· % N) = List.range N := by
      conv => rhs; rw [← List.map_id (List.range N)]
      apply List.map_congr_left
      intro a ha
      simp at ha
      simp [Nat.mod_eq_of_lt ha]
    rw [this]
  | succ c ih =>
    have e1 : List.range' c (N + 1) = c :: List.range' (c + 1) N := List.range'_succ
    have e2 : List.range' c (N + 1) = List.range' c N ++ [c + 1 * N] := List.range'_concat
    have e3 : (c % N) :: (List.range' (c + 1) N).map (· % N) = (List.range' c N).map (· % N) ++ [c % N] := by
      have := congrArg (List.map (· % N)) (e1.symm.trans e2)
      simpa using this
    have p : ((c % N) :: (List.range' (c + 1) N).map (· % N)).Perm ((c % N) :: (List.range' c N).map (· % N)) := by
      rw [e3]; exact List.perm_append_singleton _ _
    exact (List.Perm.cons_inv p).trans ih

/-- `labelShare g N c K t`: how many of the `K` consecutive cursor values from `c` land on a slot labelled `t`. -/
def labelShare {β : Type} [BEq β] (g : Nat → β) (N c K : Nat) (t : β) : Nat :=
  ((List.range' c K).map (fun x => g (x % N))).count t

/-- number of slots of the ring carrying label `t` -/
def labelWeight {β : Type} [BEq β] (g : Nat → β) (N : Nat) (t : β) : Nat :=
  ((List.range N).map g).count t

theorem labelShare_window {β : Type} [BEq β] (g : Nat → β) (N : Nat) (hN : 0 < N) (c : Nat) (t : β) :
    labelShare g N c N t = labelWeight g N t := by
  unfold labelShare labelWeight
  have := (window_perm N hN c).map g
  rw [List.map_map] at this
  exact this.count_eq t

theorem labelShare_add {β : Type} [BEq β] (g : Nat → β) (N c K₁ K₂ : Nat) (t : β) :
    labelShare g N c (K₁ + K₂) t = labelShare g N c K₁ t + labelShare g N (c + K₁) K₂ t := by
  unfold labelShare
  have : List.range' c (K₁ + K₂) = List.range' c K₁ ++ List.range' (c + K₁) K₂ := by
    simp
  rw [this, List.map_append, List.count_append]

theorem labelShare_le_weight {β : Type} [BEq β] (g : Nat → β) (N : Nat) (hN : 0 < N) (c K : Nat) (hK : K ≤ N) (t : β) :
    labelShare g N c K t ≤ labelWeight g N t := by
  rw [← labelShare_window g N hN c t]
  have h := labelShare_add g N c K (N - K) t
  rw [show K + (N - K) = N by omega] at h
  omega

/-- Exact share: after `K` consecutive cursor values (from any start `c`) a label carried by `w` slots of a
ring of `N` slots has been hit between `⌊K/N⌋·w` and `(⌊K/N⌋+1)·w` times, and exactly `(K/N)·w` times when
`K` is a whole number of cycles. -/
theorem labelShare_bounds {β : Type} [BEq β] (g : Nat → β) (N : Nat) (hN : 0 < N) (t : β) :
    ∀ K c, (K / N) * labelWeight g N t ≤ labelShare g N c K t ∧
           labelShare g N c K t ≤ (K / N + 1) * labelWeight g N t ∧
           (K % N = 0 → labelShare g N c K t = (K / N) * labelWeight g N t) := by
  intro K
  induction K using Nat.strongRecOn with
  | _ K ih =>
    intro c
    by_cases hlt : K < N
    · have hd : K / N = 0 := Nat.div_eq_of_lt hlt
      rw [hd]
      refine ⟨by simp, by simp; exact labelShare_le_weight g N hN c K (Nat.le_of_lt hlt) t, ?_⟩
      intro hm
      have : K = 0 := by
        have := Nat.mod_eq_of_lt hlt
        omega
      subst this
      simp [labelShare]
    · have hK : K = N + (K - N) := by omega
      have hdiv : K / N = (K - N) / N + 1 := by
        rw [Nat.div_eq_sub_div hN (by omega)]
      have hmod : K % N = (K - N) % N := by
        rw [Nat.mod_eq_sub_mod (by omega)]
      have ih' := ih (K - N) (by omega) (c + N)
      have hsplit : labelShare g N c K t = labelWeight g N t + labelShare g N (c + N) (K - N) t := by
        have h := labelShare_add g N c N (K - N) t
        rw [← hK, labelShare_window g N hN] at h
        exact h
      rw [hsplit, hdiv, hmod]
      obtain ⟨h1, h2, h3⟩ := ih'
      generalize (K - N) / N = q at h1 h2 h3 ⊢
      generalize labelShare g N (c + N) (K - N) t = sh at h1 h2 h3 ⊢
      generalize labelWeight g N t = W at h1 h2 h3 ⊢
      have e1 : (q + 1) * W = q * W + W := Nat.succ_mul q W
      have e2 : (q + 1 + 1) * W = q * W + W + W := by rw [Nat.succ_mul (q + 1) W, e1]
      rw [e1] at h2
      refine ⟨?_, ?_, ?_⟩
      · rw [e1]; omega
      · rw [e2]; omega
      · intro hm; rw [h3 hm, e1]; omega

theorem labelWeight_id (N j : Nat) (hj : j < N) : labelWeight (fun x => x) N j = 1 := by
  unfold labelWeight
  rw [List.map_id']
  rw [List.nodup_range.count]
  simp [hj]

/-! ### the map as an association list -/

theorem mLoad_none_iff (p : Nat) (m : List (Nat × Nat)) : mLoad p m = none ↔ p ∉ keys m := by
  unfold mLoad keys
  rw [List.lookup_eq_none_iff]
  simp only [List.mem_map, not_exists, not_and]
  constructor
  · intro h e he heq
    have := h e he
    simp [heq] at this
  · intro h e he
    have := h e he
    simp only [bne_iff_ne, ne_eq]
    intro hh; exact this hh.symm

theorem mLoad_some_mem (p g : Nat) (m : List (Nat × Nat)) (h : mLoad p m = some g) : (p, g) ∈ m := by
  unfold mLoad at h
  rw [List.lookup_eq_some_iff] at h
  obtain ⟨l1, l2, rfl, _⟩ := h
  simp

theorem keys_mDelete (p : Nat) (m : List (Nat × Nat)) : keys (mDelete p m) = (keys m).filter (fun k => k != p) := by
  unfold keys mDelete
  rw [List.filter_map]
  rfl

theorem mem_mDelete {p : Nat} {m : List (Nat × Nat)} {e : Nat × Nat} (h : e ∈ mDelete p m) : e ∈ m := by
  unfold mDelete at h
  exact (List.mem_filter.mp h).1

theorem filter_ne_of_not_mem (p : Nat) (ks : List Nat) (h : p ∉ ks) : ks.filter (fun k => k != p) = ks := by
  rw [List.filter_eq_self]
  intro a ha
  simp only [bne_iff_ne, ne_eq]
  intro e; subst e; exact h ha

theorem keys_mStore_fresh (p g : Nat) (m : List (Nat × Nat)) (h : p ∉ keys m) : keys (mStore p g m) = p :: keys m := by
  unfold mStore
  show p :: keys (mDelete p m) = p :: keys m
  rw [keys_mDelete, filter_ne_of_not_mem p _ h]

/-- removing an element of a duplicate-free list by value -/
theorem filter_ne_middle (A B : List Nat) (x : Nat) (hnd : (A ++ x :: B).Nodup) :
    (A ++ x :: B).filter (fun k => k != x) = A ++ B := by
  rw [List.nodup_append] at hnd
  obtain ⟨_, h2, h3⟩ := hnd
  rw [List.nodup_cons] at h2
  rw [List.filter_append, List.filter_cons]
  simp only [bne_self_eq_false, Bool.false_eq_true, ↓reduceIte]
  congr 1
  · rw [List.filter_eq_self]
    intro a ha
    simp only [bne_iff_ne, ne_eq]
    exact h3 a ha x List.mem_cons_self
  · rw [List.filter_eq_self]
    intro a ha
    simp only [bne_iff_ne, ne_eq]
    intro e; subst e; exact h2.1 ha

theorem split_at (l : List Nat) (h : Nat) (hh : h < l.length) :
    l = l.take h ++ l[h] :: l.drop (h + 1) := by
  rw [List.getElem_cons_drop hh, List.take_append_drop]

theorem set_split (l : List Nat) (h p : Nat) (hh : h < l.length) :
    l.set h p = l.take h ++ p :: l.drop (h + 1) := by
  rw [List.set_eq_take_append_cons_drop]; simp [hh]

/-! ### the repaired slow path -/

theorem slow_hit (s : State) (l : Local) (g : Nat) (hd : l.dead = false) (hp : l.phase = .compiled)
    (hm : mLoad l.cur s.cache.m = some g) :
    gSlowLocked s l = (s, finishGet l (.ok g)) := by
  simp [gSlowLocked, atomicSeq, slowPath, gRecheck, gTest, gS4, gS5, gS6, gS7, alive, hd, hp, hm, finishGet, Res.isPanic]

theorem slow_append (s : State) (l : Local) (hd : l.dead = false) (hp : l.phase = .compiled)
    (hm : mLoad l.cur s.cache.m = none) (hn : s.cache.n < s.cache.l.length) :
    gSlowLocked s l =
      ({ s with cache := { m := mStore l.cur l.glb s.cache.m, l := s.cache.l.set s.cache.n l.cur,
                           h := s.cache.h, n := s.cache.n + 1 } },
       finishGet { l with phase := .append } (.ok l.glb)) := by
  simp [gSlowLocked, atomicSeq, slowPath, gRecheck, gTest, gS4, gS5, gS6, gS7, alive, hd, hp, hm, hn, finishGet, Res.isPanic]

theorem slow_evict (s : State) (l : Local) (hd : l.dead = false) (hp : l.phase = .compiled)
    (hm : mLoad l.cur s.cache.m = none) (hn : ¬ s.cache.n < s.cache.l.length)
    (hh : s.cache.h < s.cache.l.length) (hn0 : s.cache.n ≠ 0) :
    gSlowLocked s l =
      ({ s with cache := { m := mStore l.cur l.glb (mDelete s.cache.l[s.cache.h] s.cache.m),
                           l := s.cache.l.set s.cache.h l.cur,
                           h := (s.cache.h + 1) % s.cache.n, n := s.cache.n } },
       finishGet { l with phase := .evict } (.ok l.glb)) := by
  simp [gSlowLocked, atomicSeq, slowPath, gRecheck, gTest, gS4, gS5, gS6, gS7, alive, hd, hp, hm, hn, hh, hn0, finishGet, Res.isPanic]

theorem cacheInv_append (compile : Nat → Option Nat) (size : Nat) (c : Cache) (p g : Nat)
    (hI : CacheInv compile size c) (hm : mLoad p c.m = none) (hn : c.n < c.l.length) (hg : compile p = some g) :
    CacheInv compile size { m := mStore p g c.m, l := c.l.set c.n p, h := c.h, n := c.n + 1 } := by
  obtain ⟨hl, hns, hh0, hh, hperm, hnd, hcomp⟩ := hI
  have hp : p ∉ keys c.m := (mLoad_none_iff p c.m).mp hm
  have h0 : c.h = 0 := hh0 (by omega)
  refine ⟨by simp [hl], by show c.n + 1 ≤ size; omega, fun _ => h0, by show c.h < max (c.n + 1) 1; omega, ?_, ?_, ?_⟩
  · show (keys (mStore p g c.m)).Perm ((c.l.set c.n p).take (c.n + 1))
    rw [keys_mStore_fresh p g c.m hp]
    have e : (c.l.set c.n p).take (c.n + 1) = c.l.take c.n ++ [p] := by
      rw [List.take_add_one]
      simp [hn, List.take_set_of_le]
    rw [e]
    exact (List.Perm.cons p hperm).trans (List.perm_append_singleton _ _).symm
  · show (keys (mStore p g c.m)).Nodup
    rw [keys_mStore_fresh p g c.m hp, List.nodup_cons]
    exact ⟨hp, hnd⟩
  · intro e he
    show compile e.1 = some e.2
    have he' : e ∈ mStore p g c.m := he
    unfold mStore at he'
    rcases List.mem_cons.mp he' with h1 | h1
    · subst h1; exact hg
    · exact hcomp e (mem_mDelete h1)

theorem cacheInv_evict (compile : Nat → Option Nat) (size : Nat) (c : Cache) (p g : Nat)
    (hI : CacheInv compile size c) (hm : mLoad p c.m = none) (hn : ¬ c.n < c.l.length)
    (hh' : c.h < c.l.length) (hg : compile p = some g) :
    CacheInv compile size { m := mStore p g (mDelete c.l[c.h] c.m), l := c.l.set c.h p,
                            h := (c.h + 1) % c.n, n := c.n } := by
  obtain ⟨hl, hns, hh0, hh, hperm, hnd, hcomp⟩ := hI
  have hneq : c.n = c.l.length := by omega
  have hp : p ∉ keys c.m := (mLoad_none_iff p c.m).mp hm
  have hpos : 0 < c.n := by omega
  have htake : c.l.take c.n = c.l := List.take_of_length_le (by omega)
  rw [htake] at hperm
  have hndl : c.l.Nodup := hperm.nodup hnd
  have hkd : (keys (mDelete c.l[c.h] c.m)).Perm (c.l.take c.h ++ c.l.drop (c.h + 1)) := by
    rw [keys_mDelete]
    have := hperm.filter (fun k => k != c.l[c.h])
    have hs := split_at c.l c.h hh'
    have hf : c.l.filter (fun k => k != c.l[c.h]) = c.l.take c.h ++ c.l.drop (c.h + 1) := by
      have hnd2 := hndl
      rw [hs] at hnd2
      have := filter_ne_middle _ _ _ hnd2
      rw [← hs] at this
      exact this
    rw [hf] at this
    exact this
  have hp' : p ∉ keys (mDelete c.l[c.h] c.m) := by
    rw [keys_mDelete]
    intro hx
    exact hp (List.mem_filter.mp hx).1
  refine ⟨by simp [hl], hns, ?_, ?_, ?_, ?_, ?_⟩
  · intro hlt
    have : c.n < size := hlt
    omega
  · show (c.h + 1) % c.n < max c.n 1
    have := Nat.mod_lt (c.h + 1) hpos
    omega
  · show (keys (mStore p g (mDelete c.l[c.h] c.m))).Perm ((c.l.set c.h p).take c.n)
    rw [keys_mStore_fresh p g _ hp']
    have e : (c.l.set c.h p).take c.n = c.l.set c.h p := List.take_of_length_le (by simp; omega)
    rw [e, set_split c.l c.h p hh']
    exact (List.Perm.cons p hkd).trans List.perm_middle.symm
  · show (keys (mStore p g (mDelete c.l[c.h] c.m))).Nodup
    rw [keys_mStore_fresh p g _ hp', List.nodup_cons]
    refine ⟨hp', ?_⟩
    rw [keys_mDelete]
    exact hnd.sublist (List.filter_sublist) |> fun h => h
  · intro e he
    show compile e.1 = some e.2
    have he' : e ∈ mStore p g (mDelete c.l[c.h] c.m) := he
    unfold mStore at he'
    rcases List.mem_cons.mp he' with h1 | h1
    · subst h1; exact hg
    · exact hcomp e (mem_mDelete (mem_mDelete h1))

theorem slow_noop (s : State) (l : Local) (hp : l.phase ≠ .compiled) (ha : l.phase ≠ .append)
    (he : l.phase ≠ .evict) : gSlowLocked s l = (s, l) := by
  cases hd : l.dead
  · cases hph : l.phase <;>
      simp_all [gSlowLocked, atomicSeq, slowPath, gRecheck, gTest, gS4, gS5, gS6, gS7, alive]
  · simp [gSlowLocked, atomicSeq, slowPath, gRecheck, gTest, gS4, gS5, gS6, gS7, alive, hd]

/-! ### step classes and the system invariant -/

theorem localInv_init (compile : Nat → Option Nat) (build : Nat → Nat) : LocalInv compile build {} := by
  refine ⟨rfl, by decide, by decide, ?_, ?_, ?_, ?_⟩
  · intro h; cases h
  · intro e he; cases he
  · intro e he; cases he
  · intro e he; cases he

theorem alive_eq (f : St) (s : State) (l : Local) (hd : l.dead = false) : alive f s l = f s l := by
  simp [alive, hd]

theorem rrFetchAdd_eq (N : Nat) (hN : 0 < N) (s : State) (l : Local) (hd : l.dead = false) :
    rrFetchAdd N s l = ({ s with total := s.total + 1 }, { l with picks := l.picks ++ [s.total % N] }) := by
  have : N ≠ 0 := by omega
  simp [rrFetchAdd, alive, hd, this]

theorem cacheInv_new (compile : Nat → Option Nat) (size : Nat) : CacheInv compile size (Cache.new size) := by
  refine ⟨by simp [Cache.new], by simp [Cache.new], fun _ => rfl, by simp [Cache.new], ?_, ?_, ?_⟩
  · simp [Cache.new, keys]
  · simp [Cache.new, keys]
  · intro e he; simp [Cache.new] at he

theorem sys_step_inv (compile : Nat → Option Nat) (build : Nat → Nat) (size : Nat) (hsize : 0 < size)
    (f : St) (hf : SysStep compile build f) (s : State) (l : Local)
    (hI : CacheInv compile size s.cache) (hJ : LocalInv compile build l) :
    CacheInv compile size (f s l).1.cache ∧ LocalInv compile build (f s l).2 := by
  obtain ⟨hd, ha, he, hc, hg, hl, hr⟩ := hJ
  cases hf with
  | setTable v => rw [tblSet, alive_eq _ _ _ hd]; exact ⟨hI, hd, ha, he, hc, hg, hl, hr⟩
  | lookup h =>
    cases h with
    | snap => rw [tblSnap, alive_eq _ _ _ hd]; exact ⟨hI, hd, ha, he, hc, hg, hl, hr⟩
    | pick N hN =>
      rw [rrFetchAdd_eq N hN s l hd]
      exact ⟨hI, hd, ha, he, hc, hg, hl, hr⟩
    | rnd N hN =>
      have hN' : N ≠ 0 := by omega
      rw [rndPick, alive_eq _ _ _ hd]
      simp only [hN', ↓reduceIte]
      refine ⟨hI, hd, ha, he, hc, hg, hl, ?_⟩
      intro e he'
      rcases List.mem_append.mp he' with h1 | h1
      · exact hr e h1
      · simp at h1; subst h1; exact Nat.mod_lt _ hN
    | redirect r =>
      rw [rdPure, alive_eq _ _ _ hd]
      refine ⟨hI, hd, ha, he, hc, hg, ?_, hr⟩
      intro e he'
      rcases List.mem_append.mp he' with h1 | h1
      · exact hl e h1
      · simp at h1; subst h1; rfl
    | load p =>
      rw [gLoad, alive_eq _ _ _ hd]
      cases hm : mLoad p s.cache.m with
      | none =>
        dsimp only
        refine ⟨hI, hd, by simp, by simp, by simp, hg, hl, hr⟩
      | some g =>
        dsimp only
        have hcg : compile p = some g := hI.2.2.2.2.2.2 (p, g) (mLoad_some_mem p g _ hm)
        refine ⟨hI, by simp [finishGet, hd, Res.isPanic], by simp [finishGet], by simp [finishGet],
          by simp [finishGet], ?_, hl, hr⟩
        intro e he'
        simp only [finishGet] at he'
        rcases List.mem_append.mp he' with h1 | h1
        · exact hg e h1
        · simp at h1; subst h1; simp [getSpec, hcg]
    | comp =>
      rw [gCompile, alive_eq _ _ _ hd]
      by_cases hp : l.phase = .missed
      · simp only [hp, ↓reduceIte]
        cases hcm : compile l.cur with
        | none =>
          dsimp only
          refine ⟨hI, by simp [finishGet, hd, Res.isPanic], by simp [finishGet], by simp [finishGet],
            by simp [finishGet], ?_, hl, hr⟩
          intro e he'
          simp only [finishGet] at he'
          rcases List.mem_append.mp he' with h1 | h1
          · exact hg e h1
          · simp at h1; subst h1; simp [getSpec, hcm]
        | some g =>
          dsimp only
          exact ⟨hI, hd, by simp, by simp, fun _ => hcm, hg, hl, hr⟩
      · simp only [hp, ↓reduceIte]
        exact ⟨hI, hd, ha, he, hc, hg, hl, hr⟩
    | slow =>
      by_cases hp : l.phase = .compiled
      · have hcg := hc hp
        have hgets : ∀ (l' : Local), l'.gets = l.gets → l'.cur = l.cur →
            ∀ e ∈ (finishGet l' (.ok l.glb)).gets, e.2 = getSpec compile e.1 := by
          intro l' h1 h2 e he'
          simp only [finishGet, h1, h2] at he'
          rcases List.mem_append.mp he' with h3 | h3
          · exact hg e h3
          · simp at h3; subst h3; simp [getSpec, hcg]
        cases hm : mLoad l.cur s.cache.m with
        | some g =>
          rw [slow_hit s l g hd hp hm]
          have hcg' : compile l.cur = some g := hI.2.2.2.2.2.2 (l.cur, g) (mLoad_some_mem _ g _ hm)
          have : g = l.glb := by rw [hcg] at hcg'; exact (Option.some.inj hcg').symm
          subst this
          exact ⟨hI, by simp [finishGet, hd, Res.isPanic], by simp [finishGet], by simp [finishGet],
            by simp [finishGet], hgets l rfl rfl, hl, hr⟩
        | none =>
          by_cases hn : s.cache.n < s.cache.l.length
          · rw [slow_append s l hd hp hm hn]
            exact ⟨cacheInv_append compile size s.cache l.cur l.glb hI hm hn hcg,
              by simp [finishGet, hd, Res.isPanic], by simp [finishGet], by simp [finishGet],
              by simp [finishGet], hgets _ rfl rfl, hl, hr⟩
          · have hI' := hI
            obtain ⟨hl1, hns, _, hh, _⟩ := hI
            have hh' : s.cache.h < s.cache.l.length := by omega
            have hn0 : s.cache.n ≠ 0 := by omega
            rw [slow_evict s l hd hp hm hn hh' hn0]
            exact ⟨cacheInv_evict compile size s.cache l.cur l.glb hI' hm hn hh' hcg,
              by simp [finishGet, hd, Res.isPanic], by simp [finishGet], by simp [finishGet],
              by simp [finishGet], hgets _ rfl rfl, hl, hr⟩
      · rw [slow_noop s l hp ha he]
        exact ⟨hI, hd, ha, he, hc, hg, hl, hr⟩

/-! ### frame: which shared fields a step can touch -/

theorem frame_atomicSeq (fs : List St) (h : ∀ f ∈ fs, FrameStep f) : FrameStep (atomicSeq fs) := by
  unfold atomicSeq
  induction fs with
  | nil => intro s l; simp
  | cons f fs ih =>
    intro s l
    simp only [List.foldl_cons]
    have h1 := h f List.mem_cons_self s l
    have h2 := ih (fun g hg => h g (List.mem_cons_of_mem _ hg)) (f s l).1 (f s l).2
    obtain ⟨a1, a2, a3, a4⟩ := h1
    obtain ⟨b1, b2, b3, b4⟩ := h2
    exact ⟨b1.trans a1, b2.trans a2, b3.trans a3, b4.trans a4⟩

theorem frame_tblSnap : FrameStep tblSnap := by
  intro s l; cases hd : l.dead <;> simp [tblSnap, alive, hd]

theorem frame_rndPick (N : Nat) : FrameStep (rndPick N) := by
  intro s l
  by_cases hN : N = 0
  · cases hd : l.dead <;> simp [rndPick, alive, hd, hN, Local.die]
  · cases hd : l.dead <;> simp [rndPick, alive, hd, hN]

theorem frame_rdPure (build : Nat → Nat) (r : Nat) : FrameStep (rdPure build r) := by
  intro s l; cases hd : l.dead <;> simp [rdPure, alive, hd]

theorem frame_gLoad (p : Nat) : FrameStep (gLoad p) := by
  intro s l; cases hd : l.dead <;> simp [gLoad, alive, hd]
  split <;> simp [finishGet]

theorem frame_gCompile (compile : Nat → Option Nat) : FrameStep (gCompile compile) := by
  intro s l; cases hd : l.dead <;> simp [gCompile, alive, hd]
  split
  · split <;> simp [finishGet]
  · simp

theorem frame_gRecheck : FrameStep gRecheck := by
  intro s l; cases hd : l.dead <;> simp [gRecheck, alive, hd]
  split
  · split <;> simp [finishGet]
  · simp

theorem frame_gTest : FrameStep gTest := by
  intro s l; cases hd : l.dead <;> simp [gTest, alive, hd]
  split <;> simp

theorem frame_gS4 : FrameStep gS4 := by
  intro s l; cases hd : l.dead <;> simp [gS4, alive, hd]
  split
  · simp
  · split <;> simp [finishGet]
  · simp

theorem frame_gS5 : FrameStep gS5 := by
  intro s l; cases hd : l.dead <;> simp [gS5, alive, hd]
  split
  · split <;> simp [finishGet]
  · simp
  · simp

theorem frame_gS6 : FrameStep gS6 := by
  intro s l; cases hd : l.dead <;> simp [gS6, alive, hd]
  split
  · simp [finishGet]
  · split <;> simp [finishGet]
  · simp

theorem frame_gS7 : FrameStep gS7 := by
  intro s l; cases hd : l.dead <;> simp [gS7, alive, hd]
  split
  · split <;> simp [finishGet]
  · simp

theorem frame_gSlowLocked : FrameStep gSlowLocked := by
  apply frame_atomicSeq
  intro f hf
  simp [slowPath] at hf
  rcases hf with h | h | h | h | h | h <;> subst h
  · exact frame_gRecheck
  · exact frame_gTest
  · exact frame_gS4
  · exact frame_gS5
  · exact frame_gS6
  · exact frame_gS7

theorem lookupStep_frame (compile : Nat → Option Nat) (build : Nat → Nat) (f : St)
    (h : LookupStep compile build f) : FrameStep f ∨ ∃ N, 0 < N ∧ f = rrFetchAdd N := by
  cases h with
  | snap => exact .inl frame_tblSnap
  | load p => exact .inl (frame_gLoad p)
  | comp => exact .inl (frame_gCompile compile)
  | slow => exact .inl frame_gSlowLocked
  | pick N hN => exact .inr ⟨N, hN, rfl⟩
  | rnd N _ => exact .inl (frame_rndPick N)
  | redirect r => exact .inl (frame_rdPure build r)

/-! ### round-robin invariant -/

/-- the invariant carried along a schedule of atomic fetch-add picks -/
def RRInv (N c K : Nat) (s : State) (ts : List Th) : Prop :=
  (∀ t ∈ ts, (∀ f ∈ t.steps, f = rrFetchAdd N) ∧ t.loc.dead = false) ∧
  c ≤ s.total ∧ s.total + remaining ts = c + K ∧
  (allPicks ts).Perm ((List.range' c (s.total - c)).map (· % N))

theorem rrInv_step (N : Nat) (hN : 0 < N) (c K : Nat) (i : Nat) (ts : List Th) (s : State)
    (h : RRInv N c K s ts) : RRInv N c K (stepAt i ts s).1 (stepAt i ts s).2 := by
  rcases stepAt_cases i ts s with e | ⟨t, f, rest, hget, hst, e⟩
  · rw [e]; exact h
  · rw [e]
    obtain ⟨hT, hc, hsum, hperm⟩ := h
    have htm : t ∈ ts := List.mem_of_getElem? hget
    have hf : f = rrFetchAdd N := (hT t htm).1 f (by rw [hst]; exact List.mem_cons_self)
    have hd : t.loc.dead = false := (hT t htm).2
    subst hf
    rw [rrFetchAdd_eq N hN s t.loc hd]
    dsimp only
    refine ⟨?_, ?_, ?_, ?_⟩
    · intro t' ht'
      rcases List.mem_or_eq_of_mem_set ht' with h1 | h1
      · exact hT t' h1
      · subst h1
        refine ⟨?_, hd⟩
        intro g hg
        exact (hT t htm).1 g (by rw [hst]; exact List.mem_cons_of_mem _ hg)
    · show c ≤ s.total + 1
      omega
    · show s.total + 1 + remaining _ = c + K
      have := sum_map_set (fun t : Th => t.steps.length) ts i t
        { steps := rest, loc := { t.loc with picks := t.loc.picks ++ [s.total % N] } } hget (by simp [hst])
      dsimp only at this
      unfold remaining at hsum ⊢
      omega
    · show (allPicks _).Perm ((List.range' c (s.total + 1 - c)).map (· % N))
      have e1 : s.total + 1 - c = (s.total - c) + 1 := by omega
      rw [e1, List.range'_concat, List.map_append]
      have e2 : c + 1 * (s.total - c) = s.total := by omega
      simp only [List.map_cons, List.map_nil, e2]
      have p := flatMap_set_perm (fun t : Th => t.loc.picks) ts i t
        { steps := rest, loc := { t.loc with picks := t.loc.picks ++ [s.total % N] } } (s.total % N) hget rfl
      exact p.trans ((List.Perm.cons _ hperm).trans (List.perm_append_singleton _ _).symm)

theorem rrInv_init (N : Nat) (ks : List Nat) (s : State) :
    RRInv N s.total ks.sum s (ks.map (rrThreadRepaired N)) := by
  refine ⟨?_, Nat.le_refl _, ?_, ?_⟩
  · intro t ht
    simp only [List.mem_map] at ht
    obtain ⟨k, _, rfl⟩ := ht
    refine ⟨?_, rfl⟩
    intro f hf
    simp [rrThreadRepaired, mkThread, pickRepaired] at hf
    exact hf.2
  · congr 1
    unfold remaining
    induction ks with
    | nil => rfl
    | cons k ks ih => simp [rrThreadRepaired, mkThread, pickRepaired] at ih ⊢; omega
  · have : allPicks (ks.map (rrThreadRepaired N)) = [] := by
      unfold allPicks
      induction ks with
      | nil => rfl
      | cons k ks ih => simp [rrThreadRepaired, mkThread] at ih ⊢
    simp [this]

theorem remaining_zero_of_finished (ts : List Th) (h : finished ts = true) : remaining ts = 0 := by
  unfold remaining finished at *
  induction ts with
  | nil => rfl
  | cons t ts ih =>
    simp only [List.all_cons, Bool.and_eq_true, List.isEmpty_iff] at h
    simp [h.1, ih h.2]

theorem ring_weight (ring : List Nat) (t : Nat) :
    labelWeight (fun x => ring[x]?.getD 0) ring.length t = ring.count t := by
  unfold labelWeight
  congr 1
  apply List.ext_getElem
  · simp
  · intro i h1 h2
    simp at h1
    simp [h1]

/-! ### whole-system invariants -/

/-- Cache invariant and every goroutine's local invariant hold after every schedule of repaired lookups
running next to table replacement. -/
theorem sys_inv (compile : Nat → Option Nat) (build : Nat → Nat) (size : Nat) (hsize : 0 < size)
    (sch : List Nat) (ts : List Th) (s : State)
    (hsteps : ∀ t ∈ ts, ∀ f ∈ t.steps, SysStep compile build f)
    (hI : CacheInv compile size s.cache) (hJ : ∀ t ∈ ts, LocalInv compile build t.loc) :
    CacheInv compile size (run sch ts s).1.cache ∧ (∀ t ∈ (run sch ts s).2, LocalInv compile build t.loc) := by
  have := run_inv (fun s : State => CacheInv compile size s.cache) (LocalInv compile build) (SysStep compile build)
    (fun f hf s l hI hJ => sys_step_inv compile build size hsize f hf s l hI hJ) sch ts s hsteps hI hJ
  exact ⟨this.1, this.2.1⟩

theorem lookupRepaired_steps (compile : Nat → Option Nat) (build : Nat → Nat) (q : Req) (hq : q.ring ≠ some 0) :
    ∀ f ∈ lookupRepaired compile build q, LookupStep compile build f := by
  intro f hf
  simp only [lookupRepaired, List.mem_append, List.mem_flatMap, List.mem_cons, List.mem_nil_iff, or_false] at hf
  rcases hf with ((hf | ⟨p, _, hf⟩) | hf) | hf
  · subst hf; exact .snap
  · simp only [getRepaired, List.mem_cons, List.mem_nil_iff, or_false] at hf
    rcases hf with h | h | h <;> subst h
    · exact .load p
    · exact .comp
    · exact .slow
  · cases hr : q.ring with
    | none => simp [hr] at hf
    | some N =>
      have : 0 < N := by
        cases N with
        | zero => exact absurd hr hq
        | succ n => omega
      by_cases hrn : q.rnd = true
      · simp only [hr, hrn, ↓reduceIte, List.mem_cons, List.mem_nil_iff, or_false] at hf
        subst hf
        exact .rnd N this
      · simp [hr, hrn, pickRepaired] at hf
        subst hf
        exact .pick N this
  · by_cases hrd : q.redirect = true
    · simp only [hrd, ↓reduceIte, redirectRepaired, List.mem_cons, List.mem_nil_iff, or_false] at hf
      subst hf; exact .redirect q.id
    · simp [hrd] at hf

theorem lookupThread_steps (compile : Nat → Option Nat) (build : Nat → Nat) (qs : List Req)
    (hq : ∀ q ∈ qs, q.ring ≠ some 0) :
    ∀ f ∈ (lookupThread compile build qs).steps, LookupStep compile build f := by
  intro f hf
  simp only [lookupThread, mkThread, List.mem_flatMap] at hf
  obtain ⟨q, hqm, hf⟩ := hf
  exact lookupRepaired_steps compile build q (hq q hqm) f hf

theorem swapThread_steps (compile : Nat → Option Nat) (build : Nat → Nat) (vs : List Nat) :
    ∀ f ∈ (swapThread vs).steps, SysStep compile build f := by
  intro f hf
  simp only [swapThread, mkThread, List.mem_map] at hf
  obtain ⟨v, _, rfl⟩ := hf
  exact .setTable v

/-- the frame invariant: cursor advance = number of ring indices handed out; nothing else moves -/
def FrameInv (compile : Nat → Option Nat) (build : Nat → Nat) (s0 : State) (p0 : Nat) (s : State) (ts : List Th) : Prop :=
  (∀ t ∈ ts, ∀ f ∈ t.steps, LookupStep compile build f) ∧
  s.redirect = s0.redirect ∧ s.table = s0.table ∧ s.total + p0 = s0.total + (allPicks ts).length ∧
  p0 ≤ (allPicks ts).length

theorem frameInv_step (compile : Nat → Option Nat) (build : Nat → Nat) (s0 : State) (p0 : Nat)
    (i : Nat) (ts : List Th) (s : State) (h : FrameInv compile build s0 p0 s ts) :
    FrameInv compile build s0 p0 (stepAt i ts s).1 (stepAt i ts s).2 := by
  rcases stepAt_cases i ts s with e | ⟨t, f, rest, hget, hst, e⟩
  · rw [e]; exact h
  · rw [e]
    obtain ⟨hS, hr, htb, htot, hmono⟩ := h
    have htm : t ∈ ts := List.mem_of_getElem? hget
    have hf : LookupStep compile build f := hS t htm f (by rw [hst]; exact List.mem_cons_self)
    have hS' : ∀ t' ∈ ts.set i { steps := rest, loc := (f s t.loc).2 }, ∀ g ∈ t'.steps, LookupStep compile build g := by
      intro t' ht'
      rcases List.mem_or_eq_of_mem_set ht' with h1 | h1
      · exact hS t' h1
      · subst h1
        intro g hg
        exact hS t htm g (by rw [hst]; exact List.mem_cons_of_mem _ hg)
    have hsame : ∀ l' : Local, l'.picks = t.loc.picks →
        allPicks (ts.set i { steps := rest, loc := l' }) = allPicks ts := by
      intro l' hl'
      exact flatMap_set_same (fun t : Th => t.loc.picks) ts i t _ hget hl'
    rcases lookupStep_frame compile build f hf with hfr | ⟨N, hN, rfl⟩
    · obtain ⟨a1, a2, a3, a4⟩ := hfr s t.loc
      refine ⟨hS', a2.trans hr, a3.trans htb, ?_⟩
      dsimp only
      rw [a1, hsame _ a4]; exact ⟨htot, hmono⟩
    · cases hd : t.loc.dead with
      | true =>
        have e2 : rrFetchAdd N s t.loc = (s, t.loc) := by simp [rrFetchAdd, alive, hd]
        rw [e2] at hS' ⊢
        refine ⟨hS', hr, htb, ?_⟩
        dsimp only
        rw [hsame _ rfl]; exact ⟨htot, hmono⟩
      | false =>
        have e2 := rrFetchAdd_eq N hN s t.loc hd
        rw [e2] at hS' ⊢
        refine ⟨hS', hr, htb, ?_⟩
        dsimp only
        have p := flatMap_set_perm (fun t : Th => t.loc.picks) ts i t
          { steps := rest, loc := { t.loc with picks := t.loc.picks ++ [s.total % N] } } (s.total % N) hget rfl
        have := p.length_eq
        simp only [List.length_cons] at this
        unfold allPicks
        rw [this]
        unfold allPicks at htot hmono
        omega

end Fabio.Lemmas.C06
